"""Exact translation of quantifier-free bit-vector queries to non-linear INTEGER arithmetic (z3 NIA).

Why: bit-blasting decides  (y+1)*w == y*w + w  or "row-major offset is injective" neither at 64 nor at 16 bits within any
reasonable budget, while they are trivial polynomial facts for an arithmetic solver.  This module is used by
irsym.Exec._check as a fallback between the fast incremental attempt and the plain bit-vector fallback, and only for queries
that contain a symbolic*symbolic multiplication, a division by a symbolic divisor, or a division/remainder of a word of
32 bits or more by a constant that is not a power of two.

Soundness: every bit-vector term t of width n is translated to an integer term e together with a python interval
[lo, hi] that contains e under every assignment of the inputs, with the invariant   value(t) == e  (mod 2^n).
Ring operations (add, sub, mul, neg, not, shl by a constant, truncation) keep this "raw" form; every other operator first
normalises its arguments to the canonical representative in [0, 2^n): if the interval already lies inside one window
[k*2^n, (k+1)*2^n) this is the exact subtraction e - k*2^n, otherwise fresh integers q, r with  e == q*2^n + r, 0 <= r < 2^n
are introduced (a definitional side constraint: satisfiable, with a unique r, for every value of e).  All side constraints
are definitional, so the translated query is equisatisfiable with the original one.  Unsupported operators raise
Unsupported and the caller falls back to the bit-vector solver.  A 'sat' answer is never trusted directly: the integer model
of the inputs is pinned in a bit-vector solver over the ORIGINAL formulas, which must confirm it and provides the model.
An 'unsat' answer relies on the exactness of the translation (self-test: `python3-vt engine/bv2int.py` cross-checks the
translation against z3's own bit-vector evaluation on random terms with every supported operator).
"""
import sys
import time
import z3


class Unsupported(Exception):
    pass


def _is_num(e):
    return z3.is_bv_value(e)


def _odd_divisor(c):
    """constant divisor that is not a power of two (bit-blasted constant division of a wide symbolic dividend is slow)"""
    v = c.as_long()
    return v != 0 and e_width(c) >= 32 and (v & (v - 1)) != 0 and ((-v) % (1 << c.size())) & (((-v) % (1 << c.size())) - 1) != 0


def e_width(c): return c.size()


def wants(assumptions):
    """cheap syntactic test: is there a product of two non-constant factors, or a division by a non-constant?"""
    seen = set(); todo = list(assumptions)
    while todo:
        e = todo.pop()
        i = e.get_id()
        if i in seen: continue
        seen.add(i)
        if not z3.is_app(e): continue
        k = e.decl().kind()
        if k == z3.Z3_OP_BMUL:
            if sum(0 if _is_num(c) else 1 for c in e.children()) >= 2: return True
        elif k in (z3.Z3_OP_BUDIV, z3.Z3_OP_BUREM, z3.Z3_OP_BUDIV_I, z3.Z3_OP_BUREM_I, z3.Z3_OP_BUMUL_NO_OVFL):
            if not _is_num(e.arg(1)): return True
            if k != z3.Z3_OP_BUMUL_NO_OVFL and _odd_divisor(e.arg(1)): return True
        elif k in (z3.Z3_OP_BSDIV, z3.Z3_OP_BSREM, z3.Z3_OP_BSDIV_I, z3.Z3_OP_BSREM_I):
            if _is_num(e.arg(1)) and _odd_divisor(e.arg(1)): return True
        todo.extend(e.children())
    return False


class Translator:
    def __init__(s):
        s.side = []; s.bvc = {}; s.boolc = {}; s.normc = {}; s.vars = {}; s.nfresh = 0; s.ufs = {}

    def fresh(s, p):
        s.nfresh += 1
        return z3.Int('%s!%d' % (p, s.nfresh))

    # ---- canonical representative in [0, 2^n)
    def norm(s, t):
        e, lo, hi, n = t
        M = 1 << n
        if lo >= 0 and hi < M: return t
        klo, khi = lo // M, hi // M
        if klo == khi:
            return (e - klo * M, lo - klo * M, hi - klo * M, n)
        key = (e.get_id(), n)
        r = s.normc.get(key)
        if r is None:
            q = s.fresh('q'); rr = s.fresh('r')
            s.side += [e == q * M + rr, rr >= 0, rr < M, q >= klo, q <= khi]
            r = (rr, 0, M - 1, n, e); s.normc[key] = r      # (e is kept alive: z3 reuses the ids of dead terms)
        return r[:4]

    def signed(s, t):
        """signed value of a normalised term as (expr, lo, hi)"""
        e, lo, hi, n = s.norm(t)
        H = 1 << (n - 1)
        if hi < H: return (e, lo, hi)
        if lo >= H: return (e - 2 * H, lo - 2 * H, hi - 2 * H)
        return (z3.If(e >= H, e - 2 * H, e), -H, H - 1)

    def split(s, t, k):
        """normalised t = q * 2^k + r: returns (q-term, r-term) as (expr, lo, hi)"""
        e, lo, hi, n = s.norm(t)
        K = 1 << k
        if hi < K: return ((z3.IntVal(0), 0, 0), (e, lo, hi))
        if lo == hi: return ((z3.IntVal(lo >> k), lo >> k, lo >> k), (z3.IntVal(lo & (K - 1)), lo & (K - 1), lo & (K - 1)))
        q = s.fresh('d'); r = s.fresh('m')
        s.side += [e == q * K + r, r >= 0, r < K, q >= (lo >> k), q <= (hi >> k)]
        return ((q, lo >> k, hi >> k), (r, 0, K - 1))

    # ---- bit-vector terms
    def bv(s, e):
        i = e.get_id()
        r = s.bvc.get(i)
        if r is None:
            r = s._bv(e); s.bvc[i] = r
        return r

    def _bv(s, e):
        n = e.size()
        M = 1 << n
        if z3.is_bv_value(e):
            c = e.as_long(); return (z3.IntVal(c), c, c, n)
        if not z3.is_app(e): raise Unsupported('non-app')
        d = e.decl(); k = d.kind(); ch = e.children()
        if k == z3.Z3_OP_UNINTERPRETED:
            if not ch:
                name = d.name()
                v = z3.Int('i!' + name)
                if name not in s.vars:
                    s.vars[name] = (e, v); s.side += [v >= 0, v < M]
                return (v, 0, M - 1, n)
            args = []
            for c in ch:
                if not z3.is_bv(c): raise Unsupported('uf argument sort')
                args.append(s.norm(s.bv(c))[0])
            key = (d.name(), tuple(c.size() for c in ch), n)
            f = s.ufs.get(key)
            if f is None:
                f = z3.Function('i!' + d.name() + '!%d' % len(s.ufs), *([z3.IntSort()] * (len(ch) + 1))); s.ufs[key] = f
            a = f(*args)
            s.side += [a >= 0, a < M]
            return (a, 0, M - 1, n)
        if k == z3.Z3_OP_BADD:
            ts = [s.bv(c) for c in ch]
            return (z3.Sum([t[0] for t in ts]) if len(ts) > 1 else ts[0][0], sum(t[1] for t in ts), sum(t[2] for t in ts), n)
        if k == z3.Z3_OP_BSUB:
            ts = [s.bv(c) for c in ch]
            ex, lo, hi = ts[0][0], ts[0][1], ts[0][2]
            for t in ts[1:]: ex = ex - t[0]; lo -= t[2]; hi -= t[1]
            return (ex, lo, hi, n)
        if k == z3.Z3_OP_BNEG:
            t = s.bv(ch[0]); return (-t[0], -t[2], -t[1], n)
        if k == z3.Z3_OP_BNOT:
            t = s.bv(ch[0]); return (-t[0] - 1, -t[2] - 1, -t[1] - 1, n)
        if k == z3.Z3_OP_BMUL:
            ex = None; lo = hi = 1
            for c in ch:
                if z3.is_bv_value(c):
                    v = c.as_long()
                    if v >= M // 2: v -= M          # x + 0xff..f*y is x - y: the smaller magnitude keeps the intervals tight
                    t = (z3.IntVal(v), v, v, n)
                else:
                    t = s.bv(c)
                ps = (lo * t[1], lo * t[2], hi * t[1], hi * t[2])
                lo, hi = min(ps), max(ps)
                ex = t[0] if ex is None else ex * t[0]
            return (ex, lo, hi, n)
        if k == z3.Z3_OP_ITE:
            c = s.bool(ch[0]); a = s.bv(ch[1]); b = s.bv(ch[2])
            return (z3.If(c, a[0], b[0]), min(a[1], b[1]), max(a[2], b[2]), n)
        if k == z3.Z3_OP_ZERO_EXT:
            a = s.norm(s.bv(ch[0])); return (a[0], a[1], a[2], n)
        if k == z3.Z3_OP_SIGN_EXT:
            ex, lo, hi = s.signed(s.bv(ch[0])); return (ex, lo, hi, n)
        if k == z3.Z3_OP_EXTRACT:
            hb, lb = e.params()
            a = s.bv(ch[0])
            if lb == 0: return (a[0], a[1], a[2], n)
            q, _ = s.split(a, lb)
            return (q[0], q[1], q[2], n)
        if k == z3.Z3_OP_CONCAT:
            ex = None; lo = hi = 0
            for c in ch:
                t = s.norm(s.bv(c)); w = 1 << c.size()
                ex = t[0] if ex is None else ex * w + t[0]
                lo = lo * w + t[1]; hi = hi * w + t[2]
            return (ex, lo, hi, n)
        if k == z3.Z3_OP_BSHL and z3.is_bv_value(ch[1]):
            c = ch[1].as_long()
            if c >= n: return (z3.IntVal(0), 0, 0, n)
            a = s.bv(ch[0]); return (a[0] * (1 << c), a[1] << c, a[2] << c, n)
        if k == z3.Z3_OP_BLSHR and z3.is_bv_value(ch[1]):
            c = ch[1].as_long()
            if c >= n: return (z3.IntVal(0), 0, 0, n)
            q, _ = s.split(s.bv(ch[0]), c)
            return (q[0], q[1], q[2], n)
        if k == z3.Z3_OP_BASHR and z3.is_bv_value(ch[1]):
            c = min(ch[1].as_long(), n - 1)          # shifting by >= n-1 leaves only copies of the sign bit
            sx, lo, hi = s.signed(s.bv(ch[0]))
            if c == 0: return (sx, lo, hi, n)
            K = 1 << c
            key = ('ashr', sx.get_id(), c)
            qm = s.normc.get(key)
            if qm is None:
                q = s.fresh('aq'); m = s.fresh('am')
                s.side += [sx == q * K + m, m >= 0, m < K, q >= (lo >> c), q <= (hi >> c)]      # floor division
                qm = (q, sx); s.normc[key] = qm
            return (qm[0], lo >> c, hi >> c, n)
        if k == z3.Z3_OP_BAND and len(ch) == 2 and (z3.is_bv_value(ch[0]) or z3.is_bv_value(ch[1])):
            m, x = (ch[0], ch[1]) if z3.is_bv_value(ch[0]) else (ch[1], ch[0])
            mv = m.as_long()
            if mv & (mv + 1) == 0:        # 2^j - 1: truncation to j bits
                j = mv.bit_length()
                if j == 0: return (z3.IntVal(0), 0, 0, n)
                a = s.bv(x); t = s.norm((a[0], a[1], a[2], j)); return (t[0], t[1], t[2], n)
            raise Unsupported('bvand mask')
        if n == 1 and k in (z3.Z3_OP_BAND, z3.Z3_OP_BOR, z3.Z3_OP_BXOR):
            bs = [s.norm(s.bv(c))[0] == 1 for c in ch]
            c = z3.And(*bs) if k == z3.Z3_OP_BAND else z3.Or(*bs) if k == z3.Z3_OP_BOR else None
            if c is None:
                c = bs[0]
                for b in bs[1:]: c = z3.Xor(c, b)
            return (z3.If(c, z3.IntVal(1), z3.IntVal(0)), 0, 1, 1)
        if k in (z3.Z3_OP_BUDIV, z3.Z3_OP_BUREM, z3.Z3_OP_BUDIV_I, z3.Z3_OP_BUREM_I):
            a = s.norm(s.bv(ch[0])); b = s.norm(s.bv(ch[1]))
            isdiv = k in (z3.Z3_OP_BUDIV, z3.Z3_OP_BUDIV_I)
            key = ('udivrem', a[0].get_id(), b[0].get_id(), n)
            qr = s.normc.get(key)
            if qr is None:
                q = s.fresh('uq'); r = s.fresh('ur')
                s.side += [q >= 0, q <= M - 1, r >= 0, r <= M - 1,
                           z3.Implies(b[0] > 0, z3.And(a[0] == q * b[0] + r, r < b[0], q <= a[0])),
                           z3.Implies(b[0] == 0, z3.And(q == M - 1, r == a[0]))]     # SMT-LIB: x udiv 0 = ~0, x urem 0 = x
                qr = (q, r, a[0], b[0]); s.normc[key] = qr
            return (qr[0], 0, M - 1, n) if isdiv else (qr[1], 0, max(a[2], 0), n)
        if k in (z3.Z3_OP_BSDIV, z3.Z3_OP_BSREM, z3.Z3_OP_BSDIV_I, z3.Z3_OP_BSREM_I) and z3.is_bv_value(ch[1]) and ch[1].as_long() != 0:
            c = ch[1].as_long()
            if c >= M // 2: c -= M
            ax, alo, ahi = s.signed(s.bv(ch[0]))
            key = ('sdivrem', ax.get_id(), c, n)
            qr = s.normc.get(key)
            if qr is None:
                q = s.fresh('sq'); r = s.fresh('sr'); ac = abs(c)
                # truncating division: a = q*c + r, |r| < |c|, r has the sign of a (or is 0)
                s.side += [ax == q * c + r, r > -ac, r < ac, z3.Implies(ax >= 0, r >= 0), z3.Implies(ax <= 0, r <= 0)]
                qr = (q, r, ax); s.normc[key] = qr
            H = M // 2
            if k in (z3.Z3_OP_BSDIV, z3.Z3_OP_BSDIV_I): return (qr[0], -H, H, n)
            return (qr[1], -(abs(c) - 1), abs(c) - 1, n)
        raise Unsupported('bv operator %s' % d.name())

    # ---- formulas
    def bool(s, e):
        i = e.get_id()
        r = s.boolc.get(i)
        if r is None:
            r = s._bool(e); s.boolc[i] = r
        return r

    def _bool(s, e):
        if z3.is_true(e): return z3.BoolVal(True)
        if z3.is_false(e): return z3.BoolVal(False)
        if not z3.is_app(e): raise Unsupported('non-app formula')
        d = e.decl(); k = d.kind(); ch = e.children()
        if k == z3.Z3_OP_UNINTERPRETED and not ch: return z3.Bool('b!' + d.name())
        if k == z3.Z3_OP_AND: return z3.And(*[s.bool(c) for c in ch])
        if k == z3.Z3_OP_OR: return z3.Or(*[s.bool(c) for c in ch])
        if k == z3.Z3_OP_NOT: return z3.Not(s.bool(ch[0]))
        if k == z3.Z3_OP_IMPLIES: return z3.Implies(s.bool(ch[0]), s.bool(ch[1]))
        if k == z3.Z3_OP_XOR: return z3.Xor(s.bool(ch[0]), s.bool(ch[1]))
        if k == z3.Z3_OP_ITE: return z3.If(s.bool(ch[0]), s.bool(ch[1]), s.bool(ch[2]))
        if k in (z3.Z3_OP_EQ, z3.Z3_OP_DISTINCT):
            if z3.is_bool(ch[0]):
                if k == z3.Z3_OP_EQ: return s.bool(ch[0]) == s.bool(ch[1])
                if len(ch) == 2: return z3.Xor(s.bool(ch[0]), s.bool(ch[1]))
                raise Unsupported('distinct on booleans')
            if not z3.is_bv(ch[0]): raise Unsupported('equality sort')
            ts = [s.norm(s.bv(c))[0] for c in ch]
            if k == z3.Z3_OP_EQ: return ts[0] == ts[1]
            return z3.Distinct(*ts)
        if k in (z3.Z3_OP_ULEQ, z3.Z3_OP_ULT, z3.Z3_OP_UGEQ, z3.Z3_OP_UGT):
            a = s.norm(s.bv(ch[0]))[0]; b = s.norm(s.bv(ch[1]))[0]
            return {z3.Z3_OP_ULEQ: a <= b, z3.Z3_OP_ULT: a < b, z3.Z3_OP_UGEQ: a >= b, z3.Z3_OP_UGT: a > b}[k]
        if k in (z3.Z3_OP_SLEQ, z3.Z3_OP_SLT, z3.Z3_OP_SGEQ, z3.Z3_OP_SGT):
            a = s.signed(s.bv(ch[0]))[0]; b = s.signed(s.bv(ch[1]))[0]
            return {z3.Z3_OP_SLEQ: a <= b, z3.Z3_OP_SLT: a < b, z3.Z3_OP_SGEQ: a >= b, z3.Z3_OP_SGT: a > b}[k]
        if k == z3.Z3_OP_BUMUL_NO_OVFL:
            a = s.norm(s.bv(ch[0])); b = s.norm(s.bv(ch[1]))
            return a[0] * b[0] < (1 << ch[0].size())
        if k in (z3.Z3_OP_BSMUL_NO_OVFL, z3.Z3_OP_BSMUL_NO_UDFL):
            a = s.signed(s.bv(ch[0]))[0]; b = s.signed(s.bv(ch[1]))[0]; H = 1 << (ch[0].size() - 1)
            return a * b < H if k == z3.Z3_OP_BSMUL_NO_OVFL else a * b >= -H
        raise Unsupported('formula operator %s' % d.name())


STATS = {'tried': 0, 'unsat': 0, 'sat': 0, 'unknown': 0, 'unsupported': 0, 'time': 0.0}


def try_solve(assumptions, timeout_ms):
    """returns ('unsat', None) | ('sat', bit-vector model of the original formulas) | None (no answer: caller falls back)"""
    if not wants(assumptions): return None
    t0 = time.time(); STATS['tried'] += 1
    old = sys.getrecursionlimit()
    try:
        sys.setrecursionlimit(max(old, 100000))
        tr = Translator()
        try:
            fs = [tr.bool(a) for a in assumptions]
        except Unsupported:
            STATS['unsupported'] += 1; return None
        # z3's nonlinear integer procedure is erratic on these goals (the same query: 3 s or no answer in 90 s, run to run):
        # a small portfolio of random seeds with growing timeouts inside the budget instead of one long attempt
        r = z3.unknown; sv = None; budget = float(timeout_ms)
        for seed, share in ((0, 0.12), (7, 0.18), (23, 0.3), (101, 0.4)):
            sv = z3.Solver(); sv.set('timeout', max(1000, int(budget * share))); sv.set('random_seed', seed)
            sv.add(*fs); sv.add(*tr.side)
            r = sv.check()
            if r != z3.unknown: break
        if r == z3.unsat:
            STATS['unsat'] += 1; return ('unsat', None)
        if r == z3.sat:
            m = sv.model(); pins = []
            for name, (bvv, iv) in tr.vars.items():
                val = m.eval(iv, model_completion=True)
                if not z3.is_int_value(val): return None
                pins.append(bvv == z3.BitVecVal(val.as_long(), bvv.size()))
            bs = z3.Solver(); bs.set('timeout', int(timeout_ms)); bs.add(*assumptions); bs.add(*pins)
            if bs.check() == z3.sat:
                STATS['sat'] += 1; return ('sat', bs.model())
            STATS['unknown'] += 1; return None
        STATS['unknown'] += 1; return None
    finally:
        sys.setrecursionlimit(old); STATS['time'] += time.time() - t0


# ---------------------------------------------------------------------------------------------------------------------
def _selftest(rounds=400, seed=1):
    """differential test: random terms over every supported operator; the translation, with the inputs pinned to random
    values, must have exactly one value and it must equal z3's bit-vector evaluation."""
    import random
    rnd = random.Random(seed)
    widths = (1, 3, 4, 8, 16)
    vars_ = {w: [z3.BitVec('v%d_%d' % (w, i), w) for i in range(3)] for w in widths}
    f = z3.Function('f', z3.BitVecSort(8), z3.BitVecSort(8))

    def term(w, depth):
        if depth == 0 or rnd.random() < 0.15:
            return rnd.choice(vars_[w]) if rnd.random() < 0.7 else z3.BitVecVal(rnd.randrange(1 << w), w)
        op = rnd.choice(['add', 'sub', 'mul', 'neg', 'not', 'ite', 'zext', 'sext', 'extract', 'concat', 'shl', 'lshr', 'ashr', 'and', 'udiv', 'urem', 'sdiv', 'srem', 'uf', 'mulc', 'bit'])
        a = term(w, depth - 1); b = term(w, depth - 1)
        if op == 'add': return a + b
        if op == 'sub': return a - b
        if op == 'mul': return a * b
        if op == 'mulc': return a * z3.BitVecVal(rnd.randrange(1 << w), w)
        if op == 'neg': return -a
        if op == 'not': return ~a
        if op == 'ite': return z3.If(form(depth - 1), a, b)
        if op in ('zext', 'sext'):
            ws = [x for x in widths if x < w]
            if not ws: return a
            w0 = rnd.choice(ws); x = term(w0, depth - 1)
            return z3.ZeroExt(w - w0, x) if op == 'zext' else z3.SignExt(w - w0, x)
        if op == 'extract':
            ws = [x for x in widths if x > w]
            if not ws: return a
            w0 = rnd.choice(ws); lo = rnd.randrange(w0 - w + 1)
            return z3.Extract(lo + w - 1, lo, term(w0, depth - 1))
        if op == 'concat':
            for w0 in widths:
                if w - w0 in widths: return z3.Concat(term(w0, depth - 1), term(w - w0, depth - 1))
            return a
        if op == 'shl': return a << z3.BitVecVal(rnd.randrange(w + 1), w) if w > 1 else a
        if op == 'lshr': return z3.LShR(a, z3.BitVecVal(rnd.randrange(w + 1), w)) if w > 1 else a
        if op == 'ashr': return (a >> z3.BitVecVal(rnd.randrange(w + 2), w)) if w > 1 else a
        if op == 'and': return a & z3.BitVecVal((1 << rnd.randrange(w + 1)) - 1, w)
        if op == 'bit': return (a & b) if w == 1 and rnd.random() < .4 else (a | b) if w == 1 and rnd.random() < .5 else (a ^ b) if w == 1 else a
        if op == 'udiv': return z3.UDiv(a, b)
        if op == 'urem': return z3.URem(a, b)
        if op in ('sdiv', 'srem'):
            c = rnd.randrange(1, 1 << w) if w > 1 else 1
            return (a / z3.BitVecVal(c, w)) if op == 'sdiv' else z3.SRem(a, z3.BitVecVal(c, w))
        if op == 'uf': return f(a) if w == 8 else a
        return a

    def form(depth):
        w = rnd.choice(widths); a = term(w, depth); b = term(w, depth)
        op = rnd.choice(['eq', 'ne', 'ult', 'ule', 'ugt', 'uge', 'slt', 'sle', 'sgt', 'sge', 'umulno', 'smulno', 'smulnu', 'and', 'or', 'not'])
        if op == 'eq': return a == b
        if op == 'ne': return a != b
        if op == 'ult': return z3.ULT(a, b)
        if op == 'ule': return z3.ULE(a, b)
        if op == 'ugt': return z3.UGT(a, b)
        if op == 'uge': return z3.UGE(a, b)
        if op == 'slt': return a < b
        if op == 'sle': return a <= b
        if op == 'sgt': return a > b
        if op == 'sge': return a >= b
        if op == 'umulno': return z3.BVMulNoOverflow(a, b, False)
        if op == 'smulno': return z3.BVMulNoOverflow(a, b, True)
        if op == 'smulnu': return z3.BVMulNoUnderflow(a, b)
        if depth == 0: return a == b
        if op == 'and': return z3.And(form(depth - 1), form(depth - 1))
        if op == 'or': return z3.Or(form(depth - 1), form(depth - 1))
        return z3.Not(form(depth - 1))

    ftab = [rnd.randrange(256) for _ in range(256)]
    checked = 0
    for it in range(rounds):
        w = rnd.choice(widths)
        t = term(w, 4)
        for use_simplified in (False, True):
            tt = z3.simplify(t) if use_simplified else t
            if not z3.is_app(tt): continue
            vals = {}
            for ww in widths:
                for v in vars_[ww]: vals[v.decl().name()] = rnd.randrange(1 << ww)
            # reference: z3's own evaluation with f given by a table
            subst = [(v, z3.BitVecVal(vals[v.decl().name()], v.size())) for ww in widths for v in vars_[ww]]
            bsv = z3.Solver(); res = z3.BitVec('res', w)
            bsv.add(res == t); bsv.add(*[v == c for v, c in subst]); bsv.add(*[f(z3.BitVecVal(i, 8)) == z3.BitVecVal(ftab[i], 8) for i in range(256)])
            assert bsv.check() == z3.sat
            expect = bsv.model().eval(res, model_completion=True).as_long()
            tr = Translator()
            try:
                ti = tr.norm(tr.bv(tt))
            except Unsupported as u:
                continue
            fi = [g for (kk, g) in tr.ufs.items()]
            sv = z3.Solver(); out = z3.Int('out')
            sv.add(out == ti[0]); sv.add(*tr.side)
            for name, (bvv, iv) in tr.vars.items(): sv.add(iv == vals[name])
            for g in fi: sv.add(*[g(z3.IntVal(i)) == ftab[i] for i in range(256)])
            r = sv.check()
            assert r == z3.sat, ('translation infeasible', t, r)
            got = sv.model().eval(out, model_completion=True).as_long()
            assert got == expect, ('value differs', t, vals, got, expect)
            assert ti[1] <= got <= ti[2], ('interval wrong', t, ti[1], ti[2], got)
            sv.add(out != got)
            assert sv.check() == z3.unsat, ('translation not functional', t)
            checked += 1
    print('bv2int selftest: %d random terms cross-checked, all equal' % checked)


if __name__ == '__main__':
    _selftest(int(sys.argv[1]) if len(sys.argv) > 1 else 400)
