#!/usr/bin/env python3-vt
"""check driver: regenerate IR from /repo's working tree, decide every harness of a property with Engine B,
validate the encoding against the native build, replay counterexamples, write evidence.

exit 0: property held on everything explored (known findings are printed as KNOWN-FINDING lines)
exit 1: a violation was found and reproduced natively  (VIOLATION property=<id> replay=<path>)
exit 2: the check itself is broken / inconclusive (never reported as a verdict about the code)"""
import sys, os, re, json, time, subprocess, hashlib, itertools, shutil, signal, random
from concurrent.futures import ThreadPoolExecutor
import multiprocessing as mp

HERE = os.path.dirname(os.path.abspath(__file__))
VERIF = os.path.dirname(HERE)
sys.path.insert(0, HERE)
REPO = os.environ.get('VERIF_REPO', '/repo')
OUT = os.path.join(VERIF, 'out')
KERNELS = os.path.join(VERIF, 'kernels')

INCLUDES = ['libs/core/include', 'libs/core/impl/include', 'libs/parse/include', 'libs/options/include', 'libs/options/impl/include', 'libs/log/include',
            'libs/log/impl/include', 'libs/filesystem/include', 'libs/filesystem/impl/include', 'libs/boost/include', 'libs/catch/include']
UBSAN = '-fsanitize=signed-integer-overflow,shift,integer-divide-by-zero,bounds,null,unreachable,bool,enum,builtin,return'
CLANG_BASE = ['clang++-14', '-std=c++20', '-O1', '-fno-vectorize', '-fno-slp-vectorize', '-fno-unroll-loops', '-fno-finite-loops', '-D_GLIBCXX_ASSERTIONS',
              '-DFCPPT_VERIF', '-fno-threadsafe-statics', '-S', '-emit-llvm', '-Wno-everything']
GXX_BASE = ['g++', '-std=c++20', '-O1', '-g1', '-fsanitize=address,undefined', '-fno-sanitize-recover=all', '-D_GLIBCXX_ASSERTIONS', '-DFCPPT_VERIF', '-DVERIF_NATIVE', '-w']


def gen_include_dir():
    d = os.path.join(REPO, '_build', 'include')
    if os.path.isdir(os.path.join(d, 'fcppt')): return d
    return os.path.join(VERIF, 'gen_include')


def include_flags():
    fl = ['-I' + KERNELS, '-I' + REPO]
    for i in INCLUDES: fl.append('-I' + os.path.join(REPO, i))
    fl.append('-I' + gen_include_dir())
    return fl


def build_defines(tu_tags):
    """DEFINES of the real build for library sources #included by a kernel (scraped from build.ninja when present)"""
    d = ['-DFCPPT_OPTIONS_DETAIL_SYMBOL_EXPORTS', '-DFCPPT_DETAIL_SYMBOL_EXPORTS', '-DFCPPT_LOG_DETAIL_SYMBOL_EXPORTS', '-DFCPPT_FILESYSTEM_DETAIL_SYMBOL_EXPORTS']
    return d


# ---------------------------------------------------------------- kernel metadata
class Harness:
    def __init__(s, tu, name, tier, opts, params):
        s.tu = tu; s.name = name; s.tier = tier; s.opts = opts; s.params = params

    @property
    def key(s):
        return s.name + (''.join('[%s=%d]' % kv for kv in sorted(s.params.items())) if s.params else '')


def parse_kernel(path):
    txt = open(path).read(); hs = []; tags = {'flags': [], 'nflags': [], 'models': [], 'noubsan': False, 'exttempl': True, 'unity': [], 'stubs': [], 'imports': []}
    for l in txt.split('\n'):
        m = re.match(r'\s*//@(\w+)\s*(.*)$', l)
        if not m: continue
        k, rest = m.group(1), m.group(2).strip()
        if k == 'flags': tags['flags'] += rest.split()
        elif k == 'native_flags': tags['nflags'] += rest.split()  # extra flags for the native replay build only
        elif k == 'models': tags['models'] += rest.split()
        elif k == 'unity': tags['unity'] += rest.split()
        elif k == 'stub': tags['stubs'].append(rest.split())
        elif k == 'probe': tags['stubs'].append([rest.split()[0], '+' + rest.split()[1]])  # '+': call TARGET() on entry, then the real function
        elif k == 'noubsan': tags['noubsan'] = True
        elif k == 'keep_extern_templates': tags['exttempl'] = False
        elif k == 'property': tags['property'] = rest
        elif k == 'import':
            # //@import FILE [only=REGEX]: the quick/thorough harnesses of another property's kernel are also decided for this one
            tk = rest.split(); tags['imports'].append((tk[0], dict(x.split('=', 1) for x in tk[1:])))
        elif k == 'harness':
            toks = rest.split(); name = toks[0]; i = 1; loops = []; opts = {'tier': 'quick'}; prm = []; cond = None
            while i < len(toks):
                t = toks[i]
                if t == 'for': loops.append((toks[i + 1], toks[i + 3].split(','))); i += 4
                elif t == 'param': pn, rng = toks[i + 1].split('='); prm.append((pn, rng)); i += 2
                elif t == 'if': cond = toks[i + 1]; i += 2
                elif '=' in t: kk, vv = t.split('=', 1); opts[kk] = vv; i += 1
                else: raise SystemExit('bad //@harness line in %s: %s' % (path, l))
            for combo in itertools.product(*[vals for _, vals in loops]) if loops else [()]:
                nm = name
                for (var, _), val in zip(loops, combo): nm = nm.replace('{%s}' % var, val)
                pranges = []
                for pn, rng in prm:
                    if '..' in rng: lo, hi = rng.split('..'); pranges.append([(pn, v) for v in range(int(lo), int(hi) + 1)])
                    else: pranges.append([(pn, int(v)) for v in rng.split(',')])
                for pc in itertools.product(*pranges) if pranges else [()]:
                    params = dict(pc)
                    env = dict(params); env.update({var: val for (var, _), val in zip(loops, combo)})
                    if cond and not eval(cond, {}, env): continue
                    hs.append(Harness(path, nm, opts['tier'], opts, params))
    return tags, hs


# ---------------------------------------------------------------- building
def run_cmd(cmd, timeout=900):
    t = time.time()
    p = subprocess.run(cmd, stdout=subprocess.PIPE, stderr=subprocess.STDOUT, timeout=timeout)
    return p.returncode, p.stdout.decode('utf8', 'replace'), time.time() - t


def build_tu(path, tags, names, bdir):
    base = os.path.splitext(os.path.basename(path))[0]
    ll = os.path.join(bdir, base + '.ll'); binp = os.path.join(bdir, base + '.bin'); mainp = os.path.join(bdir, base + '_main.cpp')
    flags = include_flags() + ['-I' + bdir] + build_defines(tags) + tags['flags']
    for lib in tags['unity']:
        srcs = []
        for sub in ('src', os.path.join('impl', 'src')):
            for root, _, files in os.walk(os.path.join(REPO, 'libs', lib, sub)):
                srcs += [os.path.join(root, f) for f in files if f.endswith('.cpp')]
        with open(os.path.join(bdir, 'unity_%s.hpp' % lib), 'w') as f:
            f.write('// generated: every source file of libs/%s in the working tree\n' % lib)
            for x in sorted(srcs): f.write('#include "%s"\n' % x)
    cl = CLANG_BASE + ([] if tags['noubsan'] else [UBSAN, '-fsanitize-trap=all']) + (['-D_GLIBCXX_EXTERN_TEMPLATE=0'] if tags['exttempl'] else []) + flags + [path, '-o', ll]
    with open(mainp, 'w') as f:
        f.write('struct verif_entry { char const *name; void (*fn)(void); };\nextern "C" {\n')
        for n in names: f.write('void %s(void);\n' % n)
        f.write('}\nextern verif_entry const verif_harnesses[];\nverif_entry const verif_harnesses[] = {\n')
        for n in names: f.write('  {"%s", &%s},\n' % (n, n))
        f.write('  {nullptr, nullptr}};\n')
    gx = GXX_BASE + flags + tags['nflags'] + [path, mainp, os.path.join(VERIF, 'replay', 'vrt.cpp'), '-o', binp, '-lpthread']
    return (cl, ll), (gx, binp)


def build_models(names, bdir):
    out = []
    for n in names:
        src = os.path.join(HERE, 'rt', n + '.cpp'); ll = os.path.join(bdir, 'model_' + n + '.ll')
        cmd = ['clang++-14', '-std=c++20', '-O1', '-fno-vectorize', '-fno-slp-vectorize', '-fno-unroll-loops', '-S', '-emit-llvm', '-Wno-everything', src, '-o', ll]
        out.append((cmd, ll))
    return out


# ---------------------------------------------------------------- engine workers
_MODCACHE = {}


def worker(job):
    import irsym, irfront
    (lls, name, params, opts, known, stubs) = job
    try:
        mods = []
        for p in lls:
            m = _MODCACHE.get(p)
            if m is None: m = _MODCACHE[p] = irfront.Module(open(p).read())
            mods.append(m)
    except irfront.IRError as e:
        return {'harness': name, 'params': params, 'status': 'inconclusive', 'reason': 'IR front end: %s' % e, 'violations': [], 'samples': [], 'reached': {}}
    lim = irsym.Limits(loop=int(opts.get('loop', 64)), wall=float(opts.get('wall', 900)), paths=int(opts.get('paths', 20000)), query_ms=int(opts.get('query_ms', 60000)),
                       fork_width=int(opts.get('fork', 64)), depth=int(opts.get('depth', 200)))
    lim.som = opts.get('som') == '1'
    if 'fast_ms' in opts: lim.fast_ms = int(opts['fast_ms'])
    t0 = time.time()
    ex = irsym.Exec(mods, lim, params, None, [t for t in opts.get('throws', '').split(',') if t], opts.get('leak') == '1')
    ex.known = known
    ex.redirects = [(re.compile(a), b) for a, b in stubs if not b.startswith('+')]
    ex.probes = [(re.compile(a), b[1:]) for a, b in stubs if b.startswith('+')]
    r = {'harness': name, 'params': params}
    try:
        if name not in ex.fn_of: raise irsym.Inconclusive('harness %s not found in IR' % name)
        ex.run(name)
        r['status'] = 'violation' if ex.violations else 'ok'
    except irsym.Inconclusive as e: r['status'] = 'inconclusive'; r['reason'] = str(e)
    except irfront.IRError as e: r['status'] = 'inconclusive'; r['reason'] = 'IR: ' + str(e)
    except RecursionError: r['status'] = 'inconclusive'; r['reason'] = 'python recursion limit'
    except Exception as e:
        import traceback
        r['status'] = 'inconclusive'; r['reason'] = 'engine exception: ' + traceback.format_exc()[-1500:]
    r.update(ex.summary()); r['externals'] = dict(ex.ext_calls); r['total_s'] = round(time.time() - t0, 3)
    return r


# ---------------------------------------------------------------- native replay
def write_replay(path, harness, params, inputs, uf):
    with open(path, 'w') as f:
        f.write('harness %s\n' % harness)
        for k, v in sorted((params or {}).items()): f.write('param %s %d\n' % (k, v))
        for k, v in (inputs or {}).items(): f.write('in %s %d\n' % (k, v))
        for key, tab in (uf or {}).items():
            f.write('uf %s %d\n' % (key, tab.get('else') or 0))
            for args, val in tab.get('entries', []): f.write('ufe %s %d %s %d\n' % (key, len(args), ' '.join(str(a) for a in args), val))


def run_native(binp, harness, replay, timeout=10, retries=0):
    # retries: a sample replay that is expected to finish is re-run with a longer timeout before a timeout is believed
    # (ASan/LSan start-up can stall for seconds on an oversubscribed machine)
    for attempt in range(retries):
        r = run_native(binp, harness, replay, timeout * (1 + 2 * attempt))
        if r['end'] != 'timeout': return r
    if retries: timeout = timeout * (1 + 2 * retries)
    env = dict(os.environ); env['ASAN_OPTIONS'] = 'detect_leaks=1:abort_on_error=0:exitcode=42:allocator_may_return_null=1'; env['UBSAN_OPTIONS'] = 'print_stacktrace=0:halt_on_error=1:exitcode=43'
    try:
        p = subprocess.run([binp, harness, replay], stdout=subprocess.PIPE, stderr=subprocess.PIPE, timeout=timeout, env=env)
    except subprocess.TimeoutExpired as e:
        return {'end': 'timeout', 'out': [], 'reach': [], 'stderr': '', 'rc': None}
    so = p.stdout.decode('utf8', 'replace'); se = p.stderr.decode('utf8', 'replace')
    outs = []; reach = []; end = None
    for l in so.split('\n'):
        if l.startswith('OUT '): _, t, v = l.split(' ', 2); outs.append([t, int(v)])
        elif l.startswith('REACH '): reach.append(l[6:])
        elif l.startswith('ASSERT-FAIL '): end = 'assert:' + l[12:]
        elif l == 'ASSUME-FALSE': end = 'assume-false'
        elif l == 'DONE': end = 'done'
    if end is None or p.returncode not in (0, 10, 11):
        if 'AddressSanitizer' in se or 'LeakSanitizer' in se: end = 'asan'
        elif 'runtime error' in se: end = 'ubsan'
        elif 'terminate called' in se:
            m = re.search(r"instance of '([^']+)'", se); end = 'terminate:' + (m.group(1) if m else '?')
        elif 'Assertion' in se and 'failed' in se: end = 'libassert'
        elif p.returncode < 0: end = 'signal:%d' % -p.returncode
        elif end is None: end = 'rc:%d' % p.returncode
    return {'end': end, 'out': outs, 'reach': reach, 'stderr': se[-1500:], 'rc': p.returncode}


_VG = {}
_VGLOCK = __import__('threading').Lock()


def valgrind_replay(h, rp):
    """True if memcheck reports a use of uninitialised memory (or an invalid access) for this replay"""
    info = _VG.get('build')
    if info is None: return False
    with _VGLOCK:
        binp = _VG.get(h.tu)
        if binp is None:
            cmd, binp = info(h.tu)
            rc, out, dt = run_cmd(cmd)
            _VG[h.tu] = binp if rc == 0 else ''
            binp = _VG[h.tu]
    if not binp: return False
    try:
        p = subprocess.run(['valgrind', '-q', '--error-exitcode=97', '--track-origins=no', binp, h.name, rp], stdout=subprocess.PIPE, stderr=subprocess.PIPE, timeout=120)
    except Exception: return False
    se = p.stderr.decode('utf8', 'replace')
    return p.returncode == 97 or 'uninitialised' in se or 'Invalid read' in se or 'Invalid write' in se


def native_confirms(v, nat):
    k = v['kind']; e = nat['end']
    # the native build may trip over a neighbouring assertion of the same harness first (e.g. where the engine observes a
    # value through a stub and the native build reads it back from real output): any natively failing assertion on the
    # solver's input demonstrates the violation; the native id is printed next to the engine's
    if k == 'assert': return e.startswith('assert:')
    if k == 'ub':
        if e in ('asan', 'ubsan', 'libassert', 'valgrind') or e.startswith('signal:'): return True
        # an uninitialised value reaching verif_assert(ID): natively the garbage makes that very assertion fail
        m = re.match(r'uninitialised value in verif_assert\((.*)\)$', v['id'])
        return bool(m) and e == 'assert:' + m.group(1)
    if k == 'loop': return e == 'timeout' or e in ('asan',) or e.startswith('signal:')
    if k == 'throw': return e.startswith('terminate:')
    if k == 'abort': return e.startswith('signal:') or e.startswith('terminate:') or e.startswith('rc:')
    if k == 'leak': return e == 'asan'
    return False


# ---------------------------------------------------------------- known findings
def load_known(prop):
    p = os.path.join(VERIF, 'known_findings.json')
    if not os.path.exists(p): return []
    d = json.load(open(p))
    return [f for f in d.get('findings', []) if f.get('property') == prop and f.get('status') == 'open']


def match_known(known, hname, v):
    for f in known:
        if not re.fullmatch(f['harness'], hname): continue
        if f.get('kind', v['kind']) != v['kind']: continue
        if 'id' in f and not re.search(f['id'], v['id']): continue
        w = f.get('when')
        if w:
            try:
                if not eval(w, {'I': v['inputs'] or {}}, dict((k.replace('#', '_'), val) for k, val in (v['inputs'] or {}).items())): continue
            except Exception: continue
        return f
    return None


# ---------------------------------------------------------------- main
def main():
    import argparse
    ap = argparse.ArgumentParser()
    ap.add_argument('prop'); ap.add_argument('--tier', default=os.environ.get('VERIF_TIER', 'quick')); ap.add_argument('--replay', default=None)
    ap.add_argument('--only', default=None, help='regex on harness names'); ap.add_argument('--jobs', type=int, default=int(os.environ.get('VERIF_JOBS', min(16, os.cpu_count() or 4))))
    ap.add_argument('--keep', action='store_true'); ap.add_argument('-v', action='store_true')
    a = ap.parse_args()
    prop = a.prop; tier = a.tier; seed = int(os.environ.get('VERIF_SEED', '0') or 0); t0 = time.time()
    kfiles = sorted(f for f in os.listdir(KERNELS) if f.startswith(prop + '_') and f.endswith('.cpp'))
    if not kfiles: print('no kernels for', prop); sys.exit(2)
    imports = []
    for kf in kfiles:
        for imp, io in parse_kernel(os.path.join(KERNELS, kf))[0].get('imports', []): imports.append((imp, io))
    bdir = os.path.join(OUT, 'build', prop); os.makedirs(bdir, exist_ok=True)
    rdir = os.path.join(OUT, 'replay'); os.makedirs(rdir, exist_ok=True)
    if a.replay: return do_replay(prop, a.replay, kfiles, bdir, imports)
    tus = []; allh = []
    for kf in kfiles:
        tags, hs = parse_kernel(os.path.join(KERNELS, kf))
        hs = [h for h in hs if (h.tier == 'quick' or tier == 'thorough') and (not a.only or re.search(a.only, h.key))]
        if hs: tus.append((os.path.join(KERNELS, kf), tags, hs)); allh += hs
    for imp, io in imports:
        tags, hs = parse_kernel(os.path.join(KERNELS, imp))
        hs = [h for h in hs if (h.tier == 'quick' or (tier == 'thorough' and io.get('thorough') == '1')) and (not io.get('only') or re.search(io['only'], h.key)) and (not a.only or re.search(a.only, h.key))]
        if hs: tus.append((os.path.join(KERNELS, imp), tags, hs)); allh += hs
    if not allh: print('no harnesses selected'); sys.exit(2)
    # ---- 1. regenerate from the working tree
    cmds = []; tuinfo = {}; tutags = {p: t for p, t, _ in tus}
    for path, tags, hs in tus:
        names = sorted(set(h.name for h in hs))
        (cl, ll), (gx, binp) = build_tu(path, tags, names, bdir)
        mods = build_models(tags['models'], bdir)
        tuinfo[path] = {'ll': ll, 'bin': binp, 'models': [m[1] for m in mods]}
        cmds.append(('ir', path, cl)); cmds.append(('native', path, gx))
        for c, l in mods: cmds.append(('model', l, c))
    broken = []; failed_tus = set()
    with ThreadPoolExecutor(max_workers=a.jobs) as tp:
        futs = [(k, p, tp.submit(run_cmd, c)) for k, p, c in cmds]
        build_s = {}
        for k, p, f in futs:
            rc, out, dt = f.result(); build_s[(k, os.path.basename(p))] = round(dt, 2)
            if rc != 0: broken.append('%s build of %s failed:\n%s' % (k, p, out[-3000:])); failed_tus.add(p)
    if failed_tus:
        # a translation unit that does not build (or a model, which every unit needs) makes the check broken (exit 2) -
        # unless the units that do build yield a natively confirmed VIOLATION, which is reported (exit 1) all the same
        if any(p not in tuinfo for p in failed_tus): allh = []
        allh = [h for h in allh if h.tu not in failed_tus]
        if not allh:
            for b in broken: print('BROKEN:', b)
            write_evidence(prop, tier, seed, t0, [], {}, broken, [], 0, {})
            sys.exit(2)
    def vg_build(tu):
        tags = tutags[tu]; names = sorted(set(h.name for h in allh if h.tu == tu))
        (cl, ll), (gx, binp) = build_tu(tu, tags, names, bdir)
        vb = binp.replace('.bin', '.vg.bin')
        cmd = [x for x in gx if not x.startswith('-fsanitize') and not x.startswith('-fno-sanitize') and x != '-O1'] + ['-O0']
        cmd[cmd.index(binp)] = vb
        return cmd, vb
    _VG['build'] = vg_build
    # ---- 2. decide
    known = load_known(prop)
    jobs = [([tuinfo[h.tu]['ll']] + tuinfo[h.tu]['models'], h.name, h.params, h.opts, [k for k in known if re.fullmatch(k['harness'], h.name)], tutags[h.tu]['stubs']) for h in allh]
    order = sorted(range(len(jobs)), key=lambda i: -float(allh[i].opts.get('cost', 1)))
    with mp.Pool(a.jobs, maxtasksperchild=50) as pool:
        res_list = pool.map(worker, [jobs[i] for i in order], chunksize=1)
    results = [None] * len(jobs)
    for i, r in zip(order, res_list): results[i] = r
    # ---- 3. validate against native, replay counterexamples
    violations = []; knownhits = []; unconfirmed = []; validated = 0; nsamples = 0
    rnd = random.Random(seed)

    def validate(i):
        h = allh[i]; r = results[i]; binp = tuinfo[h.tu]['bin']; out = {'disagree': [], 'validated': 0, 'viol': []}
        smp = list(r.get('samples', []))
        rnd2 = random.Random(seed * 7919 + i); rnd2.shuffle(smp)
        for k, sm in enumerate(smp[:int(h.opts.get('validate', 4))]):
            rp = os.path.join(rdir, '%s-%s-sample%d.replay' % (prop, h.key, k)); write_replay(rp, h.name, h.params, sm['inputs'], sm.get('uf'))
            nat = run_native(binp, h.name, rp, timeout=max(30, int(h.opts.get('hang_s', 10))), retries=1)  # terminating path: generous, the machine may be loaded
            exp_end = 'done' if sm['end'] == 'done' else sm['end']
            ok = (nat['end'] == 'done' and sm['end'] == 'done' and nat['out'] == [[t, v] for t, v in sm['out']] and nat['reach'] == sm['reach']) or \
                 (sm['end'].startswith('throw:') and nat['end'].startswith('terminate:'))
            if ok: out['validated'] += 1; os.remove(rp)
            else: out['disagree'].append({'harness': h.key, 'replay': rp, 'engine': {'end': sm['end'], 'out': sm['out'], 'reach': sm['reach']}, 'native': nat})
        for k, v in enumerate(r.get('violations', [])):
            rp = os.path.join(rdir, '%s-%s-cex%d.replay' % (prop, h.key, k)); write_replay(rp, h.name, h.params, v['inputs'], v.get('uf'))
            nat = run_native(binp, h.name, rp, timeout=int(h.opts.get('hang_s', 10)))
            conf = native_confirms(v, nat)
            if not conf and v['kind'] == 'ub' and 'uninitialised' in v['id']:
                # no sanitizer in the replay build sees reads of uninitialised memory: ask valgrind (plain -O0 build, made on demand)
                vg = valgrind_replay(h, rp)
                if vg: nat = dict(nat); nat['end'] = 'valgrind'; conf = True
            out['viol'].append((v, rp, nat, conf))
        return out
    with ThreadPoolExecutor(max_workers=a.jobs) as tp:
        vals = list(tp.map(validate, range(len(allh))))
    disagreements = []
    for i, vo in enumerate(vals):
        h = allh[i]; validated += vo['validated']
        for d in vo['disagree']:
            ne = d['native']['end'] or ''
            if ne.startswith('assert:') or ne in ('asan', 'ubsan', 'libassert'):
                # the solver-generated input of a path the engine found clean makes the NATIVE g++ build fail an assertion of the
                # harness (or trip a sanitizer): behaviour that differs between the clang IR and the g++ build, e.g. an unspecified
                # order of evaluation.  The native run is the real code: reported as a violation with this replay.
                ent = {'harness': h.key, 'kind': 'native-' + ('assert' if ne.startswith('assert:') else 'ub'), 'id': ne + ' (native g++ build only; the clang-IR path holds)',
                       'inputs': None, 'params': h.params, 'replay': d['replay'], 'native': ne, 'fn': h.name}
                kf = match_known(known, h.name, {'kind': ent['kind'], 'id': ent['id'], 'inputs': {}})
                if kf and not kf.get('when_z3'): ent['finding'] = kf['what']; knownhits.append(ent)
                else: violations.append(ent)
            else: disagreements.append(d)
        for v, rp, nat, conf in vo['viol']:
            ent = {'harness': h.key, 'kind': v['kind'], 'id': v['id'], 'inputs': v['inputs'], 'params': h.params, 'replay': rp, 'native': nat['end'], 'fn': v['fn']}
            if not conf:
                ent['native_stderr'] = nat['stderr'][-400:]; unconfirmed.append(ent); continue
            kf = match_known(known, h.name, v)
            if v.get('known'): ent['finding'] = v['known']; knownhits.append(ent)
            elif kf and not kf.get('when_z3'): ent['finding'] = kf['what']; knownhits.append(ent)
            else: violations.append(ent)
    # ---- 4. verdict
    for r, h in zip(results, allh):
        if r['status'] == 'inconclusive': broken.append('%s: inconclusive: %s' % (h.key, r.get('reason')))
        elif not r.get('reached') and r['status'] == 'ok': broken.append('%s: vacuous - no feasible path reaches a verif_reach marker (path ends: %s)' % (h.key, r.get('path_ends')))
    for d in disagreements:
        broken.append('%s: encoder disagreement with the native build (replay %s): engine %s / native %s' % (d['harness'], d['replay'], json.dumps(d['engine'])[:300], json.dumps({k: d['native'][k] for k in ('end', 'out', 'reach')})[:300]))
    for u in unconfirmed:
        if u['kind'] == 'ub' and ('uninitialised' in u['id'] or 'out of bounds' in u['id'] or 'dead object' in u['id'] or 'dangling' in u['id']):
            print('UNCONFIRMED-UB: property=%s harness=%s %s (native run: %s) replay=%s' % (prop, u['harness'], u['id'], u['native'], u['replay']))
        else:
            broken.append('%s: counterexample for "%s" (%s) did not reproduce natively (native: %s) replay=%s inputs=%s' % (u['harness'], u['id'], u['kind'], u['native'], u['replay'], json.dumps(u['inputs'])[:300]))
    seen = set()
    for k in knownhits:
        key = (k['finding'])
        if key in seen: continue
        seen.add(key); print('KNOWN-FINDING: property=%s %s [harness %s, %s]' % (prop, k['finding'], k['harness'], k['id']))
    for v in violations:
        print('VIOLATION property=%s replay=%s' % (prop, v['replay']))
        print('  harness=%s kind=%s what="%s" inputs=%s params=%s native=%s' % (v['harness'], v['kind'], v['id'], json.dumps(v['inputs']), json.dumps(v['params']), v['native']))
    write_evidence(prop, tier, seed, t0, list(zip(allh, results)), build_s, broken, violations, validated, {'known': knownhits, 'unconfirmed': unconfirmed, 'tus': tuinfo})
    tot_paths = sum(r.get('paths', 0) for r in results); tot_q = sum(r.get('queries', 0) for r in results)
    print('%s tier=%s: %d harness instances, %d paths, %d solver queries (%.1fs solver), %d native replays agreed, %d violations, %d known, %d broken, wall %.1fs' % (
        prop, tier, len(allh), tot_paths, tot_q, sum(r.get('solver_s', 0) for r in results), validated, len(violations), len(knownhits), len(broken), time.time() - t0))
    if a.v:
        for r, h in zip(results, allh): print('  %-40s %-12s paths=%-5d q=%-6d %.1fs %s' % (h.key, r['status'], r.get('paths', 0), r.get('queries', 0), r.get('total_s', 0), r.get('reason', '')[:200]))
    if not a.keep:
        for path, info in tuinfo.items():
            for f in [info['bin']]:
                try: os.remove(f)
                except OSError: pass
    if violations: sys.exit(1)
    if broken:
        for b in broken[:40]: print('BROKEN:', b[:1500])
        sys.exit(2)
    sys.exit(0)


def do_replay(prop, rpath, kfiles, bdir, imports=()):
    hname = None
    for l in open(rpath):
        if l.startswith('harness '): hname = l.split()[1]
    for kf in kfiles + [i for i, _ in imports]:
        tags, hs = parse_kernel(os.path.join(KERNELS, kf))
        names = sorted(set(h.name for h in hs))
        if hname in names:
            (cl, ll), (gx, binp) = build_tu(os.path.join(KERNELS, kf), tags, names, bdir)
            rc, out, dt = run_cmd(gx)
            if rc: print(out); sys.exit(2)
            nat = run_native(binp, hname, rpath)
            print('native replay of %s: %s' % (hname, nat['end'])); print(nat['stderr'][-800:])
            for l in open(rpath): print('  ' + l.rstrip())
            sys.exit(0 if nat['end'] == 'done' else 1)
    print('harness %s not found' % hname); sys.exit(2)


def write_evidence(prop, tier, seed, t0, hr, build_s, broken, violations, validated, extra):
    os.makedirs(os.path.join(VERIF, 'evidence'), exist_ok=True)
    hs = []; fns = {}; exts = {}; samples = []
    tot = {'paths': 0, 'queries': 0, 'instr': 0, 'solver_s': 0.0, 'asserts': 0}
    for h, r in hr:
        tot['paths'] += r.get('paths', 0); tot['queries'] += r.get('queries', 0); tot['instr'] += r.get('instructions', 0); tot['solver_s'] += r.get('solver_s', 0)
        for k, v in r.get('functions', {}).items(): fns[k] = v
        for k, v in r.get('externals', {}).items(): exts[k] = exts.get(k, 0) + v
        hs.append({'harness': h.key, 'tu': os.path.basename(h.tu), 'status': r['status'], 'paths': r.get('paths', 0), 'path_ends': r.get('path_ends', {}), 'ir_instructions_executed': r.get('instructions', 0),
                   'solver_queries': r.get('queries', 0), 'solver_s': r.get('solver_s', 0), 'max_query_s': r.get('max_query_s', 0), 'reached': r.get('reached', {}),
                   'bounds': {'loop_unwind': int(h.opts.get('loop', 64)), 'params': h.params, 'fork_width': int(h.opts.get('fork', 64))}, 'violations': len(r.get('violations', [])), 'wall_s': r.get('total_s', 0),
                   'reason': r.get('reason')})
        for sm in r.get('samples', [])[:1]:
            if len(samples) < 25: samples.append({'harness': h.key, 'path_end': sm['end'], 'inputs': sm['inputs'], 'observations': sm['out'], 'asserts_on_path': sm.get('asserts'), 'verdict': 'all assertions UNSAT-to-violate on this path'})
    for v in violations[:10]: samples.append({'harness': v['harness'], 'counterexample': v['inputs'], 'what': v['id'], 'native': v['native']})
    for v in (extra.get('known') or [])[:10]: samples.append({'harness': v['harness'], 'known_finding': v['finding'], 'counterexample': v['inputs'], 'native': v['native']})
    if not samples: samples.append({'note': 'no path completed', 'broken': broken[:3]})
    ev = {'property_id': prop, 'tier': tier, 'seed': seed, 'level': 'model_checking',
          'coverage': {'states': max(tot['paths'], 1) if hr else 1, 'transitions': max(tot['queries'], 1) if hr else 1, 'traces_validated_against_impl': validated, 'samples': samples,
                       'explanation': 'states = symbolic paths explored to completion by the IR symbolic executor (each path covers all inputs satisfying its path condition); transitions = SMT queries (branch feasibility, assertion and UB obligations) discharged by z3; traces_validated = path models replayed against the native g++ ASan/UBSan build of the same harness with identical observations',
                       'engine': 'Engine B (engine/irsym.py): forking symbolic execution of clang-14 LLVM IR regenerated from the working tree, z3 %s' % z3_version(),
                       'ir_instructions_executed': tot['instr'], 'solver_time_s': round(tot['solver_s'], 2), 'harness_instances': len(hr), 'harnesses': hs,
                       'functions_encoded': dict(sorted(fns.items(), key=lambda kv: -kv[1])[:60]), 'environment_models_called': exts, 'build_s': {'%s:%s' % k: v for k, v in build_s.items()},
                       'known_findings_hit': [{'harness': k['harness'], 'finding': k['finding'], 'inputs': k['inputs']} for k in (extra.get('known') or [])],
                       'unconfirmed': [{'harness': u['harness'], 'id': u['id'], 'native': u['native']} for u in (extra.get('unconfirmed') or [])],
                       'broken': broken[:20]},
          'assumptions': ASSUMPTIONS, 'wall_s': round(time.time() - t0, 2), 'violations': len(violations)}
    with open(os.path.join(VERIF, 'evidence', prop + '.json'), 'w') as f: json.dump(ev, f, indent=1, default=str)


ASSUMPTIONS = ['clang++-14 -O1 IR of the kernel TU is a faithful compilation of /repo working-tree sources (bridged by replaying path models against a g++ -O1 ASan/UBSan build)',
               'allocation never fails; C++ exceptions are unwound through the real landing pads (Itanium ABI model in engine/models.py)', 'environment models listed in coverage.environment_models_called',
               'bounds per harness in coverage.harnesses[].bounds; anything outside is not claimed', 'z3 answers are correct; unknown/timeout is reported as broken, never as success']


def z3_version():
    try:
        import z3
        return z3.get_version_string()
    except Exception: return '?'


if __name__ == '__main__':
    main()
