#!/usr/bin/env python3
"""LLVM-14 textual IR (typed pointers) -> python module object: named types with data layout,
globals with initialisers, aliases, declarations, functions as blocks of decoded instructions.

Only what clang++-14 emits for the kernel TUs is supported; anything else raises IRError, which
the driver reports as "encoder cannot handle this TU" (exit 2), never as a verdict."""
import re, sys


class IRError(Exception):
    pass


class Ty:
    pass


class IntT(Ty):
    __slots__ = ('n',)

    def __init__(s, n): s.n = n
    def size(s): return (1 if s.n <= 8 else 2 if s.n <= 16 else 4 if s.n <= 32 else 8 if s.n <= 64 else 16)
    def align(s): return s.size()
    def store_size(s): return (s.n + 7) // 8
    def __repr__(s): return 'i%d' % s.n


class PtrT(Ty):
    __slots__ = ('to',)

    def __init__(s, to): s.to = to
    def size(s): return 8
    def align(s): return 8
    def store_size(s): return 8
    def __repr__(s): return 'ptr'


class FloatT(Ty):
    __slots__ = ('k',)
    SZ = {'half': 2, 'float': 4, 'double': 8, 'x86_fp80': 16, 'fp128': 16}

    def __init__(s, k): s.k = k
    def size(s): return FloatT.SZ[s.k]
    def align(s): return s.size()
    def store_size(s): return 10 if s.k == 'x86_fp80' else s.size()
    def __repr__(s): return s.k


class ArrT(Ty):
    __slots__ = ('n', 'e')

    def __init__(s, n, e): s.n = n; s.e = e
    def size(s): return s.n * s.e.size()
    def align(s): return s.e.align()
    def store_size(s): return s.size()
    def __repr__(s): return '[%d x %r]' % (s.n, s.e)


class VecT(Ty):
    __slots__ = ('n', 'e')

    def __init__(s, n, e): s.n = n; s.e = e
    def size(s): return s.n * s.e.size()
    def align(s): return s.size()
    def store_size(s): return s.size()
    def __repr__(s): return '<%d x %r>' % (s.n, s.e)


class StructT(Ty):
    __slots__ = ('elems', 'packed', '_l')

    def __init__(s, elems, packed=False): s.elems = elems; s.packed = packed; s._l = None

    def layout(s):
        if s._l is None:
            off = 0; offs = []; al = 1
            for e in s.elems:
                a = 1 if s.packed else e.align()
                off = (off + a - 1) // a * a
                offs.append(off); off += e.size(); al = max(al, a)
            s._l = (offs, (off + al - 1) // al * al, al)
        return s._l

    def size(s): return s.layout()[1]
    def align(s): return s.layout()[2]
    def store_size(s): return s.size()
    def __repr__(s): return '{%s}' % ', '.join(repr(e) for e in s.elems)


class NamedT(Ty):
    __slots__ = ('name', 'mod')

    def __init__(s, name, mod): s.name = name; s.mod = mod

    def r(s):
        try: return s.mod.types[s.name]
        except KeyError: raise IRError('unknown named type %' + s.name)

    def size(s): return s.r().size()
    def align(s): return s.r().align()
    def store_size(s): return s.r().store_size()
    def __repr__(s): return '%' + s.name


class VoidT(Ty):
    def size(s): return 0
    def align(s): return 1
    def __repr__(s): return 'void'


class FnT(Ty):
    __slots__ = ('ret', 'args', 'va')

    def __init__(s, ret, args, va): s.ret = ret; s.args = args; s.va = va
    def size(s): return 8
    def align(s): return 8
    def __repr__(s): return 'fn'


class OpaqueT(Ty):
    def size(s): return 0
    def align(s): return 1
    def store_size(s): return 0
    def __repr__(s): return 'opaque'


class MetaT(Ty):
    def size(s): return 0
    def align(s): return 1


def res(t):
    while isinstance(t, NamedT): t = t.r()
    return t


NAME = r'("[^"]*"|[\w.$-]+)'
_SIMPLE_PATTR = re.compile(r'(noundef|nonnull|nocapture|readonly|writeonly|readnone|noalias|signext|zeroext|inreg|returned|immarg|nofree|nest|swiftself|swifterror|swiftasync|align \d+)\b|dereferenceable(_or_null)?\(\d+\)')
_TYPED_PATTR = ('sret(', 'byval(', 'byref(', 'preallocated(', 'inalloca(', 'elementtype(')
FATTR = re.compile(r'(dso_local|dso_preemptable|internal|linkonce_odr|linkonce|weak_odr|weak|available_externally|private|external|hidden|protected|default|unnamed_addr|local_unnamed_addr|noundef|nonnull|noalias|signext|zeroext|align \d+|fastcc|coldcc|ccc|cc \d+)\b|dereferenceable(_or_null)?\(\d+\)')
GATTR = re.compile(r'(dso_local|dso_preemptable|internal|linkonce_odr|linkonce|weak_odr|weak|available_externally|private|external|hidden|protected|default|unnamed_addr|local_unnamed_addr|thread_local(\([a-z]+\))?|externally_initialized|global|constant|common|appending)\b')
_RX = {}


def _rx(p):
    r = _RX.get(p)
    if r is None: r = _RX[p] = re.compile(p)
    return r


class P:
    def __init__(s, txt, mod): s.t = txt; s.i = 0; s.mod = mod

    def ws(s):
        t = s.t; i = s.i; n = len(t)
        while i < n and t[i] in ' \t': i += 1
        s.i = i

    def peek(s, lit): s.ws(); return s.t.startswith(lit, s.i)

    def eat(s, lit):
        s.ws()
        if s.t.startswith(lit, s.i): s.i += len(lit); return True
        return False

    def eatw(s, word):
        """eat a whole word"""
        s.ws()
        if s.t.startswith(word, s.i):
            j = s.i + len(word)
            if j >= len(s.t) or not (s.t[j].isalnum() or s.t[j] in '_.'): s.i = j; return True
        return False

    def expect(s, lit):
        if not s.eat(lit): raise IRError('expected %r at %r in %r' % (lit, s.t[s.i:s.i + 50], s.t[:120]))

    def rx(s, pat):
        s.ws(); m = (pat if hasattr(pat, 'match') else _rx(pat)).match(s.t, s.i)
        if m: s.i = m.end(); return m
        return None

    def name(s, sigil):
        m = s.rx(sigil + NAME)
        if not m: raise IRError('expected %sname at %r' % (sigil, s.t[s.i:s.i + 50]))
        return m.group(1).strip('"')

    def attrs(s, r):
        while s.rx(r): pass

    def pattrs(s):
        while True:
            if s.rx(_SIMPLE_PATTR): continue
            s.ws(); hit = False
            for k in _TYPED_PATTR:
                if s.t.startswith(k, s.i):
                    s.i += len(k); s.type(); s.expect(')'); hit = True; break
            if not hit: return

    def type(s):
        s.ws()
        if s.eatw('void'): t = VoidT()
        elif s.eatw('opaque'): t = OpaqueT()
        elif s.eatw('metadata'): t = MetaT()
        elif s.eatw('token'): t = MetaT()
        elif s.eatw('label'): t = MetaT()
        elif (m := s.rx(r'i(\d+)\b')): t = IntT(int(m.group(1)))
        elif (m := s.rx(r'(half|float|double|x86_fp80|fp128)\b')): t = FloatT(m.group(1))
        elif (m := s.rx('%' + NAME)): t = NamedT(m.group(1).strip('"'), s.mod)
        elif s.eat('['):
            n = int(s.rx(r'\d+').group(0)); s.expect('x'); e = s.type(); s.expect(']'); t = ArrT(n, e)
        elif s.eat('<{'): t = StructT(s.tlist('}>'), True)
        elif s.eat('{'): t = StructT(s.tlist('}'))
        elif s.eat('<'):
            n = int(s.rx(r'\d+').group(0)); s.expect('x'); e = s.type(); s.expect('>'); t = VecT(n, e)
        else: raise IRError('type? ' + s.t[s.i:s.i + 50])
        while True:
            s.ws()
            if s.eat('*'): t = PtrT(t)
            elif s.peek('('):
                s.expect('('); args = []; va = False
                while not s.eat(')'):
                    if s.eat('...'): va = True
                    else: args.append(s.type())
                    s.eat(',')
                t = FnT(t, args, va)
            else: break
        return t

    def tlist(s, end):
        r = []
        while not s.eat(end): r.append(s.type()); s.eat(',')
        return r

    def value(s, ty):
        s.ws()
        if (m := s.rx('%' + NAME)): return ('loc', m.group(1).strip('"'))
        if (m := s.rx('@' + NAME)): return ('glob', m.group(1).strip('"'))
        if ty is not None and isinstance(res(ty), FloatT):
            m = s.rx(r'(0x[KLMHR]?[0-9A-Fa-f]+|-?\d+(\.\d*)?(e[+-]?\d+)?)')
            if m: return ('float', m.group(0))
        if (m := s.rx(r'-?\d+\b')): return ('int', int(m.group(0)))
        if s.eatw('true'): return ('int', 1)
        if s.eatw('false'): return ('int', 0)
        if s.eatw('null'): return ('null',)
        if s.eatw('undef') or s.eatw('poison'): return ('undef',)
        if s.eatw('zeroinitializer'): return ('zero',)
        if (m := s.rx(r'c"((?:[^"\\]|\\[0-9A-Fa-f]{2}|\\\\)*)"')):
            raw = m.group(1); b = []; i = 0
            while i < len(raw):
                if raw[i] == '\\':
                    if raw[i + 1] == '\\': b.append(92); i += 2
                    else: b.append(int(raw[i + 1:i + 3], 16)); i += 3
                else: b.append(ord(raw[i])); i += 1
            return ('bytes', b)
        if s.eatw('getelementptr'):
            s.eatw('inbounds'); s.expect('('); bt = s.type(); s.expect(',')
            pt = s.type(); base = s.value(pt); idx = []
            while s.eat(','):
                s.eatw('inrange'); it = s.type(); idx.append((it, s.value(it)))
            s.expect(')'); return ('cgep', bt, base, idx)
        if s.eatw('bitcast') or s.eatw('addrspacecast'):
            s.expect('('); ft = s.type(); v = s.value(ft); s.expect('to'); s.type(); s.expect(')'); return v
        if s.eatw('ptrtoint'):
            s.expect('('); ft = s.type(); v = s.value(ft); s.expect('to'); tt = s.type(); s.expect(')'); return ('p2i', v, tt)
        if s.eatw('inttoptr'):
            s.expect('('); ft = s.type(); v = s.value(ft); s.expect('to'); tt = s.type(); s.expect(')'); return ('i2p', v, ft)
        for op in ('add', 'sub', 'mul', 'and', 'or', 'xor', 'shl', 'lshr', 'ashr'):
            if s.eatw(op):
                while s.rx(r'(nsw|nuw|exact)\b'): pass
                s.expect('('); t1 = s.type(); a = s.value(t1); s.expect(','); t2 = s.type(); b = s.value(t2); s.expect(')')
                return ('cbin', op, t1, a, b)
        for op in ('trunc', 'zext', 'sext'):
            if s.eatw(op):
                s.expect('('); ft = s.type(); v = s.value(ft); s.expect('to'); tt = s.type(); s.expect(')'); return ('ccast', op, ft, v, tt)
        if s.eatw('icmp'):
            pred = s.rx(r'\w+').group(0); s.expect('('); t1 = s.type(); a = s.value(t1); s.expect(','); s.type(); b = s.value(t1); s.expect(')')
            return ('cicmp', pred, t1, a, b)
        if s.eatw('select'):
            s.expect('('); ct = s.type(); c = s.value(ct); s.expect(','); t1 = s.type(); a = s.value(t1); s.expect(','); s.type(); b = s.value(t1); s.expect(')')
            return ('cselect', c, t1, a, b)
        if s.peek('{') or s.peek('<{') or s.peek('['):
            if not s.eat('<{'):
                if not s.eat('{'): s.expect('[')
            elems = []
            while not (s.eat('}>') or s.eat('}') or s.eat(']')):
                et = s.type(); elems.append((et, s.value(et))); s.eat(',')
            return ('agg', elems)
        if s.peek('<'):
            raise IRError('vector constant')
        raise IRError('value? ' + s.t[s.i:s.i + 60])

    def label(s): s.expect('label'); return s.name('%')


class Fn:
    __slots__ = ('name', 'ret', 'params', 'blocks', 'order', 'ninstr', 'va')

    def __init__(s, name, ret, params): s.name = name; s.ret = ret; s.params = params; s.blocks = {}; s.order = []; s.ninstr = 0; s.va = False


_META_TAIL = re.compile(r'(, ![\w.]+ ![\w.]+)+\s*$')
_ALIGN_TAIL = re.compile(r', align \d+\s*$')
_BINOPS = ('add', 'sub', 'mul', 'and', 'or', 'xor', 'udiv', 'urem', 'sdiv', 'srem', 'shl', 'lshr', 'ashr')
_FBINOPS = ('fadd', 'fsub', 'fmul', 'fdiv', 'frem')
_CASTS = ('zext', 'sext', 'trunc', 'bitcast', 'ptrtoint', 'inttoptr', 'addrspacecast')
_FCASTS = ('fptosi', 'fptoui', 'sitofp', 'uitofp', 'fpext', 'fptrunc')
_ORDERINGS = r'(unordered|monotonic|acquire|release|acq_rel|seq_cst)\b'


class Module:
    def __init__(s, text):
        s.types = {}; s.globals = {}; s.decls = {}; s.fns = {}; s.aliases = {}
        lines = text.split('\n'); i = 0; n = len(lines)
        while i < n:
            l = lines[i]
            if not l or l[0] == ';' or l[0] == '!' or l.startswith(('source_filename', 'target ', 'attributes ', '$')):
                i += 1; continue
            if l[0] == '%' and (m := re.match(r'^%' + NAME + r' = type (.*)$', l)):
                s.types[m.group(1).strip('"')] = P(m.group(2), s).type()
            elif l[0] == '@' and (m := re.match(r'^@' + NAME + r' = (.*)$', l)):
                nm = m.group(1).strip('"'); rest = m.group(2)
                p = P(rest, s); words = set()
                while (mm := p.rx(GATTR)): words.add(mm.group(1))
                if p.eatw('alias') or p.eatw('ifunc'):
                    p.type(); p.expect(','); tt = p.type(); v = p.value(tt)
                    if v[0] != 'glob': raise IRError('alias to non-global: ' + l)
                    s.aliases[nm] = v[1]
                else:
                    ext = 'external' in words or p.eatw('extern_weak'); const = 'constant' in words
                    if ext and not ('global' in words or 'constant' in words):
                        while (mm := p.rx(GATTR)): words.add(mm.group(1))
                        const = 'constant' in words
                    t = p.type(); p.ws(); init = None
                    if p.i < len(p.t) and not p.t.startswith(',', p.i): init = p.value(t)
                    s.globals[nm] = (t, init, ext, const)
            elif l.startswith('declare '):
                p = P(l[8:], s); p.attrs(FATTR); rt = p.type(); nm = p.name('@'); s.decls[nm] = rt
            elif l.startswith('define '):
                p = P(l[7:], s); p.attrs(FATTR); rt = p.type(); nm = p.name('@'); p.expect('('); params = []; va = False
                while not p.eat(')'):
                    if p.eat('...'): va = True; p.eat(','); continue
                    t = p.type(); p.pattrs(); params.append((t, p.name('%'))); p.eat(',')
                f = Fn(nm, rt, params); f.va = va; s.fns[nm] = f; i += 1; raw = []
                while not lines[i].startswith('}'): raw.append(lines[i]); i += 1
                s.parse_body(f, raw)
            i += 1
        for a, t in list(s.aliases.items()):
            seen = set()
            while t in s.aliases and t not in seen: seen.add(t); t = s.aliases[t]
            s.aliases[a] = t

    def resolve(s, name):
        return s.aliases.get(name, name)

    def parse_body(s, f, raw):
        cur = None; merged = []
        for l in raw:
            ls = l.strip()
            if not ls or ls[0] == ';': continue
            if l[0] not in ' \t' and (m := re.match(r'^' + NAME + r':', l)): merged.append(('L', m.group(1).strip('"'))); continue
            if merged and merged[-1][0] == 'I' and (ls[0] == ']' or re.match(r'^i\d+ -?\d+, label', ls) or re.match(r'^(to label|catch |cleanup|filter )', ls)):
                merged[-1] = ('I', merged[-1][1] + ' ' + ls)
            else: merged.append(('I', ls))
        if merged and merged[0][0] != 'L':
            merged.insert(0, ('L', str(len(f.params))))
        for k, v in merged:
            if k == 'L': cur = []; f.blocks[v] = cur; f.order.append(v)
            else:
                try: ins = s.parse_ins(v)
                except IRError: raise
                except Exception as e: raise IRError('cannot parse instruction %r: %s' % (v, e))
                if ins: cur.append(ins); f.ninstr += 1

    def parse_ins(s, l):
        l = _META_TAIL.sub('', l)
        dst = None; rest = l
        if l[0] == '%' and (m := re.match(r'^%' + NAME + r' = (.*)$', l)): dst = m.group(1).strip('"'); rest = m.group(2)
        if '@llvm.experimental.noalias.scope.decl' in rest or '@llvm.dbg.' in rest: return None
        p = P(rest, s); op = p.rx(r'[\w.]+').group(0)
        if op in ('tail', 'musttail', 'notail'): op = p.rx(r'[\w.]+').group(0)
        if op in _BINOPS:
            flags = []
            while (m := p.rx(r'(nsw|nuw|exact)\b')): flags.append(m.group(1))
            t = p.type(); a = p.value(t); p.expect(','); b = p.value(t); return ('bin', dst, op, tuple(flags), t, a, b)
        if op == 'icmp':
            pred = p.rx(r'\w+').group(0); t = p.type(); a = p.value(t); p.expect(','); b = p.value(t); return ('icmp', dst, pred, t, a, b)
        if op in _CASTS:
            ft = p.type(); v = p.value(ft); p.expect('to'); tt = p.type(); return ('cast', dst, op, ft, v, tt)
        if op == 'select':
            p.attrs(_rx(r'(fast|nnan|ninf|nsz|arcp|contract|afn|reassoc)\b'))
            ct = p.type(); c = p.value(ct); p.expect(','); t = p.type(); a = p.value(t); p.expect(','); p.type(); b = p.value(t); return ('select', dst, c, t, a, b)
        if op == 'phi':
            p.attrs(_rx(r'(fast|nnan|ninf|nsz|arcp|contract|afn|reassoc)\b'))
            t = p.type(); inc = {}
            while p.eat('['):
                v = p.value(t); p.expect(','); pr = p.name('%'); p.expect(']'); p.eat(','); inc[pr] = v
            return ('phi', dst, t, inc)
        if op == 'getelementptr':
            p.eatw('inbounds'); bt = p.type(); p.expect(','); pt = p.type(); base = p.value(pt); idx = []
            while p.eat(','): it = p.type(); idx.append((it, p.value(it)))
            return ('gep', dst, bt, base, idx)
        if op == 'load':
            p.eatw('atomic'); p.eatw('volatile'); t = p.type(); p.expect(','); pt = p.type(); return ('load', dst, t, p.value(pt))
        if op == 'store':
            p.eatw('atomic'); p.eatw('volatile'); t = p.type(); v = p.value(t); p.expect(','); pt = p.type(); return ('store', t, v, p.value(pt))
        if op == 'alloca':
            p.eatw('inalloca'); t = p.type(); cnt = None
            if p.eat(','):
                if not p.peek('align') and not p.peek('addrspace'):
                    ct = p.type(); cnt = (ct, p.value(ct))
            return ('alloca', dst, t, cnt)
        if op == 'br':
            if p.peek('label'): return ('br', p.label())
            ct = p.type(); c = p.value(ct); p.expect(','); a = p.label(); p.expect(','); b = p.label(); return ('condbr', c, a, b)
        if op == 'switch':
            t = p.type(); v = p.value(t); p.expect(','); d = p.label(); p.expect('['); cs = []
            while not p.eat(']'):
                ct = p.type(); cv = p.value(ct); p.expect(','); cs.append((cv[1], p.label()))
            return ('switch', t, v, d, cs)
        if op == 'ret':
            t = p.type()
            return ('ret', t, None if isinstance(res(t), VoidT) else p.value(t))
        if op == 'unreachable': return ('unreachable',)
        if op == 'resume': return ('resume',)
        if op == 'landingpad': return ('landingpad', dst, rest)
        if op == 'fence': return None
        if op == 'freeze':
            t = p.type(); v = p.value(t); return ('freeze', dst, t, v)
        if op == 'extractvalue':
            t = p.type(); v = p.value(t); idx = []
            while p.eat(','): idx.append(int(p.rx(r'\d+').group(0)))
            return ('extractvalue', dst, t, v, idx)
        if op == 'insertvalue':
            t = p.type(); v = p.value(t); p.expect(','); et = p.type(); ev = p.value(et); idx = []
            while p.eat(','): idx.append(int(p.rx(r'\d+').group(0)))
            return ('insertvalue', dst, t, v, et, ev, idx)
        if op in ('call', 'invoke'):
            p.attrs(_rx(r'(fast|nnan|ninf|nsz|arcp|contract|afn|reassoc)\b'))
            p.attrs(FATTR); rt = p.type()
            if isinstance(res(rt), FnT): rt = res(rt).ret
            elif isinstance(res(rt), PtrT) and isinstance(res(res(rt).to), FnT) and not (p.peek('@') or p.peek('%')): pass
            p.ws()
            if p.eatw('bitcast'):
                p.expect('('); ft = p.type(); callee = p.value(ft); p.expect('to'); p.type(); p.expect(')')
            elif p.eatw('asm'):
                raise IRError('inline asm: ' + l[:100])
            else: callee = p.value(None)
            p.expect('('); args = []
            while not p.eat(')'):
                at = p.type(); p.pattrs(); args.append((at, p.value(at))); p.eat(',')
            normal = None; unwind = None
            if op == 'invoke':
                mm = re.search(r'to label %' + NAME + ' unwind label %' + NAME, l); normal = mm.group(1).strip('"'); unwind = mm.group(2).strip('"')
            return ('call', dst, rt, callee, args, normal, unwind)
        if op == 'atomicrmw':
            p.eatw('volatile'); rop = p.rx(r'\w+').group(0); pt = p.type(); ptr = p.value(pt); p.expect(','); t = p.type(); v = p.value(t)
            return ('atomicrmw', dst, rop, t, ptr, v)
        if op == 'cmpxchg':
            p.eatw('weak'); p.eatw('volatile'); pt = p.type(); ptr = p.value(pt); p.expect(','); t = p.type(); cmp_ = p.value(t); p.expect(','); p.type(); new = p.value(t)
            return ('cmpxchg', dst, t, ptr, cmp_, new)
        if op in _FBINOPS or op in _FCASTS or op in ('fcmp', 'fneg'):
            return ('fp', dst, op, rest)
        if op in ('extractelement', 'insertelement', 'shufflevector'):
            return ('vec', dst, op, rest)
        if op == 'va_arg': return ('fp', dst, op, rest)
        raise IRError('unhandled op %s: %s' % (op, l))


if __name__ == '__main__':
    m = Module(open(sys.argv[1]).read())
    n = sum(f.ninstr for f in m.fns.values())
    print('types', len(m.types), 'globals', len(m.globals), 'decls', len(m.decls), 'fns', len(m.fns), 'aliases', len(m.aliases), 'instructions', n)
