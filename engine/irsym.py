#!/usr/bin/env python3-vt
"""Engine B: forking symbolic executor over LLVM-14 textual IR with z3.

Regime: pointers are (concrete object, offset) pairs, data is symbolic.  A symbolic offset,
length or allocation size is resolved by forking over its feasible values.  Every UB condition
(§2.3 of DESIGN.md) is an assertion decided by the solver.  One z3 query per branch side /
assertion / UB condition, with a per-state model cache.

Verdict discipline: anything the executor cannot model raises Inconclusive, which makes the whole
harness inconclusive (never "holds")."""
import sys, time, copy, json, os
import z3
from irfront import *

sys.setrecursionlimit(100000)
M64 = (1 << 64) - 1


class Ptr:
    __slots__ = ('obj', 'off')

    def __init__(s, obj, off): s.obj = obj; s.off = off
    def __repr__(s): return 'Ptr(%r,%r)' % (s.obj, s.off)


NULL = Ptr(0, 0)
FNBASE = 0x40000000


class Obj:
    __slots__ = ('cells', 'alive', 'kind', 'name')

    def __init__(s, n, kind, name=''): s.cells = [None] * n; s.alive = True; s.kind = kind; s.name = name

    def clone(s):
        o = Obj.__new__(Obj); o.cells = list(s.cells); o.alive = s.alive; o.kind = s.kind; o.name = s.name; return o


class PathEnd(Exception):
    def __init__(s, why): s.why = why


class Inconclusive(Exception):
    pass


class Unwound(Exception):
    """control was transferred to a landing pad"""


class Fork(Exception):
    """raised from inside an instruction: alts = [(cond, ret)] ; mode 'ret' -> each alternative gets cond added and the
    call result set to ret; mode 'redo' -> instruction re-executed under cond (with concretisation cache entry)."""

    def __init__(s, alts, mode='ret', key=None): s.alts = alts; s.mode = mode; s.key = key


def is_sym(v): return isinstance(v, z3.ExprRef)


class PU:
    """partially undefined integer: bits set in um are undef (and 0 in v); produced by zext/or/shl of an undef narrow value
    or by a wide load over partly uninitialised bytes (clang packs small structs such as std::optional<char> into one integer)"""
    __slots__ = ('v', 'um', 'n')

    def __init__(s, v, um, n): s.v = v; s.um = um; s.n = n
    def __repr__(s): return 'PU(%r,%#x,%d)' % (s.v, s.um, s.n)


def pu_norm(v, um, n):
    full = (1 << n) - 1; um &= full
    if um == 0: return v
    if um == full: return None
    if is_sym(v): v = simp(v & z3.BitVecVal(full & ~um, n))
    else: v &= full & ~um
    return PU(v, um, n)


def pu_parts(x, n):
    if x is None: return 0, (1 << n) - 1
    if isinstance(x, PU): return x.v, x.um
    return x, 0


def pu_binop(op, n, a, b):
    """bitwise ops / constant shifts on partially undefined operands; None = wholly undefined"""
    full = (1 << n) - 1
    if isinstance(a, Ptr) or isinstance(b, Ptr): return None
    va, ua = pu_parts(a, n); vb, ub = pu_parts(b, n)
    if op in ('and', 'or', 'xor'):
        um = ua | ub
        if op == 'and':
            if not is_sym(va): um &= ~(~va & full & ~ua) | 0
            if not is_sym(vb): um &= ~(~vb & full & ~ub) | 0
            if is_sym(va) or is_sym(vb): r = bv(va, n) & bv(vb, n)
            else: r = va & vb
        elif op == 'or':
            if not is_sym(va): um &= ~(va & ~ua)
            if not is_sym(vb): um &= ~(vb & ~ub)
            if is_sym(va) or is_sym(vb): r = bv(va, n) | bv(vb, n)
            else: r = va | vb
        else:
            if is_sym(va) or is_sym(vb): r = bv(va, n) ^ bv(vb, n)
            else: r = va ^ vb
        return pu_norm(r, um, n)
    if op in ('shl', 'lshr') and ub == 0 and not is_sym(vb) and vb < n:
        if op == 'shl':
            r = (bv(va, n) << vb) if is_sym(va) else mask(va << vb, n)
            return pu_norm(r, mask(ua << vb, n), n)
        r = z3.LShR(bv(va, n), vb) if is_sym(va) else va >> vb
        return pu_norm(r, ua >> vb, n)
    return None
def mask(v, n): return v & ((1 << n) - 1)
def sgn(v, n): return v - (1 << n) if v >> (n - 1) else v
def bv(v, n): return v if isinstance(v, z3.ExprRef) else z3.BitVecVal(v, n)


def lead_zeros(e, n):
    """number of leading bits of the n-bit term e that are syntactically zero (zero extension)"""
    if z3.is_bv_value(e): return n - e.as_long().bit_length()
    if z3.is_app(e):
        k = e.decl().kind()
        if k == z3.Z3_OP_CONCAT and z3.is_bv_value(e.arg(0)) and e.arg(0).as_long() == 0: return e.arg(0).size()
        if k == z3.Z3_OP_ZERO_EXT: return e.params()[0]
    return 0


def whole_slices(cells):
    """cells that are the consecutive byte slices Extract(l+8k+7, l+8k, v) of one term v (as written by Exec.explode): the term
    they spell, else None.  z3.simplify rewrites bottom-up and would push the slices into v before it could merge them."""
    base = None; l0 = 0
    for k, c in enumerate(cells):
        if not is_sym(c) or not z3.is_app(c) or c.decl().kind() != z3.Z3_OP_EXTRACT: return None
        hi, lo = c.params()
        if k == 0: base = c.arg(0); l0 = lo
        elif not c.arg(0).eq(base): return None
        if lo != l0 + 8 * k or hi != lo + 7: return None
    w = 8 * len(cells)
    return base if l0 == 0 and base.size() == w else z3.Extract(l0 + w - 1, l0, base)


def simp(e):
    e = z3.simplify(e)
    if z3.is_bv_value(e): return e.as_long()
    return e


def tz_bits(e, depth=0, memo=None):
    """conservative number of trailing zero bits of the bit-vector term e (memoised over the DAG, bounded work: nested ite
    chains share sub-terms and an unmemoised walk is exponential)"""
    w = e.size()
    if z3.is_bv_value(e):
        v = e.as_long(); return w if v == 0 else (v & -v).bit_length() - 1
    if depth > 60 or not z3.is_app(e): return 0
    if memo is None: memo = {}
    i = e.get_id(); hit = memo.get(i)
    if hit is not None: return hit[0]
    if len(memo) > 400: return 0
    k = e.decl().kind(); r = 0
    if k == z3.Z3_OP_CONCAT:
        n = 0
        for c in reversed(e.children()):
            t = tz_bits(c, depth + 1, memo); n += t
            if t < c.size(): break
        r = n
    elif k == z3.Z3_OP_BMUL: r = min(w, sum(tz_bits(c, depth + 1, memo) for c in e.children()))
    elif k in (z3.Z3_OP_BADD, z3.Z3_OP_BSUB): r = min(tz_bits(c, depth + 1, memo) for c in e.children())
    elif k == z3.Z3_OP_BNEG: r = tz_bits(e.arg(0), depth + 1, memo)
    elif k == z3.Z3_OP_ITE: r = min(tz_bits(e.arg(1), depth + 1, memo), tz_bits(e.arg(2), depth + 1, memo))
    memo[i] = (r, e)
    return r


def shr_exact(e, k):
    """term of width w-k equal to Extract(w-1, k, e) for a term e with at least k trailing zero bits (e = e' * 2^k): the shift is
    pushed into products and sums.  clang -O1 packs pairs of i32 into one i64 and computes `(c * (x << 32)) >> 32`; z3 has no
    rewrite for the high half of such a product and its bit-blaster does not decide the resulting multiplier equivalences."""
    w = e.size()
    if k == 0: return e
    if z3.is_bv_value(e): return z3.BitVecVal(e.as_long() >> k, w - k)
    kind = e.decl().kind() if z3.is_app(e) else None
    if kind == z3.Z3_OP_CONCAT:
        ch = e.children(); rem = k
        while rem > 0:
            c = ch[-1]
            if c.size() <= rem: rem -= c.size(); ch = ch[:-1]
            else: ch = ch[:-1] + [shr_exact(c, rem)]; rem = 0
        return ch[0] if len(ch) == 1 else z3.Concat(*ch)
    if kind == z3.Z3_OP_BMUL:
        rem = k; r = None
        for c in e.children():
            t = min(tz_bits(c), rem); g = shr_exact(c, t) if t else c; rem -= t
            if g.size() > w - k: g = z3.Extract(w - k - 1, 0, g)
            r = g if r is None else r * g
        if rem == 0: return r
    elif kind in (z3.Z3_OP_BADD, z3.Z3_OP_BSUB):
        r = None
        for c in e.children():
            g = shr_exact(c, k)
            r = g if r is None else (r + g if kind == z3.Z3_OP_BADD else r - g)
        return r
    elif kind == z3.Z3_OP_BNEG: return -shr_exact(e.arg(0), k)
    elif kind == z3.Z3_OP_ITE: return z3.If(e.arg(0), shr_exact(e.arg(1), k), shr_exact(e.arg(2), k))
    return z3.Extract(w - 1, k, e)


def norm_extracts(e, cache):
    """rewrite every Extract(hi, lo, t), lo > 0, whose argument is a multiple of 2^lo (shr_exact) or a sum in which at most one
    summand has non-zero low bits (no carry into bit lo: the extract distributes over the sum).  Applied to hard queries only."""
    if not z3.is_app(e) or e.num_args() == 0: return e
    i = e.get_id(); hit = cache.get(i)
    if hit is not None: return hit[1]
    ch = e.children(); nch = [norm_extracts(c, cache) for c in ch]
    r = e
    if any(a is not b for a, b in zip(ch, nch)): r = e.decl()(*nch)
    if e.decl().kind() == z3.Z3_OP_EXTRACT:
        hi, lo = e.params(); t = nch[0]
        if lo > 0:
            t = z3.simplify(t)
            if tz_bits(t) >= lo: r = z3.simplify(z3.Extract(hi - lo, 0, shr_exact(t, lo)))
            elif z3.is_app(t) and t.decl().kind() == z3.Z3_OP_BADD and sum(1 for c in t.children() if tz_bits(c) < lo) <= 1:
                parts = [z3.Extract(hi - lo, 0, shr_exact(c, lo)) if tz_bits(c) >= lo else norm_extracts(z3.simplify(z3.Extract(hi, lo, c)), cache) for c in t.children()]
                r = parts[0]
                for q in parts[1:]: r = r + q
                r = z3.simplify(r)
    cache[i] = (e, r)
    return r


class Frame:
    __slots__ = ('fn', 'block', 'idx', 'env', 'prev', 'allocas', 'dst', 'normal', 'unwind', 'visits', 'mod')

    def __init__(s, fn, mod, dst=None, normal=None, unwind=None):
        s.fn = fn; s.mod = mod; s.block = fn.order[0]; s.idx = 0; s.env = {}; s.prev = None; s.allocas = []; s.dst = dst; s.normal = normal
        s.unwind = unwind; s.visits = {}

    def clone(s):
        f = Frame.__new__(Frame); f.fn = s.fn; f.mod = s.mod; f.block = s.block; f.idx = s.idx; f.env = dict(s.env); f.prev = s.prev
        f.allocas = list(s.allocas); f.dst = s.dst; f.normal = s.normal; f.unwind = s.unwind; f.visits = dict(s.visits); return f


class State:
    def __init__(s):
        s.frames = []; s.mem = {}; s.own = set(); s.next_id = 1; s.pc = []; s.inputs = []; s.incount = {}; s.steps = 0
        s.out = []; s.log = []; s.model = None; s.conc = {}; s.reach = []; s.guards = {}; s.asserts = 0; s.exc = None; s.lpval = None; s.caught = []

    def clone(s):
        t = State.__new__(State); t.frames = [f.clone() for f in s.frames]; t.mem = dict(s.mem); t.own = set(); s.own = set()
        t.next_id = s.next_id; t.pc = list(s.pc); t.inputs = list(s.inputs); t.incount = dict(s.incount); t.steps = s.steps
        t.out = list(s.out); t.log = list(s.log); t.model = s.model; t.conc = dict(s.conc); t.reach = list(s.reach); t.guards = dict(s.guards)
        t.asserts = s.asserts; t.exc = s.exc; t.lpval = s.lpval; t.caught = list(s.caught)
        return t

    def wobj(s, oid):
        """object for writing (copy on write)"""
        o = s.mem[oid]
        if oid not in s.own: o = o.clone(); s.mem[oid] = o; s.own.add(oid)
        return o


class Limits:
    def __init__(s, loop=64, depth=200, steps=4000000, paths=20000, query_ms=60000, fork_width=64, wall=600.0, fast_ms=250, merge=True):
        s.loop = loop; s.depth = depth; s.steps = steps; s.paths = paths; s.query_ms = query_ms; s.fork_width = fork_width; s.wall = wall; s.fast_ms = fast_ms; s.merge = merge
        s.som = False  # harness option som=1: decide hard queries through z3's sum-of-monomials normal form first (ring identities over bit-vectors)


class Exec:
    def __init__(s, mods, limits=None, params=None, concrete=None, allowed_throws=(), leakcheck=False):
        s.mods = mods; s.lim = limits or Limits(); s.params = params or {}; s.concrete = concrete
        s.allowed_throws = set(allowed_throws); s.leakcheck = leakcheck
        s.solver = z3.Solver(); s.solver.set('timeout', min(s.lim.fast_ms, s.lim.query_ms)); s.fallbacks = 0; s.merges = 0; s._pinned = []; s.extern_data = set()
        s.queries = 0; s.qtime = 0.0; s.qmax = 0.0; s.cache_hits = 0
        s.paths = []; s.violations = []; s.vkeys = set(); s.reached = {}; s.insn = 0; s.forks = 0
        s.gaddr = {}; s.fnids = {}; s.fnnames = []; s.ufs = {}; s.uf_used = {}; s.bytecache = {}; s.normcache = {}
        s.fn_of = {}
        for m in mods:
            for n, f in m.fns.items():
                if n not in s.fn_of: s.fn_of[n] = (f, m)
        s.ext = {}; s.ext_prefix = []
        import models
        models.register(s)
        s.deftypes = {}; s.fns_executed = {}; s.t0 = time.time(); s.samples = []; s.ext_calls = {}; s.known = []; s.redirects = []; s.typeids = {}; s.lpcache = {}; s.root_frame = None; s.probes = []

    # ---------- solver
    def _check(s, assumptions):
        """incremental attempt with a short timeout first (cheap on the many trivial queries); z3's assumption mode skips
        most preprocessing, so anything it cannot do quickly goes to a fresh solver with the formulas asserted.
        Harness option som=1 (ring identities over bit-vectors, which the bit-blaster does not decide): the fresh attempts are
        som(3 s) -> plain(query_ms) -> som(query_ms), where som = z3's polynomial rewriter (simplify with som=true:
        sum-of-monomials normal form modulo 2^n) followed by smt."""
        t = time.time(); s.queries += 1
        r = s.solver.check(*assumptions)
        if r != z3.unknown:
            dt = time.time() - t; s.qtime += dt; s.qmax = max(s.qmax, dt)
            return s.solver.model() if r == z3.sat else None
        s.fallbacks += 1
        som = getattr(s.lim, 'som', False)
        # stage 0: a fresh solver with the formulas asserted decides most of what the assumption interface could not, in ms
        fs = z3.Solver(); fs.set('timeout', min(2000, s.lim.query_ms)); fs.add(*assumptions); r = fs.check()
        if r == z3.unknown and not som:
            # symbolic*symbolic products / division by non-power-of-2 constants: exact translation to integer arithmetic
            # (engine/bv2int.py; sat answers are re-validated on the original bit-vector formulas) before bit-blasting for real
            import bv2int
            ir = bv2int.try_solve(assumptions, s.lim.query_ms)
            if ir is not None:
                dt = time.time() - t; s.qtime += dt; s.qmax = max(s.qmax, dt)
                return ir[1]
        if r == z3.unknown:
            if som: assumptions = [norm_extracts(a, s.normcache) for a in assumptions]
            stages = ([('som', min(s.lim.query_ms, 3000))] if som else []) + [('plain', s.lim.query_ms)] + ([('som', s.lim.query_ms)] if som else [])
            for kind, ms in stages:
                fs = z3.Then(z3.With('simplify', som=True, som_blowup=100000000), 'smt').solver() if kind == 'som' else z3.Solver()
                fs.set('timeout', ms); fs.add(*assumptions); r = fs.check()
                if r != z3.unknown: break
        dt = time.time() - t; s.qtime += dt; s.qmax = max(s.qmax, dt)
        if r == z3.unknown: raise Inconclusive('solver returned unknown (%s) after %.1fs' % (fs.reason_unknown(), dt))
        return fs.model() if r == z3.sat else None

    def feasible(s, st, cond=None):
        """returns a model of pc (and cond) or None"""
        if s.concrete is not None:
            if cond is None: return True
            raise Inconclusive('symbolic condition in concrete mode')
        m = st.model
        if m is not None:
            if cond is None: s.cache_hits += 1; return m
            try:
                if z3.is_true(m.eval(cond, model_completion=True)): s.cache_hits += 1; return m
            except z3.Z3Exception: pass
        m2 = s._check(st.pc + ([cond] if cond is not None else []))
        if m2 is not None and cond is None: st.model = m2
        return m2

    def assume(s, st, cond, model):
        st.pc.append(cond); st.model = model

    def fresh(s, st, n, name):
        k = st.incount.get(name, 0); st.incount[name] = k + 1
        full = name if k == 0 else '%s#%d' % (name, k)
        if s.concrete is not None:
            v = mask(int(s.concrete.get(full, 0)), n); st.inputs.append((full, n, v)); return v
        v = z3.BitVec(full, n); st.inputs.append((full, n, v)); return v

    def model_of(s, st, m=None):
        if s.concrete is not None: return {n: v for n, b, v in st.inputs}
        if m is None: m = s.feasible(st)
        if m is None: return None
        r = {}
        for n, b, v in st.inputs: r[n] = m.eval(v, model_completion=True).as_long()
        return r

    def uf_tables(s, m):
        """function interpretations of the model for native replay"""
        out = {}
        if s.concrete is not None or m is None: return out
        for key, f in s.ufs.items():
            try: fi = m[f]
            except Exception: fi = None
            ent = []; els = 0
            if fi is not None:
                try:
                    for i in range(fi.num_entries()):
                        e = fi.entry(i); ent.append([[e.arg_value(j).as_long() for j in range(e.num_args())], e.value().as_long()])
                    ev = fi.else_value()
                    els = ev.as_long() if z3.is_bv_value(ev) else None
                except Exception: els = None
            out['%d/%d' % key] = {'entries': ent, 'else': els}
        return out

    def eval_concrete(s, m, v):
        if not is_sym(v): return v
        return m.eval(v, model_completion=True).as_long()

    # ---------- memory
    def alloc(s, st, n, kind, name=''):
        i = st.next_id; st.next_id += 1; st.mem[i] = Obj(n, kind, name); st.own.add(i); return Ptr(i, 0)

    def concretize(s, st, e, what='value', hi=None):
        """concrete value of e on this path; forks over all feasible values when not unique"""
        if not is_sym(e): return e
        e = simp(e)
        if not is_sym(e): return e
        k = e.get_id(); c = st.conc.get(k)
        if c is not None and c[0].eq(e): return c[1]  # the AST is kept alive in the cache: z3 reuses ids of freed ASTs
        if s.concrete is not None: raise Inconclusive('symbolic value in concrete mode')
        vals = []; extra = []
        while True:
            m = s._check(st.pc + extra)
            if m is None: break
            v = m.eval(e, model_completion=True).as_long(); vals.append(v); extra.append(e != v)
            if len(vals) > s.lim.fork_width: raise Inconclusive('symbolic %s with more than %d feasible values' % (what, s.lim.fork_width))
        if not vals: raise PathEnd('infeasible')
        if len(vals) == 1:
            st.conc[k] = (e, vals[0]); return vals[0]
        raise Fork([(e == v, v) for v in sorted(vals)], 'redo', (k, e))

    def obj_of(s, st, p, n, what, write=False):
        if not isinstance(p, Ptr):
            if p is None: s.ub(st, '%s through uninitialised pointer' % what)
            if is_sym(p): raise Inconclusive('%s through symbolic integer pointer' % what)
            p = s.i2p(p)
        if not isinstance(p.obj, tuple) and p.obj == 0 and is_sym(p.off): raise Inconclusive('%s through symbolic integer pointer' % what)
        if isinstance(p.obj, tuple) or p.obj == 0:
            s.ub(st, '%s through null/invalid pointer (%s)' % (what, 'null' if p.obj == 0 and not is_sym(p.off) and p.off == 0 else repr(p)))
        o = st.mem.get(p.obj)
        if o is None: s.ub(st, '%s through dangling pointer' % what)
        if not o.alive: s.ub(st, '%s of dead object %s (use after free / after scope)' % (what, o.name or o.kind))
        off = p.off
        if is_sym(off):
            # in-bounds is an obligation, then fork over feasible in-bounds values
            size = len(o.cells)
            bad = z3.Or(z3.UGT(off, size - n), z3.ULT(z3.BitVecVal(size, 64), z3.BitVecVal(n, 64))) if size >= n else z3.BoolVal(True)
            m = s.feasible(st, bad)
            if m is not None: s.ub_sym(st, bad, '%s out of bounds (symbolic offset) in %s of %d bytes' % (what, o.name or o.kind, size), m)
            off = s.concretize(st, off, 'offset')
        if off < 0 or off + n > len(o.cells):
            s.ub(st, '%s out of bounds: offset %d size %d in %s of %d bytes' % (what, off, n, o.name or o.kind, len(o.cells)))
        if write:
            if o.kind == 'const': s.ub(st, 'store to constant')
            o = st.wobj(p.obj)
        return o, off

    def load(s, st, ty, p):
        ty = res(ty)
        if isinstance(ty, StructT):
            return [s.load(st, e, s.padd(p, o)) for e, o in zip(ty.elems, ty.layout()[0])]
        if isinstance(ty, ArrT):
            return [s.load(st, ty.e, s.padd(p, k * ty.e.size())) for k in range(ty.n)]
        if isinstance(ty, VecT): raise Inconclusive('vector load')
        n = ty.store_size()
        if n == 0: return None
        o, off = s.obj_of(st, p, n, 'load'); cells = o.cells[off:off + n]
        return s.assemble(st, ty, cells)

    def assemble(s, st, ty, cells):
        n = len(cells); c0 = cells[0]
        if isinstance(ty, PtrT):
            if isinstance(c0, tuple):
                if all(isinstance(c, tuple) and c[0] is c0[0] and c[1] == k for k, c in enumerate(cells)): return c0[0]
                if all(isinstance(c, tuple) and c[1] == k and s.same_ptr(c[0], c0[0]) for k, c in enumerate(cells)): return c0[0]
            if all(isinstance(c, int) for c in cells):
                v = 0
                for k, c in enumerate(cells): v |= c << (8 * k)
                return s.i2p(v)
            if any(c is None for c in cells): return None
            if all(isinstance(c, (int, z3.ExprRef)) for c in cells):
                e = simp(z3.Concat(*[bv(c, 8) for c in reversed(cells)]))
                return s.i2p(e)
            raise Inconclusive('pointer load from mixed bytes')
        if any(c is None for c in cells):
            if not isinstance(ty, IntT) or all(c is None for c in cells) or any(isinstance(c, tuple) for c in cells): return None
            um = 0; e = None; allc = all(c is None or type(c) is int for c in cells)
            for k, c in enumerate(cells):
                if c is None: um |= 255 << (8 * k)
            if allc:
                v = 0
                for k, c in enumerate(cells):
                    if c is not None: v |= c << (8 * k)
            else: v = z3.Concat(*[bv(0 if c is None else c, 8) for c in reversed(cells)])
            if ty.n != n * 8:
                um = mask(um, ty.n); v = z3.Extract(ty.n - 1, 0, v) if is_sym(v) else mask(v, ty.n)
            return pu_norm(simp(v) if is_sym(v) else v, um, ty.n)
        allint = True
        for c in cells:
            if type(c) is not int: allint = False; break
        if allint:
            v = 0
            for k, c in enumerate(cells): v |= c << (8 * k)
            return mask(v, ty.n) if isinstance(ty, IntT) else v
        if any(isinstance(c, tuple) for c in cells):
            if n == 8 and isinstance(c0, tuple) and all(isinstance(c, tuple) and c[1] == k and s.same_ptr(c[0], c0[0]) for k, c in enumerate(cells)):
                return s.p2i(c0[0])
            raise Inconclusive('integer load of partial pointer bytes')
        hit = s.bytecache.get(tuple(c.get_id() if is_sym(c) else ('c', c) for c in cells)) if n > 1 else None
        e = hit[0] if hit is not None else s.join_cells(cells)
        if isinstance(ty, IntT) and ty.n != n * 8: e = z3.Extract(ty.n - 1, 0, e)
        return simp(e)

    def join_cells(s, cells, depth=0):
        """bytes -> one value.  Cells merged byte-wise at a join (If(c, a_k, b_k) with a common c) are re-assembled as
        If(c, A, B) so that the raw Extract slices of explode() recombine to the stored values A and B."""
        n = len(cells)
        if depth < 6 and n > 1:
            c = None
            for x in cells:
                if is_sym(x) and z3.is_app_of(x, z3.Z3_OP_ITE): c = x.arg(0); break
            if c is not None:
                A = []; B = []
                for x in cells:
                    if is_sym(x) and z3.is_app_of(x, z3.Z3_OP_ITE) and x.arg(0).eq(c): A.append(x.arg(1)); B.append(x.arg(2))
                    else: A.append(x); B.append(x)
                return z3.If(c, s.join_cells(A, depth + 1), s.join_cells(B, depth + 1))
        if n == 1: return bv(cells[0], 8)
        # adjacent raw slices of one term are recombined here (z3 simplifies bottom-up and would first push each
        # byte extract into its argument, e.g. into an ite, after which the concat no longer folds)
        pieces = []; run = None
        for x in cells:
            if is_sym(x) and z3.is_app_of(x, z3.Z3_OP_EXTRACT):
                hb, lb = x.params(); t = x.arg(0)
                if run is not None and run[0].eq(t) and lb == run[2] + 1: run[2] = hb; continue
                run = [t, lb, hb]; pieces.append(run)
            else:
                run = None; pieces.append(x)
        out = []
        for q in pieces:
            if isinstance(q, list):
                t, lb, hb = q
                out.append(t if lb == 0 and hb == t.size() - 1 else z3.Extract(hb, lb, t))
            else: out.append(bv(q, 8))
        return z3.Concat(*reversed(out)) if len(out) > 1 else out[0]

    def same_ptr(s, a, b):
        return a.obj == b.obj and (a.off is b.off or (not is_sym(a.off) and not is_sym(b.off) and a.off == b.off) or (is_sym(a.off) and is_sym(b.off) and a.off.eq(b.off)))

    def padd(s, p, d):
        if d == 0: return p
        if not isinstance(p, Ptr): raise Inconclusive('pointer arithmetic on non-pointer')
        return Ptr(p.obj, simp(p.off + d) if is_sym(p.off) else p.off + d)

    def store(s, st, ty, v, p):
        ty = res(ty)
        if isinstance(ty, StructT):
            if v is None: v = [None] * len(ty.elems)
            for e, o, x in zip(ty.elems, ty.layout()[0], v): s.store(st, e, x, s.padd(p, o))
            return
        if isinstance(ty, ArrT):
            if v is None: v = [None] * ty.n
            for k, x in enumerate(v): s.store(st, ty.e, x, s.padd(p, k * ty.e.size()))
            return
        if isinstance(ty, VecT): raise Inconclusive('vector store')
        n = ty.store_size()
        if n == 0: return
        o, off = s.obj_of(st, p, n, 'store', True)
        o.cells[off:off + n] = s.explode(ty, v, n)

    def explode(s, ty, v, n):
        if isinstance(v, Ptr):
            if n != 8: raise Inconclusive('pointer stored with size %d' % n)
            return [(v, k) for k in range(8)]
        if v is None: return [None] * n
        if isinstance(v, PU):
            cells = s.explode(ty, v.v, n)
            return [None if (v.um >> (8 * k)) & 255 else c for k, c in enumerate(cells)]
        if isinstance(v, int): return [(v >> (8 * k)) & 255 for k in range(n)]
        if isinstance(v, tuple) and len(v) == 2 and v[0] == 'f':
            # floating-point *constant* stored as data (e.g. unordered_map's max_load_factor); no FP arithmetic is modelled
            import struct
            if n not in (4, 8): raise Inconclusive('floating point constant of %d bytes' % n)
            x = struct.unpack('<d', struct.pack('<Q', int(v[1], 16)))[0] if v[1].lower().startswith('0x') else float(v[1])
            return list(struct.pack('<f' if n == 4 else '<d', x))
        w = n * 8; vn = v.size()
        e = v if vn == w else z3.ZeroExt(w - vn, v)
        tz = tz_bits(e) if w > 8 else 0
        sh = {}

        def ext(hi, lo):
            # Extract(hi, lo, e); trailing zero bits of e are shifted out structurally first (see shr_exact)
            t = min(tz, lo)
            if t == 0: return simp(z3.Extract(hi, lo, e))
            if t not in sh: sh[t] = shr_exact(e, t)
            return simp(z3.Extract(hi - t, lo - t, sh[t]))
        # constant bytes become ints; symbolic bytes stay RAW slices of e (z3's simplifier would push the extract into sums / ite,
        # after which a later load can no longer recombine the bytes to e); the word and its aligned sub-words are also remembered
        bs = []
        for k in range(n):
            x = z3.Extract(8 * k + 7, 8 * k, e); c = simp(x)
            bs.append(c if not is_sym(c) or n == 1 else x)
        s.remember_bytes(bs, e, ext)
        return bs

    def remember_bytes(s, bs, e, ext):
        """store->load round trip: remember which word (and which aligned 2/4/8-byte sub-word) a run of byte terms came from;
        assemble() looks the run up first."""
        n = len(bs)
        if n < 2: return
        for size in sorted(set((2, 4, 8, n))):
            if size > n: break
            for o in range(0, n - size + 1, size):
                grp = bs[o:o + size]
                if not any(is_sym(b) for b in grp): continue
                key = tuple(b.get_id() if is_sym(b) else ('c', b) for b in grp)
                if key not in s.bytecache:
                    val = e if (size == n and o == 0) else ext(8 * (o + size) - 1, 8 * o)
                    s.bytecache[key] = (val, grp)  # grp is kept alive so that the ast ids stay unique

    def fnid(s, name):
        i = s.fnids.get(name)
        if i is None: i = len(s.fnnames); s.fnids[name] = i; s.fnnames.append(name)
        return i

    def p2i(s, p):
        if p is None: return None
        if not isinstance(p, Ptr): return p
        if p.obj == 0: return p.off
        if isinstance(p.obj, tuple): return (FNBASE + s.fnid(p.obj[1])) << 32
        return simp(z3.BitVecVal(p.obj << 32, 64) + p.off) if is_sym(p.off) else ((p.obj << 32) + p.off) & M64

    def i2p(s, v):
        if isinstance(v, Ptr) or v is None: return v
        if is_sym(v):
            # obj<<32 + off with symbolic off: recover when the upper half is concrete
            hi = simp(z3.Extract(63, 32, v))
            if is_sym(hi): return Ptr(0, v)  # an integer kept in a pointer-typed SSA value (type-punned union member); dereferencing it is inconclusive
            lo = simp(z3.ZeroExt(32, z3.Extract(31, 0, v)))
            return Ptr(hi, lo) if hi else Ptr(0, v)
        hi = v >> 32
        if hi >= FNBASE and hi - FNBASE < len(s.fnnames): return Ptr(('fn', s.fnnames[hi - FNBASE]), 0)
        return Ptr(hi, v & 0xffffffff) if 0 < hi < FNBASE else Ptr(0, v)

    def read_cstr(s, st, p, maxlen=4096):
        # string literals (constant globals, same object ids in every state of this Exec) are decoded once
        ck = None
        if isinstance(p, Ptr) and isinstance(p.obj, int) and isinstance(p.off, int):
            o = st.mem.get(p.obj)
            if o is not None and o.kind == 'const' and o.alive:
                ck = (p.obj, p.off); c = s.__dict__.setdefault('_cstr_cache', {}).get(ck)
                if c is not None: return c
        r = s._read_cstr(st, p, maxlen)
        if ck is not None: s._cstr_cache[ck] = r
        return r

    def _read_cstr(s, st, p, maxlen=4096):
        out = []
        for k in range(maxlen):
            c = s.load(st, IntT(8), s.padd(p, k))
            if c is None or is_sym(c): raise Inconclusive('non-concrete C string')
            if c == 0: return bytes(out).decode('latin1')
            out.append(c)
        raise Inconclusive('unterminated C string')

    # ---------- values
    def val(s, st, v, ty):
        k = v[0]
        if k == 'loc':
            try: return st.frames[-1].env[v[1]]
            except KeyError: raise Inconclusive('use of undefined local %%%s in %s' % (v[1], st.frames[-1].fn.name))
        if k == 'int': return mask(v[1], res(ty).n)
        if k == 'null': return NULL
        if k == 'glob': return s.globref(st.frames[-1].mod if st.frames else s.mods[0], v[1])
        if k == 'undef': return s.zero(ty, None)
        if k == 'zero': return s.zero(ty, 0)
        if k == 'cgep': return s.gep(st, v[1], s.val(st, v[2], None), [(it, s.val(st, iv, it)) for it, iv in v[3]])
        if k == 'p2i':
            x = s.p2i(s.val(st, v[1], None)); n = res(v[2]).n
            return x if n == 64 else (simp(z3.Extract(n - 1, 0, x)) if is_sym(x) else mask(x, n))
        if k == 'i2p': return s.i2p(s.val(st, v[1], v[2]))
        if k == 'agg': return [s.val(st, ev, et) for et, ev in v[1]]
        if k == 'bytes': return list(v[1])
        if k == 'cbin': return s.binop(st, v[1], (), v[2], s.val(st, v[3], v[2]), s.val(st, v[4], v[2]))
        if k == 'float':
            # a float/double CONSTANT is carried as its IEEE bit pattern (so it can be stored / copied / reloaded);
            # every floating point *operation* is still Inconclusive
            rt = res(ty) if ty is not None else None
            if isinstance(rt, FloatT) and rt.k in ('float', 'double'):
                import struct
                t = v[1]
                if t.startswith('0x') and t[2:3] not in 'KLMHR': d = struct.unpack('<d', struct.pack('<Q', int(t, 16)))[0]
                elif t.startswith('0x'): return ('f', t)
                else: d = float(t)
                return struct.unpack('<I', struct.pack('<f', d))[0] if rt.k == 'float' else struct.unpack('<Q', struct.pack('<d', d))[0]
            return ('f', v[1])
        if k == 'ccast':
            x = s.val(st, v[3], v[2]); rf, rt = res(v[2]), res(v[4])
            if isinstance(x, Ptr): x = s.p2i(x)
            if v[1] == 'trunc': return simp(z3.Extract(rt.n - 1, 0, x)) if is_sym(x) else mask(x, rt.n)
            if v[1] == 'zext': return simp(z3.ZeroExt(rt.n - rf.n, x)) if is_sym(x) else x
            return simp(z3.SignExt(rt.n - rf.n, x)) if is_sym(x) else mask(sgn(x, rf.n), rt.n)
        if k == 'cicmp': return s.icmp(st, v[1], v[2], s.val(st, v[3], v[2]), s.val(st, v[4], v[2]))
        if k == 'cselect':
            c = s.val(st, v[1], IntT(1))
            if is_sym(c) or c is None: raise Inconclusive('symbolic constant select')
            return s.val(st, v[3], v[2]) if c else s.val(st, v[4], v[2])
        raise Inconclusive('value kind ' + k)

    def globref(s, mod, name):
        name = mod.resolve(name)
        key = (id(mod), name)
        p = s.gaddr.get(key)
        if p is not None:
            # //@stub also redirects a DATA symbol that is only declared (e.g. a library VTT/vtable read by inlined
            # constructor/destructor code) to a kernel-defined object
            if s.redirects and name in s.extern_data:
                for rx, tgt in s.redirects:
                    if rx.search(name) and tgt != name:
                        s.ext_calls['stub-data:' + tgt] = s.ext_calls.get('stub-data:' + tgt, 0) + 1
                        return s.globref(mod, tgt)
            return p
        if name in s.fn_of or name in mod.decls: return Ptr(('fn', name), 0)
        for m in s.mods:
            p = s.gaddr.get((id(m), name))
            if p is not None: return p
        raise Inconclusive('unknown global @' + name)

    def zero(s, ty, z):
        ty = res(ty)
        if isinstance(ty, StructT): return [s.zero(e, z) for e in ty.elems]
        if isinstance(ty, ArrT): return [s.zero(ty.e, z) for _ in range(ty.n)]
        if isinstance(ty, PtrT): return NULL if z == 0 else None
        return z

    def gep(s, st, bt, base, idx):
        if not isinstance(base, Ptr):
            if base is None: s.ub(st, 'pointer arithmetic on uninitialised pointer')
            base = s.i2p(base)
        off = base.off; t = bt; first = True
        for it, iv in idx:
            rt = res(t)
            if first: sz = rt.size() if not isinstance(rt, (VoidT, FnT)) else 1; first = False
            elif isinstance(rt, StructT):
                off = off + rt.layout()[0][iv]; t = rt.elems[iv]
                if is_sym(off): off = simp(off)
                continue
            elif isinstance(rt, ArrT): sz = rt.e.size(); t = rt.e
            elif isinstance(rt, VecT): raise Inconclusive('gep into vector')
            else: raise Inconclusive('gep into scalar')
            if iv is None: s.ub(st, 'pointer arithmetic with uninitialised index')
            n = res(it).n
            if is_sym(iv):
                iv = z3.SignExt(64 - n, iv) if n < 64 else iv; off = simp(bv(off, 64) + iv * sz)
            else:
                d = sgn(iv, n) * sz
                off = simp(off + d) if is_sym(off) else off + d
        return Ptr(base.obj, off)

    # ---------- UB / assertions
    def record(s, st, kind, ident, model, extra=None, known=None):
        fn = st.frames[-1].fn.name if st.frames else '?'
        key = (kind, ident, fn, known)
        if key in s.vkeys and len([v for v in s.violations if (v['kind'], v['id'], v['fn'], v.get('known')) == key]) >= 3: return
        s.vkeys.add(key)
        stack = [f.fn.name for f in st.frames[-6:]]
        s.violations.append({'kind': kind, 'id': ident, 'fn': fn, 'inputs': model, 'stack': stack, 'uf': extra or {}, 'reach': list(st.reach), 'known': known})

    def ub(s, st, msg):
        m = s.feasible(st)
        if m is None: raise PathEnd('infeasible')
        s.record(st, 'ub', msg, s.model_of(st, m), s.uf_tables(m)); raise PathEnd('ub')

    def ub_sym(s, st, cond, msg, m):
        s.record(st, 'ub', msg, s.model_of(st, m), s.uf_tables(m))
        m2 = s.feasible(st, z3.Not(cond))
        if m2 is None: raise PathEnd('ub')
        s.assume(st, z3.Not(cond), m2)

    def need(s, st, v, what):
        if v is None or isinstance(v, PU): s.ub(st, 'use of uninitialised value in ' + what)
        return v

    def truth(s, c):
        """z3 Bool for an i1/int value being non-zero"""
        return c != 0

    # ---------- run
    def init_globals(s, st):
        for m in s.mods:
            for n, (t, init, ext, const) in m.globals.items():
                rt = res(t)
                sz = max(rt.size(), 1) if not isinstance(rt, (FnT, OpaqueT)) else 8
                if ext and init is None:
                    other = None
                    for m2 in s.mods:
                        g = m2.globals.get(n)
                        if g is not None and not (g[2] and g[1] is None): other = m2
                    if other is not None: continue
                    p = s.alloc(st, 0, 'extern', '@' + n); s.extern_data.add(n)
                else: p = s.alloc(st, sz, 'const' if const else 'global', '@' + n)
                s.gaddr[(id(m), n)] = p
        # externs defined in another module
        for m in s.mods:
            for n, (t, init, ext, const) in m.globals.items():
                if (id(m), n) not in s.gaddr:
                    for m2 in s.mods:
                        if (id(m2), n) in s.gaddr: s.gaddr[(id(m), n)] = s.gaddr[(id(m2), n)]; break
        for m in s.mods:
            fr = Frame.__new__(Frame); fr.mod = m; fr.env = {}; fr.fn = None
            st.frames.append(fr)
            for n, (t, init, ext, const) in m.globals.items():
                if ext and init is None: continue
                p = s.gaddr[(id(m), n)]; o = st.mem[p.obj]
                if init is None or init[0] == 'zero': o.cells = [0] * len(o.cells)
                elif init[0] == 'bytes': o.cells[:len(init[1])] = list(init[1])
                elif init[0] == 'undef': pass
                else:
                    kind = o.kind; o.kind = 'global'
                    o.cells = [0] * len(o.cells)
                    s.store(st, t, s.val_const(st, init, t), p); o.kind = kind
            st.frames.pop()

    def val_const(s, st, v, t):
        t = res(t)
        if v[0] == 'zero': return s.zero(t, 0)
        if v[0] == 'agg': return [s.val_const(st, ev, et) for et, ev in v[1]]
        if v[0] == 'bytes': return list(v[1])
        return s.val(st, v, t)

    def run(s, entry):
        st = State(); s.init_globals(st)
        f, m = s.fn_of[entry]; fr = Frame(f, m); st.frames.append(fr); s.root_frame = fr
        work = [st]
        while work:
            if len(s.paths) > s.lim.paths: raise Inconclusive('path budget (%d) exhausted' % s.lim.paths)
            if time.time() - s.t0 > s.lim.wall: raise Inconclusive('wall budget (%.0fs) exhausted after %d paths' % (s.lim.wall, len(s.paths)))
            st = work.pop()
            try:
                while True:
                    r = s.step(st)
                    if r is None: continue
                    if r[0] == 'fork': work.extend(r[1]); s.forks += len(r[1]); continue
                    if r[0] == 'forkdead': work.extend(r[1]); s.forks += len(r[1]); s.finish(st, r[2]); break
                    s.finish(st, 'done'); break
            except PathEnd as e:
                s.finish(st, e.why)

    def finish(s, st, why):
        if why == 'done' and s.leakcheck:
            for oid, o in st.mem.items():
                if o.kind == 'heap' and o.alive:
                    m = s.feasible(st)
                    if m is not None: s.record(st, 'leak', 'heap object of %d bytes still allocated at end of harness' % len(o.cells), s.model_of(st, m), s.uf_tables(m))
                    break
        s.paths.append((why, st.steps))
        if why in ('done',) or why.startswith('throw:'):
            for r in st.reach: s.reached[r] = s.reached.get(r, 0) + 1
            if len(s.samples) < 12 or (why != 'done' and sum(1 for x in s.samples if x['end'] != 'done') < 4):
                m = s.feasible(st)
                if m is not None:
                    ins = s.model_of(st, m)
                    outs = [[t, s.eval_concrete(m, v) if s.concrete is None else v] for t, v in st.out]
                    s.samples.append({'end': why, 'inputs': ins, 'out': outs, 'reach': list(st.reach), 'uf': s.uf_tables(m) if s.concrete is None else {}, 'steps': st.steps, 'asserts': st.asserts})

    def jump(s, st, fr, to):
        fr.prev = fr.block; fr.block = to; fr.idx = 0
        c = fr.visits.get(to, 0) + 1; fr.visits[to] = c
        if c > s.lim.loop:
            m = s.feasible(st)
            if m is None: raise PathEnd('infeasible')
            s.record(st, 'loop', 'loop bound %d exceeded at block %%%s of %s' % (s.lim.loop, to, fr.fn.name), s.model_of(st, m), s.uf_tables(m))
            raise PathEnd('loop-bound')
        blk = fr.fn.blocks[to]; vals = None
        for ins in blk:
            if ins[0] != 'phi': break
            if vals is None: vals = []
            src = ins[3].get(fr.prev)
            if src is None: raise Inconclusive('phi without incoming for %s in %s' % (fr.prev, fr.fn.name))
            vals.append((ins[1], s.val(st, src, ins[2]))); fr.idx += 1
        if vals:
            for d, v in vals: fr.env[d] = v

    def branch(s, st, c, a, b):
        fr = st.frames[-1]
        c = s.need(st, c, 'branch')
        if not is_sym(c): s.jump(st, fr, a if c else b); return None
        ct = c != 0; cf = c == 0
        ma = s.feasible(st, ct); mb = s.feasible(st, cf)
        if ma is not None and mb is not None:
            if s.lim.merge and s.try_merge(st, fr, ct, a, b, ma, mb): return None
            st2 = st.clone(); s.assume(st2, cf, mb); s.assume(st, ct, ma)
            try: s.jump(st2, st2.frames[-1], b); extra = [st2]
            except PathEnd as e: s.finish(st2, e.why); extra = []
            try: s.jump(st, fr, a)
            except PathEnd as e: return ('forkdead', extra, e.why)
            return ('fork', extra) if extra else None
        if ma is not None: s.assume(st, ct, ma); s.jump(st, fr, a)
        elif mb is not None: s.assume(st, cf, mb); s.jump(st, fr, b)
        else: raise PathEnd('infeasible')
        return None

    # ---------- on-the-fly if-conversion of triangles / diamonds made of straight-line blocks
    _SIMPLE = ('bin', 'icmp', 'cast', 'select', 'gep', 'load', 'store', 'extractvalue', 'insertvalue', 'freeze')

    def side_target(s, fn, lb):
        key = ('side', lb); c = fn.__dict__.setdefault('_cache', {}) if hasattr(fn, '__dict__') else None
        blk = fn.blocks[lb]
        if len(blk) > 40 or blk[-1][0] != 'br': return None
        for ins in blk[:-1]:
            k = ins[0]
            if k in s._SIMPLE or k == 'phi': continue
            if k == 'call' and ins[3][0] == 'glob' and ins[3][1].startswith('llvm.') and ins[5] is None: continue
            return None
        return blk[-1][1]

    def deftype(s, fn, name):
        dt = s.deftypes.get(id(fn))
        if dt is None:
            dt = {}
            for t, n in fn.params: dt[n] = t
            for blk in fn.blocks.values():
                for ins in blk:
                    k = ins[0]
                    if k == 'bin': dt[ins[1]] = ins[4]
                    elif k == 'icmp': dt[ins[1]] = IntT(1)
                    elif k == 'cast': dt[ins[1]] = ins[5]
                    elif k in ('select',): dt[ins[1]] = ins[3]
                    elif k in ('load', 'phi', 'freeze'): dt[ins[1]] = ins[2]
                    elif k == 'call' and ins[1] is not None: dt[ins[1]] = ins[2]
                    elif k in ('gep', 'alloca'): dt[ins[1]] = PtrT(IntT(8))
            s.deftypes[id(fn)] = dt
        return dt.get(name)

    def mval(s, c, x, y, ty):
        """merge two values under condition c (z3 Bool); raises KeyError when not mergeable"""
        if x is y: return x
        if x is None or y is None or isinstance(x, PU) or isinstance(y, PU): raise KeyError('undef')
        if isinstance(x, Ptr) or isinstance(y, Ptr):
            if not (isinstance(x, Ptr) and isinstance(y, Ptr)) or x.obj != y.obj or isinstance(x.obj, tuple): raise KeyError('ptr')
            if s.same_ptr(x, y): return x
            return Ptr(x.obj, simp(z3.If(c, bv(x.off, 64), bv(y.off, 64))))
        if isinstance(x, list) or isinstance(y, list):
            if not (isinstance(x, list) and isinstance(y, list)) or len(x) != len(y): raise KeyError('agg')
            rt = res(ty) if ty is not None else None
            if isinstance(rt, StructT): ets = rt.elems
            elif isinstance(rt, ArrT): ets = [rt.e] * rt.n
            else: raise KeyError('aggty')
            return [s.mval(c, a, b, t) for a, b, t in zip(x, y, ets)]
        if isinstance(x, tuple) or isinstance(y, tuple): raise KeyError('float')
        xs, ys = is_sym(x), is_sym(y)
        if not xs and not ys:
            if x == y: return x
            rt = res(ty) if ty is not None else None
            if isinstance(rt, IntT): n = rt.n
            elif isinstance(rt, PtrT): n = 64
            else: raise KeyError('width')
        else:
            n = x.size() if xs else y.size()
            if xs and ys and x.eq(y): return x
        return simp(z3.If(c, bv(x, n), bv(y, n)))

    def mcell(s, c, x, y):
        if x is y: return x
        if x is None or y is None: raise KeyError('undef cell')
        if isinstance(x, tuple) or isinstance(y, tuple):
            if not (isinstance(x, tuple) and isinstance(y, tuple)) or x[1] != y[1]: raise KeyError('frag')
            if s.same_ptr(x[0], y[0]): return x
            raise KeyError('frag')
        if not is_sym(x) and not is_sym(y) and x == y: return x
        if is_sym(x) and is_sym(y) and x.eq(y): return x
        return z3.If(c, bv(x, 8), bv(y, 8))      # not simplified: see explode()/join_cells()

    def try_merge(s, st, fr, ct, a, b, ma, mb):
        fn = fr.fn; ta = s.side_target(fn, a); tb = s.side_target(fn, b)
        if ta is not None and ta == tb and ta != a and ta != b: J = ta; sa, sb = a, b
        elif ta is not None and ta == b: J = b; sa, sb = a, None
        elif tb is not None and tb == a: J = a; sa, sb = None, b
        else: return False
        cur = fr.block; nviol = len(s.violations); vk = set(s.vkeys); base = len(st.pc)
        sides = []
        try:
            for lb, cond, m in ((sa, ct, ma), (sb, z3.Not(ct), mb)):
                t = st.clone(); s.assume(t, cond, m); tf = t.frames[-1]
                if lb is not None:
                    s.jump(t, tf, lb); blk = fn.blocks[lb]
                    while tf.idx < len(blk) - 1:
                        ins = blk[tf.idx]; tf.idx += 1; t.steps += 1; s.insn += 1
                        s.exec_ins(t, tf, ins)
                if len(t.inputs) != len(st.inputs) or len(t.out) != len(st.out) or len(t.frames) != len(st.frames): raise KeyError('effects')
                sides.append((t, lb if lb is not None else cur))
            (A, pa), (B, pb) = sides; ea, eb = A.frames[-1].env, B.frames[-1].env
            env = {}
            for k in ea.keys() | eb.keys():
                if k in ea and k in eb:
                    x, y = ea[k], eb[k]
                    env[k] = x if x is y else s.mval(ct, x, y, s.deftype(fn, k))
                else: env[k] = ea[k] if k in ea else eb[k]
            # phis of the join block
            jb = fn.blocks[J]; phis = []; nphi = 0
            for ins in jb:
                if ins[0] != 'phi': break
                nphi += 1; va = ins[3].get(pa); vb_ = ins[3].get(pb)
                if va is None or vb_ is None: raise KeyError('phi')
                phis.append((ins[1], s.mval(ct, s.val(A, va, ins[2]), s.val(B, vb_, ins[2]), ins[2])))
            if set(A.mem.keys()) != set(B.mem.keys()): raise KeyError('alloc')
            newmem = {}
            for oid, oa in A.mem.items():
                ob = B.mem[oid]
                if oa is ob: continue
                if oa.alive != ob.alive or len(oa.cells) != len(ob.cells): raise KeyError('objshape')
                ca, cb = oa.cells, ob.cells; cells = None
                for i in range(len(ca)):
                    x, y = ca[i], cb[i]
                    if x is y: continue
                    z = s.mcell(ct, x, y)
                    if cells is None: cells = list(ca)
                    cells[i] = z
                if cells is not None:
                    o = oa.clone(); o.cells = cells; newmem[oid] = o
                else: newmem[oid] = oa
        except (KeyError, Fork, PathEnd, Inconclusive, Unwound):
            del s.violations[nviol:]; s.vkeys = vk
            return False
        # commit
        st.mem = dict(A.mem); st.own = set()
        for oid, o in newmem.items(): st.mem[oid] = o
        st.next_id = max(A.next_id, B.next_id)
        st.pc = st.pc[:base] + [z3.Implies(ct, x) for x in A.pc[base + 1:]] + [z3.Implies(z3.Not(ct), y) for y in B.pc[base + 1:]]
        st.model = A.model; st.steps = A.steps + (B.steps - st.steps)
        fr.env = env
        for k, v in A.frames[-1].visits.items(): fr.visits[k] = max(fr.visits.get(k, 0), v)
        for k, v in B.frames[-1].visits.items(): fr.visits[k] = max(fr.visits.get(k, 0), v)
        for d, v in phis: env[d] = v
        fr.prev = pa; fr.block = J; fr.idx = nphi
        c = fr.visits.get(J, 0) + 1; fr.visits[J] = c
        s.merges += 1
        if c > s.lim.loop:
            s.record(st, 'loop', 'loop bound %d exceeded at block %%%s of %s' % (s.lim.loop, J, fn.name), s.model_of(st, st.model), s.uf_tables(st.model))
            raise PathEnd('loop-bound')
        return True

    def binop(s, st, op, flags, ty, a, b):
        rt = res(ty)
        if isinstance(rt, VecT): raise Inconclusive('vector arithmetic')
        n = rt.n
        if a is None or b is None or isinstance(a, PU) or isinstance(b, PU):
            if a is None and b is None: return None
            return pu_binop(op, n, a, b)
        if isinstance(a, Ptr): a = s.p2i(a)
        if isinstance(b, Ptr): b = s.p2i(b)
        asym = is_sym(a); bsym = is_sym(b)
        if op in ('udiv', 'urem', 'sdiv', 'srem'):
            if bsym:
                m = s.feasible(st, b == 0)
                if m is not None: s.ub_sym(st, b == 0, 'division by zero', m)
            elif b == 0: s.ub(st, 'division by zero')
        elif op in ('shl', 'lshr', 'ashr'):
            # LLVM: an out-of-range shift amount yields poison (source-level UB is planted as ubsan traps by the front end)
            if bsym:
                c = z3.UGE(b, n); m = s.feasible(st, c)
                if m is not None: return s.poison_fork(st, c, lambda: s.binop_val(op, flags, n, a, b))
            elif b >= n: return None
        if not asym and not bsym:
            sa, sb = sgn(a, n), sgn(b, n)
            if op == 'add': r = a + b; ex = sa + sb
            elif op == 'sub': r = a - b; ex = sa - sb
            elif op == 'mul': r = a * b; ex = sa * sb
            elif op == 'and': return a & b
            elif op == 'or': return a | b
            elif op == 'xor': return a ^ b
            elif op == 'udiv': return a // b
            elif op == 'urem': return a % b
            elif op == 'sdiv':
                if sa == -(1 << (n - 1)) and sb == -1: s.ub(st, 'signed division overflow')
                q = abs(sa) // abs(sb); return mask(q if (sa < 0) == (sb < 0) else -q, n)
            elif op == 'srem':
                if sa == -(1 << (n - 1)) and sb == -1: s.ub(st, 'signed division overflow')
                q = abs(sa) // abs(sb); q = q if (sa < 0) == (sb < 0) else -q; return mask(sa - q * sb, n)
            elif op == 'shl':
                r = a << b
                if 'nuw' in flags and r >> n: return None
                if 'nsw' in flags and sgn(mask(r, n), n) != sa * (1 << b): return None
                return mask(r, n)
            elif op == 'lshr': return a >> b
            elif op == 'ashr': return mask(sa >> b, n)
            if 'nsw' in flags and not (-(1 << (n - 1)) <= ex < (1 << (n - 1))): return None
            if 'nuw' in flags and not (0 <= r < (1 << n)): return None
            return mask(r, n)
        A, B = bv(a, n), bv(b, n)
        bad = None
        if op == 'mul' and flags and lead_zeros(A, n) + lead_zeros(B, n) >= n + (1 if 'nsw' in flags else 0): flags = ()
        if op in ('add', 'sub', 'mul') and flags:
            bads = []
            if 'nsw' in flags:
                bads.append({'add': lambda: z3.Not(z3.And(z3.BVAddNoOverflow(A, B, True), z3.BVAddNoUnderflow(A, B))),
                             'sub': lambda: z3.Not(z3.And(z3.BVSubNoOverflow(A, B), z3.BVSubNoUnderflow(A, B, True))),
                             'mul': lambda: z3.Not(z3.And(z3.BVMulNoOverflow(A, B, True), z3.BVMulNoUnderflow(A, B)))}[op]())
            if 'nuw' in flags:
                bads.append({'add': lambda: z3.Not(z3.BVAddNoOverflow(A, B, False)), 'sub': lambda: z3.ULT(A, B), 'mul': lambda: z3.Not(z3.BVMulNoOverflow(A, B, False))}[op]())
            bad = z3.Or(*bads) if len(bads) > 1 else bads[0]
        elif op == 'shl' and flags:
            bads = []
            if 'nuw' in flags: bads.append(z3.LShR(A << B, B) != A)
            if 'nsw' in flags: bads.append(((A << B) >> B) != A)
            bad = z3.Or(*bads) if len(bads) > 1 else bads[0]
        elif op == 'sdiv' or op == 'srem':
            ovf = z3.And(A == (1 << (n - 1)), B == mask(-1, n)); m = s.feasible(st, ovf)
            if m is not None: s.ub_sym(st, ovf, 'signed division overflow', m)
        if bad is not None:
            # LLVM: nsw/nuw overflow yields poison, not immediate UB
            m = s.feasible(st, bad)
            if m is not None: return s.poison_fork(st, bad, lambda: s.binop_val(op, flags, n, a, b))
        return s.binop_val(op, flags, n, a, b)

    def poison_fork(s, st, bad, mk):
        good = s.feasible(st, z3.Not(bad))
        if good is None: return None
        raise Fork([(bad, None), (z3.Not(bad), mk())], 'ret')

    def binop_val(s, op, flags, n, a, b):
        A, B = bv(a, n), bv(b, n)
        if op == 'add': r = A + B
        elif op == 'sub': r = A - B
        elif op == 'mul': r = A * B
        elif op == 'and': r = A & B
        elif op == 'or': r = A | B
        elif op == 'xor': r = A ^ B
        elif op == 'udiv': r = z3.UDiv(A, B)
        elif op == 'urem': r = z3.URem(A, B)
        elif op == 'sdiv': r = A / B
        elif op == 'srem': r = z3.SRem(A, B)
        elif op == 'shl': r = A << B
        elif op in ('lshr', 'ashr'):
            r = None
            if not is_sym(b) and 0 < b < n and is_sym(a):
                A = z3.simplify(A)
                if tz_bits(A) >= b: r = (z3.ZeroExt if op == 'lshr' else z3.SignExt)(b, shr_exact(A, b))
            if r is None: r = z3.LShR(A, B) if op == 'lshr' else A >> B
        else: raise Inconclusive('binop ' + op)
        return simp(r)

    def icmp(s, st, pred, ty, a, b):
        if a is None or b is None or isinstance(a, PU) or isinstance(b, PU): return None
        if isinstance(a, Ptr) or isinstance(b, Ptr):
            if not isinstance(a, Ptr): a = s.i2p(a)
            if not isinstance(b, Ptr): b = s.i2p(b)
            if a.obj != b.obj:
                if pred == 'eq': return 0
                if pred == 'ne': return 1
                a, b = s.p2i(a), s.p2i(b)
            else: a, b = a.off, b.off
            n = 64
        else:
            rt = res(ty)
            if isinstance(rt, PtrT): n = 64
            elif isinstance(rt, IntT): n = rt.n
            else: raise Inconclusive('icmp on ' + repr(rt))
        if not is_sym(a) and not is_sym(b):
            if pred[0] == 's': a, b = sgn(mask(a, n), n), sgn(mask(b, n), n)
            if pred == 'eq': return int(a == b)
            if pred == 'ne': return int(a != b)
            if pred in ('ult', 'slt'): return int(a < b)
            if pred in ('ule', 'sle'): return int(a <= b)
            if pred in ('ugt', 'sgt'): return int(a > b)
            return int(a >= b)
        A, B = bv(a, n), bv(b, n)
        if pred == 'eq': c = A == B
        elif pred == 'ne': c = A != B
        elif pred == 'ult': c = z3.ULT(A, B)
        elif pred == 'ule': c = z3.ULE(A, B)
        elif pred == 'ugt': c = z3.UGT(A, B)
        elif pred == 'uge': c = z3.UGE(A, B)
        elif pred == 'slt': c = A < B
        elif pred == 'sle': c = A <= B
        elif pred == 'sgt': c = A > B
        else: c = A >= B
        return simp(z3.If(c, z3.BitVecVal(1, 1), z3.BitVecVal(0, 1)))

    def step(s, st):
        fr = st.frames[-1]
        try: ins = fr.fn.blocks[fr.block][fr.idx]
        except IndexError: raise Inconclusive('fell off block %s in %s' % (fr.block, fr.fn.name))
        fr.idx += 1; st.steps += 1; s.insn += 1
        if st.steps > s.lim.steps: raise Inconclusive('step budget exhausted on one path')
        try:
            return s.exec_ins(st, fr, ins)
        except Fork as fk:
            return s.do_fork(st, fr, ins, fk)
        except Unwound:
            return None

    def do_fork(s, st, fr, ins, fk):
        alts = []
        for cond, ret in fk.alts:
            m = s.feasible(st, cond)
            if m is not None: alts.append((cond, ret, m))
        if not alts: raise PathEnd('infeasible')
        out = []; dead = None
        for k, (cond, ret, m) in enumerate(alts):
            last = k == len(alts) - 1
            t = st if last else st.clone()
            s.assume(t, cond, m); tf = t.frames[-1]
            try:
                if fk.mode == 'redo':
                    t.conc[fk.key[0]] = (fk.key[1], ret); tf.idx -= 1; t.steps -= 1
                else:
                    if ins[1] is not None: tf.env[ins[1]] = ret
                    if ins[0] == 'call' and ins[5] is not None: s.jump(t, tf, ins[5])
            except PathEnd as e:
                if last: dead = e.why
                else: s.finish(t, e.why)
                continue
            if not last: out.append(t)
        if dead is not None: return ('forkdead', out, dead)
        return ('fork', out) if out else None

    def exec_ins(s, st, fr, ins):
        k = ins[0]; env = fr.env
        if k == 'bin': env[ins[1]] = s.binop(st, ins[2], ins[3], ins[4], s.val(st, ins[5], ins[4]), s.val(st, ins[6], ins[4]))
        elif k == 'icmp': env[ins[1]] = s.icmp(st, ins[2], ins[3], s.val(st, ins[4], ins[3]), s.val(st, ins[5], ins[3]))
        elif k == 'load': env[ins[1]] = s.load(st, ins[2], s.val(st, ins[3], None))
        elif k == 'store': s.store(st, ins[1], s.val(st, ins[2], ins[1]), s.val(st, ins[3], None))
        elif k == 'gep': env[ins[1]] = s.gep(st, ins[2], s.val(st, ins[3], None), [(it, s.val(st, iv, it)) for it, iv in ins[4]])
        elif k == 'cast':
            _, d, op, ft, v, tt = ins; x = s.val(st, v, ft); rf, rt = res(ft), res(tt)
            if isinstance(rf, VecT) or isinstance(rt, VecT): raise Inconclusive('vector cast')
            if x is None or isinstance(x, PU):
                if isinstance(rf, IntT) and isinstance(rt, IntT) and op in ('zext', 'trunc'):
                    xv, xu = pu_parts(x, rf.n)
                    if op == 'trunc': xv = (simp(z3.Extract(rt.n - 1, 0, xv)) if is_sym(xv) else mask(xv, rt.n))
                    elif is_sym(xv): xv = simp(z3.ZeroExt(rt.n - rf.n, xv))
                    env[d] = pu_norm(xv, xu, rt.n)
                elif isinstance(x, PU) and op in ('inttoptr', 'ptrtoint', 'bitcast') and isinstance(rf, (IntT, PtrT)) and isinstance(rt, (IntT, PtrT)) and \
                        (64 if isinstance(rf, PtrT) else rf.n) == (64 if isinstance(rt, PtrT) else rt.n): env[d] = x
                else: env[d] = None
            elif op == 'zext':
                if isinstance(x, Ptr): x = s.p2i(x)
                env[d] = simp(z3.ZeroExt(rt.n - rf.n, x)) if is_sym(x) else x
            elif op == 'sext':
                if isinstance(x, Ptr): x = s.p2i(x)
                env[d] = simp(z3.SignExt(rt.n - rf.n, x)) if is_sym(x) else mask(sgn(x, rf.n), rt.n)
            elif op == 'trunc':
                if isinstance(x, Ptr): x = s.p2i(x)
                env[d] = simp(z3.Extract(rt.n - 1, 0, x)) if is_sym(x) else mask(x, rt.n)
            elif op == 'ptrtoint':
                y = s.p2i(x) if isinstance(x, Ptr) else x
                env[d] = y if rt.n == 64 else (simp(z3.Extract(rt.n - 1, 0, y)) if is_sym(y) else mask(y, rt.n))
            elif op == 'inttoptr':
                if isinstance(x, Ptr): env[d] = x
                else:
                    if rf.n < 64: x = simp(z3.ZeroExt(64 - rf.n, x)) if is_sym(x) else x
                    env[d] = s.i2p(x)
            else:  # bitcast
                if isinstance(rf, (IntT, PtrT)) and isinstance(rt, (IntT, PtrT)): env[d] = x
                elif isinstance(rf, FloatT) or isinstance(rt, FloatT): env[d] = x
                else: raise Inconclusive('bitcast %r -> %r' % (rf, rt))
        elif k == 'select':
            _, d, c, t, a, b = ins; cv = s.need(st, s.val(st, c, IntT(1)), 'select'); av, bvv = s.val(st, a, t), s.val(st, b, t)
            if not is_sym(cv): env[d] = av if cv else bvv
            else:
                rt = res(t)
                if isinstance(av, Ptr) and isinstance(bvv, Ptr) and av.obj == bvv.obj and not isinstance(av.obj, tuple):
                    env[d] = Ptr(av.obj, simp(z3.If(cv == 1, bv(av.off, 64), bv(bvv.off, 64))))
                elif isinstance(av, (Ptr, list, tuple, PU)) or isinstance(bvv, (Ptr, list, tuple, PU)) or av is None or bvv is None:
                    if av is None and bvv is None: env[d] = None
                    else: raise Fork([(cv != 0, av), (cv == 0, bvv)], 'ret')
                else:
                    n = rt.n if isinstance(rt, IntT) else 64
                    env[d] = simp(z3.If(cv == 1, bv(av, n), bv(bvv, n)))
        elif k == 'alloca':
            t = res(ins[2]); n = t.size()
            if ins[3] is not None:
                c = s.concretize(st, s.need(st, s.val(st, ins[3][1], ins[3][0]), 'alloca count'), 'alloca count'); n *= c
            p = s.alloc(st, max(n, 1), 'stack', '%' + ins[1] + ' in ' + fr.fn.name); fr.allocas.append(p.obj); env[ins[1]] = p
        elif k == 'br': s.jump(st, fr, ins[1])
        elif k == 'condbr': return s.branch(st, s.val(st, ins[1], IntT(1)), ins[2], ins[3])
        elif k == 'switch':
            _, t, v, d, cs = ins; x = s.need(st, s.val(st, v, t), 'switch'); n = res(t).n
            if isinstance(x, Ptr): x = s.p2i(x)
            if not is_sym(x):
                to = d
                for cv, lb in cs:
                    if mask(cv, n) == x: to = lb; break
                s.jump(st, fr, to)
            else:
                bylabel = {}
                for cv, lb in cs: bylabel.setdefault(lb, []).append(x == mask(cv, n))
                forks = []
                for lb, conds in bylabel.items():
                    c = z3.Or(*conds) if len(conds) > 1 else conds[0]
                    m = s.feasible(st, c)
                    if m is not None: forks.append((c, lb, m))
                dc = z3.And(*[x != mask(cv, n) for cv, lb in cs]) if cs else z3.BoolVal(True)
                m = s.feasible(st, dc)
                if m is not None: forks.append((dc, d, m))
                if not forks: raise PathEnd('infeasible')
                extra = []
                for cnd, lb, m in forks[1:]:
                    st2 = st.clone(); s.assume(st2, cnd, m)
                    try: s.jump(st2, st2.frames[-1], lb); extra.append(st2)
                    except PathEnd as e: s.finish(st2, e.why)
                s.assume(st, forks[0][0], forks[0][2])
                try: s.jump(st, fr, forks[0][1])
                except PathEnd as e: return ('forkdead', extra, e.why)
                if extra: return ('fork', extra)
        elif k == 'ret':
            rv = s.val(st, ins[2], ins[1]) if ins[2] is not None else None
            for oid in fr.allocas:
                o = st.wobj(oid); o.alive = False; o.cells = []
            st.frames.pop()
            if not st.frames: return ('ret', rv)
            cf = st.frames[-1]
            if fr.dst is not None: cf.env[fr.dst] = rv
            if fr.normal is not None: s.jump(st, cf, fr.normal)
        elif k == 'call': return s.call(st, fr, ins)
        elif k == 'phi': raise Inconclusive('phi not at block start')
        elif k == 'unreachable': s.ub(st, 'llvm unreachable reached in ' + fr.fn.name)
        elif k == 'extractvalue':
            x = s.val(st, ins[3], ins[2])
            for i in ins[4]: x = x[i] if x is not None else None
            env[ins[1]] = x
        elif k == 'insertvalue':
            x = s.val(st, ins[3], ins[2])
            x = s.zero(ins[2], None) if x is None else copy.copy(x)
            y = x
            for i in ins[6][:-1]:
                y[i] = copy.copy(y[i]) if y[i] is not None else None; y = y[i]
            y[ins[6][-1]] = s.val(st, ins[5], ins[4]); env[ins[1]] = x
        elif k == 'freeze':
            x = s.val(st, ins[3], ins[2]); env[ins[1]] = s.zero(ins[2], 0) if x is None else x
        elif k == 'resume':
            for oid in fr.allocas:
                o = st.wobj(oid); o.alive = False; o.cells = []
            st.frames.pop(); s.unwind(st); raise Unwound()
        elif k == 'landingpad':
            if st.lpval is None: raise Inconclusive('landing pad reached without an exception in flight')
            env[ins[1]] = st.lpval; st.lpval = None
        elif k == 'atomicrmw':
            _, d, rop, t, ptr, v = ins; p = s.val(st, ptr, None); old = s.load(st, t, p); x = s.val(st, v, t)
            if rop == 'xchg': new = x
            elif rop in ('add', 'sub', 'and', 'or', 'xor'): new = s.binop(st, rop, (), t, old, x)
            else: raise Inconclusive('atomicrmw ' + rop)
            s.store(st, t, new, p); env[d] = old
        elif k == 'cmpxchg':
            _, d, t, ptr, cm, new = ins; p = s.val(st, ptr, None); old = s.load(st, t, p); c = s.val(st, cm, t); nv = s.val(st, new, t)
            eq = s.icmp(st, 'eq', t, old, c)
            eq = s.concretize(st, eq, 'cmpxchg outcome')
            if eq: s.store(st, t, nv, p)
            env[d] = [old, eq]
        elif k == 'fp': raise Inconclusive('floating point / unsupported instruction: ' + ins[2])
        elif k == 'vec': raise Inconclusive('vector instruction: ' + ins[2])
        else: raise Inconclusive('instruction ' + k)
        return None

    def call(s, st, fr, ins):
        _, dst, rt, callee, args, normal, unwind = ins
        avs = [s.val(st, av, at) for at, av in args]
        if callee[0] == 'glob': name = fr.mod.resolve(callee[1])
        else:
            p = s.val(st, callee, None)
            if not isinstance(p, Ptr) and p is not None and not is_sym(p): p = s.i2p(p)
            if not (isinstance(p, Ptr) and isinstance(p.obj, tuple)): s.ub(st, 'indirect call through non-function pointer %r' % (p,))
            name = p.obj[1]
        if s.redirects:
            for rx, tgt in s.redirects:
                if rx.search(name):
                    s.ext_calls['stub:' + tgt] = s.ext_calls.get('stub:' + tgt, 0) + 1; name = tgt; break
        if name.startswith('llvm.'):
            r = s.intrinsic(st, name, avs, args)
            if dst is not None: fr.env[dst] = r
            if normal: s.jump(st, fr, normal)
            return None
        h = s.ext.get(name)
        if h is None and name not in s.fn_of:
            for pre, hh in s.ext_prefix:
                if name.startswith(pre): h = hh; break
        if h is not None:
            if not name.startswith('verif_'): s.ext_calls[name] = s.ext_calls.get(name, 0) + 1
            r = h(st, avs, name)
            if dst is not None: fr.env[dst] = r
            if normal: s.jump(st, fr, normal)
            return None
        fm = s.fn_of.get(name)
        if fm is not None:
            f, m = fm
            nf = Frame(f, m, dst, normal, unwind)
            if len(avs) != len(f.params): raise Inconclusive('call arity mismatch for ' + name)
            for (t, n), a in zip(f.params, avs): nf.env[n] = a
            # //@probe REGEX TARGET: the kernel-defined void TARGET(void) runs on entry of every matching function
            # (frame stacked on top of the callee's frame, so the callee starts when the probe returns)
            for rx, tgt in s.probes:
                if rx.search(name) and tgt in s.fn_of and name != tgt:
                    pf_, pm_ = s.fn_of[tgt]
                    if pf_.params: raise Inconclusive('probe %s must take no arguments' % tgt)
                    s.ext_calls['probe:' + tgt] = s.ext_calls.get('probe:' + tgt, 0) + 1
                    st.frames.append(nf); s.fns_executed[name] = f.ninstr
                    st.frames.append(Frame(pf_, pm_, None, None, None)); s.fns_executed[tgt] = pf_.ninstr
                    return None
            if len(st.frames) > s.lim.depth:
                mm = s.feasible(st)
                if mm is None: raise PathEnd('infeasible')
                s.record(st, 'loop', 'recursion depth %d exceeded in %s' % (s.lim.depth, name), s.model_of(st, mm)); raise PathEnd('loop-bound')
            st.frames.append(nf); s.fns_executed[name] = f.ninstr
            return None
        raise Inconclusive('unmodelled external function ' + name)

    # ---------- exceptions (Itanium ABI, single inheritance offsets 0)
    STD_BASES = {'_ZTISt12length_error': '_ZTISt11logic_error', '_ZTISt12out_of_range': '_ZTISt11logic_error', '_ZTISt16invalid_argument': '_ZTISt11logic_error',
                 '_ZTISt12domain_error': '_ZTISt11logic_error', '_ZTISt11logic_error': '_ZTISt9exception', '_ZTISt13runtime_error': '_ZTISt9exception',
                 '_ZTISt11range_error': '_ZTISt13runtime_error', '_ZTISt14overflow_error': '_ZTISt13runtime_error', '_ZTISt15underflow_error': '_ZTISt13runtime_error',
                 '_ZTISt12system_error': '_ZTISt13runtime_error', '_ZTINSt8ios_base7failureB5cxx11E': '_ZTISt12system_error', '_ZTISt9bad_alloc': '_ZTISt9exception',
                 '_ZTISt20bad_array_new_length': '_ZTISt9bad_alloc', '_ZTISt8bad_cast': '_ZTISt9exception', '_ZTISt10bad_typeid': '_ZTISt9exception',
                 '_ZTISt17bad_function_call': '_ZTISt9exception', '_ZTISt19bad_optional_access': '_ZTISt9exception', '_ZTISt18bad_variant_access': '_ZTISt9exception',
                 '_ZTISt13bad_exception': '_ZTISt9exception'}

    def ti_bases(s, t):
        b = s.STD_BASES.get(t)
        if b: return [b]
        for m in s.mods:
            g = m.globals.get(t)
            if g is not None and g[1] is not None and g[1][0] == 'agg':
                out = []
                def walk(v, depth):
                    if v[0] == 'glob' and v[1].startswith('_ZTI'): out.append(m.resolve(v[1]))
                    elif v[0] == 'agg':
                        for et, ev in v[1]: walk(ev, depth + 1)
                    elif v[0] == 'cgep': walk(v[2], depth + 1)
                for et, ev in g[1][1][2:]: walk(ev, 0)
                return out
        return []

    def ti_is_base(s, c, t, depth=0):
        if c == t: return True
        if depth > 12: return False
        return any(s.ti_is_base(c, b, depth + 1) for b in s.ti_bases(t))

    def typeid(s, name):
        i = s.typeids.get(name)
        if i is None: i = s.typeids[name] = len(s.typeids) + 1
        return i

    def landing_info(s, fn, lb):
        key = (id(fn), lb); r = s.lpcache.get(key)
        if r is None:
            blk = fn.blocks[lb]; lp = None
            for ins in blk:
                if ins[0] == 'phi': continue
                lp = ins; break
            if lp is None or lp[0] != 'landingpad': raise Inconclusive('unwind destination without landingpad in ' + fn.name)
            txt = lp[2]; catches = []
            if 'filter' in txt: raise Inconclusive('exception specification filter')
            import re as _re
            for m in _re.finditer(r'catch i8\* (null|[^@]*@("[^"]*"|[\w.$-]+))', txt):
                catches.append(None if m.group(1) == 'null' else m.group(2).strip('"'))
            r = s.lpcache[key] = (catches, bool(_re.search(r'\bcleanup\b', txt)))
        return r

    def throw_exc(s, st, tinfo, obj):
        st.exc = (tinfo, obj); st.log.append('throw:' + tinfo)
        s.unwind(st); raise Unwound()

    def unwind(s, st):
        tinfo, obj = st.exc
        while st.frames:
            fr = st.frames[-1]
            ins = fr.fn.blocks[fr.block][fr.idx - 1] if fr.idx > 0 else None
            if ins is not None and ins[0] == 'call' and ins[6] is not None:
                catches, cleanup = s.landing_info(fr.fn, ins[6]); sel = None
                for c in catches:
                    if c is None: sel = s.typeid('<catch-all>'); break
                    if s.ti_is_base(fr.mod.resolve(c), tinfo): sel = s.typeid(fr.mod.resolve(c)); break
                if sel is None and cleanup: sel = 0
                if sel is not None:
                    st.lpval = [obj, sel]; s.jump(st, fr, ins[6]); return
            for oid in fr.allocas:
                o = st.wobj(oid); o.alive = False; o.cells = []
            st.frames.pop()
        # left the harness
        pretty = s.STD_PRETTY.get(tinfo, tinfo)
        if pretty not in s.allowed_throws and tinfo not in s.allowed_throws and '*' not in s.allowed_throws:
            m = s.feasible(st)
            if m is None: raise PathEnd('infeasible')
            st.frames.append(s.root_frame)
            s.record(st, 'throw', 'undocumented exception %s escapes' % pretty, s.model_of(st, m), s.uf_tables(m)); st.frames.pop()
        raise PathEnd('throw:' + pretty)

    STD_PRETTY = {}

    def do_throw(s, st, tname, why):
        """libstdc++ __throw_* helper or rethrow: tname is 'std::xxx'"""
        short = tname.split('::', 1)[1] if tname.startswith('std::') else tname
        ti = {'ios_failure': '_ZTINSt8ios_base7failureB5cxx11E'}.get(short, '_ZTISt%d%s' % (len(short), short))
        s.STD_PRETTY[ti] = tname
        obj = s.alloc(st, 64, 'exc', 'exception ' + tname)
        s.throw_exc(st, ti, obj)

    def intrinsic(s, st, name, a, args):
        if name.startswith(('llvm.lifetime', 'llvm.invariant', 'llvm.experimental.noalias', 'llvm.stackrestore', 'llvm.prefetch', 'llvm.donothing', 'llvm.var.annotation')): return None
        if name.startswith('llvm.stacksave'): return NULL
        if name.startswith('llvm.assume'):
            c = a[0]
            if c is None: return None
            if is_sym(c):
                m = s.feasible(st, c == 0)
                if m is not None: s.ub_sym(st, c == 0, 'llvm.assume violated', m)
            elif c == 0: s.ub(st, 'llvm.assume violated')
            return None
        if name.startswith('llvm.ubsantrap'):
            kinds = {0: 'add overflow', 1: 'builtin unreachable', 3: 'divrem overflow', 5: 'float cast overflow', 8: 'invalid builtin', 10: 'load invalid value', 12: 'mul overflow', 13: 'negate overflow', 16: 'nullability', 18: 'out of bounds', 19: 'pointer overflow', 20: 'shift out of bounds', 21: 'sub overflow', 22: 'type mismatch / null'}
            s.ub(st, 'ubsan trap: ' + kinds.get(a[0] if isinstance(a[0], int) else -1, str(a[0])))
        if name.startswith('llvm.trap'): s.ub(st, 'llvm.trap')
        if name.startswith('llvm.eh.typeid.for'):
            p = a[0]
            if isinstance(p, Ptr) and p.obj in st.mem: return s.typeid(st.mem[p.obj].name.lstrip('@'))
            return s.typeid('<catch-all>')
        if name.startswith('llvm.expect'): return a[0]
        if name.startswith('llvm.load.relative'):
            # relative lookup table (rel-lookup-table-converter): entry = trunc(ptrtoint(target) - ptrtoint(table)); the
            # (object, offset) pointer encoding cannot survive the truncation, so read the target from the initializer
            p = a[0]; off = s.concretize(st, a[1], 'load.relative offset')
            if not isinstance(p, Ptr) or isinstance(p.obj, tuple) or p.obj not in st.mem or is_sym(p.off): raise Inconclusive('llvm.load.relative on a non-global table')
            o = st.mem[p.obj]; gname = o.name.lstrip('@'); pos = p.off + sgn(off, 64)
            if o.kind != 'const' or pos < 0 or pos % 4 or pos + 4 > len(o.cells): s.ub(st, 'llvm.load.relative outside its table')
            for m in s.mods:
                g = m.globals.get(gname)
                if g is None or g[1] is None or g[1][0] != 'agg': continue
                ev = g[1][1][pos // 4][1]
                if ev[0] == 'ccast' and ev[3][0] == 'cbin' and ev[3][1] == 'sub' and ev[3][3][0] == 'p2i':
                    fr = Frame.__new__(Frame); fr.mod = m; fr.env = {}; fr.fn = None
                    st.frames.append(fr)
                    try: return s.val(st, ev[3][3][1], None)
                    finally: st.frames.pop()
            raise Inconclusive('llvm.load.relative: unrecognised table ' + gname)
        if name.startswith('llvm.objectsize'): return mask(-1, res(args[0][0]).n if False else 64)
        if name.startswith('llvm.is.constant'): return 0
        if name.startswith(('llvm.memcpy', 'llvm.memmove')):
            import models
            models.mem_copy(s, st, a[0], a[1], a[2], name.startswith('llvm.memmove')); return None
        if name.startswith('llvm.memset'):
            import models
            models.mem_set(s, st, a[0], a[1], a[2]); return None
        t = res(args[0][0]); n = t.n if isinstance(t, IntT) else 0
        x = a[0]
        if x is None: return None
        base = name.split('.')[1]
        if base in ('umin', 'umax', 'smin', 'smax'):
            y = a[1]
            if y is None: return None
            c = s.icmp(st, {'umin': 'ult', 'umax': 'ugt', 'smin': 'slt', 'smax': 'sgt'}[base], t, x, y)
            if not is_sym(c): return x if c else y
            return simp(z3.If(c == 1, bv(x, n), bv(y, n)))
        if base == 'ctpop':
            if not is_sym(x): return bin(x).count('1')
            return simp(z3.Sum([z3.ZeroExt(n - 1, z3.Extract(i, i, x)) for i in range(n)])) if n > 1 else x
        if base in ('ctlz', 'cttz'):
            zu = a[1]
            if not is_sym(x):
                if x == 0:
                    if zu: s.ub(st, base + ' of zero with is_zero_undef')
                    return n
                if base == 'ctlz': return n - x.bit_length()
                return (x & -x).bit_length() - 1
            if zu:
                m = s.feasible(st, x == 0)
                if m is not None: s.ub_sym(st, x == 0, base + ' of zero with is_zero_undef', m)
            r = z3.BitVecVal(n, n)
            rng = range(n) if base == 'ctlz' else range(n - 1, -1, -1)
            for i in rng:
                r = z3.If(z3.Extract(i, i, x) == 1, z3.BitVecVal((n - 1 - i) if base == 'ctlz' else i, n), r)
            return simp(r)
        if base == 'abs':
            if not is_sym(x):
                if a[1] and x == 1 << (n - 1): s.ub(st, 'abs of INT_MIN')
                return mask(abs(sgn(x, n)), n)
            if a[1]:
                c = x == (1 << (n - 1)); m = s.feasible(st, c)
                if m is not None: s.ub_sym(st, c, 'abs of INT_MIN', m)
            return simp(z3.If(x < 0, -x, x))
        if base == 'bswap':
            if not is_sym(x): return int.from_bytes(x.to_bytes(n // 8, 'little'), 'big')
            return simp(z3.Concat(*[z3.Extract(8 * k + 7, 8 * k, x) for k in range(n // 8)]))
        if base == 'bitreverse':
            if not is_sym(x): return int(format(x, '0%db' % n)[::-1], 2)
            return simp(z3.Concat(*[z3.Extract(k, k, x) for k in range(n)]))
        if base in ('fshl', 'fshr'):
            y, z = a[1], a[2]
            if y is None or z is None: return None
            X, Y, Z = bv(x, n), bv(y, n), z3.URem(bv(z, n), z3.BitVecVal(n, n))
            cat = z3.Concat(X, Y)
            if base == 'fshl': r = z3.Extract(2 * n - 1, n, cat << z3.ZeroExt(n, Z))
            else: r = z3.Extract(n - 1, 0, z3.LShR(cat, z3.ZeroExt(n, Z)))
            return simp(r)
        if base in ('sadd', 'uadd', 'ssub', 'usub', 'smul', 'umul') and 'with.overflow' in name:
            y = a[1]
            if y is None: return None
            op = base[1:]; signed = base[0] == 's'
            if not is_sym(x) and not is_sym(y):
                xa, ya = (sgn(x, n), sgn(y, n)) if signed else (x, y)
                ex = xa + ya if op == 'add' else xa - ya if op == 'sub' else xa * ya
                ok = (-(1 << (n - 1)) <= ex < (1 << (n - 1))) if signed else (0 <= ex < (1 << n))
                return [mask(ex, n), 0 if ok else 1]
            X, Y = bv(x, n), bv(y, n)
            if op == 'add': r = X + Y; ok = z3.And(z3.BVAddNoOverflow(X, Y, signed), z3.BVAddNoUnderflow(X, Y)) if signed else z3.BVAddNoOverflow(X, Y, False)
            elif op == 'sub': r = X - Y; ok = z3.And(z3.BVSubNoOverflow(X, Y), z3.BVSubNoUnderflow(X, Y, True)) if signed else z3.UGE(X, Y)
            else: r = X * Y; ok = z3.And(z3.BVMulNoOverflow(X, Y, True), z3.BVMulNoUnderflow(X, Y)) if signed else z3.BVMulNoOverflow(X, Y, False)
            return [simp(r), simp(z3.If(ok, z3.BitVecVal(0, 1), z3.BitVecVal(1, 1)))]
        if base in ('uadd', 'usub', 'sadd', 'ssub') and '.sat' in name:
            y = a[1]; X, Y = bv(x, n), bv(y, n)
            if base == 'uadd': r = z3.If(z3.BVAddNoOverflow(X, Y, False), X + Y, z3.BitVecVal(mask(-1, n), n))
            elif base == 'usub': r = z3.If(z3.UGE(X, Y), X - Y, z3.BitVecVal(0, n))
            else: raise Inconclusive('intrinsic ' + name)
            return simp(r)
        raise Inconclusive('intrinsic ' + name)

    # ---------- uninterpreted functions
    def uf(s, k, nargs):
        key = (k, nargs); f = s.ufs.get(key)
        if f is None:
            f = z3.Function('uf%d_%d' % key, *([z3.BitVecSort(64)] * (nargs + 1))); s.ufs[key] = f
        return f

    # ---------- summary
    def summary(s):
        ends = {}
        for w, _ in s.paths: ends[w] = ends.get(w, 0) + 1
        return {'paths': len(s.paths), 'path_ends': ends, 'instructions': s.insn, 'queries': s.queries, 'model_cache_hits': s.cache_hits, 'solver_s': round(s.qtime, 3),
                'max_query_s': round(s.qmax, 3), 'forks': s.forks, 'merges': s.merges, 'solver_fallbacks': s.fallbacks, 'reached': s.reached, 'violations': s.violations, 'samples': s.samples,
                'functions_executed': len(s.fns_executed), 'functions': dict(sorted(s.fns_executed.items(), key=lambda kv: -kv[1])[:40]), 'wall_s': round(time.time() - s.t0, 3)}


def run_harness(ll_paths, entry, params=None, concrete=None, limits=None, allowed_throws=(), leakcheck=False):
    """returns a result dict; 'status' in ok | violation | inconclusive"""
    t0 = time.time()
    try:
        mods = [Module(open(p).read()) for p in ll_paths]
    except IRError as e:
        return {'status': 'inconclusive', 'reason': 'IR front end: %s' % e, 'harness': entry, 'violations': []}
    ex = Exec(mods, limits, params, concrete, allowed_throws, leakcheck)
    res_ = {'harness': entry, 'params': params or {}}
    try:
        if entry not in ex.fn_of: raise Inconclusive('harness %s not found in IR' % entry)
        ex.run(entry)
        res_['status'] = 'violation' if ex.violations else 'ok'
    except Inconclusive as e:
        res_['status'] = 'inconclusive'; res_['reason'] = str(e)
    except IRError as e:
        res_['status'] = 'inconclusive'; res_['reason'] = 'IR: ' + str(e)
    except RecursionError:
        res_['status'] = 'inconclusive'; res_['reason'] = 'python recursion limit'
    res_.update(ex.summary()); res_['parse_and_run_s'] = round(time.time() - t0, 3)
    return res_


def main():
    import argparse
    ap = argparse.ArgumentParser()
    ap.add_argument('ll', nargs='+'); ap.add_argument('--entry', required=True); ap.add_argument('--param', action='append', default=[])
    ap.add_argument('--loop', type=int, default=64); ap.add_argument('--concrete', default=None); ap.add_argument('--throws', default='')
    ap.add_argument('--leak', action='store_true'); ap.add_argument('--json', action='store_true'); ap.add_argument('--wall', type=float, default=600)
    ap.add_argument('--som', action='store_true')
    a = ap.parse_args()
    params = {}
    for kv in a.param: k, v = kv.split('='); params[k] = int(v)
    conc = json.loads(a.concrete) if a.concrete else None
    lim = Limits(loop=a.loop, wall=a.wall); lim.som = a.som
    r = run_harness(a.ll, a.entry, params, conc, lim, [t for t in a.throws.split(',') if t], a.leak)
    if a.json: print(json.dumps(r, indent=1, default=str))
    else:
        print('status', r['status'], r.get('reason', ''))
        for k in ('paths', 'path_ends', 'instructions', 'queries', 'model_cache_hits', 'solver_s', 'max_query_s', 'reached', 'functions_executed', 'wall_s'): print(' ', k, r.get(k))
        for v in r['violations'][:10]: print('VIOLATION', json.dumps(v, default=str))


if __name__ == '__main__':
    import irsym
    irsym.main()
