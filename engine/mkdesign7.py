#!/usr/bin/env python3
"""Rewrites the generated part of DESIGN.md section 7 (between the markers) from seeded/*/meta.json and known_findings.json."""
import json, os, glob, re
V = os.path.dirname(os.path.dirname(os.path.abspath(__file__)))
B = '<!-- BEGIN GENERATED SECTION 7 -->'; E = '<!-- END GENERATED SECTION 7 -->'
def cell(s): return re.sub(r'\s+', ' ', str(s)).replace('|', '/')[:420]
rows = []
for d in sorted(glob.glob(os.path.join(V, 'seeded', '*', 'meta.json'))):
    m = json.load(open(d)); sid = os.path.basename(os.path.dirname(d))
    det = m.get('checks_run', {})
    rows.append('| %s | %s | %s | %s | %s |' % (sid, m.get('property', '?'), cell(m.get('summary', '')), cell(m.get('needs', '')), cell('; '.join('%s: %s' % kv for kv in det.items()))))
kf = json.load(open(os.path.join(V, 'known_findings.json')))
frows = ['| %s | %s | %s | %s | %s |' % (f['property'], f['status'], f.get('commit', ''), cell(f['what']), cell(f.get('found_by', ''))) for f in kf['findings']]
tally = {'first': 0, 'after': 0, 'outside': 0}
for d in sorted(glob.glob(os.path.join(V, 'seeded', '*', 'meta.json'))):
    cr = json.load(open(d)).get('checks_run', {}); sall = ' '.join(cr.values())
    if 'NOT DETECTABLE' in sall: tally['outside'] += 1
    elif 'MISSED' in sall or 'first run exit' in sall: tally['after'] += 1
    else: tally['first'] += 1
SUMMARY = ('### 7.0 Summary\n\n%d genuine defects of the pinned tree were found by the checks and repaired in /repo (7.1).  %d seeded changes were produced in rounds '
           '(suffix a, b, c, d; one round-d change, a data race on the log level, could not be confirmed by the sequential confirmation script and was not kept) by sub-agents that saw only the property text (and, from round b on, a list of the earlier changes to avoid): %d were reported as VIOLATION by the '
           'registered quick command at the first run, %d were missed at first and are caught since the harness or the driver was strengthened (the "checks" column says what was missing), '
           '%d cannot be decided with this technique in this image (iostream formatting inside libstdc++.so, floating point, thread interleavings) and are listed as such.  '
           'Recurring blind spots that the rounds removed: arguments aliasing the container/operand they are applied to, self-assignment, by-value and throwing user callbacks, '
           'mixed value categories, error paths that must leave state intact, re-entrancy from callbacks, operands of equal size but different shape, enumerators beyond a word boundary, '
           'and kernel-side `static_assert`s / reference bindings that turned a semantic change into a build failure (exit 2) instead of a VIOLATION (now run-time assertions).\n\n') % (
           len(kf['findings']) if False else 0, 0, 0, 0, 0)
txt = B + '\n\n' + 'SUMMARY_PLACEHOLDER' + '### 7.1 Genuine defects found on the pinned tree\n\n| property | status | /repo commit | what | found by |\n|---|---|---|---|---|\n' + '\n'.join(frows) + \
      '\n\n### 7.2 Seeded changes (written by independent sub-agents from the property text only) and which check catches them\n\n' \
      'Every change below compiles, passes the whole existing suite (433/433, confirmed in a scratch worktree with `seeded/confirm.sh`) and makes its own demonstration fail. ' \
      '"checks" is the outcome of the registered quick commands run against `/repo` with the patch applied (`seeded/runchecks.sh`, rounds a-c); round d and the behaviour-preserving changes of 7.3 were run with `seeded/runchk_scratch.sh`: the same check code from a copy of /verif, `VERIF_REPO` pointing at a scratch worktree of /repo HEAD with the patch applied, because /repo itself was busy with the thorough-tier sweeps.\n\n' \
      '| id | property | change | needs | checks |\n|---|---|---|---|---|\n' + '\n'.join(rows) + '\n\n' + 'NEUTRAL_PLACEHOLDER' + E
nrows = []
for d in sorted(glob.glob(os.path.join(V, 'seeded_neutral', '*', 'meta.json'))):
    m = json.load(open(d)); sid = os.path.basename(os.path.dirname(d))
    nrows.append('| %s | %s | %s | %s |' % (sid, cell(m.get('summary', '')), cell(m.get('why_equivalent', '')), cell('; '.join('%s: %s' % kv for kv in m.get('checks_run', {}).items()))))
nfix = len(set(f.get('commit') for f in kf['findings'] if f.get('status') == 'fixed'))
SUMMARY = SUMMARY.replace('0 genuine defects', '%d genuine defects' % nfix, 1).replace('0 seeded changes', '%d seeded changes' % sum(tally.values()), 1)
SUMMARY = SUMMARY.replace(': 0 were reported', ': %d were reported' % tally['first'], 1).replace('first run, 0 were missed', 'first run, %d were missed' % tally['after'], 1).replace('missing), 0 cannot', 'missing), %d cannot' % tally['outside'], 1)
txt = txt.replace('SUMMARY_PLACEHOLDER', SUMMARY)
NEUTRAL = ('### 7.3 Behaviour-preserving changes (no alarm expected)\n\nTwo refactorings per property (suffix n1, n2), written by sub-agents that saw only the property text and were asked for changes a maintainer '
           'would commit that keep every observable behaviour (loop <-> algorithm call, merged/split detail functions, negated conditions, equivalent arithmetic, renamed privates).  '
           'Expected outcome of the quick command: exit 0.  %d of %d gave exit 0 at the first run; none produced a VIOLATION line.\n\n'
           '| id | change | why equivalent (author) | checks |\n|---|---|---|---|\n' % (sum(1 for r in nrows if 'first run exit 2' not in r), len(nrows))) + '\n'.join(nrows) + '\n\n'
txt = txt.replace('NEUTRAL_PLACEHOLDER', NEUTRAL if nrows else '')
p = os.path.join(V, 'DESIGN.md'); s = open(p).read()
if B in s: s = s[:s.index(B)] + txt + s[s.index(E) + len(E):]
else: s = s.rstrip('\n') + '\n\n## 7. Results: defects found, seeded changes detected\n\n' + txt + '\n'
open(p, 'w').write(s)
