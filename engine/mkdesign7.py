#!/usr/bin/env python3
"""Rewrites the generated part of DESIGN.md section 7 (between the markers) from seeded/*/meta.json and known_findings.json."""
import json, os, glob, re
V = os.path.dirname(os.path.dirname(os.path.abspath(__file__)))
B = '<!-- BEGIN GENERATED SECTION 7 -->'; E = '<!-- END GENERATED SECTION 7 -->'
def cell(s): return re.sub(r'\s+', ' ', str(s)).replace('|', '/')[:420]
rows = []
for d in sorted(glob.glob(os.path.join(V, 'seeded', '*', 'meta.json'))):
    m = json.load(open(d)); sid = os.path.basename(os.path.dirname(d))
    det = m.get('checks_run', {})
    rows.append('| %s | %s | %s | %s | %s |' % (sid, m.get('property', '?'), cell(m.get('summary', '')), cell(m.get('needs', '')), cell('; '.join('%s: %s' % kv for kv in det.items()))))
kf = json.load(open(os.path.join(V, 'known_findings.json')))
frows = ['| %s | %s | %s | %s | %s |' % (f['property'], f['status'], f.get('commit', ''), cell(f['what']), cell(f.get('found_by', ''))) for f in kf['findings']]
txt = B + '\n\n### 7.1 Genuine defects found on the pinned tree\n\n| property | status | /repo commit | what | found by |\n|---|---|---|---|---|\n' + '\n'.join(frows) + \
      '\n\n### 7.2 Seeded changes (written by independent sub-agents from the property text only) and which check catches them\n\n' \
      'Every change below compiles, passes the whole existing suite (433/433, confirmed in a scratch worktree with `seeded/confirm.sh`) and makes its own demonstration fail. ' \
      '"checks" is the outcome of the registered quick commands run against `/repo` with the patch applied (`seeded/runchecks.sh`).\n\n' \
      '| id | property | change | needs | checks |\n|---|---|---|---|---|\n' + '\n'.join(rows) + '\n\n' + E
p = os.path.join(V, 'DESIGN.md'); s = open(p).read()
if B in s: s = s[:s.index(B)] + txt + s[s.index(E) + len(E):]
else: s = s.rstrip('\n') + '\n\n## 7. Results: defects found, seeded changes detected\n\n' + txt + '\n'
open(p, 'w').write(s)
