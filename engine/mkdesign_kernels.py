#!/usr/bin/env python3
"""Regenerates the kernel inventory of DESIGN.md (section 0.2) from kernels/*.cpp: per file the number of registered
harness instances per tier, imports, models, stubs and the first lines of the header comment."""
import os, re, sys, glob
sys.path.insert(0, os.path.dirname(__file__))
import driver
ROOT = os.path.dirname(os.path.dirname(os.path.abspath(__file__)))
B = '<!-- BEGIN GENERATED KERNEL INVENTORY -->'; E = '<!-- END GENERATED KERNEL INVENTORY -->'
out = [B, '', '| property | kernel file | quick | +thorough | models / stubs / imports | what it drives (first lines of the file) |', '|---|---|---|---|---|---|']
tot = {}
for f in sorted(glob.glob(os.path.join(ROOT, 'kernels', 'C??_*.cpp'))):
    tags, hs = driver.parse_kernel(f)
    txt = open(f).read()
    if '//@property' not in txt: continue
    prop = os.path.basename(f)[:3]
    q = sum(1 for h in hs if h.tier == 'quick'); t = len(hs) - q
    head = []
    for l in txt.split('\n'):
        if l.startswith('//@'): break
        if l.startswith('//'): head.append(l[2:].strip())
        elif head: break
    desc = ' '.join(head)
    desc = (desc[:300] + ' ...') if len(desc) > 300 else desc
    extra = []
    if tags['models']: extra.append('models ' + ','.join(tags['models']))
    if tags['unity']: extra.append('unity ' + ','.join(tags['unity']))
    ns = len([s for s in tags['stubs'] if not s[1].startswith('+')]); npb = len(tags['stubs']) - ns
    if ns: extra.append('%d stubs' % ns)
    if npb: extra.append('%d probes' % npb)
    imps = []
    for imp, io in tags['imports']:
        _, ih = driver.parse_kernel(os.path.join(ROOT, 'kernels', imp))
        n = sum(1 for h in ih if h.tier == 'quick' and (not io.get('only') or re.search(io['only'], h.key)))
        imps.append('%s (%d)' % (imp, n)); q += n
    if imps: extra.append('imports ' + ', '.join(imps))
    tot.setdefault(prop, [0, 0]); tot[prop][0] += q; tot[prop][1] += t
    out.append('| %s | `%s` | %d | %d | %s | %s |' % (prop, os.path.basename(f), q, t, '; '.join(extra), desc.replace('|', '/')))
out += ['', 'Totals (quick / additional thorough instances): ' + ', '.join('%s %d/%d' % (p, a, b) for p, (a, b) in sorted(tot.items())) + '.', '', E]
p = os.path.join(ROOT, 'DESIGN.md'); s = open(p).read()
if B in s: s = s[:s.index(B)] + '\n'.join(out) + s[s.index(E) + len(E):]
else: sys.exit('markers missing')
open(p, 'w').write(s)
print('\n'.join(out[-3:-2]))
