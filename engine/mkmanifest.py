#!/usr/bin/env python3
"""Regenerates /verif/MANIFEST.json from the table below (kept next to the engine so it stays current)."""
import json, os
V = os.path.dirname(os.path.dirname(os.path.abspath(__file__)))
NOTE = ('Assumes: clang-14 -O1 IR of the kernel TU faithfully compiles the /repo working tree (checked every run by replaying solver models of explored paths '
        'against a g++ ASan/UBSan build of the same harness); allocation never fails; C++ exceptions are unwound through the real landing pads; iostreams, locale, floating point and threads are not executed (stubbed by contract models or outside the claim); environment models and bounds '
        'are listed per harness in the evidence file. Trusted: clang, z3, engine/irsym.py, the reference models written in the harnesses.')
CLAIMED = {
 'C01': ('bounded symbolic model checking of the registry of total functions: every harness runs the real function on fully symbolic arguments with clang UBSan checks as traps, libstdc++ assertions, '
         'executor-level bounds/lifetime/leak checks, code-derived loop bounds and an empty exception whitelist; registry = all C06 arithmetic/cast kernels (full range), narrow instantiations, '
         'at_optional/maybe_front/maybe_back/pop_back/pop_front/find_opt, grid::at_optional (any 64-bit position), array::from_range, runtime_index, enum from_string, options is_flag/next_arg on '
         'exactly-sized symbolic strings; filesystem/iostream/RTTI functions are outside (not executable)', '3 C01'),
 'C03': ('bounded symbolic model checking of the real options code: leaf functions (is_flag, next_arg, pop_arg, split_command, use_flag, use_option, leftover_error, check_short_long_names) on symbolic byte strings, '
         'options::parse on 17 parser shapes (argument, flag/switch, option, unit, unit_switch, optional, many, apply, sum, help, commands) with the argument vector chosen by the solver from the property token alphabet '
         '(length <= 3 quick, <= 4 thorough) against a reference left-to-right consumption model with token accounting; value conversion is an uninterpreted function (all conversion functions); constructors of well-formed definitions', '3 C03'),
 'C04': ('bounded symbolic model checking with uninterpreted continuations (every law decided for ALL functions, not finitely many tables): functor/applicative/monad laws and the documented behaviour of optional/either/variant '
         'combinators against a tagged-union model, call logs prove exactly-once / never-for-absent; payloads over the full range of int/short/unsigned char, containers up to length 3 (4-5 thorough)', '3 C04'),
 'C05': ('bounded symbolic model checking with an instrumented element type (copy/move counters, moved-from/destroyed state) through ~100 generic operations x value categories: 0 copies and <= 1 move for rvalue arguments, '
         'lvalues untouched, no read after move; shapes (present/absent, lengths 0..3, held alternative) symbolic', '3 C05'),
 'C06': ('bounded symbolic model checking over the FULL range of every argument (bit-vector variables of the real width, no sampling): truncation_check for all 64 (dest,source) pairs of the 8 integer types, '
         'from_int for 9 enums x 4 value types, ceil_div, ceil_div_signed (full i32/i64 range and the multiplication characterisation on [-1024,1023]^2), div, mod, clamp, diff, is_power_of_2, '
         'next_power_of_2, log2, power_of_2, shifted_mask/test, interval_distance against 64/128-bit references; loops unwound to width+6 with the bound checked', '3 C06'),
 'C10': ('bounded symbolic model checking: all subsets (as bit-vector variables, no enumeration) of enums with 1,3,8,9,17 (thorough: 33,64,65) enumerators in 8/16/32/64-bit words; '
         'set algebra of | & ^ ~ and assigning forms, depth-1 and depth-2 expressions, set/get/[]/init-list/null, ==, !=, hash, is_subset_eq against a set model; UNSAT = holds for every subset', '3 C10'),
}
CLAIMED.update({
 'C13': ('bounded symbolic model checking: all corner coordinates and the probe point symbolic over [-2^30,2^30) / [0,2^31), N=1,2,3, int and unsigned: membership, intersection, intersects (witness point), contains, '
         'extend_bounding_box (superset and minimal against an arbitrary third box), corner_points, shrink/stretch_absolute, center, distance, comparison, builders', '3 C13'),
 'C14': ('bounded symbolic model checking over the ring Z/2^32 (all entries full-width symbolic, -fwrapv): component-wise agreement of every vector/dim/matrix operation with array references (sizes up to 4x4, static and view storage) '
         'and the ring/module/determinant/adjugate laws through the real operators, decided by z3 after sum-of-monomials normalisation', '3 C14'),
 'C17': ('bounded symbolic model checking: every strong_typedef operator bit-for-bit against the underlying operator (full 32-bit range), reference/recursive/unique_ptr/shared_ptr transparency, and ==/!=/</hash coherence '
         '(equivalence, strict weak order, congruence, equal => equal hash) on triples of fully symbolic values for 17 value types (grid/tree/raw_vector in the thorough tier)', '3 C17'),
})
CLAIMED.update({
 'C02': ('bounded symbolic model checking of the real combinators over a kernel-defined basic_stream on fully symbolic bytes (all 256 values per position, length 0..4 quick / 6 thorough): ~60 grammars covering every combinator and skipper '
         'of the property (incl. recursive grammars, uint/int, wchar_t, the phrase_parse_stream entry path), compared with a reference PEG interpreter on success/failure, fatal flag, end position and produced value', '3 C02'),
 'C12': ('bounded symbolic model checking of the real parse::detail::stream<char/wchar_t> over a contract model of std::istream (get/tellg/seekg/clear; native replays use a real istream): symbolic texts (<= 4 quick, 6 thorough) and symbolic '
         'histories of get_char/get_position/set_position (<= 6/7 steps) against the line/column definition, rewind exactness, failure on EOF/bad stream, error locations', '3 C12'),
 'C15': ('bounded symbolic model checking of the claimed parts: endianness convert/swap/reverse_mem and io::write/read round trips for u8..i64 and both endians (stream layer stubbed to a byte buffer), enum to_string/from_string on symbolic strings, '
         'and the codecvt loop behind narrow/widen against a contract model of std::codecvt with uninterpreted per-unit lengths (n <= 3, 4 thorough): complete result or failure, never a truncated success', '3 C15'),
 'C16': ('bounded symbolic model checking: ~45 algorithm/container/array/tuple helpers on vector/list/deque/forward_list/set/map/array/tuple/int-enum ranges with fully symbolic elements, lengths 0..3 (5 thorough), predicates and mapping functions '
         'uninterpreted with call logs for order and early stop, against loop-based references; split_string/join_strings inversion on symbolic strings', '3 C16'),
 'C20': ('bounded symbolic model checking with the URNG replaced by fresh symbolic words shared between fcppt and std::uniform_int_distribution (= every engine output sequence, not a sample of seeds): transparency of variate/basic/'
         'uniform_int/enum/indices/uniform_container, parameters handed through, result in [a,b], both ends reachable (SAT witnesses), empty container => nothing, basic_pseudo == minstd_rand for a symbolic seed', '3 C20'),
})
CLAIMED.update({
 'C07': ('bounded symbolic model checking by ONE INDUCTIVE STEP per operation from an arbitrary valid representation (size/capacity grid cap <= 4 quick, 6 thorough; contents, positions, counts, values and the aliasing choice symbolic): '
         'every raw_vector operation and constructor against the std::vector sequence model incl. returned iterators, capacity >= size, executor memory checks and leak check; 2-4 step histories through the public API; buffer histories hand exactly the read area to to_raw_vector', '3 C07'),
 'C08': ('bounded symbolic model checking by the INDUCTIVE characterisation at full 64-bit width (only assumption: the cell count fits size_t): offset(0)=0, in-range => offset < contents, offset(next)=offset+1, successor of last = end, injectivity, '
         'for whole grids and (min,sup) sub-ranges, N=1,2,3, through the real pos_iterator/pos_range; real grids up to 3x3x2 for at_optional/fill/map/resize/apply/pos_ref_range with uninterpreted cell functions; clamp helpers full range', '3 C08'),
 'C09': ('bounded symbolic model checking of operation histories chosen by the solver (operation code, operand nodes among roots and inner nodes, positions, values) from six base forests, k <= 2 quick / 4 thorough: after every step '
         'parent/child consistency for every reachable node, traversals and metrics against a reference forest, deep independent copies, leak/use-after-free checks', '3 C09'),
 'C11': ('bounded symbolic model checking of solver-chosen histories (k <= 3 quick, 5 thorough) over pools of heap lists/elements and signals/connections: after every step each live list iterates exactly the model sequence in both directions '
         'and terminates; signal calls invoke exactly the live callbacks once in order with a left fold (uninterpreted callbacks + call log); unregister exactly once; stale links are use-after-free findings', '3 C11'),
 'C18': ('bounded symbolic model checking: int_range/int_iterator inductive step and size for 9 integer types at full width, enum ranges over symbolic sub-ranges, cyclic_iterator advance(n) for n = q*L+r with |q| <= 2^59 and L = 1..6 '
         '(advance(n+-1) = step(advance(n)), stays inside), spiral ranges d = 0..6 from a symbolic origin (count, Manhattan bound, ring sizes, monotone distance, pairwise distinct), neighbour helpers', '3 C18'),
 'C19': ('bounded symbolic model checking of the SEQUENTIAL semantics and the LOCK DISCIPLINE of the real log sources (unity build, -DENABLE_THREADS): solver-chosen histories (k <= 3 quick, 4 thorough) of set/get/object creation over the 7 locations '
         'of depth <= 2 against latest-set-on-a-prefix, enabled()/emission decision, formatter nesting; pthread mutex as held-flag: probes assert the lock is held inside every tree-walking/mutating internal and released on return. Thread interleavings are outside this technique here (stated)', '3 C19'),
})
NA = {}
ALL = ['C%02d' % i for i in range(1, 21)]
def main():
    checks = []
    for p in ALL:
        if p not in CLAIMED: continue
        text, ref = CLAIMED[p]
        checks.append({'property_id': p, 'quick_cmd': './check %s --tier quick' % p, 'thorough_cmd': './check %s --tier thorough' % p, 'evidence_file': 'evidence/%s.json' % p,
                       'replay_cmd_template': './check %s --replay {path}' % p, 'engine': 'irsym', 'level_claimed': {'category': 'model_checking', 'text': text, 'design_ref': 'DESIGN.md §' + ref},
                       'level_note': NOTE, 'technique': 'solver-based: forking symbolic execution of the clang LLVM IR of the real fcppt code, one z3 query per path obligation, native replay of models'})
    na = [{'property_id': p, 'reason': NA.get(p, 'check not built yet in this session (work in progress; see DESIGN.md §3 for the plan)')} for p in ALL if p not in CLAIMED]
    m = {'version': 1, 'setup_cmd': 'sh ./setup.sh', 'hooks': {'guard': 'FCPPT_VERIF', 'enable': 'none needed: kernels use the public API; -DFCPPT_VERIF is passed to every kernel build and no /repo source tests it',
         'baseline_off_cmd': 'cd /repo/_build && ninja && ctest -j8 --timeout 900', 'source_commits': [], 'add_only': True},
         'engines': [{'name': 'irsym', 'path': 'engine/irsym.py', 'serves_properties': sorted(CLAIMED), 'kind_free_text': 'own forking symbolic executor over LLVM-14 IR + z3 (DESIGN.md §2)'}],
         'checks': checks, 'not_applicable': na,
         'notes': 'exit 0 held / exit 1 VIOLATION (natively reproduced) / exit 2 check broken or inconclusive. Genuine defects repaired in /repo as fix: commits are listed in known_findings.json.'}
    json.dump(m, open(os.path.join(V, 'MANIFEST.json'), 'w'), indent=1)
if __name__ == '__main__': main()
