"""Environment models for Engine B (DESIGN.md §2.4).  Every entry here is part of the claim of any harness
that reaches it; the evidence file lists the externals actually called."""
import re
import z3
from irfront import IntT, PtrT
import irsym as E
from irsym import Ptr, NULL, is_sym, simp, bv, mask, sgn, Inconclusive, PathEnd, Fork

I8 = IntT(8)
P8 = PtrT(I8)


def conc_len(ex, st, n, what):
    if n is None: ex.ub(st, 'uninitialised length in ' + what)
    if isinstance(n, Ptr): n = ex.p2i(n)
    return ex.concretize(st, n, what + ' length')


def mem_copy(ex, st, d, sr, n, overlap_ok=True):
    n = conc_len(ex, st, n, 'memcpy')
    if n == 0: return
    so, soff = ex.obj_of(st, sr, n, 'memcpy-read'); cells = list(so.cells[soff:soff + n])
    do, doff = ex.obj_of(st, d, n, 'memcpy-write', True)
    if not overlap_ok and so is do and soff != doff and abs(soff - doff) < n: ex.ub(st, 'memcpy with overlapping ranges')
    do.cells[doff:doff + n] = cells


def mem_set(ex, st, d, c, n):
    n = conc_len(ex, st, n, 'memset')
    if n == 0: return
    do, doff = ex.obj_of(st, d, n, 'memset', True)
    if is_sym(c) and c.size() != 8: c = simp(z3.Extract(7, 0, c))
    elif isinstance(c, int): c &= 255
    do.cells[doff:doff + n] = [c] * n


def load_bytes(ex, st, p, n, what):
    o, off = ex.obj_of(st, p, n, what)
    return o.cells[off:off + n]


def register(ex):
    X = ex.ext

    def used(name):
        ex.uf_used[name] = ex.uf_used.get(name, 0) + 1

    # ---- harness API
    def name_arg(st, p): return ex.read_cstr(st, p)

    def mk_in(bits):
        def h(st, a, nm): return ex.fresh(st, bits, name_arg(st, a[0]))
        return h
    for b in (8, 16, 32, 64): X['verif_u%d' % b] = mk_in(b)

    def x_param(st, a, nm):
        n = name_arg(st, a[0])
        if n not in ex.params: raise Inconclusive('harness parameter %s not supplied' % n)
        return mask(int(ex.params[n]), 64)
    X['verif_param'] = x_param

    def x_assume(st, a, nm):
        c = ex.need(st, a[0], 'verif_assume')
        if is_sym(c):
            m = ex.feasible(st, c != 0)
            if m is None: raise PathEnd('assume-false')
            ex.assume(st, c != 0, m)
        elif c == 0: raise PathEnd('assume-false')
    X['verif_assume'] = x_assume

    def known_split(st, ident):
        """open known findings that apply to this assertion: (finding, z3 condition or None = the whole assertion)"""
        out = []
        for k in ex.known:
            if k.get('kind', 'assert') != 'assert' or not re.search(k.get('id', '.*'), ident): continue
            w = k.get('when_z3')
            if w is None: out.append((k, None)); continue
            env = {n: v for n, b, v in st.inputs}
            try: out.append((k, eval(w, {'z3': z3, 'And': z3.And, 'Or': z3.Or, 'Not': z3.Not, 'ULT': z3.ULT, 'ULE': z3.ULE, 'UGT': z3.UGT, 'UGE': z3.UGE, 'Z': env})))
            except Exception as e: raise Inconclusive('known_findings.json when_z3 of "%s" does not evaluate: %s' % (k.get('what', '?')[:40], e))
        return out

    def x_assert(st, a, nm):
        c = a[0]; ident = name_arg(st, a[1]); st.asserts += 1
        if c is None: ex.ub(st, 'uninitialised value in verif_assert(%s)' % ident)
        kn = known_split(st, ident) if ex.known and ex.concrete is None else []
        if is_sym(c):
            fail = c == 0
            if kn:
                # a violation outside every listed finding is new; inside one it is reported as that finding
                whole = [k for k, w in kn if w is None]
                if not whole:
                    m = ex.feasible(st, z3.And(fail, *[z3.Not(w) for k, w in kn]))
                    if m is not None: ex.record(st, 'assert', ident, ex.model_of(st, m), ex.uf_tables(m))
                for k, w in kn:
                    m = ex.feasible(st, fail if w is None else z3.And(fail, w))
                    if m is not None: ex.record(st, 'assert', ident, ex.model_of(st, m), ex.uf_tables(m), known=k.get('what', 'known finding'))
            else:
                m = ex.feasible(st, fail)
                if m is not None: ex.record(st, 'assert', ident, ex.model_of(st, m), ex.uf_tables(m))
            m2 = ex.feasible(st, c != 0)
            if m2 is None: raise PathEnd('assert-fails-always')
            ex.assume(st, c != 0, m2)
        elif c == 0:
            m = ex.feasible(st)
            if m is None: raise PathEnd('infeasible')
            hit = None
            for k, w in kn:
                if w is None or ex.feasible(st, w) is not None: hit = k.get('what', 'known finding'); break
            ex.record(st, 'assert', ident, ex.model_of(st, m), ex.uf_tables(m), known=hit); raise PathEnd('assert-failed')
    X['verif_assert'] = x_assert

    def x_reach(st, a, nm): st.reach.append(name_arg(st, a[0]))
    X['verif_reach'] = x_reach

    def x_out(st, a, nm):
        v = a[1]
        if v is None: ex.ub(st, 'uninitialised value observed by verif_out')
        if isinstance(v, Ptr): v = ex.p2i(v)
        st.out.append((name_arg(st, a[0]), v))
    X['verif_out'] = x_out

    def mk_uf(n):
        def h(st, a, nm):
            k = a[0]
            if is_sym(k): raise Inconclusive('symbolic UF index')
            for x in a[1:1 + n]:
                if x is None: ex.ub(st, 'uninitialised argument to uninterpreted function')
            used('uf%d/%d' % (k, n))
            if ex.concrete is not None:
                tab = ex.concrete.get('__uf__', {}).get('%d/%d' % (k, n), {'entries': [], 'else': 0})
                args = [int(x) for x in a[1:1 + n]]
                for ea, ev in tab['entries']:
                    if ea == args: return ev
                return tab['else'] or 0
            f = ex.uf(k, n)
            return simp(f(*[bv(ex.p2i(x) if isinstance(x, Ptr) else x, 64) for x in a[1:1 + n]]))
        return h
    for n in (1, 2, 3): X['verif_uf%d' % n] = mk_uf(n)

    def x_locks(st, a, nm): return sum(1 for v in st.guards.values() if v == 'held')
    X['verif_locks_held'] = x_locks

    # ---- allocation
    def x_new(st, a, nm):
        n = conc_len(ex, st, a[0], 'allocation')
        if n > (1 << 24): raise Inconclusive('allocation of %d bytes' % n)
        return ex.alloc(st, n, 'heap', 'heap[%d]' % n)

    def x_delete(st, a, nm):
        p = a[0]
        if p is None: ex.ub(st, 'delete of uninitialised pointer')
        if not isinstance(p, Ptr): p = ex.i2p(p)
        if p.obj == 0 and not is_sym(p.off) and p.off == 0: return None
        o = st.mem.get(p.obj) if not isinstance(p.obj, tuple) else None
        off = p.off if not is_sym(p.off) else ex.concretize(st, p.off, 'free offset')
        if o is None or o.kind != 'heap' or off != 0: ex.ub(st, 'free of a pointer that was not returned by an allocation')
        if not o.alive: ex.ub(st, 'double free')
        o = st.wobj(p.obj); o.alive = False; o.cells = []
        return None
    for n in ('_Znwm', '_Znam', 'malloc', '_ZnwmRKSt9nothrow_t', '_ZnamRKSt9nothrow_t', '_ZnwmSt11align_val_t', '_ZnamSt11align_val_t'): X[n] = x_new
    for n in ('_ZdlPv', '_ZdaPv', '_ZdlPvm', '_ZdaPvm', 'free', '_ZdlPvSt11align_val_t', '_ZdlPvmSt11align_val_t'): X[n] = x_delete

    def x_calloc(st, a, nm):
        n = conc_len(ex, st, a[0], 'calloc') * conc_len(ex, st, a[1], 'calloc')
        p = ex.alloc(st, n, 'heap', 'heap[%d]' % n); st.mem[p.obj].cells = [0] * n; return p
    X['calloc'] = x_calloc

    # ---- libc memory / string
    def x_memcpy(st, a, nm): mem_copy(ex, st, a[0], a[1], a[2], nm != 'memcpy'); return a[0]
    X['memcpy'] = x_memcpy; X['memmove'] = x_memcpy

    def x_memset(st, a, nm): mem_set(ex, st, a[0], a[1], a[2]); return a[0]
    X['memset'] = x_memset

    # wide-character copies (std::char_traits<wchar_t>): 4-byte units
    def x_wmemcpy(st, a, nm):
        n = conc_len(ex, st, a[2], nm)
        mem_copy(ex, st, a[0], a[1], 4 * n, nm != 'wmemcpy'); return a[0]
    X['wmemcpy'] = x_wmemcpy; X['wmemmove'] = x_wmemcpy

    def x_mbsinit(st, a, nm):
        # glibc: the conversion state is initial iff ps == NULL or ps->__count == 0
        p = a[0]
        if isinstance(p, Ptr) and p.obj == 0 and not is_sym(p.off) and p.off == 0: return 1
        c = ex.need(st, ex.load(st, IntT(32), p), 'mbsinit')
        if is_sym(c): return simp(z3.If(c == 0, z3.BitVecVal(1, 32), z3.BitVecVal(0, 32)))
        return 1 if c == 0 else 0
    X['mbsinit'] = x_mbsinit

    def x_wmemset(st, a, nm):
        n = conc_len(ex, st, a[2], 'wmemset')
        if n:
            do, doff = ex.obj_of(st, a[0], 4 * n, 'wmemset', True)
            do.cells[doff:doff + 4 * n] = ex.explode(IntT(32), a[1], 4) * n
        return a[0]
    X['wmemset'] = x_wmemset

    def x_memcmp(st, a, nm):
        n = conc_len(ex, st, a[2], 'memcmp')
        if n == 0: return 0
        x = load_bytes(ex, st, a[0], n, 'memcmp-read'); y = load_bytes(ex, st, a[1], n, 'memcmp-read')
        r = z3.BitVecVal(0, 32); allc = True
        for i in range(n - 1, -1, -1):
            if x[i] is None or y[i] is None: ex.ub(st, 'memcmp reads uninitialised bytes')
            if isinstance(x[i], tuple) or isinstance(y[i], tuple): raise Inconclusive('memcmp over pointer bytes')
            if is_sym(x[i]) or is_sym(y[i]): allc = False
        if allc:
            for i in range(n):
                if x[i] != y[i]: return mask(-1, 32) if x[i] < y[i] else 1
            return 0
        for i in range(n - 1, -1, -1):
            xi, yi = bv(x[i], 8), bv(y[i], 8)
            r = z3.If(xi == yi, r, z3.If(z3.ULT(xi, yi), z3.BitVecVal(mask(-1, 32), 32), z3.BitVecVal(1, 32)))
        return simp(r)
    X['memcmp'] = x_memcmp; X['bcmp'] = x_memcmp

    def scan(st, p, limit, pred_desc, want, what):
        """fork over the first index i < limit (limit None: object end) with cells[i] == want"""
        if not isinstance(p, Ptr): p = ex.i2p(p)
        off0 = ex.concretize(st, p.off, what + ' offset') if is_sym(p.off) else p.off
        o, _ = ex.obj_of(st, Ptr(p.obj, off0), 0, what)
        end = len(o.cells) if limit is None else min(len(o.cells), off0 + limit)
        alts = []; prefix = []
        for i in range(off0, end):
            c = o.cells[i]
            if c is None: ex.ub(st, what + ' reads uninitialised byte')
            if isinstance(c, tuple): raise Inconclusive(what + ' over pointer bytes')
            if is_sym(c) or is_sym(want):
                hit = bv(c, 8) == bv(want, 8)
                alts.append((z3.And(*(prefix + [hit])) if prefix else hit, i - off0)); prefix.append(z3.Not(hit))
            elif c == want:
                alts.append((z3.And(*prefix) if prefix else z3.BoolVal(True), i - off0)); return alts, True
        return alts + [((z3.And(*prefix) if prefix else z3.BoolVal(True)), None)], False

    def x_strlen(st, a, nm):
        alts, term = scan(st, a[0], None, '', 0, 'strlen')
        if len(alts) == 1 and alts[0][1] is not None: return alts[0][1]
        out = []
        for c, i in alts:
            if i is None:
                m = ex.feasible(st, c)
                if m is not None: ex.ub_sym(st, c, 'strlen runs past the end of the object', m)
            else: out.append((c, i))
        raise Fork(out, 'ret')
    X['strlen'] = x_strlen

    def x_memchr(st, a, nm):
        n = conc_len(ex, st, a[2], 'memchr')
        if n == 0: return NULL
        want = a[1]
        want = simp(z3.Extract(7, 0, want)) if is_sym(want) else want & 255
        load_bytes(ex, st, a[0], n, 'memchr-read')
        alts, term = scan(st, a[0], n, '', want, 'memchr')
        outs = [(c, NULL if i is None else ex.padd(a[0] if isinstance(a[0], Ptr) else ex.i2p(a[0]), i)) for c, i in alts]
        if len(outs) == 1: return outs[0][1]
        raise Fork(outs, 'ret')
    X['memchr'] = x_memchr

    # ---- exceptions / termination
    def x_alloc_exc(st, a, nm):
        n = conc_len(ex, st, a[0], 'exception allocation'); p = ex.alloc(st, n + 128, 'exc', 'exception'); return Ptr(p.obj, 128)
    X['__cxa_allocate_exception'] = x_alloc_exc
    X['__cxa_free_exception'] = lambda st, a, nm: None

    def x_throw(st, a, nm):
        ti = a[1]; tn = '?'
        if isinstance(ti, Ptr) and not isinstance(ti.obj, tuple) and ti.obj in st.mem: tn = st.mem[ti.obj].name.lstrip('@')
        ex.throw_exc(st, tn, a[0])
    X['__cxa_throw'] = x_throw

    def x_rethrow(st, a, nm):
        if not st.caught: ex.ub(st, '__cxa_rethrow without a caught exception')
        tinfo, obj = st.caught[-1]; ex.throw_exc(st, tinfo, obj)
    X['__cxa_rethrow'] = x_rethrow

    def x_std_throw(st, a, nm):
        m = re.match(r'_ZSt\d+__throw_(\w+?)(_fmt)?(PKcz?|v|i|PKcmm|mm)?$', nm)
        ex.do_throw(st, 'std::' + (m.group(1) if m else nm), nm)
    for n in (16, 17, 18, 19, 20, 21, 22, 23, 24, 25, 26, 27, 28):
        ex.ext_prefix.append(('_ZSt%d__throw_' % n, x_std_throw))

    def x_abort(st, a, nm):
        m = ex.feasible(st)
        if m is None: raise PathEnd('infeasible')
        ex.record(st, 'abort', nm + ' called', ex.model_of(st, m), ex.uf_tables(m)); raise PathEnd('abort')
    for n in ('abort', '_ZSt9terminatev', '__cxa_pure_virtual', '__cxa_deleted_virtual', 'exit', '_exit', '__cxa_call_unexpected', '__clang_call_terminate'): X[n] = x_abort

    def x_assert_fail(st, a, nm):
        try: msg = ex.read_cstr(st, a[-1] if nm.startswith('_ZSt') else a[0])
        except (Inconclusive, PathEnd): msg = '?'
        ex.ub(st, 'library assertion failed: ' + msg)
    X['__assert_fail'] = x_assert_fail; X['_ZSt21__glibcxx_assert_failPKciS0_S0_'] = x_assert_fail

    def x_begin_catch(st, a, nm):
        if st.exc is None: raise Inconclusive('__cxa_begin_catch without an exception in flight')
        st.caught.append(st.exc); obj = st.exc[1]; st.exc = None; return obj
    def x_end_catch(st, a, nm):
        if st.caught: st.caught.pop()
        return None
    X['__cxa_begin_catch'] = x_begin_catch; X['__cxa_end_catch'] = x_end_catch; X['__cxa_get_exception_ptr'] = lambda st, a, nm: a[0]
    # constructors / destructors of libstdc++'s exception classes live in libstdc++.so: the message is dropped
    for cls in ('13runtime_error', '11logic_error', '12length_error', '12out_of_range', '16invalid_argument', '12domain_error', '11range_error', '14overflow_error',
                '15underflow_error', '9exception', '9bad_alloc', '8bad_cast', '12system_error', '20bad_array_new_length', '17bad_function_call'):
        for k in ('C1', 'C2', 'D0', 'D1', 'D2'):
            ex.ext_prefix.append(('_ZNSt%s%sE' % (cls, k), lambda st, a, nm: None))
    X['__cxa_atexit'] = lambda st, a, nm: 0
    X['__cxa_thread_atexit'] = lambda st, a, nm: 0
    X['_ZNSt8ios_base4InitC1Ev'] = lambda st, a, nm: None
    X['_ZNSt8ios_base4InitD1Ev'] = lambda st, a, nm: None

    def x_guard_acquire(st, a, nm):
        g = ex.load(st, I8, a[0])
        return 0 if g else 1
    def x_guard_release(st, a, nm): ex.store(st, I8, 1, a[0])
    X['__cxa_guard_acquire'] = x_guard_acquire; X['__cxa_guard_release'] = x_guard_release; X['__cxa_guard_abort'] = lambda st, a, nm: None

    # ---- pthread mutex as a held-flag (lock discipline only; harnesses are sequential)
    def mkey(p): return (p.obj, p.off if not is_sym(p.off) else str(p.off))
    def x_lock(st, a, nm):
        k = mkey(a[0])
        if st.guards.get(k) == 'held': ex.ub(st, 'pthread_mutex_lock on a mutex this thread already holds (self-deadlock)')
        st.guards[k] = 'held'; st.log.append('lock'); return 0
    def x_unlock(st, a, nm):
        k = mkey(a[0])
        if st.guards.get(k) != 'held': ex.ub(st, 'pthread_mutex_unlock of a mutex that is not held')
        st.guards[k] = 'free'; st.log.append('unlock'); return 0
    X['pthread_mutex_lock'] = x_lock; X['pthread_mutex_unlock'] = x_unlock
    X['pthread_mutex_init'] = lambda st, a, nm: 0; X['pthread_mutex_destroy'] = lambda st, a, nm: 0
    X['__pthread_key_create'] = lambda st, a, nm: 0

    # ---- libstdc++ unordered containers (hashtable_c++0x.cc / hash_bytes.cc): bucket placement is unobservable through
    # the container interface, so any deterministic hash and any growth policy keeping buckets >= elements is a model
    def x_hash_bytes(st, a, nm):
        n = conc_len(ex, st, a[1], '_Hash_bytes'); h = 0xcbf29ce484222325
        for c in (load_bytes(ex, st, a[0], n, '_Hash_bytes-read') if n else []):
            if c is None: ex.ub(st, '_Hash_bytes reads uninitialised bytes')
            if is_sym(c) or isinstance(c, tuple): raise Inconclusive('_Hash_bytes over symbolic bytes')
            h = ((h ^ c) * 0x100000001b3) & ((1 << 64) - 1)
        return h
    X['_ZSt11_Hash_bytesPKvmm'] = x_hash_bytes

    def x_need_rehash(st, a, nm):
        nb, ne, ni = (conc_len(ex, st, v, '_M_need_rehash') for v in a[1:4])
        if ne + ni > nb: return [1, max(2 * nb + 1, ne + ni, 13)]
        return [0, 0]
    X['_ZNKSt8__detail20_Prime_rehash_policy14_M_need_rehashEmmm'] = x_need_rehash
    X['_ZNKSt8__detail20_Prime_rehash_policy11_M_next_bktEm'] = lambda st, a, nm: max(conc_len(ex, st, a[1], '_M_next_bkt'), 13)

    # ---- libstdc++ std::list node splice primitives (list.cc), documented behaviour
    def ld(st, p, off): return ex.load(st, P8, ex.padd(p, off))
    def sto(st, p, off, v): ex.store(st, P8, v, ex.padd(p, off))
    def same(a, b): return ex.same_ptr(a, b)

    def x_list_hook(st, a, nm):
        n, pos = a; prev = ld(st, pos, 8)
        sto(st, n, 0, pos); sto(st, n, 8, prev); sto(st, prev, 0, n); sto(st, pos, 8, n)
    def x_list_unhook(st, a, nm):
        n = a[0]; nx = ld(st, n, 0); pv = ld(st, n, 8); sto(st, pv, 0, nx); sto(st, nx, 8, pv)
    def x_list_swap(st, a, nm):
        x, y = a; xn, xp, yn, yp = ld(st, x, 0), ld(st, x, 8), ld(st, y, 0), ld(st, y, 8)
        xe, ye = same(xn, x), same(yn, y)
        if not xe and not ye:
            sto(st, x, 0, yn); sto(st, x, 8, yp); sto(st, y, 0, xn); sto(st, y, 8, xp)
            sto(st, yn, 8, x); sto(st, yp, 0, x); sto(st, xn, 8, y); sto(st, xp, 0, y)
        elif not xe:
            sto(st, y, 0, xn); sto(st, y, 8, xp); sto(st, xn, 8, y); sto(st, xp, 0, y); sto(st, x, 0, x); sto(st, x, 8, x)
        elif not ye:
            sto(st, x, 0, yn); sto(st, x, 8, yp); sto(st, yn, 8, x); sto(st, yp, 0, x); sto(st, y, 0, y); sto(st, y, 8, y)
    def x_list_transfer(st, a, nm):
        this, first, last = a
        if same(this, last): return
        lp, fp, tp = ld(st, last, 8), ld(st, first, 8), ld(st, this, 8)
        sto(st, lp, 0, this); sto(st, fp, 0, last); sto(st, tp, 0, first)
        sto(st, this, 8, lp); sto(st, last, 8, fp); sto(st, first, 8, tp)
    def x_list_reverse(st, a, nm):
        this = a[0]; t = this
        for _ in range(100000):
            nx = ld(st, t, 0); pv = ld(st, t, 8); sto(st, t, 0, pv); sto(st, t, 8, nx); t = nx
            if same(t, this): return
        raise Inconclusive('list reverse does not terminate')
    X['_ZNSt8__detail15_List_node_base7_M_hookEPS0_'] = x_list_hook
    X['_ZNSt8__detail15_List_node_base9_M_unhookEv'] = x_list_unhook
    X['_ZNSt8__detail15_List_node_base4swapERS0_S1_'] = x_list_swap
    X['_ZNSt8__detail15_List_node_base11_M_transferEPS0_S1_'] = x_list_transfer
    X['_ZNSt8__detail15_List_node_base10_M_reverseEv'] = x_list_reverse

    # ---- libstdc++ std::unordered_* rehash policy (hashtable_c++0x.cc), max_load_factor == 1.0 (checked):
    # _M_next_bkt(n): smallest prime >= n from the library's table (small sizes only), sets _M_next_resize;
    # _M_need_rehash(n_bkt, n_elt, n_ins): {true, next_bkt(max(n_elt+n_ins, 2*n_bkt))} if n_elt+n_ins > n_bkt (or the
    # first insertion into the single-bucket state grows to next_bkt(max(n_ins, 11) + 1))
    I64T = IntT(64); I32T = IntT(32)
    PRIMES = [2, 3, 5, 7, 11, 13, 17, 19, 23, 29, 31, 37, 41, 43, 47, 53, 59, 61, 67, 71, 73, 79, 83, 89, 97, 103, 109, 113, 127, 137, 139, 149, 157, 167, 179, 193, 199, 211, 227, 241, 257]
    FAST = [2, 2, 2, 3, 5, 5, 7, 7, 11, 11, 11, 11, 13, 13]

    def rp_check(st, this):
        f = ex.load(st, I32T, this)
        if f != 0x3f800000: raise Inconclusive('unordered container with max_load_factor != 1.0')

    def rp_next(st, this, n):
        n = conc_len(ex, st, n, 'bucket count')
        if n < len(FAST):
            if n == 0: return 1
            r = FAST[n]
        else:
            r = next((q for q in PRIMES if q >= n), None)
            if r is None: raise Inconclusive('unordered container with more than %d buckets' % PRIMES[-1])
        ex.store(st, I64T, r, ex.padd(this, 8))   # _M_next_resize = floor(r * 1.0)
        return r

    def x_rp_next_bkt(st, a, nm):
        rp_check(st, a[0]); return rp_next(st, a[0], a[1])

    def x_rp_need_rehash(st, a, nm):
        this = a[0]; rp_check(st, this)
        n_bkt = conc_len(ex, st, a[1], 'bucket count'); n_elt = conc_len(ex, st, a[2], 'element count'); n_ins = conc_len(ex, st, a[3], 'insert count')
        nxt = ex.load(st, I64T, ex.padd(this, 8))
        if is_sym(nxt) or nxt is None: raise Inconclusive('symbolic rehash policy state')
        if n_elt + n_ins > nxt:
            min_bkts = max(n_elt + n_ins, 11 if nxt == 0 else 0)   # growth factor 2 applies to the bucket count below
            if min_bkts >= n_bkt: return [1, rp_next(st, this, max(min_bkts + 1, n_bkt * 2))]
            ex.store(st, I64T, n_bkt, ex.padd(this, 8)); return [0, 0]
        return [0, 0]
    X['_ZNKSt8__detail20_Prime_rehash_policy11_M_next_bktEm'] = x_rp_next_bkt
    X['_ZNKSt8__detail20_Prime_rehash_policy14_M_need_rehashEmmm'] = x_rp_need_rehash

    # ---- std::locale as an opaque handle (default ctor / copy ctor / dtor only); every use of a locale is still unmodelled
    def x_locale_ctor(st, a, nm): ex.store(st, P8, NULL, a[0])
    def x_locale_copy(st, a, nm): ex.store(st, P8, ex.load(st, P8, a[1]), a[0])
    X['_ZNSt6localeC1Ev'] = x_locale_ctor; X['_ZNSt6localeC2Ev'] = x_locale_ctor
    X['_ZNSt6localeC1ERKS_'] = x_locale_copy; X['_ZNSt6localeC2ERKS_'] = x_locale_copy
    X['_ZNSt6localeD1Ev'] = lambda st, a, nm: None; X['_ZNSt6localeD2Ev'] = lambda st, a, nm: None

    # ---- wide-character libc primitives used by std::char_traits<wchar_t> (wchar_t = 32 bit)
    I32W = IntT(32)
    def x_wmemcpy(st, a, nm):
        n = conc_len(ex, st, a[2], nm)
        mem_copy(ex, st, a[0], a[1], n * 4, nm != 'wmemcpy'); return a[0]
    X['wmemcpy'] = x_wmemcpy; X['wmemmove'] = x_wmemcpy

    def x_wmemset(st, a, nm):
        n = conc_len(ex, st, a[2], nm); p = a[0] if isinstance(a[0], Ptr) else ex.i2p(a[0])
        for i in range(n): ex.store(st, I32W, a[1], ex.padd(p, 4 * i))
        return a[0]
    X['wmemset'] = x_wmemset

    def x_wcslen(st, a, nm):
        p = a[0] if isinstance(a[0], Ptr) else ex.i2p(a[0])
        for i in range(1 << 16):
            c = ex.load(st, I32W, ex.padd(p, 4 * i))
            if c is None: ex.ub(st, 'wcslen reads uninitialised memory')
            if is_sym(c): raise Inconclusive('wcslen over symbolic characters')
            if c == 0: return i
        raise Inconclusive('wcslen: no terminator')
    X['wcslen'] = x_wcslen

    def x_wmemcmp(st, a, nm):
        n = conc_len(ex, st, a[2], nm)
        pa = a[0] if isinstance(a[0], Ptr) else ex.i2p(a[0]); pb = a[1] if isinstance(a[1], Ptr) else ex.i2p(a[1])
        r = z3.BitVecVal(0, 32)
        for i in range(n - 1, -1, -1):
            x = ex.load(st, I32W, ex.padd(pa, 4 * i)); y = ex.load(st, I32W, ex.padd(pb, 4 * i))
            if x is None or y is None: ex.ub(st, 'wmemcmp reads uninitialised memory')
            xi, yi = bv(x, 32), bv(y, 32)   # wchar_t is signed int on this target
            r = z3.If(xi == yi, r, z3.If(xi < yi, z3.BitVecVal(mask(-1, 32), 32), z3.BitVecVal(1, 32)))
        r = simp(r)
        return r.as_long() if z3.is_bv_value(r) else r
    X['wmemcmp'] = x_wmemcmp
