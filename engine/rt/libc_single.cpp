// glibc's __libc_single_threaded (sys/single_threaded.h): libstdc++'s shared_ptr reference counting reads it to choose
// between plain and atomic increments.  The harness process never creates a thread, so the flag is true (as in the
// native replay); the atomic branch is outside the claim of kernels that use this model.
extern "C" {
char __libc_single_threaded = 1;
}
