// Model of libstdc++'s out-of-line red-black tree primitives (src/c++98/tree.cc), compiled to IR and executed by
// the engine itself.  Insertion and removal keep header / leftmost / rightmost / parent links exactly as libstdc++
// does but do NOT rebalance: iteration order and lookup results - all that std::set/std::map callers can observe -
// do not depend on the balance.  Every node is black and the header red, which is what _Rb_tree_decrement needs to
// recognise the header.
namespace std
{
enum _Rb_tree_color { _S_red = false, _S_black = true };
struct _Rb_tree_node_base
{
  _Rb_tree_color _M_color;
  _Rb_tree_node_base *_M_parent;
  _Rb_tree_node_base *_M_left;
  _Rb_tree_node_base *_M_right;
};

static _Rb_tree_node_base *local_increment(_Rb_tree_node_base *x) noexcept
{
  if (x->_M_right != nullptr)
  {
    x = x->_M_right;
    while (x->_M_left != nullptr) x = x->_M_left;
  }
  else
  {
    _Rb_tree_node_base *y = x->_M_parent;
    while (x == y->_M_right) { x = y; y = y->_M_parent; }
    if (x->_M_right != y) x = y;
  }
  return x;
}

static _Rb_tree_node_base *local_decrement(_Rb_tree_node_base *x) noexcept
{
  if (x->_M_color == _S_red && x->_M_parent->_M_parent == x) x = x->_M_right;
  else if (x->_M_left != nullptr)
  {
    _Rb_tree_node_base *y = x->_M_left;
    while (y->_M_right != nullptr) y = y->_M_right;
    x = y;
  }
  else
  {
    _Rb_tree_node_base *y = x->_M_parent;
    while (x == y->_M_left) { x = y; y = y->_M_parent; }
    x = y;
  }
  return x;
}

_Rb_tree_node_base *_Rb_tree_increment(_Rb_tree_node_base *x) noexcept { return local_increment(x); }
_Rb_tree_node_base const *_Rb_tree_increment(_Rb_tree_node_base const *x) noexcept { return local_increment(const_cast<_Rb_tree_node_base *>(x)); }
_Rb_tree_node_base *_Rb_tree_decrement(_Rb_tree_node_base *x) noexcept { return local_decrement(x); }
_Rb_tree_node_base const *_Rb_tree_decrement(_Rb_tree_node_base const *x) noexcept { return local_decrement(const_cast<_Rb_tree_node_base *>(x)); }

void _Rb_tree_insert_and_rebalance(bool const insert_left, _Rb_tree_node_base *x, _Rb_tree_node_base *p, _Rb_tree_node_base &header) noexcept
{
  x->_M_parent = p;
  x->_M_left = nullptr;
  x->_M_right = nullptr;
  x->_M_color = _S_black;
  if (insert_left)
  {
    p->_M_left = x; // also makes leftmost = x when p == &header
    if (p == &header) { header._M_parent = x; header._M_right = x; }
    else if (p == header._M_left) header._M_left = x;
  }
  else
  {
    p->_M_right = x;
    if (p == header._M_right) header._M_right = x;
  }
}

_Rb_tree_node_base *_Rb_tree_rebalance_for_erase(_Rb_tree_node_base *const z, _Rb_tree_node_base &header) noexcept
{
  _Rb_tree_node_base *&root = header._M_parent;
  _Rb_tree_node_base *&leftmost = header._M_left;
  _Rb_tree_node_base *&rightmost = header._M_right;
  _Rb_tree_node_base *y = z;
  _Rb_tree_node_base *x = nullptr;
  if (y->_M_left == nullptr) x = y->_M_right;
  else if (y->_M_right == nullptr) x = y->_M_left;
  else
  {
    y = y->_M_right;
    while (y->_M_left != nullptr) y = y->_M_left;
    x = y->_M_right;
  }
  if (y != z)
  {
    z->_M_left->_M_parent = y;
    y->_M_left = z->_M_left;
    if (y != z->_M_right)
    {
      if (x) x->_M_parent = y->_M_parent;
      y->_M_parent->_M_left = x;
      y->_M_right = z->_M_right;
      z->_M_right->_M_parent = y;
    }
    if (root == z) root = y;
    else if (z->_M_parent->_M_left == z) z->_M_parent->_M_left = y;
    else z->_M_parent->_M_right = y;
    y->_M_parent = z->_M_parent;
    y = z;
  }
  else
  {
    if (x) x->_M_parent = y->_M_parent;
    if (root == z) root = x;
    else if (z->_M_parent->_M_left == z) z->_M_parent->_M_left = x;
    else z->_M_parent->_M_right = x;
    if (leftmost == z)
    {
      if (z->_M_right == nullptr) leftmost = z->_M_parent;
      else { _Rb_tree_node_base *m = x; while (m->_M_left != nullptr) m = m->_M_left; leftmost = m; }
    }
    if (rightmost == z)
    {
      if (z->_M_left == nullptr) rightmost = z->_M_parent;
      else { _Rb_tree_node_base *m = x; while (m->_M_right != nullptr) m = m->_M_right; rightmost = m; }
    }
  }
  return y;
}
}
