// C01 (part 2) - fcppt::args / fcppt::args_from_second are total on every argument vector a hosted environment may hand
// to main: argc >= 0, argv[0..argc-1] C strings, argv[argc] == nullptr - including the EMPTY vector (argc == 0, which
// execve with an empty argv produces).  Real code: libs/core/src/args.cpp, libs/core/src/args_from_second.cpp (included
// from the working tree), std::string / std::vector from the libstdc++ headers.
// Inputs: argc is a shape parameter (0..3); every argument is a C string of symbolic length 0..2 with symbolic bytes in an
// exactly-sized heap block; argv is an exactly-sized heap block of argc + 1 pointers, so reading argv[argc + 1] or beyond
// a terminator is an out-of-bounds finding.  No exception may escape (allocation failure is outside the model).
// Oracle: args = the argc strings in order; args_from_second = all but the first, empty for argc <= 1.
//@property C01
#include "verif_api.h"
#include <fcppt/args.hpp>
#include <fcppt/args_char.hpp>
#include <fcppt/args_from_second.hpp>
#include <fcppt/args_vector.hpp>
#include <cstddef>
#include <string>
#include "libs/core/src/from_std_string.cpp"
#include "libs/core/src/args.cpp"
#include "libs/core/src/args_from_second.cpp"

namespace
{
constexpr unsigned maxlen = 2;
struct arg
{
  char *s;
  unsigned len;
};
arg fresh_arg()
{
  unsigned const len{verif_u8("len")};
  verif_assume(len <= maxlen);
  char *const s{new char[len + 1]};
  for (unsigned i = 0; i < len; ++i)
  {
    s[i] = static_cast<char>(verif_u8("ch"));
    verif_assume(s[i] != 0);
  }
  s[len] = 0;
  return arg{s, len};
}
bool same(fcppt::string const &a, arg const &b)
{
  if (a.size() != b.len) return false;
  bool r{true};
  for (unsigned i = 0; i < b.len; ++i) r = r & (a[i] == b.s[i]);
  return r;
}
}

VERIF_HARNESS(h_args)
{
  unsigned const argc{static_cast<unsigned>(verif_param("argc"))};
  arg a[4];
  char **const argv{new char *[argc + 1]};
  for (unsigned i = 0; i < argc; ++i)
  {
    a[i] = fresh_arg();
    argv[i] = a[i].s;
  }
  argv[argc] = nullptr;
  {
    fcppt::args_vector const all{fcppt::args(static_cast<int>(argc), argv)};
    verif_assert(all.size() == argc, "args: one string per argument");
    for (unsigned i = 0; i < argc && i < all.size(); ++i) verif_assert(same(all[i], a[i]), "args: the i-th string is argv[i]");
    fcppt::args_vector const rest{fcppt::args_from_second(static_cast<int>(argc), argv)};
    verif_assert(rest.size() == (argc == 0 ? 0U : argc - 1), "args_from_second: everything but the first argument, empty for an empty vector");
    for (unsigned i = 1; i < argc && i - 1 < rest.size(); ++i) verif_assert(same(rest[i - 1], a[i]), "args_from_second: the i-th string is argv[i + 1]");
  }
  for (unsigned i = 0; i < argc; ++i) delete[] a[i].s;
  delete[] argv;
  verif_reach("args-end");
}
//@harness h_args param argc=0..3 tier=quick loop=40 leak=1
