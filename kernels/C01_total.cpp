// C01 - the safe API is total: no UB, no hang, failure only through optional / either / documented exceptions.
//
// Registry of total functions decided here (every harness is compiled with clang's UBSan checks as explicit traps and
// _GLIBCXX_ASSERTIONS, every memory access is bounds/lifetime checked by the executor, every loop has a bound derived
// from the code, and no exception type is whitelisted):
//   * all harnesses of kernels/C06_arith.cpp (#included below: truncation_check 64 pairs, from_int, ceil_div,
//     ceil_div_signed, div, mod, clamp, diff, is_power_of_2, next_power_of_2, log2, power_of_2, shifted_mask, test,
//     interval_distance - full range of every argument, restricted only by "the exact result is representable")
//   * narrow-type instantiations the library accepts (u8/u16 log2, next_power_of_2, clamp, div/mod)
//   * container::at_optional / maybe_front / maybe_back / pop_back / pop_front / find_opt, grid::at_optional,
//     array::from_range, runtime_index, enum_::from_string
//   * options::impl::is_flag and next_arg (the real .cpp files) on string_views over exactly-sized heap buffers
// Outside the claim (not executable by the engine: libstdc++.so / libc / kernel): filesystem::file_size,
// remove_extension, io::stream_to_string, read_chars, extract_from_string_locale, cast::dynamic (__dynamic_cast),
// the std::istringstream construction inside parse_string (the rest of that path is imported from C02_entry.cpp),
// allocation failure.
//@property C01
// The totality obligations (no UB, no out-of-bounds, no leak, termination, only documented exceptions) of these
// kernels of other properties are decided again as part of C01's registry: buffer / raw_vector (C07), the codecvt
// loop behind narrow/widen (C15), the options leaf functions (C03) and the string entry path of the parser (C02).
//@import C07_buffer.cpp
//@import C07_raw_vector.cpp only=^h_(push_back|pop_back|insert_one|insert_fill|erase_one|erase_range|resize|reserve|shrink)_
//@import C15_codecvt.cpp
//@import C03_leaf.cpp
//@import C02_entry.cpp
//@import C16_string.cpp only=^h_join_
//@models rbtree
#include "C06_arith.cpp"
#include <fcppt/args_vector.hpp>
#include <fcppt/make_ref.hpp>
#include <fcppt/reference_impl.hpp>
#include <fcppt/runtime_index.hpp>
#include <fcppt/string_view.hpp>
#include <fcppt/array/from_range.hpp>
#include <fcppt/array/object_impl.hpp>
#include <fcppt/container/at_optional.hpp>
#include <fcppt/container/find_opt.hpp>
#include <fcppt/container/maybe_back.hpp>
#include <fcppt/container/maybe_front.hpp>
#include <fcppt/container/pop_back.hpp>
#include <fcppt/container/pop_front.hpp>
#include <fcppt/container/grid/at_optional.hpp>
#include <fcppt/container/grid/object_impl.hpp>
#include <fcppt/enum/from_string.hpp>
#include <fcppt/enum/to_string_case.hpp>
#include <fcppt/enum/to_string_impl_fwd.hpp>
#include <fcppt/options/option_name.hpp>
#include <fcppt/options/option_name_set.hpp>
#include <fcppt/options/impl/is_flag.hpp>
#include <fcppt/options/impl/next_arg.hpp>
#include "libs/options/impl/src/options/impl/is_flag.cpp"
#include "libs/options/impl/src/options/impl/next_arg.cpp"
#include "libs/options/src/options/option_name.cpp"
#include "libs/options/src/options/option_name_comparison.cpp"
#include <array>
#include <deque>
#include <list>
#include <map>
#include <string>
#include <vector>

namespace
{
enum class color
{
  red,
  green,
  blue,
  fcppt_maximum = blue
};
}

namespace fcppt::enum_
{
template <>
struct to_string_impl<color>
{
  static std::string_view get(color const _val)
  {
    switch (_val)
    {
      FCPPT_ENUM_TO_STRING_CASE(color, red);
      FCPPT_ENUM_TO_STRING_CASE(color, green);
      FCPPT_ENUM_TO_STRING_CASE(color, blue);
    }
    return std::string_view{};
  }
};
}

namespace
{
std::vector<int> sym_vector(unsigned const n)
{
  std::vector<int> v;
  for (unsigned i = 0; i < n; ++i) v.push_back(static_cast<int>(verif_u32("elem")));
  return v;
}

// a string_view over a heap block of exactly n symbolic bytes: reading one past the end is an out-of-bounds access
struct exact_string
{
  explicit exact_string(unsigned const n) : data_{new char[n]}, size_{n}
  {
    for (unsigned i = 0; i < n; ++i) data_[i] = static_cast<char>(verif_u8("ch"));
  }
  ~exact_string() { delete[] data_; }
  exact_string(exact_string const &) = delete;
  exact_string &operator=(exact_string const &) = delete;
  std::string_view view() const { return std::string_view{data_, size_}; }
  char *data_;
  unsigned size_;
};
}

// ---- narrow instantiations of the arithmetic helpers
VERIF_HARNESS(h_narrow_math)
{
  u8 const a{sym<u8>("a")}, b{sym<u8>("b")}, c{sym<u8>("c")};
  u16 const x{sym<u16>("x")}, y{sym<u16>("y")};
  if (a != 0) verif_assert(fcppt::math::log2(a) < 8, "log2<u8> < 8");
  if (x != 0) verif_assert(fcppt::math::log2(x) < 16, "log2<u16> < 16");
  if (a <= 128) verif_assert(fcppt::math::next_power_of_2(a) >= a, "next_power_of_2<u8> >= x");
  if (x <= 32768) verif_assert(fcppt::math::next_power_of_2(x) >= x, "next_power_of_2<u16> >= x");
  verif_assert(fcppt::math::clamp(a, b, c).has_value() == (b <= c), "clamp<u8> total");
  verif_assert(fcppt::math::div(a, b).has_value() == (b != 0), "div<u8> total");
  verif_assert(fcppt::math::mod(x, y).has_value() == (y != 0), "mod<u16> total");
  verif_assert(fcppt::math::is_power_of_2(a) == (__builtin_popcount(a) == 1), "is_power_of_2<u8>");
  verif_reach("narrow-end");
}
//@harness h_narrow_math tier=quick loop=40

// ---- sequence containers
VERIF_HARNESS(h_at_optional_vector)
{
  unsigned const n{static_cast<unsigned>(verif_param("n"))};
  std::vector<int> v{sym_vector(n)};
  std::uint64_t const idx{verif_u64("idx")};
  auto const r{fcppt::container::at_optional(v, idx)};
  verif_assert(r.has_value() == (idx < n), "at_optional(vector): element exactly for in-range indices");
  if (r.has_value()) verif_assert(&r.get_unsafe().get() == &v[idx], "at_optional(vector): refers to v[idx]");
  auto const f{fcppt::container::maybe_front(v)};
  auto const b{fcppt::container::maybe_back(v)};
  verif_assert(f.has_value() == (n != 0) && b.has_value() == (n != 0), "maybe_front/back: empty exactly for an empty container");
  if (n != 0) verif_assert(&f.get_unsafe().get() == &v[0] && &b.get_unsafe().get() == &v[n - 1], "maybe_front/back refer to the ends");
  int const last{n != 0 ? v[n - 1] : 0};
  auto const p{fcppt::container::pop_back(v)};
  verif_assert(p.has_value() == (n != 0), "pop_back: nothing exactly for an empty container");
  if (n != 0) verif_assert(p.get_unsafe() == last && v.size() == n - 1, "pop_back removes and returns the last element");
  verif_reach("at_optional_vector-end");
}
//@harness h_at_optional_vector param n=0..3 tier=quick leak=1
//@harness h_at_optional_vector param n=4..6 tier=thorough leak=1

VERIF_HARNESS(h_at_optional_array)
{
  std::array<int, 4> a{{static_cast<int>(verif_u32("e0")), static_cast<int>(verif_u32("e1")), static_cast<int>(verif_u32("e2")), static_cast<int>(verif_u32("e3"))}};
  std::uint64_t const idx{verif_u64("idx")};
  auto const r{fcppt::container::at_optional(a, idx)};
  verif_assert(r.has_value() == (idx < 4), "at_optional(std::array): element exactly for in-range indices");
  if (r.has_value()) verif_assert(r.get_unsafe().get() == a[idx], "at_optional(std::array): value");
  verif_reach("at_optional_array-end");
}
//@harness h_at_optional_array tier=quick

VERIF_HARNESS(h_pop_front_deque_list)
{
  unsigned const n{static_cast<unsigned>(verif_param("n"))};
  std::deque<int> d;
  std::list<int> l;
  for (unsigned i = 0; i < n; ++i)
  {
    int const e{static_cast<int>(verif_u32("elem"))};
    d.push_back(e);
    l.push_back(e);
  }
  int const first{n != 0 ? d.front() : 0};
  auto const pd{fcppt::container::pop_front(d)};
  auto const pl{fcppt::container::pop_front(l)};
  verif_assert(pd.has_value() == (n != 0) && pl.has_value() == (n != 0), "pop_front: nothing exactly for an empty container");
  if (n != 0) verif_assert(pd.get_unsafe() == first && pl.get_unsafe() == first && d.size() == n - 1 && l.size() == n - 1, "pop_front removes and returns the first element");
  verif_reach("pop_front-end");
}
//@harness h_pop_front_deque_list param n=0..2 tier=quick leak=1
//@harness h_pop_front_deque_list param n=3..5 tier=thorough leak=1

VERIF_HARNESS(h_find_opt_map)
{
  unsigned const n{static_cast<unsigned>(verif_param("n"))};
  std::map<int, int> m;
  int keys[3] = {0, 0, 0};
  for (unsigned i = 0; i < n; ++i)
  {
    keys[i] = static_cast<int>(verif_u8("key"));
    m.insert(std::make_pair(keys[i], static_cast<int>(i)));
  }
  int const probe{static_cast<int>(verif_u8("probe"))};
  bool present{false};
  for (unsigned i = 0; i < n; ++i) present = present || keys[i] == probe;
  auto const r{fcppt::container::find_opt(m, probe)};
  verif_assert(r.has_value() == present, "find_opt(map): a value exactly for present keys");
  verif_reach("find_opt-end");
}
//@harness h_find_opt_map param n=0..3 tier=quick leak=1

VERIF_HARNESS(h_grid_at_optional)
{
  using grid2 = fcppt::container::grid::object<int, 2>;
  unsigned const w{static_cast<unsigned>(verif_param("w"))}, h{static_cast<unsigned>(verif_param("h"))};
  grid2 g{grid2::dim{w, h}, 7};
  std::uint64_t const x{verif_u64("x")}, y{verif_u64("y")};
  auto const r{fcppt::container::grid::at_optional(g, grid2::pos{x, y})};
  verif_assert(r.has_value() == (x < w && y < h), "grid::at_optional: element exactly for in-range positions (any 64-bit position)");
  if (r.has_value()) verif_assert(&r.get_unsafe().get() == &g.get_unsafe(grid2::pos{x, y}) && r.get_unsafe().get() == 7, "grid::at_optional: refers to the cell");
  verif_reach("grid_at_optional-end");
}
//@harness h_grid_at_optional param w=0..2 param h=0..2 tier=quick leak=1
//@harness h_grid_at_optional param w=3..4 param h=0..4 tier=thorough leak=1

VERIF_HARNESS(h_array_from_range)
{
  unsigned const n{static_cast<unsigned>(verif_param("n"))};
  std::vector<int> v{sym_vector(n)};
  auto const r{fcppt::array::from_range<2>(v)};
  verif_assert(r.has_value() == (n == 2), "array::from_range<2>: a value exactly for ranges of size 2");
  if (n == 2) verif_assert(r.get_unsafe().get_unsafe(0) == v[0] && r.get_unsafe().get_unsafe(1) == v[1], "array::from_range copies the elements");
  verif_reach("from_range-end");
}
//@harness h_array_from_range param n=0..3 tier=quick leak=1

VERIF_HARNESS(h_runtime_index)
{
  std::uint32_t const idx{verif_u32("idx")};
  std::uint64_t const r{fcppt::runtime_index<std::integral_constant<std::uint32_t, 5>>(
      idx, []<std::uint32_t I>(std::integral_constant<std::uint32_t, I>) -> std::uint64_t { return I + 100; }, []() -> std::uint64_t { return 1; })};
  verif_assert(r == (idx < 5 ? idx + 100U : 1U), "runtime_index: constant == index below the maximum, fail function otherwise");
  verif_reach("runtime_index-end");
}
//@harness h_runtime_index tier=quick

VERIF_HARNESS(h_enum_from_string)
{
  unsigned const n{static_cast<unsigned>(verif_param("n"))};
  exact_string const s{n};
  auto const r{fcppt::enum_::from_string<color>(s.view())};
  bool const is_red{n == 3 && s.data_[0] == 'r' && s.data_[1] == 'e' && s.data_[2] == 'd'};
  bool const is_blue{n == 4 && s.data_[0] == 'b' && s.data_[1] == 'l' && s.data_[2] == 'u' && s.data_[3] == 'e'};
  bool const is_green{n == 5 && s.data_[0] == 'g' && s.data_[1] == 'r' && s.data_[2] == 'e' && s.data_[3] == 'e' && s.data_[4] == 'n'};
  verif_assert(r.has_value() == (is_red || is_blue || is_green), "enum from_string: a value exactly for an enumerator name");
  if (r.has_value()) verif_assert(r.get_unsafe() == (is_red ? color::red : is_blue ? color::blue : color::green), "enum from_string: the named enumerator");
  verif_reach("from_string-end");
}
//@harness h_enum_from_string param n=0..5 tier=quick

// ---- options leaf functions on untrusted argument strings
VERIF_HARNESS(h_is_flag)
{
  unsigned const n{static_cast<unsigned>(verif_param("n"))};
  exact_string const s{n};
  auto const r{fcppt::options::impl::is_flag(s.view())};
  bool const dash{n >= 1 && s.data_[0] == '-'};
  verif_assert(r.has_value() == dash, "is_flag: a flag exactly when the argument starts with '-'");
  if (dash)
  {
    bool const is_long{n >= 2 && s.data_[1] == '-'};
    verif_assert(r.get_unsafe().first.get() == !is_long, "is_flag: short exactly when there is no second dash");
    verif_assert(r.get_unsafe().second.size() == n - (is_long ? 2U : 1U), "is_flag: the name is the rest of the argument");
  }
  verif_reach("is_flag-end");
}
//@harness h_is_flag param n=0..3 tier=quick leak=1
//@harness h_is_flag param n=4..6 tier=thorough leak=1

VERIF_HARNESS(h_next_arg)
{
  unsigned const n{static_cast<unsigned>(verif_param("n"))};
  fcppt::args_vector args;
  // every token has length 0..2 and symbolic characters
  for (unsigned i = 0; i < n; ++i)
  {
    unsigned const len{verif_u8("len")};
    verif_assume(len <= 2);
    std::string t;
    for (unsigned k = 0; k < len; ++k) t.push_back(static_cast<char>(verif_u8("ch")));
    args.push_back(t);
  }
  fcppt::options::option_name_set names;
  names.insert(fcppt::options::option_name{std::string{"o"}, fcppt::options::option_name::is_short{true}});
  auto const r{fcppt::options::impl::next_arg(args, names)};
  // reference: skip flags; a flag naming the known option "-o" also skips its value
  unsigned i{0};
  bool found{false};
  while (i < n)
  {
    std::string const &t{args[i]};
    bool const flag{!t.empty() && t[0] == '-'};
    if (!flag) { found = true; break; }
    bool const known{t.size() == 2 && t[1] == 'o'};
    ++i;
    if (i < n && known) ++i;
  }
  verif_assert(r.has_value() == found, "next_arg: finds an argument exactly when the reference scan does");
  if (found) verif_assert(r.get_unsafe() - args.cbegin() == static_cast<std::ptrdiff_t>(i), "next_arg: the first token that is neither a flag nor the value of a known option");
  verif_reach("next_arg-end");
}
//@harness h_next_arg param n=0..2 tier=quick leak=1 loop=40
//@harness h_next_arg param n=3..3 tier=thorough leak=1 loop=40

// ---- the C06 harnesses, decided again here for their UB / termination / exception obligations
//@harness h_tc_{D}_{S} for D in u8,u16,u32,u64,i8,i16,i32,i64 for S in u8,u16,u32,u64,i8,i16,i32,i64 tier=quick
//@harness h_fi_{U}_{N}_{V} for U in u8,u16,u32 for N in 1,3,9 for V in u8,u16,u32,u64 tier=quick
//@harness h_fi_u8_{N}_{V} for N in 2,17,200,255 for V in u8,u16,u32,u64 tier=thorough
//@harness h_fi_u16_{N}_{V} for N in 256,1000 for V in u8,u16,u32,u64 tier=quick
//@harness h_fi_u16_65535_{V} for V in u8,u16,u32,u64 tier=thorough
//@harness h_fi_u32_{N}_{V} for N in 65536,4294967295 for V in u8,u16,u32,u64 tier=thorough
//@harness h_ceil_div_{T} for T in u32,u64 tier=quick
//@harness h_ceil_div_signed_{T} for T in i32,i64 tier=quick
//@harness h_div_mod_{T} for T in u8,u16,u32,u64 tier=quick
//@harness h_clamp_{T} for T in u8,u16,u32,u64,i8,i16,i32,i64 tier=quick
//@harness h_diff_{T} for T in u32,u64,i32,i64 tier=quick
//@harness h_pow2_{T} for T in u8,u16,u32,u64 tier=quick loop=70
//@harness h_log2_{T} for T in u8,u16,u32,u64 tier=quick loop=70 hang_s=5
//@harness h_power_of_2_{T} for T in u8,u16,u32,u64 tier=quick
//@harness h_interval_distance_{T} for T in i32,i64 tier=quick
