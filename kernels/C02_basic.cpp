// C02 - parser combinators implement ordered-choice (PEG) semantics: leaf parsers and the basic combinators
// (literal, char_set, complement, char_, string, epsilon, fail, sequence, alternative, repetition, repetition_plus,
// optional, not_), no skipper.  See C02_common.hpp for the stream, the encoder and the reference interpreter.
//
// Method: the REAL combinators parse n fully symbolic bytes behind the public abstract basic_stream<char>; the
// reference PEG interpreter runs on the same bytes; success/failure, the fatal flag, the stream position after a
// success and the produced value (flattened to integers) must agree for ALL byte values.  n is a shape parameter.
//
// Outside the claim (whole property C02):
//  * the TEXT of error messages (only success/failure and the fatal flag are compared).  Two formatting helpers that go
//    through ostringstream are replaced IN THE ENGINE by fixed strings (//@stub): output_to_string_locale(
//    container::output(char set)) -> c02_set_text, output_to_string_locale(location) -> c02_loc_text (C02_entry);
//  * float_ (floating point); the numeric conversion inside uint / int_ (fcppt::extract_from_string, an istringstream)
//    is replaced in the engine by its contract (C02_skip.cpp), the native replays run the real one;
//  * positions after a FAILED parse (not specified by the documentation);
//  * std::basic_istringstream inside phrase_parse_string / parse_string / grammar_parse_string: C02_entry.cpp runs the
//    rest of their bodies (phrase_parse_stream + detail::consume_remaining on the real detail::stream) over the C12
//    istream contract model; the catch handler of phrase_parse (exceptions of a failing stream, see C12) is not executed;
//  * wchar_t: C02_wide.cpp covers the wide leaf parsers, the combinators and a wide skipper over a symbolic wchar_t
//    array; wide numbers / wide string entry points are not covered;
//  * grammars outside the family; input lengths above the bounds of the //@harness lines (quick <= 3..4, thorough <= 6);
//  * recursion deeper than the input length allows; repetition of nullable parsers / left recursion (excluded by the
//    property's quantifier).
//@property C02
//@stub ^_ZN5fcppt23output_to_string_localeI.*9container6detail6outputI c02_set_text
#include "C02_common.hpp"
#include <fcppt/parse/char.hpp>
#include <fcppt/parse/char_set.hpp>
#include <fcppt/parse/epsilon.hpp>
#include <fcppt/parse/fail.hpp>
#include <fcppt/parse/literal.hpp>
#include <fcppt/parse/make_ignore.hpp>
#include <fcppt/parse/result_of.hpp>
#include <fcppt/parse/string.hpp>
#include <fcppt/parse/operators/alternative.hpp>
#include <fcppt/parse/operators/complement.hpp>
#include <fcppt/parse/operators/not.hpp>
#include <fcppt/parse/operators/optional.hpp>
#include <fcppt/parse/operators/repetition.hpp>
#include <fcppt/parse/operators/repetition_plus.hpp>
#include <fcppt/parse/operators/sequence.hpp>
#include <fcppt/parse/skipper/epsilon.hpp>

namespace
{
namespace p = fcppt::parse;
using namespace c02;
unsigned len() { return static_cast<unsigned>(verif_param("n")); }
p::skipper::epsilon const noskip{};
template <typename P, typename R>
constexpr bool yields = std::is_same_v<p::result_of<P>, R>;
}

// g01: (a b) | (a c) - common prefix, the right branch needs the rewind
VERIF_HARNESS(h_g01)
{
  static constexpr node g[] = {/*0*/ ALT(1, 2), SEQ(3, 4), SEQ(3, 5), LIT('a'), LIT('b'), LIT('c')};
  auto const parser{(p::literal{'a'} >> p::literal{'b'}) | (p::literal{'a'} >> p::literal{'c'})};
  static_assert(yields<decltype(parser), fcppt::unit>);
  check(parser, noskip, g, 0, -1, len());
}
//@harness h_g01 param n=0..3 tier=quick loop=20
//@harness h_g01 param n=4..5 tier=thorough loop=20

// g01 again with a closed-form oracle (independent of the reference interpreter)
VERIF_HARNESS(h_g01_closed)
{
  input in;
  fresh_input(in, 3);
  arr_stream s{in.b, 3};
  auto const parser{(p::literal{'a'} >> p::literal{'b'}) | (p::literal{'a'} >> p::literal{'c'})};
  auto const r{p::phrase_parse(parser, s, noskip)};
  bool const ok = in.b[0] == 'a' && (in.b[1] == 'b' || in.b[1] == 'c');
  verif_out("ok", r.has_success());
  verif_assert(r.has_success() == ok, "(ab)|(ac) accepts exactly a followed by b or c");
  verif_assert(!ok || s.pos() == 2, "(ab)|(ac) consumes two characters");
  verif_reach("end");
}
//@harness h_g01_closed tier=quick loop=20

// g02: *char_ - greedy, never fails, string result
VERIF_HARNESS(h_g02)
{
  static constexpr node g[] = {REP(1), ANY()};
  auto const parser{*p::char_{}};
  static_assert(yields<decltype(parser), std::string>);
  check(parser, noskip, g, 0, -1, len());
}
//@harness h_g02 param n=0..3 tier=quick loop=20
//@harness h_g02 param n=4..6 tier=thorough loop=20

// g03: char_set >> complement
VERIF_HARNESS(h_g03)
{
  static constexpr node g[] = {SEQ(1, 2), SET("ab"), NSET("bc")};
  auto const parser{p::char_set{'a', 'b'} >> ~p::char_set{'b', 'c'}};
  static_assert(yields<decltype(parser), fcppt::tuple::object<char, char>>);
  check(parser, noskip, g, 0, -1, len());
}
//@harness h_g03 param n=0..3 tier=quick loop=20

// g04: "ab" | "a" - string fails after partial consumption, then the shorter alternative from the saved position
VERIF_HARNESS(h_g04)
{
  static constexpr node g[] = {SEQ(1, 4), ALT(2, 3), STR("ab"), STR("a"), REP(5), ANY()};
  auto const parser{(p::string{std::string{"ab"}} | p::string{std::string{"a"}}) >> *p::char_{}};
  static_assert(yields<decltype(parser), std::string>);
  check(parser, noskip, g, 0, -1, len());
}
//@harness h_g04 param n=0..3 tier=quick loop=20
//@harness h_g04 param n=4..5 tier=thorough loop=20

// g05: (fail | epsilon) >> char_ ; epsilon consumes nothing, fail always fails
VERIF_HARNESS(h_g05)
{
  static constexpr node g[] = {SEQ(1, 4), ALT(2, 3), FAIL(), EPS(), ANY()};
  auto const parser{(p::fail<fcppt::unit>{} | p::epsilon{}) >> p::char_{}};
  static_assert(yields<decltype(parser), char>);
  check(parser, noskip, g, 0, -1, len());
}
//@harness h_g05 param n=0..2 tier=quick loop=20

// g05b: fail alone, and (lit | fail): never a success
VERIF_HARNESS(h_g05b)
{
  static constexpr node g[] = {SEQ(1, 2), LIT('a'), ALT(3, 4), LIT('b'), FAIL()};
  auto const parser{p::literal{'a'} >> (p::literal{'b'} | p::fail<fcppt::unit>{})};
  check(parser, noskip, g, 0, -1, len());
}
//@harness h_g05b param n=0..3 tier=quick loop=20

// g06: +set{a} >> char_ - greedy repetition does not give back ("aa" fails)
// (repetition_plus of a unit parser such as +literal does not compile: tuple::get on a non-tuple - a build-time limit)
VERIF_HARNESS(h_g06)
{
  static constexpr node g[] = {SEQ(1, 3), PLUS(2), SET("a"), ANY()};
  auto const parser{+p::char_set{'a'} >> p::char_{}};
  static_assert(yields<decltype(parser), fcppt::tuple::object<std::string, char>>);
  check(parser, noskip, g, 0, -1, len());
}
//@harness h_g06 param n=0..4 tier=quick loop=20
//@harness h_g06 param n=5..6 tier=thorough loop=20

// g07: -a >> b
VERIF_HARNESS(h_g07)
{
  static constexpr node g[] = {SEQ(1, 3), OPT(2), LIT('a'), LIT('b')};
  auto const parser{-p::literal{'a'} >> p::literal{'b'}};
  static_assert(yields<decltype(parser), fcppt::optional::object<fcppt::unit>>);
  check(parser, noskip, g, 0, -1, len());
}
//@harness h_g07 param n=0..3 tier=quick loop=20

// g08: !a >> char_ - negative lookahead consumes nothing
VERIF_HARNESS(h_g08)
{
  static constexpr node g[] = {SEQ(1, 3), NOT(2), LIT('a'), ANY()};
  auto const parser{!p::literal{'a'} >> p::char_{}};
  static_assert(yields<decltype(parser), char>);
  check(parser, noskip, g, 0, -1, len());
}
//@harness h_g08 param n=0..3 tier=quick loop=20

// g09: -(a b) >> *char_ - optional rewinds after partial consumption; the rest shows where the stream stands
VERIF_HARNESS(h_g09)
{
  static constexpr node g[] = {SEQ(1, 5), OPT(2), SEQ(3, 4), SET("a"), LIT('b'), REP(6), ANY()};
  auto const parser{-(p::char_set{'a'} >> p::literal{'b'}) >> *p::char_{}};
  static_assert(yields<decltype(parser), fcppt::tuple::object<fcppt::optional::object<char>, std::string>>);
  check(parser, noskip, g, 0, -1, len());
}
//@harness h_g09 param n=0..3 tier=quick loop=20
//@harness h_g09 param n=4..5 tier=thorough loop=20

// g10: *(a b) >> *char_ - repetition rewinds to the end of the last complete element
VERIF_HARNESS(h_g10)
{
  static constexpr node g[] = {SEQ(1, 5), REP(2), SEQ(3, 4), LIT('a'), LIT('b'), REP(6), ANY()};
  auto const parser{*(p::literal{'a'} >> p::literal{'b'}) >> *p::char_{}};
  static_assert(yields<decltype(parser), fcppt::tuple::object<std::vector<fcppt::unit>, std::string>>);
  check(parser, noskip, g, 0, -1, len());
}
//@harness h_g10 param n=0..4 tier=quick loop=20
//@harness h_g10 param n=5..6 tier=thorough loop=20

// g11: set{a} | b | +set{c} - a three-way alternative producing variant<char, unit, string>
VERIF_HARNESS(h_g11)
{
  static constexpr node g[] = {ALT(1, 4, -1, T_STRING), ALT(2, 3, T_CHAR, T_UNIT), SET("a"), LIT('b'), PLUS(5), SET("c")};
  auto const parser{p::char_set{'a'} | p::literal{'b'} | +p::char_set{'c'}};
  static_assert(yields<decltype(parser), fcppt::variant::object<char, fcppt::unit, std::string>>);
  check(parser, noskip, g, 0, -1, len());
}
//@harness h_g11 param n=0..3 tier=quick loop=20

// g11b: alternatives of the same type collapse (no variant); the right alternative is itself an alternative
VERIF_HARNESS(h_g11b)
{
  static constexpr node g[] = {ALT(1, 2), SET("a"), ALT(3, 4), NSET("ab"), SEQ(5, 6), LIT('b'), ANY()};
  auto const parser{p::char_set{'a'} | (~p::char_set{'a', 'b'} | (p::literal{'b'} >> p::char_{}))};
  static_assert(yields<decltype(parser), char>);
  check(parser, noskip, g, 0, -1, len());
}
//@harness h_g11b param n=0..3 tier=quick loop=20

// g12: *(-a >> set{b,c}) - optional inside sequence inside repetition
VERIF_HARNESS(h_g12)
{
  static constexpr node g[] = {REP(1), SEQ(2, 4), OPT(3), LIT('a'), SET("bc")};
  auto const parser{*(-p::literal{'a'} >> p::char_set{'b', 'c'})};
  static_assert(yields<decltype(parser), std::vector<fcppt::tuple::object<fcppt::optional::object<fcppt::unit>, char>>>);
  check(parser, noskip, g, 0, -1, len());
}
//@harness h_g12 param n=0..3 tier=quick loop=20
//@harness h_g12 param n=4..4 tier=thorough loop=20

// g13: !(a b) >> *char_ - lookahead over a sequence that fails late
VERIF_HARNESS(h_g13)
{
  static constexpr node g[] = {SEQ(1, 5), NOT(2), SEQ(3, 4), LIT('a'), LIT('b'), REP(6), ANY()};
  auto const parser{!(p::literal{'a'} >> p::literal{'b'}) >> *p::char_{}};
  check(parser, noskip, g, 0, -1, len());
}
//@harness h_g13 param n=0..3 tier=quick loop=20

// g14: !!a >> char_ - positive lookahead by double negation
VERIF_HARNESS(h_g14)
{
  static constexpr node g[] = {SEQ(1, 4), NOT(2), NOT(3), LIT('a'), ANY()};
  auto const parser{!!p::literal{'a'} >> p::char_{}};
  check(parser, noskip, g, 0, -1, len());
}
//@harness h_g14 param n=0..2 tier=quick loop=20

// g15: (*a >> b) | (a >> -(a >> c)) - alternative inside which a repetition consumed input before failing;
// optional inside alternative
VERIF_HARNESS(h_g15)
{
  static constexpr node g[] = {ALT(1, 5, T_VEC_UNIT, T_OPT_CHAR), SEQ(2, 4), REP(3), LIT('a'), LIT('b'), SEQ(3, 6), OPT(7), SEQ(3, 8), SET("c")};
  auto const parser{(*p::literal{'a'} >> p::literal{'b'}) | (p::literal{'a'} >> -(p::literal{'a'} >> p::char_set{'c'}))};
  static_assert(yields<decltype(parser), fcppt::variant::object<std::vector<fcppt::unit>, fcppt::optional::object<char>>>);
  check(parser, noskip, g, 0, -1, len());
}
//@harness h_g15 param n=0..4 tier=quick loop=20
//@harness h_g15 param n=5..5 tier=thorough loop=20

// g16: +(a | b c) >> !char_ - repetition of an alternative, end-of-input test by not_
VERIF_HARNESS(h_g16)
{
  static constexpr node g[] = {SEQ(1, 7), PLUS(2), ALT(3, 4), SET("a"), SEQ(5, 6), LIT('b'), SET("c"), NOT(8), IGNORE(9), ANY()};
  auto const parser{+(p::char_set{'a'} | (p::literal{'b'} >> p::char_set{'c'})) >> !p::make_ignore(p::char_{})};
  static_assert(yields<decltype(parser), std::string>);
  check(parser, noskip, g, 0, -1, len());
}
//@harness h_g16 param n=0..4 tier=quick loop=20
//@harness h_g16 param n=5..5 tier=thorough loop=20
