// C02 - shared harness pieces: the symbolic input stream, the value encoder for the REAL results and the reference
// PEG interpreter (written from doc/files/modules/parse.doxygen and the \brief blocks of the *_decl.hpp headers).
#ifndef VERIF_C02_COMMON_HPP
#define VERIF_C02_COMMON_HPP
#include "verif_api.h"
#include <fcppt/recursive_impl.hpp>
#include <fcppt/strong_typedef_impl.hpp>
#include <fcppt/unit.hpp>
#include <fcppt/either/object_impl.hpp>
#include <fcppt/optional/object_impl.hpp>
#include <fcppt/parse/basic_stream_impl.hpp>
#include <fcppt/parse/error.hpp>
#include <fcppt/parse/fatal_tag.hpp>
#include <fcppt/parse/phrase_parse.hpp>
#include <fcppt/parse/position.hpp>
#include <fcppt/parse/result.hpp>
#include <fcppt/tuple/object_impl.hpp>
#include <fcppt/tuple/get.hpp>
#include <fcppt/variant/apply.hpp>
#include <fcppt/variant/object_impl.hpp>
#include <cstdint>
#include <string>
#include <type_traits>
#include <vector>

#include <fcppt/container/output.hpp>
#include <unordered_set>
// the one non-template function of libs/core the parse headers need (output_to_string -> insert_extract_locale)
#include "libs/core/src/insert_extract_locale.cpp"

// Engine-only replacement (//@stub in every C02 TU) for fcppt::output_to_string_locale(container::output(char set), locale), which
// formats the character set for the error TEXT through an ostringstream.  Error text is outside the claim.
extern "C" std::string c02_set_text(fcppt::container::detail::output<std::unordered_set<char>> const &, std::locale const &)
{
  return std::string{"{set}"};
}

extern "C" std::wstring c02_wset_text(fcppt::container::detail::output<std::unordered_set<wchar_t>> const &, std::locale const &)
{
  return std::wstring{L"{set}"};
}

namespace c02
{
using u64 = std::uint64_t;
constexpr unsigned max_len = 10;

// ------------------------------------------------------------------ the input: n symbolic bytes behind the PUBLIC
// abstract stream interface.  Positions carry no location, so detail::expected never formats a location.
template <typename Ch>
class basic_arr_stream : public fcppt::parse::basic_stream<Ch>
{
public:
  basic_arr_stream(Ch const *const d, unsigned const n) : d_{d}, n_{n}, i_{0}, gets_{0}, sets_{0} {}
  ~basic_arr_stream() override = default;
  fcppt::optional::object<Ch> get_char() override
  {
    ++gets_;
    return i_ < n_ ? fcppt::optional::object<Ch>{d_[i_++]} : fcppt::optional::object<Ch>{};
  }
  fcppt::parse::position<Ch> get_position() const override
  {
    return fcppt::parse::position<Ch>{
        typename fcppt::parse::position<Ch>::pos_type{static_cast<std::streamoff>(i_)},
        typename fcppt::parse::position<Ch>::optional_location{}};
  }
  void set_position(fcppt::parse::position<Ch> const &p) override
  {
    ++sets_;
    i_ = static_cast<unsigned>(std::streamoff{p.pos()});
  }
  unsigned pos() const { return i_; }
  unsigned gets() const { return gets_; }

private:
  Ch const *d_;
  unsigned n_, i_, gets_, sets_;
};
using arr_stream = basic_arr_stream<char>;

template <typename Ch>
struct basic_input
{
  Ch b[max_len + 1];
  long code[max_len + 1]; // the same characters as integers, for the reference
  unsigned n;
};
using input = basic_input<char>;

template <typename Ch>
void fresh_input(basic_input<Ch> &in, unsigned const n)
{
  in.n = n;
  for (unsigned i = 0; i < n; ++i)
  {
    // names built at run time (a constant table of strings may become a relative lookup table in the IR)
    char const name[3] = {'c', static_cast<char>('0' + i), 0};
    if constexpr (sizeof(Ch) == 1)
      in.b[i] = static_cast<Ch>(verif_u8(name));
    else
      in.b[i] = static_cast<Ch>(verif_u32(name)); // wchar_t: all 2^32 values
  }
  for (unsigned i = n; i <= max_len; ++i)
    in.b[i] = 0;
  for (unsigned i = 0; i <= max_len; ++i)
    in.code[i] = static_cast<long>(in.b[i]);
}

// ------------------------------------------------------------------ flat record of a value
struct rec
{
  u64 v[48];
  unsigned n;
  bool overflow;
  void push(u64 const x)
  {
    if (n < 48)
      v[n++] = x;
    else
      overflow = true;
  }
};

// type tags used when a value sits inside a variant (the reference names the tag of each alternative branch)
template <typename T>
struct vtag;
template <>
struct vtag<fcppt::unit>
{
  static constexpr u64 value = 1000;
};
template <>
struct vtag<char>
{
  static constexpr u64 value = 1001;
};
template <>
struct vtag<unsigned>
{
  static constexpr u64 value = 1002;
};
template <>
struct vtag<wchar_t>
{
  static constexpr u64 value = 1301;
};
template <>
struct vtag<std::wstring>
{
  static constexpr u64 value = 1304;
};
template <>
struct vtag<unsigned short>
{
  static constexpr u64 value = 1102;
};
template <>
struct vtag<int>
{
  static constexpr u64 value = 1003;
};
template <>
struct vtag<std::string>
{
  static constexpr u64 value = 1004;
};
template <>
struct vtag<std::vector<fcppt::unit>>
{
  static constexpr u64 value = 1005;
};
template <>
struct vtag<std::vector<unsigned>>
{
  static constexpr u64 value = 1006;
};
template <>
struct vtag<std::vector<fcppt::tuple::object<fcppt::optional::object<fcppt::unit>, char>>>
{
  static constexpr u64 value = 1204;
};
template <>
struct vtag<fcppt::optional::object<char>>
{
  static constexpr u64 value = 1007;
};

inline void enc(rec &, fcppt::unit const &) {}
inline void enc(rec &r, char const c) { r.push(static_cast<unsigned char>(c)); }
inline void enc(rec &r, wchar_t const c) { r.push(static_cast<u64>(static_cast<long>(c)) & 0xffffffffU); }
inline void enc(rec &r, std::wstring const &s);
inline void enc(rec &r, unsigned const c) { r.push(c); }
inline void enc(rec &r, unsigned short const c) { r.push(c); }
inline void enc(rec &r, short const c) { r.push(static_cast<u64>(static_cast<std::int64_t>(c))); }
inline void enc(rec &r, int const c) { r.push(static_cast<u64>(static_cast<std::int64_t>(c))); }
inline void enc(rec &r, std::string const &s);
template <typename T>
void enc(rec &r, std::vector<T> const &v);
template <typename T>
void enc(rec &r, fcppt::optional::object<T> const &o);
template <typename... Ts>
void enc(rec &r, fcppt::tuple::object<Ts...> const &t);
template <typename... Ts>
void enc(rec &r, fcppt::variant::object<Ts...> const &t);
template <typename T, typename Tag>
void enc(rec &r, fcppt::strong_typedef<T, Tag> const &t);
template <typename T>
void enc(rec &r, fcppt::recursive<T> const &t);

inline void enc(rec &r, std::string const &s)
{
  r.push(s.size());
  for (char const c : s)
    enc(r, c);
}
inline void enc(rec &r, std::wstring const &s)
{
  r.push(s.size());
  for (wchar_t const c : s)
    enc(r, c);
}
template <typename T>
void enc(rec &r, std::vector<T> const &v)
{
  r.push(v.size());
  for (T const &e : v)
    enc(r, e);
}
template <typename T>
void enc(rec &r, fcppt::optional::object<T> const &o)
{
  r.push(o.has_value() ? 1U : 0U);
  if (o.has_value())
    enc(r, o.get_unsafe());
}
template <std::size_t I, typename... Ts>
void enc_tuple(rec &r, fcppt::tuple::object<Ts...> const &t)
{
  if constexpr (I < sizeof...(Ts))
  {
    enc(r, fcppt::tuple::get<I>(t));
    enc_tuple<I + 1>(r, t);
  }
}
template <typename... Ts>
void enc(rec &r, fcppt::tuple::object<Ts...> const &t)
{
  enc_tuple<0>(r, t);
}
template <typename... Ts>
void enc(rec &r, fcppt::variant::object<Ts...> const &t)
{
  fcppt::variant::apply(
      [&r](auto const &x)
      {
        r.push(vtag<std::remove_cvref_t<decltype(x)>>::value);
        enc(r, x);
      },
      t);
}
// strong typedefs (parse::construct targets): marker 2000 + inner
template <typename T, typename Tag>
void enc(rec &r, fcppt::strong_typedef<T, Tag> const &t)
{
  r.push(2000);
  enc(r, t.get());
}
template <typename T>
void enc(rec &r, fcppt::recursive<T> const &t)
{
  enc(r, t.get());
}

// ------------------------------------------------------------------ the reference: grammars as node tables
enum kind : unsigned char
{
  K_LIT, // a = char                         -> unit
  K_SET, // s = members                      -> char
  K_NSET, // s = members (complement)        -> char
  K_ANY, //                                  -> char
  K_STR, // s = string                       -> unit
  K_EPS,
  K_FAIL,
  K_SEQ, // a, b ; skipper in between        -> concatenation (units vanish, tuples are flat)
  K_ALT, // a, b ; c = tag pushed before a's value (-1 none), d = same for b
  K_REP, // a                                -> count, elements
  K_PLUS, // a
  K_OPT, // a                                -> 0 | 1, value
  K_NOT, // a
  K_FATAL, // a
  K_LEXEME, // a
  K_SEP, // a = inner, b = separator         -> count, elements
  K_LIST, // a = start, b = inner, c = sep, d = end
  K_CONV, // a ; c = uf number: value is uf(c, first word of a's record)       (convert)
  K_CONVIF, // a ; c = uf number: uf(c,x) bit0 = accept, bit1 = fatal when rejecting, value = uf(c+1,x)
  K_CONST, // a ; c = constant                (convert_const)
  K_WRAP, // a ; pushes 2000 first           (construct<strong typedef>)
  K_IGNORE, // a
  K_NAMED, // a
  K_RULE, // a = node of the rule's body      (base / recursive / grammar nonterminal)
  K_UINT, // digits+, lexeme; value = decimal value (kernel stub of extract_from_string), fails if it does not fit c bits
  K_INT
};

struct node
{
  kind k;
  int a, b, c, d;
  char const *s;
};


// constructors for the node tables (children are indices into the same table)
constexpr node LIT(char const c) { return node{K_LIT, c, 0, 0, 0, nullptr}; }
constexpr node SET(char const *const s) { return node{K_SET, 0, 0, 0, 0, s}; }
constexpr node NSET(char const *const s) { return node{K_NSET, 0, 0, 0, 0, s}; }
constexpr node ANY() { return node{K_ANY, 0, 0, 0, 0, nullptr}; }
constexpr node STR(char const *const s) { return node{K_STR, 0, 0, 0, 0, s}; }
constexpr node EPS() { return node{K_EPS, 0, 0, 0, 0, nullptr}; }
constexpr node FAIL() { return node{K_FAIL, 0, 0, 0, 0, nullptr}; }
constexpr node SEQ(int const a, int const b) { return node{K_SEQ, a, b, 0, 0, nullptr}; }
constexpr node ALT(int const a, int const b, int const ta = -1, int const tb = -1) { return node{K_ALT, a, b, ta, tb, nullptr}; }
constexpr node REP(int const a) { return node{K_REP, a, 0, 0, 0, nullptr}; }
constexpr node PLUS(int const a) { return node{K_PLUS, a, 0, 0, 0, nullptr}; }
constexpr node OPT(int const a) { return node{K_OPT, a, 0, 0, 0, nullptr}; }
constexpr node NOT(int const a) { return node{K_NOT, a, 0, 0, 0, nullptr}; }
constexpr node FATAL(int const a) { return node{K_FATAL, a, 0, 0, 0, nullptr}; }
constexpr node LEXEME(int const a) { return node{K_LEXEME, a, 0, 0, 0, nullptr}; }
constexpr node SEP(int const inner, int const sep) { return node{K_SEP, inner, sep, 0, 0, nullptr}; }
constexpr node LIST(int const start, int const inner, int const sep, int const end) { return node{K_LIST, start, inner, sep, end, nullptr}; }
constexpr node CONV(int const a, int const uf) { return node{K_CONV, a, 0, uf, 0, nullptr}; }
constexpr node CONVIF(int const a, int const uf) { return node{K_CONVIF, a, 0, uf, 0, nullptr}; }
constexpr node CONST(int const a, int const value) { return node{K_CONST, a, 0, value, 0, nullptr}; }
constexpr node WRAP(int const a) { return node{K_WRAP, a, 0, 0, 0, nullptr}; }
constexpr node IGNORE(int const a) { return node{K_IGNORE, a, 0, 0, 0, nullptr}; }
constexpr node NAMED(int const a) { return node{K_NAMED, a, 0, 0, 0, nullptr}; }
constexpr node RULE(int const a) { return node{K_RULE, a, 0, 0, 0, nullptr}; }
constexpr node UINT(int const bits) { return node{K_UINT, 0, 0, bits, 0, nullptr}; }
constexpr node INT(int const bits) { return node{K_INT, 0, 0, bits, 0, nullptr}; }
constexpr int T_UNIT = 1000, T_CHAR = 1001, T_UNSIGNED = 1002, T_INT = 1003, T_STRING = 1004, T_VEC_UNIT = 1005, T_VEC_UNSIGNED = 1006, T_OPT_CHAR = 1007;

// conversion functions of the "for all conversion functions" grammars (uninterpreted, 16-bit results)
inline unsigned conv_uf(int const k, char const c) { return static_cast<unsigned>(verif_uf1(k, static_cast<unsigned char>(c)) & 0xffffU); }
inline fcppt::either::object<fcppt::parse::error<char>, unsigned> convif_uf(int const k, char const c)
{
  using result = fcppt::either::object<fcppt::parse::error<char>, unsigned>;
  u64 const verdict = verif_uf1(k, static_cast<unsigned char>(c));
  if ((verdict & 1U) != 0)
    return result{static_cast<unsigned>(verif_uf1(k + 1, static_cast<unsigned char>(c)) & 0xffffU)};
  return (verdict & 2U) != 0 ? result{fcppt::parse::error<char>{std::string{"rejected"}, fcppt::parse::fatal_tag{}}}
                             : result{fcppt::parse::error<char>{std::string{"rejected"}}};
}

struct refres
{
  bool ok;
  bool fatal;
};

struct refctx
{
  node const *g;
  long const *in; // the input characters as integers (char: -128..127, wchar_t: its value)
  unsigned n;
  unsigned pos;
  rec out;
  unsigned steps;
  u64 vmask; // how a character is recorded as a value: 0xff for char, 0xffffffff for wchar_t
};

// node tables only name ASCII characters, which have the same value as char and as wchar_t
inline bool member(char const *const s, long const c)
{
  bool r = false;
  for (char const *p = s; *p != 0; ++p)
    r = r || (static_cast<long>(*p) == c);
  return r;
}

inline refres ok_res() { return refres{true, false}; }
inline refres fail_res(bool const fatal = false) { return refres{false, fatal}; }

// skippers use the same node language (LIT/SET/EPS/REP/SEQ), values are discarded
inline refres run(refctx &c, int id, int skip);

inline refres run_skip(refctx &c, int const skip)
{
  if (skip < 0)
    return ok_res();
  unsigned const keep = c.out.n;
  refres const r = run(c, skip, -1);
  c.out.n = keep;
  return r;
}

inline refres run_node(refctx &c, node const &nd, int const skip);
inline refres run(refctx &c, int const id, int const skip) { return run_node(c, c.g[id], skip); }
inline refres run_sep(refctx &c, node const &nd, int const skip) { return run_node(c, nd, skip); }

inline refres run_node(refctx &c, node const &nd, int const skip)
{
  ++c.steps;
  switch (nd.k)
  {
  case K_LIT:
  {
    if (c.pos >= c.n)
      return fail_res();
    long const ch = c.in[c.pos++];
    return ch == static_cast<long>(nd.a) ? ok_res() : fail_res();
  }
  case K_SET:
  case K_NSET:
  case K_ANY:
  {
    if (c.pos >= c.n)
      return fail_res();
    long const ch = c.in[c.pos++];
    bool const acc = nd.k == K_ANY ? true : (nd.k == K_SET ? member(nd.s, ch) : !member(nd.s, ch));
    if (!acc)
      return fail_res();
    c.out.push(static_cast<u64>(ch) & c.vmask);
    return ok_res();
  }
  case K_STR:
  {
    for (char const *p = nd.s; *p != 0; ++p)
    {
      if (c.pos >= c.n)
        return fail_res();
      if (c.in[c.pos++] != static_cast<long>(*p))
        return fail_res();
    }
    return ok_res();
  }
  case K_EPS:
    return ok_res();
  case K_FAIL:
    return fail_res();
  case K_SEQ:
  {
    refres const l = run(c, nd.a, skip);
    if (!l.ok)
      return l;
    refres const s = run_skip(c, skip);
    if (!s.ok)
      return s;
    return run(c, nd.b, skip);
  }
  case K_ALT:
  {
    unsigned const p0 = c.pos, o0 = c.out.n;
    if (nd.c >= 0)
      c.out.push(static_cast<u64>(nd.c));
    refres const l = run(c, nd.a, skip);
    if (l.ok)
      return l;
    c.pos = p0;
    c.out.n = o0;
    if (l.fatal)
      return l;
    if (nd.d >= 0)
      c.out.push(static_cast<u64>(nd.d));
    refres const r = run(c, nd.b, skip);
    // position after a failed right alternative is unspecified by the documentation; the harness does not
    // observe positions after failures
    return r;
  }
  case K_REP:
  case K_PLUS:
  {
    unsigned const cnt_slot = c.out.n;
    c.out.push(0);
    u64 count = 0;
    for (;;)
    {
      unsigned const p0 = c.pos, o0 = c.out.n;
      refres r = run(c, nd.a, skip);
      if (r.ok)
        r = run_skip(c, skip);
      if (!r.ok)
      {
        c.pos = p0;
        c.out.n = o0;
        if (r.fatal)
          return r;
        break;
      }
      ++count;
      if (count > max_len + 2)
        break; // nullable body: excluded by the quantifier (well-formed grammars)
    }
    // note for K_PLUS: "identical to repetition, but returns an error in case no results are produced"
    if (nd.k == K_PLUS && count == 0)
      return fail_res();
    c.out.v[cnt_slot] = count;
    return ok_res();
  }
  case K_OPT:
  {
    unsigned const p0 = c.pos, o0 = c.out.n;
    c.out.push(1);
    refres const r = run(c, nd.a, skip);
    if (r.ok)
      return r;
    c.pos = p0;
    c.out.n = o0;
    if (r.fatal)
      return r;
    c.out.push(0);
    return ok_res();
  }
  case K_NOT:
  {
    unsigned const p0 = c.pos, o0 = c.out.n;
    refres const r = run(c, nd.a, skip);
    c.pos = p0;
    c.out.n = o0;
    return r.ok ? fail_res() : ok_res();
  }
  case K_FATAL:
  {
    refres const r = run(c, nd.a, skip);
    return r.ok ? r : fail_res(true);
  }
  case K_LEXEME:
    return run(c, nd.a, -1);
  case K_IGNORE:
  {
    unsigned const o0 = c.out.n;
    refres const r = run(c, nd.a, skip);
    c.out.n = o0;
    return r;
  }
  case K_NAMED: // "Gives a parser a name, improving error messages": the outcome is the inner one
  case K_RULE:
    return run(c, nd.a, skip);
  case K_WRAP:
    c.out.push(2000);
    return run(c, nd.a, skip);
  case K_CONST:
  {
    unsigned const o0 = c.out.n;
    refres const r = run(c, nd.a, skip);
    if (!r.ok)
      return r;
    c.out.n = o0;
    c.out.push(static_cast<u64>(nd.c));
    return r;
  }
  case K_CONV:
  {
    unsigned const o0 = c.out.n;
    refres const r = run(c, nd.a, skip);
    if (!r.ok)
      return r;
    u64 const x = c.out.v[o0];
    c.out.n = o0;
    c.out.push(verif_uf1(nd.c, x) & 0xffffU);
    return r;
  }
  case K_CONVIF:
  {
    unsigned const o0 = c.out.n;
    refres const r = run(c, nd.a, skip);
    if (!r.ok)
      return r;
    u64 const x = c.out.v[o0];
    c.out.n = o0;
    u64 const verdict = verif_uf1(nd.c, x);
    if ((verdict & 1U) == 0)
      return fail_res((verdict & 2U) != 0);
    c.out.push(verif_uf1(nd.c + 1, x) & 0xffffU);
    return r;
  }
  case K_SEP:
  {
    // "Inner is tried first. If this succeeds, this provides the first element.  Then, Separator is tried, followed by
    // Inner.  This is done as long as possible"; no first element = empty result (test/parse/separator.cpp).
    // Skipper at the documented points (between the parts of a sequence, after each repetition element).
    // Positions after a failure are not observed, so a fatal error simply propagates.
    unsigned const p0 = c.pos, o0 = c.out.n;
    unsigned const cnt_slot = c.out.n;
    c.out.push(0);
    refres first = run(c, nd.a, skip);
    if (first.ok)
      first = run_skip(c, skip);
    if (!first.ok)
    {
      if (first.fatal)
        return first;
      c.pos = p0;
      c.out.n = o0;
      c.out.push(0);
      return ok_res();
    }
    u64 count = 1;
    for (;;)
    {
      unsigned const p1 = c.pos, o1 = c.out.n;
      refres r = run(c, nd.b, skip);
      if (r.ok)
        r = run_skip(c, skip);
      if (r.ok)
        r = run(c, nd.a, skip);
      if (r.ok)
        r = run_skip(c, skip);
      if (!r.ok)
      {
        if (r.fatal)
          return r;
        c.pos = p1;
        c.out.n = o1;
        break;
      }
      ++count;
      if (count > max_len + 2)
        break;
    }
    c.out.v[cnt_slot] = count;
    return ok_res();
  }
  case K_LIST:
  {
    // "The start parser is tried first ... Then, the end parser is tried ... If this succeeds, the list is empty ...
    // Otherwise ... [separator{Inner,Sep}] ... Lastly, the end parser is tried";
    // "Equivalent to: Start >> (End | (separator{Inner,Sep} >> End))"
    refres r = run(c, nd.a, skip);
    if (r.ok)
      r = run_skip(c, skip);
    if (!r.ok)
      return r;
    unsigned const p0 = c.pos, o0 = c.out.n;
    refres const e = run(c, nd.d, skip);
    if (e.ok)
    {
      c.out.push(0);
      return e;
    }
    if (e.fatal)
      return e;
    c.pos = p0;
    c.out.n = o0;
    node const sep{K_SEP, nd.b, nd.c, 0, 0, nullptr};
    r = run_sep(c, sep, skip);
    if (r.ok)
      r = run_skip(c, skip);
    if (r.ok)
      r = run(c, nd.d, skip);
    return r;
  }
  case K_UINT:
  case K_INT:
  {
    // lexeme: "-"? digit+ ; "converted ... using fcppt::extract_from_string" (kernel contract stub: decimal value, or
    // failure if it does not fit).  nd.c = number of value bits of the target type.
    unsigned p = c.pos;
    bool neg = false;
    if (nd.k == K_INT && p < c.n && c.in[p] == '-')
    {
      neg = true;
      ++p;
    }
    u64 val = 0;
    unsigned digits = 0;
    while (p < c.n && c.in[p] >= '0' && c.in[p] <= '9')
    {
      val = val * 10 + static_cast<u64>(c.in[p] - '0');
      ++p;
      ++digits;
    }
    // a failing digit parser has consumed the offending character; positions after failures are not observed
    if (digits == 0)
      return fail_res();
    c.pos = p;
    if (val >= (u64{1} << nd.c))
      return fail_res();
    c.out.push(neg ? static_cast<u64>(-static_cast<std::int64_t>(val)) : val);
    return ok_res();
  }
  }
  return fail_res();
}

// ------------------------------------------------------------------ the comparison, shared by every grammar
template <typename Ch, typename Parser, typename Skipper>
void check_input(Parser const &parser, Skipper const &skipper, node const *g, int root, int skiproot, basic_input<Ch> const &in);
template <typename Ch, typename Parser, typename Skipper>
void check_ch(
    Parser const &parser, Skipper const &skipper, node const *const g, int const root, int const skiproot, unsigned const n,
    void (*const precondition)(basic_input<Ch> const &) = nullptr)
{
  basic_input<Ch> in;
  fresh_input(in, n);
  if (precondition != nullptr)
    precondition(in); // restricts the input SHAPE of a few thorough harnesses (documented there)
  check_input<Ch>(parser, skipper, g, root, skiproot, in);
}
// the comparison proper, on an input prepared by the caller (in.b, in.code and in.n filled consistently)
template <typename Ch, typename Parser, typename Skipper>
void check_input(Parser const &parser, Skipper const &skipper, node const *const g, int const root, int const skiproot, basic_input<Ch> const &in)
{
  unsigned const n = in.n;
  basic_arr_stream<Ch> s{in.b, n};
  auto const r{fcppt::parse::phrase_parse(parser, s, skipper)};

  refctx c{g, in.code, n, 0, rec{}, 0, sizeof(Ch) == 1 ? u64{0xff} : u64{0xffffffffU}};
  c.out.n = 0;
  c.out.overflow = false;
  refres e = run_skip(c, skiproot);
  if (e.ok)
    e = run(c, root, skiproot);

  bool const ok = r.has_success();
  verif_out("ok", ok);
  verif_assert(ok == e.ok, "success/failure is the one of the documented semantics");
  if (!ok)
  {
    bool const fatal = r.get_failure_unsafe().is_fatal();
    verif_out("fatal", fatal);
    verif_assert(fatal == e.fatal, "the error is fatal exactly when the documented semantics says so");
    verif_reach("failure");
  }
  else
  {
    verif_out("pos", s.pos());
    verif_assert(s.pos() == c.pos, "stream position after a successful parse");
    rec v;
    v.n = 0;
    v.overflow = false;
    enc(v, r.get_success_unsafe());
    verif_assert(!v.overflow && !c.out.overflow, "record fits");
    verif_out("vn", v.n);
    verif_assert(v.n == c.out.n, "value: same shape");
    if (v.n == c.out.n)
      for (unsigned i = 0; i < v.n; ++i)
      {
        verif_out("v", v.v[i]);
        verif_assert(v.v[i] == c.out.v[i], "value: same content");
      }
    verif_reach("success");
  }
}
template <typename Parser, typename Skipper>
void check(
    Parser const &parser, Skipper const &skipper, node const *const g, int const root, int const skiproot, unsigned const n,
    void (*const precondition)(input const &) = nullptr)
{
  check_ch<char>(parser, skipper, g, root, skiproot, n, precondition);
}
}
#endif
