// C02 - value-transforming parsers: convert, convert_const, convert_if, construct, as_struct, ignore, recursive,
// lexeme without skipper, separator, list.  Conversion functions are UNINTERPRETED (for all functions).
// See C02_basic.cpp for method and "outside the claim".
//@property C02
//@stub ^_ZN5fcppt23output_to_string_localeI.*9container6detail6outputI c02_set_text
#include "C02_common.hpp"
#include <fcppt/make_strong_typedef.hpp>
#include <fcppt/parse/as_struct.hpp>
#include <fcppt/parse/char.hpp>
#include <fcppt/parse/char_set.hpp>
#include <fcppt/parse/construct.hpp>
#include <fcppt/parse/convert_const.hpp>
#include <fcppt/parse/list.hpp>
#include <fcppt/parse/literal.hpp>
#include <fcppt/parse/make_convert.hpp>
#include <fcppt/parse/make_convert_if.hpp>
#include <fcppt/parse/make_fatal.hpp>
#include <fcppt/parse/make_ignore.hpp>
#include <fcppt/parse/make_lexeme.hpp>
#include <fcppt/parse/make_recursive.hpp>
#include <fcppt/parse/result_of.hpp>
#include <fcppt/parse/separator.hpp>
#include <fcppt/parse/operators/alternative.hpp>
#include <fcppt/parse/operators/complement.hpp>
#include <fcppt/parse/operators/not.hpp>
#include <fcppt/parse/operators/optional.hpp>
#include <fcppt/parse/operators/repetition.hpp>
#include <fcppt/parse/operators/repetition_plus.hpp>
#include <fcppt/parse/operators/sequence.hpp>
#include <fcppt/parse/skipper/epsilon.hpp>

namespace
{
namespace p = fcppt::parse;
using namespace c02;
unsigned len() { return static_cast<unsigned>(verif_param("n")); }
p::skipper::epsilon const noskip{};
FCPPT_MAKE_STRONG_TYPEDEF(char, wrapped_char);
struct pair_struct
{
  char first;
  unsigned second;
};
}
namespace c02
{
inline void enc(rec &r, pair_struct const &s)
{
  enc(r, s.first);
  enc(r, s.second);
}
}

// c01: convert(char_, f) >> convert(char_, g): the functions see exactly the parsed characters, in order
VERIF_HARNESS(h_c01)
{
  static constexpr node g[] = {SEQ(1, 3), CONV(2, 30), ANY(), CONV(4, 31), ANY()};
  auto const parser{
      p::make_convert(p::char_{}, [](char const c) { return conv_uf(30, c); }) >>
      p::make_convert(p::char_{}, [](char const c) { return conv_uf(31, c); })};
  static_assert(std::is_same_v<p::result_of<decltype(parser)>, fcppt::tuple::object<unsigned, unsigned>>);
  check(parser, noskip, g, 0, -1, len());
}
//@harness h_c01 param n=0..3 tier=quick loop=20

// c02: *(convert_if(char_, f)) >> *char_: the repetition ends at the first rejected character, which is then not consumed
VERIF_HARNESS(h_c02)
{
  static constexpr node g[] = {SEQ(1, 4), REP(2), CONVIF(3, 32), ANY(), REP(5), ANY()};
  auto const parser{*p::make_convert_if(p::char_{}, [](char const c) { return convif_uf(32, c); }) >> *p::char_{}};
  static_assert(std::is_same_v<p::result_of<decltype(parser)>, fcppt::tuple::object<std::vector<unsigned>, std::string>>);
  check(parser, noskip, g, 0, -1, len());
}
//@harness h_c02 param n=0..3 tier=quick loop=20
//@harness h_c02 param n=4..4 tier=thorough loop=20

// c03: construct<strong typedef>(set) | convert_const(lit, 'q'-wrapped): construct wraps, variant collapses to one type
VERIF_HARNESS(h_c03)
{
  static constexpr node g[] = {ALT(1, 3), WRAP(2), SET("ab"), WRAP(4), CONST(5, 'q'), LIT('c')};
  auto const parser{
      p::construct<wrapped_char>(p::char_set{'a', 'b'}) | p::construct<wrapped_char>(p::convert_const{p::literal{'c'}, 'q'})};
  static_assert(std::is_same_v<p::result_of<decltype(parser)>, wrapped_char>);
  check(parser, noskip, g, 0, -1, len());
}
//@harness h_c03 param n=0..2 tier=quick loop=20

// c04: ignore(+set{a,b}) >> char_
VERIF_HARNESS(h_c04)
{
  static constexpr node g[] = {SEQ(1, 4), IGNORE(2), PLUS(3), SET("ab"), ANY()};
  auto const parser{p::make_ignore(+p::char_set{'a', 'b'}) >> p::char_{}};
  static_assert(std::is_same_v<p::result_of<decltype(parser)>, char>);
  check(parser, noskip, g, 0, -1, len());
}
//@harness h_c04 param n=0..3 tier=quick loop=20

// c05: as_struct<pair_struct>(char_ >> convert(char_, f)) - the tuple elements arrive in order
VERIF_HARNESS(h_c05)
{
  static constexpr node g[] = {SEQ(1, 2), ANY(), CONV(3, 33), ANY()};
  auto const parser{p::as_struct<pair_struct>(p::char_{} >> p::make_convert(p::char_{}, [](char const c) { return conv_uf(33, c); }))};
  static_assert(std::is_same_v<p::result_of<decltype(parser)>, pair_struct>);
  check(parser, noskip, g, 0, -1, len());
}
//@harness h_c05 param n=0..3 tier=quick loop=20

// c06: make_recursive(char_) | ... and lexeme without a skipper are transparent
VERIF_HARNESS(h_c06)
{
  static constexpr node g[] = {SEQ(1, 3), RULE(2), SET("a"), LEXEME(4), SEQ(5, 6), LIT('b'), ANY()};
  auto const parser{p::make_recursive(p::char_set{'a'}) >> p::make_lexeme(p::literal{'b'} >> p::char_{})};
  static_assert(std::is_same_v<p::result_of<decltype(parser)>, fcppt::tuple::object<fcppt::recursive<char>, char>>);
  check(parser, noskip, g, 0, -1, len());
}
//@harness h_c06 param n=0..3 tier=quick loop=20

// l01: separator{set{a,b}, ','} >> *char_ - "a,b,a", a trailing separator is not consumed, empty input gives no elements
VERIF_HARNESS(h_l01)
{
  static constexpr node g[] = {SEQ(1, 4), SEP(2, 3), SET("ab"), LIT(','), REP(5), ANY()};
  auto const parser{p::separator{p::char_set{'a', 'b'}, p::literal{','}} >> *p::char_{}};
  static_assert(std::is_same_v<p::result_of<decltype(parser)>, fcppt::tuple::object<std::vector<char>, std::string>>);
  check(parser, noskip, g, 0, -1, len());
}
//@harness h_l01 param n=0..3 tier=quick loop=20
//@harness h_l01 param n=4..5 tier=thorough loop=20

// l02: the list of test/parse/list.cpp: '[' (fatal(~{',',']'}) % ',') ']'
VERIF_HARNESS(h_l02)
{
  static constexpr node g[] = {LIST(1, 2, 4, 5), LIT('['), FATAL(3), NSET(",]"), LIT(','), LIT(']')};
  p::list const parser{p::literal{'['}, p::make_fatal(~p::char_set{',', ']'}), p::literal{','}, p::literal{']'}};
  static_assert(std::is_same_v<p::result_of<decltype(parser)>, std::vector<char>>);
  check(parser, noskip, g, 0, -1, len());
}
//@harness h_l02 param n=0..4 tier=quick loop=20
//@harness h_l02 param n=5..5 tier=thorough loop=20

// l03: list without fatal parts, elements that are sequences: '(' ((a set{x,y}) % ';') ')'
VERIF_HARNESS(h_l03)
{
  static constexpr node g[] = {LIST(1, 2, 5, 6), LIT('('), SEQ(3, 4), LIT('a'), SET("xy"), LIT(';'), LIT(')')};
  p::list const parser{p::literal{'('}, p::literal{'a'} >> p::char_set{'x', 'y'}, p::literal{';'}, p::literal{')'}};
  static_assert(std::is_same_v<p::result_of<decltype(parser)>, std::vector<char>>);
  check(parser, noskip, g, 0, -1, len());
}
//@harness h_l03 param n=0..4 tier=quick loop=20
//@harness h_l03 param n=5..6 tier=thorough loop=20

// l04: separator whose separator is a prefix of the element: (a b) % a  on "abaab..." - the repetition inside rewinds
// over the separator when the element after it fails
VERIF_HARNESS(h_l04)
{
  static constexpr node g[] = {SEQ(1, 6), SEP(2, 5), SEQ(3, 4), LIT('a'), SET("b"), LIT('a'), REP(7), ANY()};
  auto const parser{p::separator{p::literal{'a'} >> p::char_set{'b'}, p::literal{'a'}} >> *p::char_{}};
  check(parser, noskip, g, 0, -1, len());
}
//@harness h_l04 param n=0..4 tier=quick loop=20
//@harness h_l04 param n=5..6 tier=thorough loop=20
