// C02 - the string / stream entry points: "parse_string / phrase_parse_string / grammar_parse_string succeed if and only
// if the whole input was consumed", on top of the REAL parse::detail::stream (tellg/seekg rewinds, eof clearing).
//
// phrase_parse_string(parser, string, skipper) is exactly
//     std::basic_istringstream stream{string}; stream.unsetf(skipws);
//     return detail::consume_remaining(stream, phrase_parse_stream(parser, stream, skipper));
// The harness executes the second statement verbatim on the C12 istream contract model (C12_istream_model.hpp; natively
// a real std::istream over a small streambuf), i.e. the real phrase_parse_stream, detail::stream, phrase_parse,
// detail::consume_remaining and error_add.  fcppt::io::stream_to_string (ostringstream << rdbuf()) is replaced in the
// engine by its contract c12_stream_to_string; the location formatting of detail::expected by c02_loc_text.
// Outside the claim: std::basic_istringstream itself (construction from the string, unsetf), error text.
//@property C02
//@stub ^_ZN5fcppt23output_to_string_localeI.*9container6detail6outputI c02_set_text
//@stub ^_ZN5fcppt23output_to_string_localeI.*NS_5parse8locationE c02_loc_text
//@stub ^_ZNSi3getEv$ c12_get
//@stub ^_ZNSi5tellgEv$ c12_tellg
//@stub ^_ZNSi5seekgESt4fposI11__mbstate_tE$ c12_seekg
//@stub ^_ZNSt9basic_iosIcSt11char_traitsIcEE5clearESt12_Ios_Iostate$ c12_clear
//@stub ^_ZN5fcppt2io16stream_to_stringIcSt11char_traitsIcEE c12_stream_to_string
#include "C02_common.hpp"
#include "C12_istream_model.hpp"
#include <fcppt/make_cref.hpp>
#include <fcppt/make_ref.hpp>
#include <fcppt/parse/char.hpp>
#include <fcppt/parse/char_set.hpp>
#include <fcppt/parse/list.hpp>
#include <fcppt/parse/literal.hpp>
#include <fcppt/parse/location.hpp>
#include <fcppt/parse/make_fatal.hpp>
#include <fcppt/parse/make_ignore.hpp>
#include <fcppt/parse/phrase_parse_stream.hpp>
#include <fcppt/parse/result_of.hpp>
#include <fcppt/parse/detail/consume_remaining.hpp>
#include <fcppt/parse/operators/alternative.hpp>
#include <fcppt/parse/operators/complement.hpp>
#include <fcppt/parse/operators/not.hpp>
#include <fcppt/parse/operators/optional.hpp>
#include <fcppt/parse/operators/repetition.hpp>
#include <fcppt/parse/operators/repetition_plus.hpp>
#include <fcppt/parse/operators/sequence.hpp>
#include <fcppt/parse/skipper/epsilon.hpp>
#include <fcppt/parse/skipper/space.hpp>

extern "C" std::string c02_loc_text(fcppt::parse::location const &, std::locale const &) { return std::string{"l:c"}; }

namespace
{
namespace p = fcppt::parse;
using namespace c02;
unsigned len() { return static_cast<unsigned>(verif_param("n")); }

template <typename Parser, typename Skipper>
void check_entry(Parser const &parser, Skipper const &skipper, node const *const g, int const root, int const skiproot, unsigned const n)
{
  c12::set_text_symbolic(n);
  c12::holder h{};
  // the body of phrase_parse_string after the construction of the stream
  auto const r{p::detail::consume_remaining(
      fcppt::make_ref(h.get()), p::phrase_parse_stream(parser, h.get(), skipper))};

  long code[c12::max_text];
  for (unsigned i = 0; i < c12::max_text; ++i)
    code[i] = static_cast<long>(c12::ms.text[i]);
  refctx c{g, code, n, 0, rec{}, 0, 0xff};
  c.out.n = 0;
  c.out.overflow = false;
  refres e = run_skip(c, skiproot);
  if (e.ok)
    e = run(c, root, skiproot);
  bool const whole = e.ok && c.pos == n;

  bool const ok = r.has_success();
  verif_out("ok", ok);
  verif_assert(ok == whole, "the string entry point succeeds iff the parser succeeds and consumed the whole input");
  if (!ok)
  {
    bool const fatal = r.get_failure_unsafe().is_fatal();
    verif_out("fatal", fatal);
    verif_assert(fatal == (!e.ok && e.fatal), "fatal flag of the reported error");
    verif_reach("failure");
  }
  else
  {
    rec v;
    v.n = 0;
    v.overflow = false;
    enc(v, r.get_success_unsafe());
    verif_out("vn", v.n);
    verif_assert(v.n == c.out.n, "value: same shape");
    if (v.n == c.out.n)
      for (unsigned i = 0; i < v.n; ++i)
      {
        verif_out("v", v.v[i]);
        verif_assert(v.v[i] == c.out.v[i], "value: same content");
      }
    verif_reach("success");
  }
}
}

// e01: (a b) | (a c) through the real stream: the rewind is a seekg
VERIF_HARNESS(h_e01)
{
  static constexpr node g[] = {ALT(1, 2), SEQ(3, 4), SEQ(3, 5), LIT('a'), LIT('b'), LIT('c')};
  auto const parser{(p::literal{'a'} >> p::literal{'b'}) | (p::literal{'a'} >> p::literal{'c'})};
  check_entry(parser, p::skipper::epsilon{}, g, 0, -1, len());
}
//@harness h_e01 param n=0..3 tier=quick loop=20

// e02: *set{a} under the space skipper: trailing blanks are consumed by the repetition's skipper run, so "a a " is a
// complete parse; reading at the end sets eof/fail on the istream, which the rewind must clear
VERIF_HARNESS(h_e02)
{
  static constexpr node g[] = {REP(1), SET("a"), /*skipper*/ REP(3), SET(" \n\t")};
  auto const parser{*p::char_set{'a'}};
  check_entry(parser, p::skipper::space(), g, 0, 2, len());
}
//@harness h_e02 param n=0..3 tier=quick loop=20

// e03: a >> !char_ : not_ reads at the end of input (eof) and restores the position
VERIF_HARNESS(h_e03)
{
  static constexpr node g[] = {SEQ(1, 2), SET("a"), NOT(3), IGNORE(4), ANY()};
  auto const parser{p::char_set{'a'} >> !p::make_ignore(p::char_{})};
  check_entry(parser, p::skipper::epsilon{}, g, 0, -1, len());
}
//@harness h_e03 param n=0..3 tier=quick loop=20

// e04: *(a b) >> -c : repetition and optional rewinds, leftovers make the entry point fail
VERIF_HARNESS(h_e04)
{
  static constexpr node g[] = {SEQ(1, 5), REP(2), SEQ(3, 4), LIT('a'), LIT('b'), OPT(6), SET("c")};
  auto const parser{*(p::literal{'a'} >> p::literal{'b'}) >> -p::char_set{'c'}};
  check_entry(parser, p::skipper::epsilon{}, g, 0, -1, len());
}
//@harness h_e04 param n=0..4 tier=quick loop=20
//@harness h_e04 param n=5..5 tier=thorough loop=20

// e05: the list of test/parse/list.cpp with its fatal element: fatal flag survives consume_remaining (error_add)
VERIF_HARNESS(h_e05)
{
  static constexpr node g[] = {LIST(1, 2, 4, 5), LIT('['), FATAL(3), NSET(",]"), LIT(','), LIT(']')};
  p::list const parser{p::literal{'['}, p::make_fatal(~p::char_set{',', ']'}), p::literal{','}, p::literal{']'}};
  check_entry(parser, p::skipper::epsilon{}, g, 0, -1, len());
}
//@harness h_e05 param n=0..4 tier=quick loop=20
