// C02 - ALL string / stream entry points, executed for real: parse_string, phrase_parse_string (with and without a
// skipper), grammar_parse_string, parse_stream, phrase_parse_stream, grammar_parse_stream, for char and (string entry
// points) wchar_t.  "The string entry points succeed if and only if the whole input was consumed"; the stream entry
// points return the parser's result and leave the rest of the stream unread; every string entry point agrees with
// phrase_parse_string(*g.start(), s, g.skipper()).
//
// The *_string functions construct a std::basic_istringstream internally.  Its constructor / destructor are extern
// templates of libstdc++, so the calls survive in the IR and are redirected (//@stub, engine only) to the C12 istream
// contract model (C12_istream_model.hpp: c12_iss_ctor lays out the state words the inlined accessors read and loads the
// string into the model text).  Everything else - the bodies of the entry points including unsetf(skipws) and
// reference_to_base, phrase_parse_stream, detail::stream, phrase_parse, consume_remaining, error_add - is the real code.
// The native replay runs the real istringstream.  The *_stream functions are called on the model istream directly.
// Outside the claim: libstdc++'s istringstream / stringbuf themselves (contract model), error text.
//@property C02
//@stub ^_ZN5fcppt23output_to_string_localeI.*9container6detail6outputISt13unordered_setIc c02_set_text
//@stub ^_ZN5fcppt23output_to_string_localeI.*9container6detail6outputISt13unordered_setIw c02_wset_text
//@stub ^_ZN5fcppt23output_to_string_localeINSt7__cxx1112basic_stringIcS.*NS_5parse8locationE c02_loc_text
//@stub ^_ZN5fcppt23output_to_string_localeINSt7__cxx1112basic_stringIwS.*NS_5parse8locationE c02_wloc_text
//@stub ^_ZNSi3getEv$ c12_get
//@stub ^_ZNSi5tellgEv$ c12_tellg
//@stub ^_ZNSi5seekgESt4fposI11__mbstate_tE$ c12_seekg
//@stub ^_ZNSt9basic_iosIcSt11char_traitsIcEE5clearESt12_Ios_Iostate$ c12_clear
//@stub ^_ZN5fcppt2io16stream_to_stringIcSt11char_traitsIcEE c12_stream_to_string
//@stub ^_ZNSt7__cxx1119basic_istringstreamIcSt11char_traitsIcESaIcEEC[12]EONS_12basic_stringIcS2_S3_EESt13_Ios_Openmode$ c12_iss_ctor
//@stub ^_ZNSt7__cxx1119basic_istringstreamIcSt11char_traitsIcESaIcEED[12]Ev$ c12_iss_dtor
//@stub ^_ZTTNSt7__cxx1119basic_istringstreamI[cw]St11char_traitsI[cw]ESaI[cw]EEE$ c12_iss_vtt
//@stub ^_ZNSt8ios_baseD2Ev$ c12_ios_base_dtor
//@stub ^_ZNSt13basic_istreamIwSt11char_traitsIwEE3getEv$ c12_wget
//@stub ^_ZNSt13basic_istreamIwSt11char_traitsIwEE5tellgEv$ c12_wtellg
//@stub ^_ZNSt13basic_istreamIwSt11char_traitsIwEE5seekgESt4fposI11__mbstate_tE$ c12_wseekg
//@stub ^_ZNSt9basic_iosIwSt11char_traitsIwEE5clearESt12_Ios_Iostate$ c12_wclear
//@stub ^_ZN5fcppt2io16stream_to_stringIwSt11char_traitsIwEE c12_wstream_to_string
//@stub ^_ZNSt7__cxx1119basic_istringstreamIwSt11char_traitsIwESaIwEEC[12]EONS_12basic_stringIwS2_S3_EESt13_Ios_Openmode$ c12_wiss_ctor
//@stub ^_ZNSt7__cxx1119basic_istringstreamIwSt11char_traitsIwESaIwEED[12]Ev$ c12_iss_dtor
#include "C02_common.hpp"
#include "C12_istream_model.hpp"
#include <fcppt/make_cref.hpp>
#include <fcppt/nonmovable.hpp>
#include <fcppt/parse/basic_char_set.hpp>
#include <fcppt/parse/basic_literal.hpp>
#include <fcppt/parse/grammar.hpp>
#include <fcppt/parse/grammar_parse_stream.hpp>
#include <fcppt/parse/grammar_parse_string.hpp>
#include <fcppt/parse/location.hpp>
#include <fcppt/parse/parse_stream.hpp>
#include <fcppt/parse/parse_string.hpp>
#include <fcppt/parse/phrase_parse_stream.hpp>
#include <fcppt/parse/phrase_parse_string.hpp>
#include <fcppt/parse/result_of.hpp>
#include <fcppt/parse/separator.hpp>
#include <fcppt/parse/space_set.hpp>
#include <fcppt/parse/skipper/basic_char_set.hpp>
#include <fcppt/parse/skipper/epsilon.hpp>
#include <fcppt/parse/skipper/operators/repetition.hpp>
#include <fcppt/parse/operators/sequence.hpp>

extern "C" std::string c02_loc_text(fcppt::parse::location const &, std::locale const &) { return std::string{"l:c"}; }
extern "C" std::wstring c02_wloc_text(fcppt::parse::location const &, std::locale const &) { return std::wstring{L"l:c"}; }

namespace
{
namespace p = fcppt::parse;
using namespace c02;
unsigned len() { return static_cast<unsigned>(verif_param("n")); }

// the language of every harness here: numbers of one digit out of {1,2}, separated by commas: "1,2" - so that "1,2x",
// "x", "1," ... match only a proper prefix (separator never fails, it just stops)
template <typename Ch>
auto make_items()
{
  return p::separator{p::basic_char_set<Ch>{Ch('1'), Ch('2')}, p::basic_literal<Ch>{Ch(',')}};
}
template <typename Ch>
using items_result = std::vector<Ch>;
template <typename Ch>
using blank_skipper = decltype(*p::skipper::basic_char_set<Ch>{p::space_set<Ch>()});
template <typename Ch>
blank_skipper<Ch> make_blank_skipper()
{
  return *p::skipper::basic_char_set<Ch>{p::space_set<Ch>()};
}

template <typename Ch, typename Skipper>
class items_grammar : public p::grammar<items_result<Ch>, Ch, Skipper>
{
  FCPPT_NONMOVABLE(items_grammar);

public:
  using grammar_base = p::grammar<items_result<Ch>, Ch, Skipper>;
  explicit items_grammar(Skipper &&skipper)
      : grammar_base{fcppt::make_cref(this->items_p), std::move(skipper)}, items_p{grammar_base::make_base(make_items<Ch>())}
  {
  }
  ~items_grammar() = default;

private:
  typename grammar_base::template base_type<items_result<Ch>> items_p;
};

constexpr node g_items[] = {RULE(1), SEP(2, 3), SET("12"), LIT(','), /*skipper 4*/ REP(5), SET(" \n\t")};

template <typename Ch>
struct text
{
  Ch b[max_len + 1];
  long code[max_len + 1];
  unsigned n;
  std::basic_string<Ch> str() const { return std::basic_string<Ch>(b, b + n); }
};
template <typename Ch>
void fresh_text(text<Ch> &t, unsigned const n)
{
  t.n = n;
  for (unsigned i = 0; i <= max_len; ++i)
  {
    char const name[3] = {'c', static_cast<char>('0' + i), 0};
    if (i < n)
      t.b[i] = sizeof(Ch) == 1 ? static_cast<Ch>(verif_u8(name)) : static_cast<Ch>(verif_u32(name));
    else
      t.b[i] = Ch{};
    if (sizeof(Ch) != 1 && i < n)
      verif_assume(std::char_traits<Ch>::to_int_type(t.b[i]) != std::char_traits<Ch>::eof()); // see C12: WEOF is not a character
    t.code[i] = static_cast<long>(t.b[i]);
  }
}

struct expect
{
  bool ok, whole, fatal;
  unsigned pos;
  rec out;
};
template <typename Ch>
expect reference(text<Ch> const &t, int const skiproot)
{
  refctx c{g_items, t.code, t.n, 0, rec{}, 0, sizeof(Ch) == 1 ? u64{0xff} : u64{0xffffffffU}};
  c.out.n = 0;
  c.out.overflow = false;
  refres e = run_skip(c, skiproot);
  if (e.ok)
    e = run(c, 0, skiproot);
  return expect{e.ok, e.ok && c.pos == t.n, !e.ok && e.fatal, c.pos, c.out};
}

// a string entry point's result against the reference: success iff the whole input was consumed
template <typename Result>
void check_string_result(Result const &r, expect const &e, char const *const tag)
{
  bool const ok = r.has_success();
  verif_out(tag, ok);
  verif_assert(ok == e.whole, "the string entry point succeeds iff the parser succeeds and consumed the whole input");
  if (!ok)
    verif_assert(r.get_failure_unsafe().is_fatal() == e.fatal, "fatal flag of the reported error");
  else
  {
    rec v;
    v.n = 0;
    v.overflow = false;
    enc(v, r.get_success_unsafe());
    verif_assert(v.n == e.out.n, "value: same shape");
    if (v.n == e.out.n)
      for (unsigned i = 0; i < v.n; ++i)
        verif_assert(v.v[i] == e.out.v[i], "value: same content");
  }
}
template <typename Result>
void check_agree(Result const &a, Result const &b)
{
  verif_assert(a.has_success() == b.has_success(), "the entry points agree with phrase_parse_string(*g.start(), s, g.skipper())");
  if (a.has_success())
  {
    rec x, y;
    x.n = y.n = 0;
    x.overflow = y.overflow = false;
    enc(x, a.get_success_unsafe());
    enc(y, b.get_success_unsafe());
    verif_assert(x.n == y.n, "agreeing values: shape");
    if (x.n == y.n)
      for (unsigned i = 0; i < x.n; ++i)
        verif_assert(x.v[i] == y.v[i], "agreeing values: content");
  }
  else
    verif_assert(a.get_failure_unsafe().is_fatal() == b.get_failure_unsafe().is_fatal(), "agreeing fatal flags");
}

// grammar_parse_string(s, g) / phrase_parse_string(*g.start(), s, g.skipper()), skipper = blanks
template <typename Ch>
void grammar_string_case()
{
  c12::check_istringstream_layout<Ch>();
  text<Ch> t;
  fresh_text(t, len());
  items_grammar<Ch, blank_skipper<Ch>> const gr{make_blank_skipper<Ch>()};
  expect const e{reference(t, 4)};
  auto const a{p::grammar_parse_string(t.str(), gr)};
  auto const b{p::phrase_parse_string(*gr.start(), t.str(), gr.skipper())};
  check_string_result(a, e, "grammar_parse_string");
  check_string_result(b, e, "phrase_parse_string");
  check_agree(a, b);
  verif_reach("end");
}
// parse_string(p, s) = phrase_parse_string(p, s, epsilon); and a grammar with the epsilon skipper
template <typename Ch>
void plain_string_case()
{
  c12::check_istringstream_layout<Ch>();
  text<Ch> t;
  fresh_text(t, len());
  auto const parser{make_items<Ch>()};
  items_grammar<Ch, p::skipper::epsilon> const gr{p::skipper::epsilon{}};
  expect const e{reference(t, -1)};
  auto const a{p::parse_string(parser, t.str())};
  auto const b{p::phrase_parse_string(parser, t.str(), p::skipper::epsilon{})};
  auto const c{p::grammar_parse_string(t.str(), gr)};
  auto const d{p::phrase_parse_string(*gr.start(), t.str(), gr.skipper())};
  check_string_result(a, e, "parse_string");
  check_string_result(b, e, "phrase_parse_string");
  check_string_result(c, e, "grammar_parse_string");
  check_agree(a, b);
  check_agree(c, d);
  check_agree(a, d);
  verif_reach("end");
}

// the stream entry points: result of the parser, a proper prefix is fine, the rest stays in the stream
template <typename Result>
void check_stream_result(Result const &r, expect const &e, char const *const tag, unsigned const n)
{
  bool const ok = r.has_success();
  verif_out(tag, ok);
  verif_assert(ok == e.ok, "the stream entry point returns the parser's outcome");
  if (ok)
  {
    verif_out("off", static_cast<u64>(c12::ms.off));
    verif_assert(c12::ms.off == static_cast<long>(e.pos), "the unread rest of the stream starts where the parser stopped");
    rec v;
    v.n = 0;
    v.overflow = false;
    enc(v, r.get_success_unsafe());
    verif_assert(v.n == e.out.n, "value: same shape");
    if (v.n == e.out.n)
      for (unsigned i = 0; i < v.n; ++i)
        verif_assert(v.v[i] == e.out.v[i], "value: same content");
  }
  (void)n;
}
void load_model(text<char> const &t)
{
  c12::ms.n = t.n;
  c12::ms.off = 0;
  for (unsigned i = 0; i < c12::max_text; ++i)
    c12::ms.text[i] = i < t.n ? t.b[i] : char{};
}
}

VERIF_HARNESS(h_e06) { grammar_string_case<char>(); }
VERIF_HARNESS(h_e07) { plain_string_case<char>(); }
VERIF_HARNESS(h_we06) { grammar_string_case<wchar_t>(); }
VERIF_HARNESS(h_we07) { plain_string_case<wchar_t>(); }
//@harness h_e06 param n=0..3 tier=quick loop=24
//@harness h_e07 param n=0..4 tier=quick loop=24
//@harness h_we06 param n=0..2 tier=quick loop=24
//@harness h_we07 param n=0..3 tier=quick loop=24
//@harness h_e06 param n=4..4 tier=thorough loop=24 wall=1500
//@harness h_e07 param n=5..5 tier=thorough loop=24
//@harness h_we06 param n=3..4 tier=thorough loop=24 wall=1500
//@harness h_we07 param n=4..4 tier=thorough loop=24

// grammar_parse_stream / phrase_parse_stream / parse_stream on one stream each
VERIF_HARNESS(h_e08)
{
  text<char> t;
  fresh_text(t, len());
  items_grammar<char, blank_skipper<char>> const gr{make_blank_skipper<char>()};
  items_grammar<char, p::skipper::epsilon> const gr0{p::skipper::epsilon{}};
  auto const parser{make_items<char>()};
  expect const e{reference(t, 4)};
  expect const e0{reference(t, -1)};
  {
    load_model(t);
    c12::holder h{};
    check_stream_result(p::grammar_parse_stream(h.get(), gr), e, "grammar_parse_stream", t.n);
  }
  {
    load_model(t);
    c12::holder h{};
    check_stream_result(p::phrase_parse_stream(*gr.start(), h.get(), gr.skipper()), e, "phrase_parse_stream", t.n);
  }
  {
    load_model(t);
    c12::holder h{};
    // parse_stream's third template parameter (Skipper) is unused and cannot be deduced: it has to be spelled out
    check_stream_result(
        p::parse_stream<char, decltype(parser), p::skipper::epsilon>(parser, h.get()), e0, "parse_stream", t.n);
  }
  {
    load_model(t);
    c12::holder h{};
    check_stream_result(p::grammar_parse_stream(h.get(), gr0), e0, "grammar_parse_stream_eps", t.n);
  }
  verif_reach("end");
}
//@harness h_e08 param n=0..3 tier=quick loop=24
//@harness h_e08 param n=4..4 tier=thorough loop=24 wall=1500

// e09 / e10: a leftover that BEGINS WITH A NEWLINE is still a leftover ("a\nb", "a\n" for literal{'a'}; "a a\nx" under
// the space skipper, where the sequence stops right after the second a).  A '\n' is forced right after the accepted
// prefix position, every other character is symbolic; closed-form oracle, independent of the reference interpreter.
VERIF_HARNESS(h_e09)
{
  c12::check_istringstream_layout<char>();
  text<char> t;
  unsigned const n = len();
  fresh_text(t, n);
  verif_assume(n < 2 || t.b[1] == '\n');
  p::basic_literal<char> const parser{'a'};
  auto const a{p::parse_string(parser, t.str())};
  auto const b{p::phrase_parse_string(parser, t.str(), make_blank_skipper<char>())};
  verif_out("parse_string", a.has_success());
  verif_out("phrase_parse_string", b.has_success());
  verif_assert(a.has_success() == (n == 1 && t.b[0] == 'a'), "parse_string(literal a): exactly the input a; a followed by a newline is not consumed completely");
  // with the blank skipper: leading blanks are skipped, then a; anything after it (blank or not, newline included) is left over
  bool ok = false;
  for (unsigned i = 0; i < n; ++i)
  {
    bool blanks = true;
    for (unsigned j = 0; j < i; ++j)
      blanks = blanks && (t.b[j] == ' ' || t.b[j] == '\n' || t.b[j] == '\t');
    ok = ok || (blanks && t.b[i] == 'a' && i + 1 == n);
  }
  verif_assert(b.has_success() == ok, "phrase_parse_string(literal a, blanks): blanks then a and nothing else");
  verif_reach("end");
}
//@harness h_e09 param n=0..3 tier=quick loop=24
VERIF_HARNESS(h_e10)
{
  c12::check_istringstream_layout<char>();
  text<char> t;
  unsigned const n = len();
  fresh_text(t, n);
  verif_assume(t.b[0] == 'a' && t.b[n - 2] == '\n'); // "a?..\n?" : the last but one character is a newline
  auto const parser{p::basic_literal<char>{'a'} >> p::basic_literal<char>{'a'}};
  auto const r{p::phrase_parse_string(parser, t.str(), make_blank_skipper<char>())};
  verif_out("ok", r.has_success());
  // a, blanks, a must use up the input; but the character after the forced newline is then left over unless ... it IS
  // the second a: "a\na" (n = 3) or "a \na" (n = 4) succeed, "a a\nx" never does
  bool blanks = true;
  for (unsigned j = 1; j + 1 < n; ++j)
    blanks = blanks && (t.b[j] == ' ' || t.b[j] == '\n' || t.b[j] == '\t');
  verif_assert(r.has_success() == (blanks && t.b[n - 1] == 'a'), "a >> a under blanks: a newline-led leftover is a failure");
  verif_reach("end");
}
//@harness h_e10 param n=3..5 tier=quick loop=24
