// C02 - fatal errors stop backtracking: fatal under alternative / optional / repetition / repetition_plus / not_ /
// named / convert_if, error_add's "fatal if either is fatal".  See C02_basic.cpp for method and "outside the claim".
//@property C02
//@stub ^_ZN5fcppt23output_to_string_localeI.*9container6detail6outputI c02_set_text
#include "C02_common.hpp"
#include <fcppt/parse/char.hpp>
#include <fcppt/parse/char_set.hpp>
#include <fcppt/parse/convert_const.hpp>
#include <fcppt/parse/literal.hpp>
#include <fcppt/parse/make_convert_if.hpp>
#include <fcppt/parse/make_fatal.hpp>
#include <fcppt/parse/make_ignore.hpp>
#include <fcppt/parse/named.hpp>
#include <fcppt/parse/result_of.hpp>
#include <fcppt/parse/operators/alternative.hpp>
#include <fcppt/parse/operators/not.hpp>
#include <fcppt/parse/operators/optional.hpp>
#include <fcppt/parse/operators/repetition.hpp>
#include <fcppt/parse/operators/repetition_plus.hpp>
#include <fcppt/parse/operators/sequence.hpp>
#include <fcppt/parse/skipper/epsilon.hpp>

namespace
{
namespace p = fcppt::parse;
using namespace c02;
unsigned len() { return static_cast<unsigned>(verif_param("n")); }
p::skipper::epsilon const noskip{};
}

// f01: the documentation's example: ('{' >> fatal('}')) | ('{' >> ']'): on "{]" the right branch is NOT tried
VERIF_HARNESS(h_f01)
{
  static constexpr node g[] = {ALT(1, 5), SEQ(2, 3), LIT('{'), FATAL(4), LIT('}'), SEQ(2, 6), LIT(']')};
  auto const parser{(p::literal{'{'} >> p::make_fatal(p::literal{'}'})) | (p::literal{'{'} >> p::literal{']'})};
  check(parser, noskip, g, 0, -1, len());
}
//@harness h_f01 param n=0..3 tier=quick loop=20

// f02: -(a >> fatal(b)) >> *char_ - a fatal error inside optional is returned, a non-fatal one backtracks
VERIF_HARNESS(h_f02)
{
  static constexpr node g[] = {SEQ(1, 6), OPT(2), SEQ(3, 4), LIT('a'), FATAL(5), LIT('b'), REP(7), ANY()};
  auto const parser{-(p::literal{'a'} >> p::make_fatal(p::literal{'b'})) >> *p::char_{}};
  check(parser, noskip, g, 0, -1, len());
}
//@harness h_f02 param n=0..3 tier=quick loop=20

// f03: *(a >> fatal(b)) >> *char_ - fatal inside repetition
VERIF_HARNESS(h_f03)
{
  static constexpr node g[] = {SEQ(1, 6), REP(2), SEQ(3, 4), LIT('a'), FATAL(5), LIT('b'), REP(7), ANY()};
  auto const parser{*(p::literal{'a'} >> p::make_fatal(p::literal{'b'})) >> *p::char_{}};
  check(parser, noskip, g, 0, -1, len());
}
//@harness h_f03 param n=0..4 tier=quick loop=20
//@harness h_f03 param n=5..5 tier=thorough loop=20

// f04: !(a >> fatal(b)) >> *char_ - "if p fails, not_{p} returns unit": also for a fatal failure; nothing consumed
VERIF_HARNESS(h_f04)
{
  static constexpr node g[] = {SEQ(1, 6), NOT(2), SEQ(3, 4), LIT('a'), FATAL(5), LIT('b'), REP(7), ANY()};
  auto const parser{!(p::literal{'a'} >> p::make_fatal(p::literal{'b'})) >> *p::char_{}};
  check(parser, noskip, g, 0, -1, len());
}
//@harness h_f04 param n=0..3 tier=quick loop=20

// f05: +fatal(set{X}) - test/parse/repetition.cpp "repetition fatal": every input fails fatally (the end of the run
// is a failure of the fatal element)
VERIF_HARNESS(h_f05)
{
  static constexpr node g[] = {PLUS(1), FATAL(2), SET("X")};
  auto const parser{+p::make_fatal(p::char_set{'X'})};
  check(parser, noskip, g, 0, -1, len());
}
//@harness h_f05 param n=0..3 tier=quick loop=20

// f06: (fatal(a) | b) | c - a fatal left error is returned through both alternatives
VERIF_HARNESS(h_f06)
{
  static constexpr node g[] = {ALT(1, 5), ALT(2, 4), FATAL(3), LIT('a'), LIT('b'), LIT('c')};
  auto const parser{(p::make_fatal(p::literal{'a'}) | p::literal{'b'}) | p::literal{'c'}};
  check(parser, noskip, g, 0, -1, len());
}
//@harness h_f06 param n=0..2 tier=quick loop=20

// f07: (a | fatal(b)) | c - a fatal RIGHT error is returned as fatal, so c is not tried
VERIF_HARNESS(h_f07)
{
  static constexpr node g[] = {ALT(1, 5), ALT(2, 3), LIT('a'), FATAL(4), LIT('b'), LIT('c')};
  auto const parser{(p::literal{'a'} | p::make_fatal(p::literal{'b'})) | p::literal{'c'}};
  check(parser, noskip, g, 0, -1, len());
}
//@harness h_f07 param n=0..2 tier=quick loop=20

// f08: fatal(*a) >> fatal(-b) - wrapping parsers that cannot fail changes nothing
VERIF_HARNESS(h_f08)
{
  static constexpr node g[] = {SEQ(1, 4), FATAL(2), REP(3), SET("a"), FATAL(5), OPT(6), LIT('b')};
  auto const parser{p::make_fatal(*p::char_set{'a'}) >> p::make_fatal(-p::literal{'b'})};
  check(parser, noskip, g, 0, -1, len());
}
//@harness h_f08 param n=0..3 tier=quick loop=20

// f09: convert_if whose function rejects fatally or not (both chosen by an uninterpreted function of the character)
VERIF_HARNESS(h_f09)
{
  static constexpr node g[] = {ALT(1, 3), CONVIF(2, 20), ANY(), CONST(4, 77), LIT('z')};
  auto const parser{
      p::make_convert_if(p::char_{}, [](char const c) { return convif_uf(20, c); }) |
      p::convert_const{p::literal{'z'}, 77U}};
  static_assert(std::is_same_v<p::result_of<decltype(parser)>, unsigned>);
  check(parser, noskip, g, 0, -1, len());
}
//@harness h_f09 param n=0..2 tier=quick loop=20

// f10: named{a >> fatal(b)} | (a >> c) - "Gives a parser a name, improving error messages": naming a parser must not
// change which inputs are accepted, so the fatal error of the named parser still stops the alternative
VERIF_HARNESS(h_f10_named_fatal)
{
  static constexpr node g[] = {ALT(1, 7), NAMED(2), SEQ(3, 4), LIT('a'), FATAL(5), LIT('b'), EPS(), SEQ(3, 8), LIT('c')};
  auto const parser{
      p::named{p::literal{'a'} >> p::make_fatal(p::literal{'b'}), std::string{"ab"}} | (p::literal{'a'} >> p::literal{'c'})};
  check(parser, noskip, g, 0, -1, len());
}
//@harness h_f10_named_fatal param n=0..3 tier=quick loop=20

// f11: named without fatal parts: plain pass-through
VERIF_HARNESS(h_f11)
{
  static constexpr node g[] = {ALT(1, 5), NAMED(2), SEQ(3, 4), LIT('a'), LIT('b'), NAMED(6), SEQ(3, 7), LIT('c')};
  auto const parser{
      p::named{p::literal{'a'} >> p::literal{'b'}, std::string{"ab"}} | p::named{p::literal{'a'} >> p::literal{'c'}, std::string{"ac"}}};
  check(parser, noskip, g, 0, -1, len());
}
//@harness h_f11 param n=0..3 tier=quick loop=20
