// C02 - type-erased and recursive parsers: make_base / base_unique_ptr, grammar (start symbol + shared skipper),
// make_recursive, mutually recursive nonterminals referring to each other through fcppt::make_cref.
// Recursion depth is bounded by the input length (every recursive call is guarded by a consumed character).
// See C02_basic.cpp for method and "outside the claim".
//@property C02
//@stub ^_ZN5fcppt23output_to_string_localeI.*9container6detail6outputI c02_set_text
#include "C02_common.hpp"
#include <fcppt/make_cref.hpp>
#include <fcppt/nonmovable.hpp>
#include <fcppt/parse/base_unique_ptr.hpp>
#include <fcppt/parse/char.hpp>
#include <fcppt/parse/char_set.hpp>
#include <fcppt/parse/construct.hpp>
#include <fcppt/parse/grammar.hpp>
#include <fcppt/parse/list.hpp>
#include <fcppt/parse/literal.hpp>
#include <fcppt/parse/make_base.hpp>
#include <fcppt/parse/make_recursive.hpp>
#include <fcppt/parse/result_of.hpp>
#include <fcppt/parse/operators/alternative.hpp>
#include <fcppt/parse/operators/optional.hpp>
#include <fcppt/parse/operators/repetition.hpp>
#include <fcppt/parse/operators/repetition_plus.hpp>
#include <fcppt/parse/operators/sequence.hpp>
#include <fcppt/parse/skipper/epsilon.hpp>
#include <fcppt/parse/skipper/space.hpp>

namespace
{
namespace p = fcppt::parse;
using namespace c02;
unsigned len() { return static_cast<unsigned>(verif_param("n")); }

// ---- nested parentheses:  N := '(' -N ')'      value: the nesting as optional<recursive<nest>>
struct nest
{
  fcppt::optional::object<fcppt::recursive<nest>> inner;
};
using space_skipper = decltype(p::skipper::space());

template <typename Skipper>
class nest_grammar : public p::grammar<nest, char, Skipper>
{
  FCPPT_NONMOVABLE(nest_grammar);

public:
  using grammar_base = p::grammar<nest, char, Skipper>;
  explicit nest_grammar(Skipper &&skipper)
      : grammar_base{fcppt::make_cref(this->nest_p), std::move(skipper)},
        nest_p{grammar_base::make_base(p::construct<nest>(
            p::literal{'('} >> -p::make_recursive(fcppt::make_cref(this->nest_p)) >> p::literal{')'}))}
  {
  }
  ~nest_grammar() = default;

private:
  typename grammar_base::template base_type<nest> nest_p;
};

// ---- the documentation's grammar (examples/parse/grammar.cpp):  L := '{' (E % ',') '}'   E := +set{a,b} '=' L
struct dlist;
using dentry = fcppt::tuple::object<std::string, fcppt::recursive<dlist>>;
struct dlist
{
  std::vector<dentry> elements;
};
using doc_base = p::grammar<dlist, char, p::skipper::epsilon>;
class doc_grammar : public doc_base
{
  FCPPT_NONMOVABLE(doc_grammar);

public:
  doc_grammar()
      : doc_base{fcppt::make_cref(this->list_p), p::skipper::epsilon{}},
        list_p{doc_base::make_base(p::construct<dlist>(
            p::list{p::literal{'{'}, fcppt::make_cref(this->entry_p), p::literal{','}, p::literal{'}'}}))},
        entry_p{doc_base::make_base(+p::char_set{'a', 'b'} >> p::literal{'='} >> p::make_recursive(fcppt::make_cref(this->list_p)))}
  {
  }
  ~doc_grammar() = default;

private:
  doc_base::base_type<dlist> list_p;
  doc_base::base_type<dentry> entry_p;
};
}
namespace c02
{
inline void enc(rec &r, nest const &v) { enc(r, v.inner); }
inline void enc(rec &r, dlist const &v) { enc(r, v.elements); }
}

// r01: make_base hides the type, parsing through the virtual call is unchanged
VERIF_HARNESS(h_r01)
{
  static constexpr node g[] = {RULE(1), SEQ(2, 5), ALT(3, 4), SET("a"), SET("b"), REP(6), ANY()};
  p::base_unique_ptr<fcppt::tuple::object<char, std::string>, char, p::skipper::epsilon> const parser{
      p::make_base<char, p::skipper::epsilon>((p::char_set{'a'} | p::char_set{'b'}) >> *p::char_{})};
  check(*parser, p::skipper::epsilon{}, g, 0, -1, len());
}
//@harness h_r01 param n=0..3 tier=quick loop=20

// r02: N := '(' -N ')' through grammar / base / recursive, no skipper; "(())", "()", "(()" ...
VERIF_HARNESS(h_r02)
{
  static constexpr node g[] = {RULE(1), SEQ(2, 6), SEQ(3, 4), LIT('('), OPT(5), RULE(0), LIT(')')};
  nest_grammar<p::skipper::epsilon> const gr{p::skipper::epsilon{}};
  check(*gr.start(), gr.skipper(), g, 0, -1, len());
}
//@harness h_r02 param n=0..4 tier=quick loop=20
//@harness h_r02 param n=5..6 tier=thorough loop=20

// r03: the same grammar with the space skipper shared by all nonterminals: "( ( ) )"
VERIF_HARNESS(h_r03)
{
  static constexpr node g[] = {RULE(1), SEQ(2, 6), SEQ(3, 4), LIT('('), OPT(5), RULE(0), LIT(')'), /*skipper 7*/ REP(8), SET(" \n\t")};
  nest_grammar<space_skipper> const gr{p::skipper::space()};
  check(*gr.start(), gr.skipper(), g, 0, 7, len());
}
//@harness h_r03 param n=0..3 tier=quick loop=20
//@harness h_r03 param n=4..4 tier=thorough loop=20 wall=900

// r04: the documentation's mutually recursive grammar: "{a={}}", "{}", "{a={},b={}}" (needs 11) ...
VERIF_HARNESS(h_r04)
{
  static constexpr node g[] = {/*0 L*/ RULE(1), LIST(2, 3, 4, 5), LIT('{'), RULE(6), LIT(','), LIT('}'),
                               /*6 E*/ SEQ(7, 11), SEQ(8, 10), PLUS(9), SET("ab"), LIT('='), RULE(0)};
  doc_grammar const gr{};
  check(*gr.start(), gr.skipper(), g, 0, -1, len());
}
//@harness h_r04 param n=0..4 tier=quick loop=20
//@harness h_r04 param n=5..6 tier=thorough loop=20 wall=900
