// C02 - skippers: phrase_parse runs the skipper at the start, sequence between its parts, repetition after each
// successful element, lexeme disables it (doc/files/modules/parse.doxygen "Whitespace Skipping").  Skippers: epsilon,
// space (= *char_set{' ','\n','\t'}), char_set, literal, repetition, sequence.  uint / int_ parse digit runs as
// lexemes; fcppt::extract_from_string (an istringstream) is replaced IN THE ENGINE by its contract
// (c02_extract_*: decimal value, nothing if it does not fit) - the native replay runs the real one.
// See C02_basic.cpp for method and "outside the claim".
//@property C02
//@stub ^_ZN5fcppt23output_to_string_localeI.*9container6detail6outputI c02_set_text
//@stub ^_ZN5fcppt26extract_from_string_localeIjNSt c02_extract_unsigned
//@stub ^_ZN5fcppt26extract_from_string_localeItNSt c02_extract_ushort
//@stub ^_ZN5fcppt26extract_from_string_localeIiNSt c02_extract_int
//@stub ^_ZN5fcppt26extract_from_string_localeIsNSt c02_extract_short
#include "C02_common.hpp"
#include <fcppt/parse/char.hpp>
#include <fcppt/parse/char_set.hpp>
#include <fcppt/parse/digits.hpp>
#include <fcppt/parse/int.hpp>
#include <fcppt/parse/list.hpp>
#include <fcppt/parse/literal.hpp>
#include <fcppt/parse/make_lexeme.hpp>
#include <fcppt/parse/result_of.hpp>
#include <fcppt/parse/separator.hpp>
#include <fcppt/parse/uint.hpp>
#include <fcppt/parse/operators/alternative.hpp>
#include <fcppt/parse/operators/not.hpp>
#include <fcppt/parse/operators/optional.hpp>
#include <fcppt/parse/operators/repetition.hpp>
#include <fcppt/parse/operators/repetition_plus.hpp>
#include <fcppt/parse/operators/sequence.hpp>
#include <fcppt/parse/skipper/char_set.hpp>
#include <fcppt/parse/skipper/epsilon.hpp>
#include <fcppt/parse/skipper/literal.hpp>
#include <fcppt/parse/skipper/space.hpp>
#include <fcppt/parse/skipper/operators/repetition.hpp>
#include <fcppt/parse/skipper/operators/sequence.hpp>

namespace
{
template <typename T>
fcppt::optional::object<T> decimal(std::string const &s, unsigned const bits)
{
  c02::u64 v = 0;
  if (s.empty())
    return fcppt::optional::object<T>{};
  for (char const c : s)
  {
    if (c < '0' || c > '9')
      return fcppt::optional::object<T>{};
    v = v * 10 + static_cast<c02::u64>(c - '0');
    if (v >= (c02::u64{1} << 40))
      return fcppt::optional::object<T>{};
  }
  return v < (c02::u64{1} << bits) ? fcppt::optional::object<T>{static_cast<T>(v)} : fcppt::optional::object<T>{};
}
}
extern "C" fcppt::optional::object<unsigned> c02_extract_unsigned(std::string const &s, std::locale const &) { return decimal<unsigned>(s, 32); }
extern "C" fcppt::optional::object<unsigned short> c02_extract_ushort(std::string const &s, std::locale const &) { return decimal<unsigned short>(s, 16); }
extern "C" fcppt::optional::object<int> c02_extract_int(std::string const &s, std::locale const &) { return decimal<int>(s, 31); }
extern "C" fcppt::optional::object<short> c02_extract_short(std::string const &s, std::locale const &) { return decimal<short>(s, 15); }

namespace
{
namespace p = fcppt::parse;
using namespace c02;
unsigned len() { return static_cast<unsigned>(verif_param("n")); }
}

// s01: space skipper, a >> b: " a\tb" etc.
VERIF_HARNESS(h_s01)
{
  static constexpr node g[] = {SEQ(1, 2), LIT('a'), LIT('b'), /*skipper*/ REP(4), SET(" \n\t")};
  auto const parser{p::literal{'a'} >> p::literal{'b'}};
  check(parser, p::skipper::space(), g, 0, 3, len());
}
//@harness h_s01 param n=0..3 tier=quick loop=20
//@harness h_s01 param n=4..4 tier=thorough loop=20

// s02: space skipper, *set{a}: the skipper runs after each element, so trailing blanks are consumed, blanks before a
// non-element stay consumed only up to the last element+skipper
VERIF_HARNESS(h_s02)
{
  static constexpr node g[] = {REP(1), SET("a"), /*skipper*/ REP(3), SET(" \n\t")};
  auto const parser{*p::char_set{'a'}};
  check(parser, p::skipper::space(), g, 0, 2, len());
}
//@harness h_s02 param n=0..3 tier=quick loop=20

// s03: lexeme(a >> b) >> c under the space skipper: no blanks allowed between a and b, allowed before c
VERIF_HARNESS(h_s03)
{
  static constexpr node g[] = {SEQ(1, 5), LEXEME(2), SEQ(3, 4), LIT('a'), LIT('b'), LIT('c'), /*skipper*/ REP(7), SET(" \n\t")};
  auto const parser{p::make_lexeme(p::literal{'a'} >> p::literal{'b'}) >> p::literal{'c'}};
  check(parser, p::skipper::space(), g, 0, 6, len());
}
//@harness h_s03 param n=0..3 tier=quick loop=20
//@harness h_s03 param n=4..4 tier=thorough loop=20

// s04: a NON-repeating literal skipper: exactly one '_' is demanded at the start and between the parts of a sequence
VERIF_HARNESS(h_s04)
{
  static constexpr node g[] = {SEQ(1, 2), LIT('a'), LIT('b'), /*skipper*/ LIT('_')};
  auto const parser{p::literal{'a'} >> p::literal{'b'}};
  check(parser, p::skipper::literal{'_'}, g, 0, 3, len());
}
//@harness h_s04 param n=0..4 tier=quick loop=20

// s05: skipper built from skipper::sequence inside skipper::repetition; the lexeme'd rest shows the position
VERIF_HARNESS(h_s05)
{
  auto const parser{*p::char_set{'a'} >> p::make_lexeme(*p::char_{})};
  // skipper: repetition of the sequence '_' '_': "__" pairs are skipped, a single '_' is given back
  auto const skipper{*(p::skipper::literal{'_'} >> p::skipper::literal{'_'})};
  static constexpr node g[] = {SEQ(1, 3), REP(2), SET("a"), LEXEME(4), REP(5), ANY(), /*skipper 6*/ REP(7), SEQ(8, 8), LIT('_')};
  check(parser, skipper, g, 0, 6, len());
}
//@harness h_s05 param n=0..4 tier=quick loop=20
//@harness h_s05 param n=5..5 tier=thorough loop=20

// s06: non-repeating literal skipper inside a repetition: *(set{a}) where each element must be followed by one '_'
VERIF_HARNESS(h_s06)
{
  static constexpr node g[] = {SEQ(1, 3), REP(2), SET("a"), LEXEME(4), REP(5), ANY(), /*skipper*/ LIT('_')};
  auto const parser{*p::char_set{'a'} >> p::make_lexeme(*p::char_{})};
  check(parser, p::skipper::literal{'_'}, g, 0, 6, len());
}
//@harness h_s06 param n=0..4 tier=quick loop=20

// s07: non-repeating char_set skipper {' ', '\t'} with an optional and an alternative
VERIF_HARNESS(h_s07)
{
  static constexpr node g[] = {SEQ(1, 3), OPT(2), LIT('a'), ALT(4, 5), SET("b"), SET("c"), /*skipper*/ SET(" \t")};
  auto const parser{-p::literal{'a'} >> (p::char_set{'b'} | p::char_set{'c'})};
  check(parser, p::skipper::char_set{' ', '\t'}, g, 0, 6, len());
}
//@harness h_s07 param n=0..3 tier=quick loop=20

// s08: separator under the space skipper: "a , b" ; explicit epsilon skipper behaves like parse()
VERIF_HARNESS(h_s08)
{
  static constexpr node g[] = {SEP(1, 2), SET("ab"), LIT(','), /*skipper*/ REP(4), SET(" \n\t")};
  auto const parser{p::separator{p::char_set{'a', 'b'}, p::literal{','}}};
  check(parser, p::skipper::space(), g, 0, 3, len());
}
//@harness h_s08 param n=0..3 tier=quick loop=20
//@harness h_s08 param n=4..4 tier=thorough loop=20

// s09: optional inside repetition inside alternative, under the space skipper; the left branch may consume several
// elements and blanks before failing on the missing ';', then the right branch restarts from the saved position
VERIF_HARNESS(h_s09)
{
  static constexpr node g[] = {ALT(1, 8, T_STRING + 200, T_STRING), SEQ(2, 7), REP(3), SEQ(4, 6), OPT(5), LIT('a'), SET("b"), LIT(';'),
                               PLUS(9), SET("ab"), /*skipper 10*/ REP(11), SET(" \n\t")};
  auto const parser{(*(-p::literal{'a'} >> p::char_set{'b'}) >> p::literal{';'}) | +p::char_set{'a', 'b'}};
  static_assert(std::is_same_v<
                p::result_of<decltype(parser)>,
                fcppt::variant::object<std::vector<fcppt::tuple::object<fcppt::optional::object<fcppt::unit>, char>>, std::string>>);
  check(parser, p::skipper::space(), g, 0, 10, len());
}
//@harness h_s09 param n=0..2 tier=quick loop=20
//@harness h_s09 param n=3..4 tier=thorough loop=20 wall=900

// s10: negative lookahead over a MULTI-PART parser under the space skipper: the looked-ahead sequence skips between its
// parts like any other sequence (!p is the exact negation of "p matches here"), and consumes nothing either way
VERIF_HARNESS(h_s10)
{
  static constexpr node g[] = {SEQ(1, 5), NOT(2), SEQ(3, 4), LIT('a'), LIT('b'), LEXEME(6), REP(7), ANY(), /*skipper 8*/ REP(9), SET(" \n\t")};
  auto const parser{!(p::literal{'a'} >> p::literal{'b'}) >> p::make_lexeme(*p::char_{})};
  check(parser, p::skipper::space(), g, 0, 8, len());
}
//@harness h_s10 param n=0..3 tier=quick loop=20
//@harness h_s10 param n=4..4 tier=thorough loop=20
// s11: the same under a repetition: *( !(a a) {a,b} ) a a  - the lookahead decides where the repetition stops
VERIF_HARNESS(h_s11)
{
  static constexpr node g[] = {SEQ(1, 8), REP(2), SEQ(3, 7), NOT(4), SEQ(5, 6), LIT('a'), LIT('a'), SET("ab"), SEQ(9, 10), LIT('a'), LIT('a'),
                               /*skipper 11*/ REP(12), SET(" \n\t")};
  auto const parser{*(!(p::literal{'a'} >> p::literal{'a'}) >> p::char_set{'a', 'b'}) >> (p::literal{'a'} >> p::literal{'a'})};
  check(parser, p::skipper::space(), g, 0, 11, len());
}
//@harness h_s11 param n=0..3 tier=quick loop=20
//@harness h_s11 param n=4..4 tier=thorough loop=20

// n01: uint<unsigned> >> uint<unsigned> under the space skipper (the documentation's example: "10 20")
VERIF_HARNESS(h_n01)
{
  static constexpr node g[] = {SEQ(1, 1), UINT(32), /*skipper*/ REP(3), SET(" \n\t")};
  auto const parser{p::uint<unsigned>{} >> p::uint<unsigned>{}};
  static_assert(std::is_same_v<p::result_of<decltype(parser)>, fcppt::tuple::object<unsigned, unsigned>>);
  check(parser, p::skipper::space(), g, 0, 2, len());
}
//@harness h_n01 param n=0..2 tier=quick loop=20
//@harness h_n01 param n=3..3 tier=thorough loop=20 paths=200000 wall=1500

// n02: the same without skipper can never succeed ("the first uint parser will always consume as many digits as it can")
VERIF_HARNESS(h_n02)
{
  input in;
  unsigned const n = len();
  fresh_input(in, n);
  arr_stream s{in.b, n};
  auto const parser{p::uint<unsigned>{} >> p::uint<unsigned>{}};
  auto const r{p::phrase_parse(parser, s, p::skipper::epsilon{})};
  verif_out("ok", r.has_success());
  verif_assert(!r.has_success(), "uint >> uint without skipping never succeeds");
  verif_reach("end");
}
//@harness h_n02 param n=0..2 tier=quick loop=20

// n03: int_<int> >> *char_: optional '-', digits, value and sign; the rest shows the position
VERIF_HARNESS(h_n03)
{
  static constexpr node g[] = {SEQ(1, 2), INT(31), REP(3), ANY()};
  auto const parser{p::int_<int>{} >> *p::char_{}};
  static_assert(std::is_same_v<p::result_of<decltype(parser)>, fcppt::tuple::object<int, std::string>>);
  check(parser, p::skipper::epsilon{}, g, 0, -1, len());
}
//@harness h_n03 param n=0..2 tier=quick loop=20
//@harness h_n03 param n=3..3 tier=thorough loop=20 paths=200000 wall=1500

// n04: uint<unsigned short> with 5 digits: values above 65535 make the parser fail (extract_from_string contract)
VERIF_HARNESS(h_n04)
{
  static constexpr node g[] = {ALT(1, 2, T_UNSIGNED + 100, T_STRING), UINT(16), REP(3), ANY()};
  auto const parser{p::uint<unsigned short>{} | *p::char_{}};
  check(parser, p::skipper::epsilon{}, g, 0, -1, len());
}
//@harness h_n04 param n=0..2 tier=quick loop=20

// n05: the overflow boundary of uint<unsigned short>: inputs "655xy" with x, y symbolic (the first three characters are
// fixed because every symbolic digit costs a 13-way fork in the unordered_set lookup): accepted iff xy <= 35
VERIF_HARNESS(h_n05)
{
  static constexpr node g[] = {ALT(1, 2, T_UNSIGNED + 100, T_STRING), UINT(16), REP(3), ANY()};
  auto const parser{p::uint<unsigned short>{} | *p::char_{}};
  check(parser, p::skipper::epsilon{}, g, 0, -1, 5, [](input const &in) { verif_assume(in.b[0] == '6' && in.b[1] == '5' && in.b[2] == '5'); });
}
//@harness h_n05 tier=thorough loop=20 wall=900

// n06 / n07: the overflow boundary in the quick tier: a concrete prefix with as many digits as the maximum minus one and
// ONE symbolic last character: "6553x" for unsigned short (65530..65535 fit, 65536..65539 do not), "429496729x" for
// unsigned (4294967290..4294967295 fit, ..296..299 do not).  In `uint<T> | +digits` a rejected number takes the second
// branch (the digit string), an accepted one the first; a non-digit x leaves "6553" / "429496729" accepted.
namespace
{
// a CONCRETE prefix followed by one fully symbolic character
input prefix_plus_one(char const *const prefix)
{
  input in;
  unsigned n = 0;
  for (; prefix[n] != 0; ++n)
    in.b[n] = prefix[n];
  in.b[n++] = static_cast<char>(verif_u8("last"));
  in.n = n;
  for (unsigned i = n; i <= max_len; ++i)
    in.b[i] = 0;
  for (unsigned i = 0; i <= max_len; ++i)
    in.code[i] = static_cast<long>(in.b[i]);
  return in;
}
}
VERIF_HARNESS(h_n06)
{
  static constexpr node g[] = {ALT(1, 2, T_UNSIGNED + 100, T_STRING), UINT(16), PLUS(3), SET("0123456789")};
  auto const parser{p::uint<unsigned short>{} | +p::digits<char>()};
  static_assert(std::is_same_v<p::result_of<decltype(parser)>, fcppt::variant::object<unsigned short, std::string>>);
  check_input<char>(parser, p::skipper::epsilon{}, g, 0, -1, prefix_plus_one("6553"));
}
VERIF_HARNESS(h_n07)
{
  static constexpr node g[] = {ALT(1, 2, T_UNSIGNED, T_STRING), UINT(32), PLUS(3), SET("0123456789")};
  auto const parser{p::uint<unsigned>{} | +p::digits<char>()};
  static_assert(std::is_same_v<p::result_of<decltype(parser)>, fcppt::variant::object<unsigned, std::string>>);
  check_input<char>(parser, p::skipper::epsilon{}, g, 0, -1, prefix_plus_one("429496729"));
}
//@harness h_n06 tier=quick loop=30
//@harness h_n07 tier=quick loop=30

// ---------------------------------------------------------------------------------------------------------------------
// Number parsers UNDER AN ACTIVE SKIPPER.  int_ / uint are lexemes ("A signed integer string optionally starts with the
// symbol '-'.  It is then followed by a nonempty sequence of digits"): the skipper runs only BETWEEN tokens (start of
// phrase_parse, between the parts of a sequence, after each repetition element), never between the sign and the digits
// or between two digits.  "- 5" is not an int; "3 - 4" under *int_ yields {3} and stops before the '-'.
// Every harness exists twice: h_kNN with fully symbolic bytes (all 256 values; each symbolic digit lookup is a 13-way
// fork in std::unordered_set, so lengths stay small) and h_kNNa with every byte symbolic over the alphabet
// {'-', ' ', '\t', ',', '4', '7', 'a'} ("for all input strings over a small alphabet" of the property), which reaches
// the lengths where sign, blanks and digits interact.
namespace c02
{
template <>
struct vtag<fcppt::tuple::object<fcppt::optional::object<fcppt::unit>, unsigned>>
{
  static constexpr u64 value = 1302;
};
}
namespace
{
void small_alphabet(input const &in)
{
  for (unsigned i = 0; i < in.n; ++i)
  {
    char const c = in.b[i];
    verif_assume(c == '-' || c == ' ' || c == '\t' || c == ',' || c == '4' || c == '7' || c == 'a');
  }
}
using space_t = decltype(p::skipper::space());

template <typename Parser, typename Skipper>
void kcheck(Parser const &parser, Skipper const &skipper, node const *const g, int const skiproot, bool const small)
{
  check(parser, skipper, g, 0, skiproot, len(), small ? &small_alphabet : nullptr);
}

// k01: int_ >> lexeme(*char_) under space: blanks before the number are skipped (phrase_parse), none inside it; the
// lexeme'd rest shows where the number ended and that the sequence's skipper ran after it
void k01(bool const small)
{
  static constexpr node g[] = {SEQ(1, 2), INT(31), LEXEME(3), REP(4), ANY(), /*skipper 5*/ REP(6), SET(" \n\t")};
  auto const parser{p::int_<int>{} >> p::make_lexeme(*p::char_{})};
  static_assert(std::is_same_v<p::result_of<decltype(parser)>, fcppt::tuple::object<int, std::string>>);
  kcheck(parser, p::skipper::space(), g, 5, small);
}
// k02: *int_ >> lexeme(*char_) under space: "3 -4" gives {3,-4}; "3 - 4" gives {3} and the rest "- 4"
void k02(bool const small)
{
  static constexpr node g[] = {SEQ(1, 3), REP(2), INT(31), LEXEME(4), REP(5), ANY(), /*skipper 6*/ REP(7), SET(" \n\t")};
  auto const parser{*p::int_<int>{} >> p::make_lexeme(*p::char_{})};
  static_assert(std::is_same_v<p::result_of<decltype(parser)>, fcppt::tuple::object<std::vector<int>, std::string>>);
  kcheck(parser, p::skipper::space(), g, 6, small);
}
// k03: (int_ >> int_) | (int_ >> '-' >> int_) under space: "4 -7" takes the left branch (4,-7); "4- 7" / "4 - 7" make
// the left branch fail inside the second int_ ('-' not followed by a digit) and the right branch gives (4,7)
void k03(bool const small)
{
  static constexpr node g[] = {ALT(1, 3), SEQ(2, 2), INT(31), SEQ(4, 2), SEQ(2, 5), LIT('-'), /*skipper 6*/ REP(7), SET(" \n\t")};
  auto const parser{(p::int_<int>{} >> p::int_<int>{}) | (p::int_<int>{} >> p::literal{'-'} >> p::int_<int>{})};
  static_assert(std::is_same_v<p::result_of<decltype(parser)>, fcppt::tuple::object<int, int>>);
  kcheck(parser, p::skipper::space(), g, 6, small);
}
// k04: uint >> uint under the NON-repeating blank skipper char_set{' ','\t'}: exactly one blank at the start and one
// between the numbers, none inside
void k04(bool const small)
{
  static constexpr node g[] = {SEQ(1, 1), UINT(32), /*skipper 2*/ SET(" \t")};
  auto const parser{p::uint<unsigned>{} >> p::uint<unsigned>{}};
  kcheck(parser, p::skipper::char_set{' ', '\t'}, g, 2, small);
}
// k05: +int_ under space: repetition_plus is "identical to repetition" with at least one element, the skipper runs
// after every element exactly as in  int_ >> *int_
void k05(bool const small)
{
  static constexpr node g[] = {SEQ(1, 3), PLUS(2), INT(31), LEXEME(4), REP(5), ANY(), /*skipper 6*/ REP(7), SET(" \n\t")};
  auto const parser{+p::int_<int>{} >> p::make_lexeme(*p::char_{})};
  static_assert(std::is_same_v<p::result_of<decltype(parser)>, fcppt::tuple::object<std::vector<int>, std::string>>);
  kcheck(parser, p::skipper::space(), g, 6, small);
}
// k06: separator{int_, ','} >> lexeme(*char_) under space: "4 , -7"; "4,- 7" stops after the 4 (the separator and the
// broken number are given back)
void k06(bool const small)
{
  static constexpr node g[] = {SEQ(1, 4), SEP(2, 3), INT(31), LIT(','), LEXEME(5), REP(6), ANY(), /*skipper 7*/ REP(8), SET(" \n\t")};
  auto const parser{p::separator{p::int_<int>{}, p::literal{','}} >> p::make_lexeme(*p::char_{})};
  static_assert(std::is_same_v<p::result_of<decltype(parser)>, fcppt::tuple::object<std::vector<int>, std::string>>);
  kcheck(parser, p::skipper::space(), g, 7, small);
}
// k07: -'-' >> uint under space is NOT int_: here the blank between sign and digits is allowed ("- 4" succeeds), which
// is exactly what the lexeme inside int_ forbids; both side by side in one alternative: int_ | (-'-' >> uint)
void k07(bool const small)
{
  static constexpr node g[] = {SEQ(1, 7), ALT(2, 3, T_INT, 1302), INT(31), SEQ(4, 6), OPT(5), LIT('-'), UINT(32), LEXEME(8), REP(9), ANY(),
                               /*skipper 10*/ REP(11), SET(" \n\t")};
  auto const parser{(p::int_<int>{} | (-p::literal{'-'} >> p::uint<unsigned>{})) >> p::make_lexeme(*p::char_{})};
  kcheck(parser, p::skipper::space(), g, 10, small);
}
}
VERIF_HARNESS(h_k01) { k01(false); }
VERIF_HARNESS(h_k01a) { k01(true); }
VERIF_HARNESS(h_k02) { k02(false); }
VERIF_HARNESS(h_k02a) { k02(true); }
VERIF_HARNESS(h_k03) { k03(false); }
VERIF_HARNESS(h_k03a) { k03(true); }
VERIF_HARNESS(h_k04) { k04(false); }
VERIF_HARNESS(h_k04a) { k04(true); }
VERIF_HARNESS(h_k05) { k05(false); }
VERIF_HARNESS(h_k05a) { k05(true); }
VERIF_HARNESS(h_k06) { k06(false); }
VERIF_HARNESS(h_k06a) { k06(true); }
VERIF_HARNESS(h_k07) { k07(false); }
VERIF_HARNESS(h_k07a) { k07(true); }
// k03b: the ordered choice at the length where it matters (4): first byte a digit of {4,7}, the other three symbolic
// over {'-', ' ', '4'}: "4- 4" and "4--4" need the right branch, "4 -4" / "44 4" the left one, "4 - " neither
VERIF_HARNESS(h_k03b)
{
  static constexpr node g[] = {ALT(1, 3), SEQ(2, 2), INT(31), SEQ(4, 2), SEQ(2, 5), LIT('-'), /*skipper 6*/ REP(7), SET(" \n\t")};
  auto const parser{(p::int_<int>{} >> p::int_<int>{}) | (p::int_<int>{} >> p::literal{'-'} >> p::int_<int>{})};
  check(parser, p::skipper::space(), g, 0, 6, 4, [](input const &in) {
    verif_assume(in.b[0] == '4' || in.b[0] == '7');
    for (unsigned i = 1; i < 4; ++i)
      verif_assume(in.b[i] == '-' || in.b[i] == ' ' || in.b[i] == '4');
  });
}
//@harness h_k03b tier=quick loop=24
//@harness h_k0{K} for K in 1,2 param n=0..2 tier=quick loop=24
//@harness h_k0{K} for K in 3,4,5,6,7 param n=0..1 tier=quick loop=24
//@harness h_k0{K}a for K in 1,2,3,4,5,6,7 param n=3..3 tier=quick loop=24
//@harness h_k0{K} for K in 1,2 param n=3..3 tier=thorough loop=24 paths=200000 wall=2400
//@harness h_k0{K} for K in 3,4,5,6,7 param n=2..2 tier=thorough loop=24
//@harness h_k0{K}a for K in 1,2,3,4,5,6,7 param n=4..4 tier=thorough loop=24 paths=200000 wall=2400

// ---------------------------------------------------------------------------------------------------------------------
// Repetition-like parsers with a skipper that CAN FAIL (skipper::literal{' '}, skipper::char_set{' '}, a sequence of two):
// one iteration is "element, then skipper"; when the skipper fails the iteration fails and the input is rewound to the
// end of the last COMPLETE iteration.  `*char_set{'a','b'}` on " a b" under skipper::literal{' '} yields "a" and leaves
// "b".  Bytes symbolic over {a, b, ' '} (list: plus ','), the lexeme'd rest shows the position.
namespace
{
void abs_alphabet(input const &in)
{
  for (unsigned i = 0; i < in.n; ++i)
    verif_assume(in.b[i] == 'a' || in.b[i] == 'b' || in.b[i] == ' ');
}
void abs_comma_alphabet(input const &in)
{
  for (unsigned i = 0; i < in.n; ++i)
    verif_assume(in.b[i] == 'a' || in.b[i] == 'b' || in.b[i] == ' ' || in.b[i] == ',');
}
constexpr node g_rep_ab[] = {REP(1), SET("ab"), /*2 skipper ' '*/ LIT(' '), /*3 skipper set*/ SET(" "), /*4 skipper ' ' ' '*/ SEQ(2, 2)};
}
// (no trailing parser: a sequence would run the failing skipper once more and turn every interesting case into a
// failure; the position after the success is compared by check())
VERIF_HARNESS(h_t01)
{
  auto const parser{*p::char_set{'a', 'b'}};
  check(parser, p::skipper::literal{' '}, g_rep_ab, 0, 2, len(), &abs_alphabet);
}
VERIF_HARNESS(h_t02)
{
  auto const parser{*p::char_set{'a', 'b'}};
  check(parser, p::skipper::char_set{' '}, g_rep_ab, 0, 3, len(), &abs_alphabet);
}
VERIF_HARNESS(h_t03)
{
  auto const parser{*p::char_set{'a', 'b'}};
  check(parser, p::skipper::literal{' '} >> p::skipper::literal{' '}, g_rep_ab, 0, 4, len(), &abs_alphabet);
}
VERIF_HARNESS(h_t04)
{
  static constexpr node g[] = {PLUS(1), SET("ab"), /*2 skipper*/ LIT(' ')};
  auto const parser{+p::char_set{'a', 'b'}};
  check(parser, p::skipper::literal{' '}, g, 0, 2, len(), &abs_alphabet);
}
VERIF_HARNESS(h_t05)
{
  static constexpr node g[] = {SEP(1, 2), SET("a"), LIT('b'), /*3 skipper*/ LIT(' ')};
  auto const parser{p::separator{p::char_set{'a'}, p::literal{'b'}}};
  check(parser, p::skipper::literal{' '}, g, 0, 3, len(), &abs_alphabet);
}
VERIF_HARNESS(h_t06)
{
  static constexpr node g[] = {LIST(1, 2, 3, 4), LIT('b'), SET("a"), LIT(','), LIT('b'), /*5 skipper*/ LIT(' ')};
  auto const parser{p::list{p::literal{'b'}, p::char_set{'a'}, p::literal{','}, p::literal{'b'}}};
  check(parser, p::skipper::literal{' '}, g, 0, 5, len(), &abs_comma_alphabet);
}
// the documented example, closed form: " a b" -> "a", rest "b"
VERIF_HARNESS(h_t00)
{
  input in;
  fresh_input(in, 4);
  verif_assume(in.b[0] == ' ' && in.b[1] == 'a' && in.b[2] == ' ' && in.b[3] == 'b');
  arr_stream s{in.b, 4};
  auto const parser{*p::char_set{'a', 'b'}};
  auto const r{p::phrase_parse(parser, s, p::skipper::literal{' '})};
  verif_assert(r.has_success(), "repetition never fails");
  verif_assert(r.get_success_unsafe() == std::string{"a"}, "only the complete iteration (a + blank) counts");
  verif_out("pos", s.pos());
  verif_assert(s.pos() == 3, "the stream is rewound to the end of the last complete iteration: b is unread");
  verif_reach("end");
}
//@harness h_t00 tier=quick loop=24
//@harness h_t0{K} for K in 1,2,3,4,5,6 param n=0..4 tier=quick loop=24
//@harness h_t0{K} for K in 1,2,3,4,5 param n=5..5 tier=thorough loop=24
