// C02 - skippers: phrase_parse runs the skipper at the start, sequence between its parts, repetition after each
// successful element, lexeme disables it (doc/files/modules/parse.doxygen "Whitespace Skipping").  Skippers: epsilon,
// space (= *char_set{' ','\n','\t'}), char_set, literal, repetition, sequence.  uint / int_ parse digit runs as
// lexemes; fcppt::extract_from_string (an istringstream) is replaced IN THE ENGINE by its contract
// (c02_extract_*: decimal value, nothing if it does not fit) - the native replay runs the real one.
// See C02_basic.cpp for method and "outside the claim".
//@property C02
//@stub ^_ZN5fcppt23output_to_string_localeI.*9container6detail6outputI c02_set_text
//@stub ^_ZN5fcppt26extract_from_string_localeIjNSt c02_extract_unsigned
//@stub ^_ZN5fcppt26extract_from_string_localeItNSt c02_extract_ushort
//@stub ^_ZN5fcppt26extract_from_string_localeIiNSt c02_extract_int
//@stub ^_ZN5fcppt26extract_from_string_localeIsNSt c02_extract_short
#include "C02_common.hpp"
#include <fcppt/parse/char.hpp>
#include <fcppt/parse/char_set.hpp>
#include <fcppt/parse/int.hpp>
#include <fcppt/parse/literal.hpp>
#include <fcppt/parse/make_lexeme.hpp>
#include <fcppt/parse/result_of.hpp>
#include <fcppt/parse/separator.hpp>
#include <fcppt/parse/uint.hpp>
#include <fcppt/parse/operators/alternative.hpp>
#include <fcppt/parse/operators/optional.hpp>
#include <fcppt/parse/operators/repetition.hpp>
#include <fcppt/parse/operators/repetition_plus.hpp>
#include <fcppt/parse/operators/sequence.hpp>
#include <fcppt/parse/skipper/char_set.hpp>
#include <fcppt/parse/skipper/epsilon.hpp>
#include <fcppt/parse/skipper/literal.hpp>
#include <fcppt/parse/skipper/space.hpp>
#include <fcppt/parse/skipper/operators/repetition.hpp>
#include <fcppt/parse/skipper/operators/sequence.hpp>

namespace
{
template <typename T>
fcppt::optional::object<T> decimal(std::string const &s, unsigned const bits)
{
  c02::u64 v = 0;
  if (s.empty())
    return fcppt::optional::object<T>{};
  for (char const c : s)
  {
    if (c < '0' || c > '9')
      return fcppt::optional::object<T>{};
    v = v * 10 + static_cast<c02::u64>(c - '0');
    if (v >= (c02::u64{1} << 40))
      return fcppt::optional::object<T>{};
  }
  return v < (c02::u64{1} << bits) ? fcppt::optional::object<T>{static_cast<T>(v)} : fcppt::optional::object<T>{};
}
}
extern "C" fcppt::optional::object<unsigned> c02_extract_unsigned(std::string const &s, std::locale const &) { return decimal<unsigned>(s, 32); }
extern "C" fcppt::optional::object<unsigned short> c02_extract_ushort(std::string const &s, std::locale const &) { return decimal<unsigned short>(s, 16); }
extern "C" fcppt::optional::object<int> c02_extract_int(std::string const &s, std::locale const &) { return decimal<int>(s, 31); }
extern "C" fcppt::optional::object<short> c02_extract_short(std::string const &s, std::locale const &) { return decimal<short>(s, 15); }

namespace
{
namespace p = fcppt::parse;
using namespace c02;
unsigned len() { return static_cast<unsigned>(verif_param("n")); }
}

// s01: space skipper, a >> b: " a\tb" etc.
VERIF_HARNESS(h_s01)
{
  static constexpr node g[] = {SEQ(1, 2), LIT('a'), LIT('b'), /*skipper*/ REP(4), SET(" \n\t")};
  auto const parser{p::literal{'a'} >> p::literal{'b'}};
  check(parser, p::skipper::space(), g, 0, 3, len());
}
//@harness h_s01 param n=0..3 tier=quick loop=20
//@harness h_s01 param n=4..4 tier=thorough loop=20

// s02: space skipper, *set{a}: the skipper runs after each element, so trailing blanks are consumed, blanks before a
// non-element stay consumed only up to the last element+skipper
VERIF_HARNESS(h_s02)
{
  static constexpr node g[] = {REP(1), SET("a"), /*skipper*/ REP(3), SET(" \n\t")};
  auto const parser{*p::char_set{'a'}};
  check(parser, p::skipper::space(), g, 0, 2, len());
}
//@harness h_s02 param n=0..3 tier=quick loop=20

// s03: lexeme(a >> b) >> c under the space skipper: no blanks allowed between a and b, allowed before c
VERIF_HARNESS(h_s03)
{
  static constexpr node g[] = {SEQ(1, 5), LEXEME(2), SEQ(3, 4), LIT('a'), LIT('b'), LIT('c'), /*skipper*/ REP(7), SET(" \n\t")};
  auto const parser{p::make_lexeme(p::literal{'a'} >> p::literal{'b'}) >> p::literal{'c'}};
  check(parser, p::skipper::space(), g, 0, 6, len());
}
//@harness h_s03 param n=0..3 tier=quick loop=20
//@harness h_s03 param n=4..4 tier=thorough loop=20

// s04: a NON-repeating literal skipper: exactly one '_' is demanded at the start and between the parts of a sequence
VERIF_HARNESS(h_s04)
{
  static constexpr node g[] = {SEQ(1, 2), LIT('a'), LIT('b'), /*skipper*/ LIT('_')};
  auto const parser{p::literal{'a'} >> p::literal{'b'}};
  check(parser, p::skipper::literal{'_'}, g, 0, 3, len());
}
//@harness h_s04 param n=0..4 tier=quick loop=20

// s05: skipper built from skipper::sequence inside skipper::repetition; the lexeme'd rest shows the position
VERIF_HARNESS(h_s05)
{
  auto const parser{*p::char_set{'a'} >> p::make_lexeme(*p::char_{})};
  // skipper: repetition of the sequence '_' '_': "__" pairs are skipped, a single '_' is given back
  auto const skipper{*(p::skipper::literal{'_'} >> p::skipper::literal{'_'})};
  static constexpr node g[] = {SEQ(1, 3), REP(2), SET("a"), LEXEME(4), REP(5), ANY(), /*skipper 6*/ REP(7), SEQ(8, 8), LIT('_')};
  check(parser, skipper, g, 0, 6, len());
}
//@harness h_s05 param n=0..4 tier=quick loop=20
//@harness h_s05 param n=5..5 tier=thorough loop=20

// s06: non-repeating literal skipper inside a repetition: *(set{a}) where each element must be followed by one '_'
VERIF_HARNESS(h_s06)
{
  static constexpr node g[] = {SEQ(1, 3), REP(2), SET("a"), LEXEME(4), REP(5), ANY(), /*skipper*/ LIT('_')};
  auto const parser{*p::char_set{'a'} >> p::make_lexeme(*p::char_{})};
  check(parser, p::skipper::literal{'_'}, g, 0, 6, len());
}
//@harness h_s06 param n=0..4 tier=quick loop=20

// s07: non-repeating char_set skipper {' ', '\t'} with an optional and an alternative
VERIF_HARNESS(h_s07)
{
  static constexpr node g[] = {SEQ(1, 3), OPT(2), LIT('a'), ALT(4, 5), SET("b"), SET("c"), /*skipper*/ SET(" \t")};
  auto const parser{-p::literal{'a'} >> (p::char_set{'b'} | p::char_set{'c'})};
  check(parser, p::skipper::char_set{' ', '\t'}, g, 0, 6, len());
}
//@harness h_s07 param n=0..3 tier=quick loop=20

// s08: separator under the space skipper: "a , b" ; explicit epsilon skipper behaves like parse()
VERIF_HARNESS(h_s08)
{
  static constexpr node g[] = {SEP(1, 2), SET("ab"), LIT(','), /*skipper*/ REP(4), SET(" \n\t")};
  auto const parser{p::separator{p::char_set{'a', 'b'}, p::literal{','}}};
  check(parser, p::skipper::space(), g, 0, 3, len());
}
//@harness h_s08 param n=0..3 tier=quick loop=20
//@harness h_s08 param n=4..4 tier=thorough loop=20

// s09: optional inside repetition inside alternative, under the space skipper; the left branch may consume several
// elements and blanks before failing on the missing ';', then the right branch restarts from the saved position
VERIF_HARNESS(h_s09)
{
  static constexpr node g[] = {ALT(1, 8, T_STRING + 200, T_STRING), SEQ(2, 7), REP(3), SEQ(4, 6), OPT(5), LIT('a'), SET("b"), LIT(';'),
                               PLUS(9), SET("ab"), /*skipper 10*/ REP(11), SET(" \n\t")};
  auto const parser{(*(-p::literal{'a'} >> p::char_set{'b'}) >> p::literal{';'}) | +p::char_set{'a', 'b'}};
  static_assert(std::is_same_v<
                p::result_of<decltype(parser)>,
                fcppt::variant::object<std::vector<fcppt::tuple::object<fcppt::optional::object<fcppt::unit>, char>>, std::string>>);
  check(parser, p::skipper::space(), g, 0, 10, len());
}
//@harness h_s09 param n=0..2 tier=quick loop=20
//@harness h_s09 param n=3..4 tier=thorough loop=20 wall=900

// n01: uint<unsigned> >> uint<unsigned> under the space skipper (the documentation's example: "10 20")
VERIF_HARNESS(h_n01)
{
  static constexpr node g[] = {SEQ(1, 1), UINT(32), /*skipper*/ REP(3), SET(" \n\t")};
  auto const parser{p::uint<unsigned>{} >> p::uint<unsigned>{}};
  static_assert(std::is_same_v<p::result_of<decltype(parser)>, fcppt::tuple::object<unsigned, unsigned>>);
  check(parser, p::skipper::space(), g, 0, 2, len());
}
//@harness h_n01 param n=0..2 tier=quick loop=20
//@harness h_n01 param n=3..3 tier=thorough loop=20 paths=200000 wall=1500

// n02: the same without skipper can never succeed ("the first uint parser will always consume as many digits as it can")
VERIF_HARNESS(h_n02)
{
  input in;
  unsigned const n = len();
  fresh_input(in, n);
  arr_stream s{in.b, n};
  auto const parser{p::uint<unsigned>{} >> p::uint<unsigned>{}};
  auto const r{p::phrase_parse(parser, s, p::skipper::epsilon{})};
  verif_out("ok", r.has_success());
  verif_assert(!r.has_success(), "uint >> uint without skipping never succeeds");
  verif_reach("end");
}
//@harness h_n02 param n=0..2 tier=quick loop=20

// n03: int_<int> >> *char_: optional '-', digits, value and sign; the rest shows the position
VERIF_HARNESS(h_n03)
{
  static constexpr node g[] = {SEQ(1, 2), INT(31), REP(3), ANY()};
  auto const parser{p::int_<int>{} >> *p::char_{}};
  static_assert(std::is_same_v<p::result_of<decltype(parser)>, fcppt::tuple::object<int, std::string>>);
  check(parser, p::skipper::epsilon{}, g, 0, -1, len());
}
//@harness h_n03 param n=0..2 tier=quick loop=20
//@harness h_n03 param n=3..3 tier=thorough loop=20 paths=200000 wall=1500

// n04: uint<unsigned short> with 5 digits: values above 65535 make the parser fail (extract_from_string contract)
VERIF_HARNESS(h_n04)
{
  static constexpr node g[] = {ALT(1, 2, T_UNSIGNED + 100, T_STRING), UINT(16), REP(3), ANY()};
  auto const parser{p::uint<unsigned short>{} | *p::char_{}};
  check(parser, p::skipper::epsilon{}, g, 0, -1, len());
}
//@harness h_n04 param n=0..2 tier=quick loop=20

// n05: the overflow boundary of uint<unsigned short>: inputs "655xy" with x, y symbolic (the first three characters are
// fixed because every symbolic digit costs a 13-way fork in the unordered_set lookup): accepted iff xy <= 35
VERIF_HARNESS(h_n05)
{
  static constexpr node g[] = {ALT(1, 2, T_UNSIGNED + 100, T_STRING), UINT(16), REP(3), ANY()};
  auto const parser{p::uint<unsigned short>{} | *p::char_{}};
  check(parser, p::skipper::epsilon{}, g, 0, -1, 5, [](input const &in) { verif_assume(in.b[0] == '6' && in.b[1] == '5' && in.b[2] == '5'); });
}
//@harness h_n05 tier=thorough loop=20 wall=900
