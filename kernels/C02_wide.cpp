// C02 - the same semantics for wchar_t: basic_literal / basic_char / basic_char_set / basic_string<wchar_t>, the
// combinators and the skippers instantiated with Ch = wchar_t over a symbolic wchar_t array (every character is a full
// 32-bit symbolic value).  See C02_basic.cpp for method and "outside the claim".
//@property C02
//@stub ^_ZN5fcppt23output_to_string_localeI.*9container6detail6outputISt13unordered_setIc c02_set_text
//@stub ^_ZN5fcppt23output_to_string_localeI.*9container6detail6outputISt13unordered_setIw c02_wset_text
#include "C02_common.hpp"
#include <fcppt/parse/basic_char.hpp>
#include <fcppt/parse/basic_char_set.hpp>
#include <fcppt/parse/basic_literal.hpp>
#include <fcppt/parse/basic_string.hpp>
#include <fcppt/parse/make_fatal.hpp>
#include <fcppt/parse/result_of.hpp>
#include <fcppt/parse/separator.hpp>
#include <fcppt/parse/operators/alternative.hpp>
#include <fcppt/parse/operators/complement.hpp>
#include <fcppt/parse/operators/not.hpp>
#include <fcppt/parse/operators/optional.hpp>
#include <fcppt/parse/operators/repetition.hpp>
#include <fcppt/parse/operators/repetition_plus.hpp>
#include <fcppt/parse/operators/sequence.hpp>
#include <fcppt/parse/space_set.hpp>
#include <fcppt/parse/skipper/basic_char_set.hpp>
#include <fcppt/parse/skipper/operators/repetition.hpp>
#include <fcppt/parse/skipper/epsilon.hpp>

namespace
{
namespace p = fcppt::parse;
using namespace c02;
unsigned len() { return static_cast<unsigned>(verif_param("n")); }
p::skipper::epsilon const noskip{};
using wlit = p::basic_literal<wchar_t>;
using wchar_p = p::basic_char<wchar_t>;
using wset = p::basic_char_set<wchar_t>;
using wstr = p::basic_string<wchar_t>;
}

// w01: (a b) | (a c)
VERIF_HARNESS(h_w01)
{
  static constexpr node g[] = {ALT(1, 2), SEQ(3, 4), SEQ(3, 5), LIT('a'), LIT('b'), LIT('c')};
  auto const parser{(wlit{L'a'} >> wlit{L'b'}) | (wlit{L'a'} >> wlit{L'c'})};
  check_ch<wchar_t>(parser, noskip, g, 0, -1, len());
}
//@harness h_w01 param n=0..3 tier=quick loop=20

// w02: -(a b) >> *char - optional rewind, wstring result with the full character values
VERIF_HARNESS(h_w02)
{
  static constexpr node g[] = {SEQ(1, 5), OPT(2), SEQ(3, 4), LIT('a'), LIT('b'), REP(6), ANY()};
  auto const parser{-(wlit{L'a'} >> wlit{L'b'}) >> *wchar_p{}};
  static_assert(std::is_same_v<p::result_of<decltype(parser)>, fcppt::tuple::object<fcppt::optional::object<fcppt::unit>, std::wstring>>);
  check_ch<wchar_t>(parser, noskip, g, 0, -1, len());
}
//@harness h_w02 param n=0..3 tier=quick loop=20

// w03: +set{a,b} >> ~set{b,c} >> !a
VERIF_HARNESS(h_w03)
{
  static constexpr node g[] = {SEQ(1, 6), SEQ(2, 4), PLUS(3), SET("ab"), NSET("bc"), LIT('a'), NOT(5)};
  auto const parser{+wset{L'a', L'b'} >> ~wset{L'b', L'c'} >> !wlit{L'a'}};
  check_ch<wchar_t>(parser, noskip, g, 0, -1, len());
}
//@harness h_w03 param n=0..3 tier=quick loop=20

// w04: ("ab" | "a") >> *(a >> fatal(b))
VERIF_HARNESS(h_w04)
{
  static constexpr node g[] = {SEQ(1, 4), ALT(2, 3), STR("ab"), STR("a"), REP(5), SEQ(6, 7), LIT('a'), FATAL(8), LIT('b')};
  auto const parser{(wstr{std::wstring{L"ab"}} | wstr{std::wstring{L"a"}}) >> *(wlit{L'a'} >> p::make_fatal(wlit{L'b'}))};
  check_ch<wchar_t>(parser, noskip, g, 0, -1, len());
}
//@harness h_w04 param n=0..4 tier=quick loop=20

// w05: separator under the wide space skipper (test/parse/separator.cpp "separator wchar")
VERIF_HARNESS(h_w05)
{
  static constexpr node g[] = {SEP(1, 2), SET("ab"), LIT(','), /*skipper*/ REP(4), SET(" \n\t")};
  auto const parser{p::separator{wset{L'a', L'b'}, wlit{L','}}};
  static_assert(std::is_same_v<p::result_of<decltype(parser)>, std::vector<wchar_t>>);
  // (fcppt::parse::skipper::basic_space<wchar_t>() does not compile: it names skipper::char_set, the char alias,
  // instead of skipper::basic_char_set<Ch> - a build-time defect, so the skipper is spelled out here)
  check_ch<wchar_t>(parser, *p::skipper::basic_char_set<wchar_t>{p::space_set<wchar_t>()}, g, 0, 3, len());
}
//@harness h_w05 param n=0..2 tier=quick loop=20
//@harness h_w05 param n=3..3 tier=thorough loop=20
