// C02 - skippers: phrase_parse runs the skipper at the start, sequence between its parts, repetition after each
// successful element, lexeme disables it (doc/files/modules/parse.doxygen "Whitespace Skipping").  Skippers: epsilon,
// space (= *char_set{' ','\n','\t'}), char_set, literal, repetition, sequence.  uint / int_ parse digit runs as
// lexemes; fcppt::extract_from_string (an istringstream) is replaced IN THE ENGINE by its contract
// (c02_extract_*: decimal value, nothing if it does not fit) - the native replay runs the real one.
// See C02_basic.cpp for method and "outside the claim".
//@property C02
//@stub ^_ZN5fcppt23output_to_string_localeI.*9container6detail6outputI c02_set_text
//@stub ^_ZN5fcppt26extract_from_string_localeIjNSt c02_extract_unsigned
//@stub ^_ZN5fcppt26extract_from_string_localeItNSt c02_extract_ushort
//@stub ^_ZN5fcppt26extract_from_string_localeIiNSt c02_extract_int
//@stub ^_ZN5fcppt26extract_from_string_localeIsNSt c02_extract_short
#include "C02_common.hpp"
#include <fcppt/parse/char.hpp>
#include <fcppt/parse/char_set.hpp>
#include <fcppt/parse/int.hpp>
#include <fcppt/parse/literal.hpp>
#include <fcppt/parse/make_lexeme.hpp>
#include <fcppt/parse/result_of.hpp>
#include <fcppt/parse/separator.hpp>
#include <fcppt/parse/uint.hpp>
#include <fcppt/parse/operators/alternative.hpp>
#include <fcppt/parse/operators/optional.hpp>
#include <fcppt/parse/operators/repetition.hpp>
#include <fcppt/parse/operators/repetition_plus.hpp>
#include <fcppt/parse/operators/sequence.hpp>
#include <fcppt/parse/skipper/char_set.hpp>
#include <fcppt/parse/skipper/epsilon.hpp>
#include <fcppt/parse/skipper/literal.hpp>
#include <fcppt/parse/skipper/space.hpp>
#include <fcppt/parse/skipper/operators/repetition.hpp>
#include <fcppt/parse/skipper/operators/sequence.hpp>

namespace
{
template <typename T>
fcppt::optional::object<T> decimal(std::string const &s, unsigned const bits)
{
  c02::u64 v = 0;
  if (s.empty())
    return fcppt::optional::object<T>{};
  for (char const c : s)
  {
    if (c < '0' || c > '9')
      return fcppt::optional::object<T>{};
    v = v * 10 + static_cast<c02::u64>(c - '0');
    if (v >= (c02::u64{1} << 40))
      return fcppt::optional::object<T>{};
  }
  return v < (c02::u64{1} << bits) ? fcppt::optional::object<T>{static_cast<T>(v)} : fcppt::optional::object<T>{};
}
}
extern "C" fcppt::optional::object<unsigned> c02_extract_unsigned(std::string const &s, std::locale const &) { return decimal<unsigned>(s, 32); }
extern "C" fcppt::optional::object<unsigned short> c02_extract_ushort(std::string const &s, std::locale const &) { return decimal<unsigned short>(s, 16); }
extern "C" fcppt::optional::object<int> c02_extract_int(std::string const &s, std::locale const &) { return decimal<int>(s, 31); }
extern "C" fcppt::optional::object<short> c02_extract_short(std::string const &s, std::locale const &) { return decimal<short>(s, 15); }

namespace
{
namespace p = fcppt::parse;
using namespace c02;
unsigned len() { return static_cast<unsigned>(verif_param("n")); }
}


VERIF_HARNESS(h_zz)
{
  static constexpr node g[] = {SEQ(1, 2), INT(31), REP(3), ANY()};
  auto const parser{p::int_<int>{} >> *p::char_{}};
  input in;
  fresh_input(in, 3);
  verif_assume(in.b[0] == '3' && in.b[1] == '2' && static_cast<unsigned char>(in.b[2]) >= 250);
  arr_stream s{in.b, 3};
  auto const r{fcppt::parse::phrase_parse(parser, s, p::skipper::epsilon{})};
  refctx c{g, in.b, 3, 0, rec{}, 0};
  c.out.n = 0;
  refres e = run(c, 0, -1);
  verif_assert(r.has_success() && e.ok, "ok");
  rec v; v.n = 0; v.overflow = false;
  enc(v, r.get_success_unsafe());
  verif_out("vn", v.n); verif_out("en", c.out.n);
  for (unsigned i = 0; i < v.n; ++i) { verif_out("v", v.v[i]); verif_out("e", c.out.v[i]); }
  verif_assert(v.v[0] == c.out.v[0], "v0");
  verif_assert(v.v[1] == c.out.v[1], "v1");
  verif_assert(v.v[2] == c.out.v[2], "v2");
  verif_reach("end");
}
//@harness h_zz tier=quick loop=20
