// C03 (level b, continued) - the help wrapper and sub-commands.
// Real code: options::parse_help (sum of the help switch and the parser under parse_to_empty, usage() of the parser),
// options::commands::parse / constructor, detail::split_command, detail::check_sub_command_names, sub_command.
// Oracles (doc/files/modules/options.doxygen, parse_help.hpp):
//   parse_help: exactly ["--help"] -> the help text; no "--help" among the arguments -> exactly the result of the
//     parser alone (reference model of C03_model.hpp).  "--help" together with other tokens: documented only as
//     "not the help case"; observed, not asserted.
//   commands: the first positional argument (w.r.t. the option names of the common-options parser) is the
//     sub-command name; the tokens before it must be consumed completely by the common-options parser, the tokens
//     after it by the sub-command's parser (its own option names); no such argument / unknown name -> failure.
// Outside the claim: usage()/help text contents; error texts; more than two sub-commands; vectors longer than n.
// Environment: std::unordered_map in check_sub_command_names needs std::_Hash_bytes and _Prime_rehash_policy from
// libstdc++.so: modelled in engine/models.py (any deterministic hash / growth policy is unobservable here).
//@property C03
//@unity options
//@models rbtree
#include "C03_model.hpp"
#include <fcppt/options/commands_impl.hpp>
#include <fcppt/options/sub_command_impl.hpp>
#include <fcppt/options/help_result.hpp>
#include <fcppt/options/help_switch.hpp>
#include <fcppt/options/help_text.hpp>
#include <fcppt/options/make_commands.hpp>
#include <fcppt/options/make_sub_command.hpp>
#include <fcppt/options/options_label.hpp>
#include <fcppt/options/parse_help.hpp>
#include <fcppt/options/sub_command_label.hpp>
#include "unity_options.hpp"
#include "libs/core/src/exception.cpp"
#include "libs/core/src/insert_extract_locale.cpp"

using namespace c03;
using sstr = std::string;

namespace
{
fcppt::args_vector choose_args(m::tokens const &_alphabet)
{
  unsigned const n{static_cast<unsigned>(verif_param("n"))};
  fcppt::args_vector args{};
  for (unsigned i = 0; i < n; ++i)
  {
    unsigned const t{verif_u8("tok")};
    verif_assume(t < _alphabet.size());
    args.push_back(_alphabet[t]);
  }
  return args;
}

template <typename Shape> void check_help()
{
  init_symbols();
  auto const parser{Shape::real()};
  m::node const model{Shape::model()};
  m::tokens alphabet{m::alphabet(model, false)};
  alphabet.push_back("--help");
  fcppt::args_vector const args{choose_args(alphabet)};
  o::help_switch const help{o::optional_short_name{}, o::long_name{"help"}};
  auto const real{o::parse_help(help, parser, args)};
  verif_reach("parse_help returned");
  bool has_help{false};
  for (sstr const &a : args) { has_help = has_help || a == "--help"; }
  using result_type = o::result<o::result_of<decltype(parser)>>;
  bool const is_help{fcppt::variant::holds_type<o::help_text>(real)};
  verif_out("is_help", is_help);
  if (args.size() == 1 && has_help)
  {
    verif_assert(is_help, "parse_help: exactly the help switch yields the help text");
  }
  if (!has_help)
  {
    m::outcome const expected{m::parse(model, args)};
    verif_assert(!is_help, "parse_help: no help text without the help switch");
    if (!is_help)
    {
      result_type const &r{fcppt::variant::get_unsafe<result_type>(real)};
      verif_assert(r.has_success() == expected.ok, "parse_help without the switch succeeds exactly when the parser's model succeeds");
      if (r.has_success() && expected.ok)
      {
        std::vector<u64> got{};
        obs(got, r.get_success_unsafe());
        verif_assert(got.size() == expected.flat.size(), "parse_help: record shape");
        for (std::size_t i = 0; i < got.size() && i < expected.flat.size(); ++i)
        {
          verif_assert(got[i] == expected.flat[i], "parse_help without the switch returns the parser's record");
        }
      }
    }
  }
}
}

VERIF_HARNESS(h_help_arg) { check_help<Arg<0, int>>(); }
//@harness h_help_arg param n=0..2 tier=quick loop=200
//@harness h_help_arg param n=3..4 tier=thorough loop=200 wall=3000 paths=200000
VERIF_HARNESS(h_help_switch_optarg) { check_help<Prod<Switch<0, true>, Optional<Arg<1, sstr>>>>(); }
//@harness h_help_switch_optarg param n=0..2 tier=quick loop=200
//@harness h_help_switch_optarg param n=3..3 tier=thorough loop=200 wall=3000 paths=200000

namespace
{
FCPPT_RECORD_MAKE_LABEL(tag_xy);
FCPPT_RECORD_MAKE_LABEL(tag_12);

// commands(Common ; "xy": SubXY ; "12": Sub12) on `prefix ++ n symbolic tokens from the alphabet`
template <typename Common, typename SubXY, typename Sub12>
void check_commands(m::tokens const &_alphabet, m::tokens const &_prefix)
{
  init_symbols();
  auto cmd_xy{o::make_sub_command<tag_xy>(sstr{"xy"}, SubXY::real(), o::optional_help_text{})};
  auto cmd_12{o::make_sub_command<tag_12>(sstr{"12"}, Sub12::real(), o::optional_help_text{})};
  using result_xy = o::result_of<decltype(cmd_xy)>;
  using result_12 = o::result_of<decltype(cmd_12)>;
  auto const parser{o::make_commands(Common::real(), std::move(cmd_xy), std::move(cmd_12))};
  verif_reach("commands constructed");

  m::node const m_common{Common::model()}, m_xy{SubXY::model()}, m_12{Sub12::model()};
  fcppt::args_vector args{_prefix};
  for (sstr const &a : choose_args(_alphabet)) { args.push_back(a); }
  auto const real{o::parse(parser, args)};
  verif_reach("parsed");

  // reference: the command name is the first positional argument w.r.t. the option names of the COMMON parser;
  // the common parser gets what is before it, the sub-command's parser - with ITS OWN option names - what is after it
  m::machine mc{args, {}};
  m::option_names(m_common, mc.opts);
  m::state all{};
  for (unsigned i = 0; i < args.size(); ++i) { all.push_back(i); }
  std::size_t const pos{mc.positional(all)};
  bool ok{false};
  std::vector<u64> flat{};
  if (pos < args.size() && (args[pos] == "xy" || args[pos] == "12"))
  {
    m::tokens const before{args.begin(), args.begin() + static_cast<std::ptrdiff_t>(pos)};
    m::tokens const after{args.begin() + static_cast<std::ptrdiff_t>(pos) + 1, args.end()};
    m::outcome const c{m::parse(m_common, before)};
    bool const is_xy{args[pos] == "xy"};
    m::outcome const s{m::parse(is_xy ? m_xy : m_12, after)};
    ok = c.ok && s.ok;
    if (ok)
    {
      flat = c.flat;
      flat.push_back(is_xy ? 0U : 1U);
      for (u64 const v : s.flat) { flat.push_back(v); }
    }
  }
  verif_out("model_ok", ok);
  verif_out("real_ok", real.has_success());
  verif_assert(real.has_success() == ok, "commands: succeeds exactly when common options, command name and sub-command all parse and nothing is left");
  if (real.has_success() && ok)
  {
    std::vector<u64> got{};
    obs(got, fcppt::record::get<o::options_label>(real.get_success_unsafe()));
    fcppt::variant::match(
        fcppt::record::get<o::sub_command_label>(real.get_success_unsafe()),
        [&got](result_xy const &_r) { got.push_back(0); obs(got, fcppt::record::get<tag_xy>(_r)); },
        [&got](result_12 const &_r) { got.push_back(1); obs(got, fcppt::record::get<tag_12>(_r)); });
    verif_assert(got.size() == flat.size(), "commands: record shape");
    for (std::size_t i = 0; i < got.size() && i < flat.size(); ++i)
    {
      verif_out("value", got[i]);
      verif_assert(got[i] == flat[i], "commands: common options record, chosen sub-command and its record as in the model");
    }
  }
}
}

// commands( [--aa|-a INT]? ; "xy": INT [--dd] ; "12": unit )
VERIF_HARNESS(h_commands)
{
  // own names of the common options, the two command names, a sub-command switch, a foreign flag, a non-command word
  check_commands<Optional<Opt<0, int, true, false>>, Prod<Arg<1, int>, Switch<3, false>>, Unit<2>>(
      m::tokens{"--aa", "-a", "12", "xy", "--dd", "-z", "ab", "-"}, m::tokens{});
}
//@harness h_commands param n=0..2 tier=quick loop=200
//@harness h_commands param n=3..3 tier=quick loop=200 cost=9
//@harness h_commands param n=4..4 tier=thorough loop=200 wall=3000 paths=200000

// commands( [--aa] ; "xy": STRING --cc INT ; "12": unit ): the sub-command combines a positional argument with a
// value-taking option that the COMMON parser does not know.  While the sub-command's parser runs, the option names
// in force must be its own: in ["xy","--cc","12","ab"] the "12" is the value of --cc, never the positional argument.
// pre=1 puts the common switch "--aa" before the n symbolic tokens.
VERIF_HARNESS(h_commands_subopt)
{
  check_commands<Switch<0, false>, Prod<Arg<1, sstr>, Opt<2, int, false, false>>, Unit<3>>(
      m::tokens{"xy", "--cc", "12", "ab", "--aa"}, verif_param("pre") != 0 ? m::tokens{"--aa"} : m::tokens{});
}
//@harness h_commands_subopt param pre=0..1 param n=0..3 tier=quick loop=200
//@harness h_commands_subopt param pre=0..1 param n=4..4 tier=quick loop=200 cost=9
//@harness h_commands_subopt param pre=0..1 param n=5..5 tier=thorough loop=200 wall=3000 paths=200000
