// C03 (definitions) - every well-formed parser definition can be constructed, ill-formed ones are rejected.
// Real code: flag / option / switch_ / unit_switch / product constructors, detail::check_short_long_names,
// product::check_disjoint (flag_names / option_names, fcppt::container::set_union / set_intersection on std::set).
// "Well-formed" per the class documentation: short name != long name; flag: active value != inactive value;
// product: the parsers do not share a flag/option name.
// Inputs: names are symbolic strings (short: 1 byte, long: 2 bytes), flag values symbolic.
// Outside the claim: message text of the exceptions; names longer than 2 bytes; check_sub_command_names.
// FINDING (unchanged tree a52949b, natively reproduced, see C03_findings.patch): h_ctor_flag_string fails - the flag
// constructor compares its moved-from parameters, so flag<Label,std::string>{"on","off"} throws options::exception.
//@property C03
//@unity options
//@models rbtree
#include "C03_model.hpp"
#include "unity_options.hpp"
#include "libs/core/src/exception.cpp"
#include "libs/core/src/insert_extract_locale.cpp"

using namespace c03;
namespace
{
std::string sym_name(char const *const _id, unsigned const _n)
{
  std::string r{};
  for (unsigned i = 0; i < _n; ++i)
  {
    r.push_back(static_cast<char>(verif_u8(_id)));
  }
  return r;
}
o::optional_short_name sn(std::string const &_s) { return o::optional_short_name{o::short_name{std::string{_s}}}; }
}

// flag<std::string> with distinct active / inactive values is well-formed: it must construct and work
VERIF_HARNESS(h_ctor_flag_string)
{
  using shape = Flag<0, std::string, true>;
  verif_reach("before construction");
  auto const parser{shape::real()};
  verif_reach("flag<std::string> constructed");
  fcppt::args_vector args{};
  if (verif_u8("given") != 0)
  {
    args.push_back(verif_u8("short") != 0 ? "-a" : "--aa");
  }
  auto const r{o::parse(parser, args)};
  verif_assert(r.has_success(), "flag<std::string> parses its own name");
  verif_assert(fcppt::record::get<l0>(r.get_success_unsafe()) == (args.empty() ? STR_INACTIVE : STR_ACTIVE), "flag<std::string> value");
}
//@harness h_ctor_flag_string tier=quick loop=64

// flag<int>, flag<unsigned>: distinct values accepted (any pair) ...
VERIF_HARNESS(h_ctor_flag_ok)
{
  std::uint32_t const a{verif_u32("active")}, i{verif_u32("inactive")};
  verif_assume(a != i);
  o::flag<l0, int> const f{sn("f"), o::long_name{"flag"}, o::make_active_value(static_cast<int>(a)), o::make_inactive_value(static_cast<int>(i)), o::optional_help_text{}};
  o::flag<l1, unsigned> const g{o::optional_short_name{}, o::long_name{"g"}, o::make_active_value(a), o::make_inactive_value(i), o::optional_help_text{}};
  verif_reach("constructed");
}
//@harness h_ctor_flag_ok tier=quick loop=64

// ... equal values rejected (documented: "The active and the inactive value must be different")
VERIF_HARNESS(h_ctor_flag_equal)
{
  std::uint32_t const a{verif_u32("active")};
  verif_reach("before");
  o::flag<l0, int> const f{sn("f"), o::long_name{"flag"}, o::make_active_value(static_cast<int>(a)), o::make_inactive_value(static_cast<int>(a)), o::optional_help_text{}};
  verif_assert(false, "flag with equal active and inactive value was accepted");
}
//@harness h_ctor_flag_equal tier=quick loop=64 throws=_ZTIN5fcppt7options9exceptionE

// short name == long name is rejected by flag, option, switch and unit_switch; distinct names are accepted
VERIF_HARNESS(h_ctor_names)
{
  unsigned const which{static_cast<unsigned>(verif_param("which"))};
  unsigned const len{static_cast<unsigned>(verif_param("len"))};
  std::string const s{sym_name("short", len)}, l{sym_name("long", len)};
  bool same{true};
  for (unsigned i = 0; i < len; ++i) { same = same & (s[i] == l[i]); }
  verif_out("same", same);
  verif_reach("before");
  switch (which)
  {
  case 0: { o::flag<l0, int> const p{sn(s), o::long_name{std::string{l}}, o::make_active_value(1), o::make_inactive_value(0), o::optional_help_text{}}; break; }
  case 1: { o::option<l0, int> const p{sn(s), o::long_name{std::string{l}}, o::no_default_value<int>(), o::optional_help_text{}}; break; }
  case 2: { o::switch_<l0> const p{sn(s), o::long_name{std::string{l}}, o::optional_help_text{}}; break; }
  default: { o::unit_switch<l0> const p{sn(s), o::long_name{std::string{l}}}; break; }
  }
  verif_assert(!same, "a parser whose short name equals its long name was accepted");
}
//@harness h_ctor_names param which=0..3 param len=0..2 tier=quick loop=64 throws=_ZTIN5fcppt7options15duplicate_namesE

namespace
{
template <bool Dup> void product_names()
{
  // switch a: -s0 / --l0 l0', option b: -s1 / --l1 l1'  (1-byte short names, 2-byte long names: a short name can
  // never equal a long name as a string)
  std::string const s0{sym_name("s0", 1)}, s1{sym_name("s1", 1)}, n0{sym_name("l0", 2)}, n1{sym_name("l1", 2)};
  bool const dup{(s0[0] == s1[0]) || ((n0[0] == n1[0]) & (n0[1] == n1[1]))};
  verif_assume(dup == Dup);
  o::switch_<l0> a{sn(s0), o::long_name{std::string{n0}}, o::optional_help_text{}};
  o::option<l1, int> b{sn(s1), o::long_name{std::string{n1}}, o::no_default_value<int>(), o::optional_help_text{}};
  verif_reach("parts constructed");
  auto const p{o::apply(std::move(a), std::move(b))};
  verif_assert(!Dup, "a product whose parsers share a name was accepted");
  verif_reach("product constructed");
}
}
VERIF_HARNESS(h_ctor_product_ok) { product_names<false>(); }
//@harness h_ctor_product_ok tier=quick loop=64
VERIF_HARNESS(h_ctor_product_dup) { product_names<true>(); }
//@harness h_ctor_product_dup tier=quick loop=64 throws=_ZTIN5fcppt7options15duplicate_namesE
