// C03 - environment shared by the C03 kernels.  Include FIRST (before any fcppt/options header).
//
// fcppt.options reaches iostream/locale code through exactly two core function templates:
//   fcppt::extract_from_string<T>(std::string)   (argument / option value conversion, istringstream + locale)
//   fcppt::output_to_fcppt_string(x)             (only to format error *messages*, ostringstream + locale)
// and cxxabi demangling through fcppt::options::pretty_type_impl<T> (documented customisation point, messages only).
// The engine cannot execute libstdc++.so, so these are replaced - in the engine build AND in the native replay
// build, by explicit specialisation in this TU, so both builds run the same code:
//   * extract_from_string<int|unsigned>(s)  = OPAQUE: "converts" iff uf(90,key(s)) is odd, value = uf(91,key(s)),
//       where key(s) packs length and the first 7 bytes of s (tokens in the kernels are at most 7 bytes long, so the
//       key is injective on them).  The checks therefore hold FOR ALL conversion functions, including ones where
//       "-1", "-" or a word converts; nothing about operator>> itself is claimed.
//   * extract_from_string<std::string>(s)   = operator>> into a std::string followed by the "consumed completely"
//       test, written out by hand: succeeds with s iff s is non-empty and contains no white space (the tokens of
//       the kernels never contain white space; the empty token is in the alphabet).
//   * output_to_fcppt_string(x)             = a fixed placeholder text (message contents are outside the claim).
// Every parser, combinator, state, error and name-set function of libs/options is the real code (headers + unity
// build of every .cpp in libs/options/src and libs/options/impl/src from the working tree).
#ifndef C03_ENV_HPP
#define C03_ENV_HPP
#include "verif_api.h"
#include <fcppt/args_vector.hpp>
#include <fcppt/extract_from_string.hpp>
#include <fcppt/output_to_fcppt_string.hpp>
#include <fcppt/string.hpp>
#include <fcppt/container/output.hpp>
#include <fcppt/optional/object_impl.hpp>
#include <fcppt/options/pretty_type_impl.hpp>
#include <cstdint>
#include <set>
#include <string>
#include <vector>

namespace c03
{
inline std::uint64_t key(std::string const &_s)
{
  std::uint64_t k{_s.size() & 0xffU};
  for (std::size_t i = 0; i < _s.size() && i < 7; ++i)
  {
    k |= static_cast<std::uint64_t>(static_cast<unsigned char>(_s[i])) << (8U * (i + 1U));
  }
  return k;
}
inline bool conv_ok(std::string const &_s) { return (verif_uf1(90, key(_s)) & 1U) != 0U; }
inline std::uint32_t conv_val(std::string const &_s) { return static_cast<std::uint32_t>(verif_uf1(91, key(_s))); }
inline bool is_space(char const _c)
{
  return _c == ' ' || _c == '\t' || _c == '\n' || _c == '\v' || _c == '\f' || _c == '\r';
}
inline bool str_ok(std::string const &_s)
{
  if (_s.empty())
  {
    return false;
  }
  for (char const c : _s)
  {
    if (is_space(c))
    {
      return false;
    }
  }
  return true;
}
}

namespace fcppt
{
template <>
inline fcppt::optional::object<int> extract_from_string<int, std::string>(std::string const &_s)
{
  return c03::conv_ok(_s) ? fcppt::optional::object<int>{static_cast<int>(c03::conv_val(_s))}
                          : fcppt::optional::object<int>{};
}
template <>
inline fcppt::optional::object<unsigned>
extract_from_string<unsigned, std::string>(std::string const &_s)
{
  return c03::conv_ok(_s) ? fcppt::optional::object<unsigned>{c03::conv_val(_s)}
                          : fcppt::optional::object<unsigned>{};
}
template <>
inline fcppt::optional::object<std::string>
extract_from_string<std::string, std::string>(std::string const &_s)
{
  return c03::str_ok(_s) ? fcppt::optional::object<std::string>{std::string{_s}}
                         : fcppt::optional::object<std::string>{};
}
#define C03_OUTPUT_PLACEHOLDER(...) \
  template <> \
  inline fcppt::string output_to_fcppt_string<__VA_ARGS__>(__VA_ARGS__ const &) \
  { \
    return fcppt::string{"<value>"}; \
  }
C03_OUTPUT_PLACEHOLDER(int)
C03_OUTPUT_PLACEHOLDER(unsigned)
C03_OUTPUT_PLACEHOLDER(bool)
C03_OUTPUT_PLACEHOLDER(std::string)
C03_OUTPUT_PLACEHOLDER(fcppt::container::detail::output<fcppt::args_vector>)
C03_OUTPUT_PLACEHOLDER(fcppt::container::detail::output<std::set<std::string>>)
#undef C03_OUTPUT_PLACEHOLDER

namespace options
{
template <>
struct pretty_type_impl<int>
{
  static fcppt::string get() { return fcppt::string{"int"}; }
};
template <>
struct pretty_type_impl<unsigned>
{
  static fcppt::string get() { return fcppt::string{"unsigned"}; }
};
}
}
#endif
