// C03 (level a) - the non-template building blocks of fcppt.options on symbolic strings.
// Real code (unity build of libs/options/src/**.cpp and libs/options/impl/src/**.cpp from the working tree):
//   impl::is_flag, impl::next_arg, impl::flag_name, detail::use_flag, detail::use_option, detail::pop_arg,
//   detail::leftover_error, detail::split_command, detail::check_short_long_names, options::is_option,
//   option_name comparison (through std::set<option_name>, libstdc++ red-black tree primitives = model rbtree).
// Inputs: every token is a symbolic string (symbolic length <= LEN, all 256 byte values), the argument vector has
// n tokens (n a shape parameter), option/flag names are symbolic strings as well.
// Oracle: a direct reading of the documentation on the raw bytes -
//   a token is a flag iff it starts with '-'; "--x" is the long flag x, "-x" the short flag x;
//   the next positional argument is the first token that is neither a flag nor the token following a flag whose
//   (name, is_short) is a known option name; use_flag removes the first token equal to the dashed name;
//   use_option removes the first token equal to the dashed name together with the token after it and yields that
//   token, fails when there is no token after it, and leaves everything else in order.
// Outside the claim: the text of error messages (leftover_error formats through ostringstream - replaced by a
// placeholder, see C03_env.hpp); check_sub_command_names (std::unordered_map: hashing lives in libstdc++.so);
// strings longer than LEN bytes / vectors longer than the n listed in the registrations.
//@property C03
//@unity options
//@models rbtree
#include "C03_env.hpp"
#include <fcppt/make_ref.hpp>
#include <fcppt/optional_string.hpp>
#include <fcppt/string_view.hpp>
#include <fcppt/either/object_impl.hpp>
#include <fcppt/optional/object_impl.hpp>
#include <fcppt/options/is_option.hpp>
#include <fcppt/options/long_name.hpp>
#include <fcppt/options/option_name.hpp>
#include <fcppt/options/option_name_set.hpp>
#include <fcppt/options/optional_short_name.hpp>
#include <fcppt/options/parse_context.hpp>
#include <fcppt/options/short_name.hpp>
#include <fcppt/options/state.hpp>
#include <fcppt/options/detail/check_short_long_names.hpp>
#include <fcppt/options/detail/flag_is_short.hpp>
#include <fcppt/options/detail/leftover_error.hpp>
#include <fcppt/options/detail/pop_arg.hpp>
#include <fcppt/options/detail/split_command.hpp>
#include <fcppt/options/detail/use_flag.hpp>
#include <fcppt/options/detail/use_option.hpp>
#include <fcppt/options/impl/flag_name.hpp>
#include <fcppt/options/impl/is_flag.hpp>
#include <fcppt/options/impl/next_arg.hpp>
#include <fcppt/tuple/get.hpp>
#include <memory>
#include <string>
#include <utility>
#include <vector>
#include "unity_options.hpp"
#include "libs/core/src/exception.cpp"
#include "libs/core/src/insert_extract_locale.cpp"

namespace
{
using fcppt::options::detail::flag_is_short;
using str = std::string;
using vec = std::vector<std::string>;

str sym_str(char const *const _len, char const *const _chr, unsigned const _max)
{
  unsigned const n{verif_u8(_len)};
  verif_assume(n <= _max);
  str r{};
  for (unsigned i = 0; i < n; ++i)
  {
    r.push_back(static_cast<char>(verif_u8(_chr)));
  }
  return r;
}

str sym_fixed(unsigned const _n)
{
  str r{};
  for (unsigned i = 0; i < _n; ++i)
  {
    r.push_back(static_cast<char>(verif_u8("tok_chr")));
  }
  return r;
}

vec sym_vec(unsigned const _n, unsigned const _max)
{
  vec r{};
  for (unsigned i = 0; i < _n; ++i)
  {
    r.push_back(sym_str("tok_len", "tok_chr", _max));
  }
  return r;
}

// branch-free equality (lengths are concrete on every path)
bool eq(str const &_a, str const &_b)
{
  if (_a.size() != _b.size())
  {
    return false;
  }
  bool r{true};
  for (std::size_t i = 0; i < _a.size(); ++i)
  {
    r = r & (_a[i] == _b[i]);
  }
  return r;
}

bool eq(vec const &_a, vec const &_b)
{
  if (_a.size() != _b.size())
  {
    return false;
  }
  bool r{true};
  for (std::size_t i = 0; i < _a.size(); ++i)
  {
    r = r & eq(_a[i], _b[i]);
  }
  return r;
}

vec without(vec const &_v, std::size_t const _from, std::size_t const _count)
{
  vec r{};
  for (std::size_t i = 0; i < _v.size(); ++i)
  {
    if (i < _from || i >= _from + _count)
    {
      r.push_back(_v[i]);
    }
  }
  return r;
}

// ---- reference reading of the documentation
bool ref_is_flag(str const &_s) { return !_s.empty() && _s[0] == '-'; }
bool ref_is_long(str const &_s) { return _s.size() >= 2 && _s[0] == '-' && _s[1] == '-'; }
str ref_flag_name(str const &_s) { return _s.substr(ref_is_long(_s) ? 2 : 1); }
str dashed(str const &_name, bool const _short) { return (_short ? str{"-"} : str{"--"}) + _name; }

struct names
{
  bool has_short, has_long;
  str short_name, long_name;
  bool contains(str const &_name, bool const _short) const
  {
    return _short ? (has_short && eq(short_name, _name)) : (has_long && eq(long_name, _name));
  }
};

// one short and one long option name, each present or not, each a single symbolic byte ("-o", "--p")
names sym_names()
{
  names r{verif_u8("has_short") != 0, verif_u8("has_long") != 0, str(1, static_cast<char>(verif_u8("sn_chr"))),
          str(1, static_cast<char>(verif_u8("ln_chr")))};
  return r;
}

fcppt::options::option_name_set real_names(names const &_n)
{
  fcppt::options::option_name_set r{};
  if (_n.has_long)
  {
    r.insert(fcppt::options::option_name{str{_n.long_name}, fcppt::options::option_name::is_short{false}});
  }
  if (_n.has_short)
  {
    r.insert(fcppt::options::option_name{str{_n.short_name}, fcppt::options::option_name::is_short{true}});
  }
  return r;
}

// index of the next positional argument, size() if there is none
std::size_t ref_next_arg(vec const &_args, names const &_names)
{
  std::size_t i{0};
  while (i < _args.size())
  {
    if (!ref_is_flag(_args[i]))
    {
      return i;
    }
    bool const takes_value{_names.contains(ref_flag_name(_args[i]), !ref_is_long(_args[i]))};
    i += (takes_value && i + 1 < _args.size()) ? 2 : 1;
  }
  return _args.size();
}

std::size_t ref_find(vec const &_args, str const &_what)
{
  for (std::size_t i = 0; i < _args.size(); ++i)
  {
    if (eq(_args[i], _what))
    {
      return i;
    }
  }
  return _args.size();
}

unsigned const LEN = 2;
}

// is_flag on a view that is NOT followed by a terminator: reading past the end is an out-of-bounds access
VERIF_HARNESS(h_is_flag)
{
  unsigned const n{static_cast<unsigned>(verif_param("n"))};
  std::unique_ptr<char[]> const buf{new char[n]};
  str s{};
  for (unsigned i = 0; i < n; ++i)
  {
    buf[i] = static_cast<char>(verif_u8("c"));
    s.push_back(buf[i]);
  }
  auto const r{fcppt::options::impl::is_flag(fcppt::string_view{buf.get(), n})};
  verif_reach("is_flag returned");
  verif_out("has", r.has_value());
  verif_assert(r.has_value() == ref_is_flag(s), "is_flag: a token is a flag iff it starts with '-'");
  if (r.has_value())
  {
    verif_assert(r.get_unsafe().first.get() == !ref_is_long(s), "is_flag: short iff not '--'");
    verif_assert(eq(r.get_unsafe().second, ref_flag_name(s)), "is_flag: name is the token without its dashes");
  }
  verif_assert(fcppt::options::is_option(fcppt::string_view{buf.get(), n}) == ref_is_flag(s), "is_option iff starts with '-'");
}
//@harness h_is_flag param n=0..4 tier=quick loop=16

VERIF_HARNESS(h_flag_name)
{
  str const name{sym_str("len", "chr", 3)};
  bool const is_short{verif_u8("short") != 0};
  str const r{fcppt::options::impl::flag_name(name, flag_is_short{is_short})};
  verif_reach("flag_name returned");
  verif_assert(eq(r, dashed(name, is_short)), "flag_name: '-'/'--' + name");
  // round trip: is_flag(flag_name(n, s)) = (s, n) unless the short name itself starts with '-'
  auto const back{fcppt::options::impl::is_flag(r)};
  verif_assert(back.has_value(), "flag_name is a flag");
  if (is_short && !ref_is_flag(name))
  {
    verif_assert(back.get_unsafe().first.get() && eq(back.get_unsafe().second, name), "is_flag(flag_name(short)) round trip");
  }
  if (!is_short)
  {
    verif_assert(!back.get_unsafe().first.get() && eq(back.get_unsafe().second, name), "is_flag(flag_name(long)) round trip");
  }
}
//@harness h_flag_name tier=quick loop=16

void check_next_arg(vec const &args)
{
  std::size_t const n{args.size()};
  names const nm{sym_names()};
  fcppt::options::option_name_set const set{real_names(nm)};
  auto const r{fcppt::options::impl::next_arg(args, set)};
  verif_reach("next_arg returned");
  std::size_t const expected{ref_next_arg(args, nm)};
  verif_out("expected", expected);
  verif_assert(r.has_value() == (expected < n), "next_arg: found iff the reference finds a positional argument");
  if (r.has_value())
  {
    verif_assert(static_cast<std::size_t>(r.get_unsafe() - args.begin()) == expected, "next_arg: position of the first positional argument");
  }
}

VERIF_HARNESS(h_next_arg) { check_next_arg(sym_vec(static_cast<unsigned>(verif_param("n")), LEN + 1)); }
//@harness h_next_arg param n=0..1 tier=quick loop=24
//@harness h_next_arg param n=2..2 tier=thorough loop=24 wall=3000

// two tokens with parameter lengths (the first up to 3 bytes: "--p" is the long option p)
VERIF_HARNESS(h_next_arg2)
{
  vec args{};
  args.push_back(sym_fixed(static_cast<unsigned>(verif_param("len0"))));
  args.push_back(sym_fixed(static_cast<unsigned>(verif_param("len1"))));
  check_next_arg(args);
}
//@harness h_next_arg2 param len0=0..3 param len1=0..2 tier=quick loop=24

// three tokens; their lengths are shape parameters (splits the work over several solver runs)
VERIF_HARNESS(h_next_arg3)
{
  vec args{};
  args.push_back(sym_fixed(static_cast<unsigned>(verif_param("len0"))));
  args.push_back(sym_fixed(static_cast<unsigned>(verif_param("len1"))));
  args.push_back(sym_fixed(static_cast<unsigned>(verif_param("len2"))));
  check_next_arg(args);
}
//@harness h_next_arg3 param len0=0..2 param len1=0..2 param len2=0..2 if len0+len1+len2<6 tier=quick loop=24
//@harness h_next_arg3 param len0=2..2 param len1=2..2 param len2=2..2 tier=thorough loop=24
//@harness h_next_arg3 param len0=3..3 param len1=0..3 param len2=0..2 tier=thorough loop=24

VERIF_HARNESS(h_pop_arg)
{
  unsigned const n{static_cast<unsigned>(verif_param("n"))};
  vec const args{sym_vec(n, LEN)};
  names const nm{sym_names()};
  fcppt::options::parse_context const context{real_names(nm)};
  fcppt::options::state state{vec{args}};
  fcppt::optional_string const r{fcppt::options::detail::pop_arg(fcppt::make_ref(state), context)};
  verif_reach("pop_arg returned");
  std::size_t const expected{ref_next_arg(args, nm)};
  verif_assert(r.has_value() == (expected < n), "pop_arg: found iff there is a positional argument");
  if (r.has_value())
  {
    verif_assert(eq(r.get_unsafe(), args[expected]), "pop_arg: returns the first positional argument");
    verif_assert(eq(state.args(), without(args, expected, 1)), "pop_arg: removes exactly that token, order kept");
  }
  else
  {
    verif_assert(eq(state.args(), args), "pop_arg: nothing found leaves the state unchanged");
  }
}
//@harness h_pop_arg param n=0..2 tier=quick loop=24
//@harness h_pop_arg param n=3..3 tier=thorough loop=24

VERIF_HARNESS(h_split_command)
{
  unsigned const n{static_cast<unsigned>(verif_param("n"))};
  vec const args{sym_vec(n, LEN)};
  names const nm{sym_names()};
  auto const r{fcppt::options::detail::split_command(args, real_names(nm))};
  verif_reach("split_command returned");
  std::size_t const expected{ref_next_arg(args, nm)};
  verif_assert(r.has_value() == (expected < n), "split_command: found iff there is a positional argument");
  if (r.has_value())
  {
    verif_assert(eq(fcppt::tuple::get<1>(r.get_unsafe()), args[expected]), "split_command: command = first positional argument");
    verif_assert(eq(fcppt::tuple::get<0>(r.get_unsafe()), without(args, expected, n)), "split_command: first part = tokens before the command");
    verif_assert(eq(fcppt::tuple::get<2>(r.get_unsafe()), without(args, 0, expected + 1)), "split_command: second part = tokens after the command");
  }
}
//@harness h_split_command param n=0..2 tier=quick loop=24
//@harness h_split_command param n=3..3 tier=thorough loop=24

VERIF_HARNESS(h_use_flag)
{
  unsigned const n{static_cast<unsigned>(verif_param("n"))};
  vec const args{sym_vec(n, LEN + 1)};
  str const name{sym_str("name_len", "name_chr", LEN)};
  bool const is_short{verif_u8("short") != 0};
  fcppt::options::state state{vec{args}};
  bool const r{fcppt::options::detail::use_flag(fcppt::make_ref(state), name, flag_is_short{is_short})};
  verif_reach("use_flag returned");
  std::size_t const pos{ref_find(args, dashed(name, is_short))};
  verif_out("found", r);
  verif_assert(r == (pos < n), "use_flag: true iff the dashed name occurs");
  verif_assert(eq(state.args(), pos < n ? without(args, pos, 1) : args), "use_flag: removes exactly the first occurrence, everything else kept in order");
}
//@harness h_use_flag param n=0..2 tier=quick loop=24
//@harness h_use_flag param n=3..3 tier=quick loop=24 cost=3
//@harness h_use_flag param n=4..4 tier=thorough loop=24

VERIF_HARNESS(h_use_option)
{
  unsigned const n{static_cast<unsigned>(verif_param("n"))};
  vec const args{sym_vec(n, LEN + 1)};
  str const name{sym_str("name_len", "name_chr", LEN)};
  bool const is_short{verif_u8("short") != 0};
  fcppt::options::state state{vec{args}};
  fcppt::options::detail::use_option_result const r{fcppt::options::detail::use_option(fcppt::make_ref(state), name, flag_is_short{is_short})};
  verif_reach("use_option returned");
  std::size_t const pos{ref_find(args, dashed(name, is_short))};
  if (pos >= n)
  {
    verif_assert(r.has_success() && !r.get_success_unsafe().has_value(), "use_option: option absent -> success without value");
    verif_assert(eq(state.args(), args), "use_option: option absent -> state unchanged");
  }
  else if (pos + 1 == n)
  {
    verif_assert(r.has_failure(), "use_option: option is the last token -> missing option argument");
    verif_assert(eq(r.get_failure_unsafe().get(), dashed(name, is_short)), "use_option: the error names the option");
    verif_assert(eq(state.args(), args), "use_option: failure leaves the state unchanged");
  }
  else
  {
    verif_assert(r.has_success() && r.get_success_unsafe().has_value(), "use_option: option present -> value");
    verif_assert(eq(r.get_success_unsafe().get_unsafe(), args[pos + 1]), "use_option: the value is the token after the first occurrence");
    verif_assert(eq(state.args(), without(args, pos, 2)), "use_option: removes exactly the option and its value, everything else kept in order");
  }
}
//@harness h_use_option param n=0..2 tier=quick loop=24
//@harness h_use_option param n=3..3 tier=quick loop=24 cost=3
//@harness h_use_option param n=4..4 tier=thorough loop=24

VERIF_HARNESS(h_leftover)
{
  unsigned const n{static_cast<unsigned>(verif_param("n"))};
  fcppt::options::state const state{sym_vec(n, 1)};
  auto const r{fcppt::options::detail::leftover_error(state)};
  verif_reach("leftover_error returned");
  verif_assert(r.has_value() == (n != 0), "leftover_error: an error iff arguments are left");
}
//@harness h_leftover param n=0..2 tier=quick loop=24

// well-formed names (short != long, or no short name) are accepted ...
VERIF_HARNESS(h_check_names_ok)
{
  bool const has_short{verif_u8("has_short") != 0};
  str const sn{sym_str("sn_len", "sn_chr", LEN)}, ln{sym_str("ln_len", "ln_chr", LEN)};
  verif_assume(!has_short || !eq(sn, ln));
  fcppt::options::detail::check_short_long_names(
      has_short ? fcppt::options::optional_short_name{fcppt::options::short_name{str{sn}}} : fcppt::options::optional_short_name{},
      fcppt::options::long_name{str{ln}});
  verif_reach("accepted");
}
//@harness h_check_names_ok tier=quick loop=24

// ... and equal short/long names are rejected with duplicate_names
VERIF_HARNESS(h_check_names_dup)
{
  str const sn{sym_str("sn_len", "sn_chr", LEN)};
  verif_reach("before");
  fcppt::options::detail::check_short_long_names(
      fcppt::options::optional_short_name{fcppt::options::short_name{str{sn}}}, fcppt::options::long_name{str{sn}});
  verif_assert(false, "check_short_long_names accepted equal short and long names");
}
//@harness h_check_names_dup tier=quick loop=24 throws=_ZTIN5fcppt7options15duplicate_namesE
