// C03 (level b) - shared by the composition kernels: a combinator vocabulary that builds, from ONE description,
//   * the real fcppt::options parser (argument/flag/switch/option/unit/unit_switch/optional/many/apply/sum), and
//   * a reference model: the documented left-to-right consumption semantics on a list of token *identities*.
//
// Reference semantics (doc/files/modules/options.doxygen + the property statement):
//   state        = the not yet consumed tokens, in order.
//   argument     takes the first token that is neither a flag (starts with '-') nor the token following the dashed
//                name of an option known to the whole parser; none -> recoverable "missing"; conversion fails -> error.
//   flag/switch  removes the first "--long" and the first "-short"; both present -> error; never missing.
//   option       first "--long" (and first "-short") together with the following token, which is its value whatever
//                it looks like; name is the last token -> error; both spellings -> error; absent -> default value or
//                recoverable "missing"; conversion fails -> error.
//   unit         succeeds iff nothing is left.      unit_switch = a flag that must be present (else "missing").
//   product      left then right on what left left over.
//   sum          left; if that fails (for whatever reason) right on the SAME state; missing iff both are missing.
//   optional     p; a recoverable failure of p yields "nothing" and consumes NOTHING.
//   many         p repeatedly until it fails recoverably; the failing attempt consumes NOTHING.
//   parse        succeeds iff the parser succeeds and no token is left: then every token was consumed exactly once by
//                construction of the model, and an option's value was removed together with its name, so it can never
//                be a positional argument.
#ifndef C03_MODEL_HPP
#define C03_MODEL_HPP
#include "C03_env.hpp"
#include <fcppt/args_vector.hpp>
#include <fcppt/unit.hpp>
#include <fcppt/either/object_impl.hpp>
#include <fcppt/optional/object_impl.hpp>
#include <fcppt/options/apply.hpp>
#include <fcppt/options/argument.hpp>
#include <fcppt/options/flag.hpp>
#include <fcppt/options/left.hpp>
#include <fcppt/options/long_name.hpp>
#include <fcppt/options/make_active_value.hpp>
#include <fcppt/options/make_default_value.hpp>
#include <fcppt/options/make_inactive_value.hpp>
#include <fcppt/options/make_many.hpp>
#include <fcppt/options/make_optional.hpp>
#include <fcppt/options/make_sum.hpp>
#include <fcppt/options/no_default_value.hpp>
#include <fcppt/options/option.hpp>
#include <fcppt/options/optional_help_text.hpp>
#include <fcppt/options/optional_short_name.hpp>
#include <fcppt/options/parse.hpp>
#include <fcppt/options/result.hpp>
#include <fcppt/options/result_of.hpp>
#include <fcppt/options/right.hpp>
#include <fcppt/options/short_name.hpp>
#include <fcppt/options/switch.hpp>
// (unit_fwd.hpp used to declare `class flag` instead of `class unit`, which made this include list uncompilable;
// repaired in /repo, see known_findings.json - the real header is used again.)
#include <fcppt/options/unit.hpp>
#include <fcppt/options/unit_switch.hpp>
#include <fcppt/record/get.hpp>
#include <fcppt/record/has_label.hpp>
#include <fcppt/record/make_label.hpp>
#include <fcppt/record/object_impl.hpp>
#include <fcppt/variant/match.hpp>
#include <fcppt/variant/object_impl.hpp>
#include <cstdint>
#include <string>
#include <utility>
#include <vector>

namespace c03
{
using u64 = std::uint64_t;
unsigned const LABELS = 6;

// symbolic constants of the parser definitions (flag values, option defaults)
inline std::uint32_t g_active[LABELS], g_inactive[LABELS], g_default[LABELS];
inline void init_symbols()
{
  for (unsigned i = 0; i < LABELS; ++i)
  {
    g_active[i] = verif_u32("active");
    g_inactive[i] = verif_u32("inactive");
    g_default[i] = verif_u32("default");
    verif_assume(g_active[i] != g_inactive[i]); // documented precondition of flag
  }
}
inline std::string long_of(unsigned const _k) { return std::string(2, static_cast<char>('a' + _k)); }
inline std::string short_of(unsigned const _k) { return std::string(1, static_cast<char>('a' + _k)); }
inline char const *const STR_ACTIVE = "on";
inline char const *const STR_INACTIVE = "off";
inline char const *const STR_DEFAULT = "dflt";

// ------------------------------------------------------------------------------------------ reference model
namespace m
{
enum class kind { argument, flag, option, unit, unit_switch, optional, many, product, sum };
struct node
{
  kind k;
  unsigned label;
  bool is_string, has_short, has_default;
  std::vector<node> kids;
  bool is_switch = false; // flag<bool> with active = true, inactive = false
};

struct entry;
using record = std::vector<entry>; // (label, value)
struct val
{
  enum tag { scalar, unit, none, some, list, left, right } t;
  u64 x;
  std::vector<val> kids; // some: 1, list: n
  record rec;            // left/right
};
struct entry
{
  unsigned first;
  val second;
};

inline void flatten(val const &, std::vector<u64> &);
inline void flatten(record const &_r, std::vector<u64> &_out)
{
  for (unsigned l = 0; l < LABELS; ++l)
  {
    for (auto const &e : _r)
    {
      if (e.first == l)
      {
        flatten(e.second, _out);
      }
    }
  }
}
inline void flatten(val const &_v, std::vector<u64> &_out)
{
  switch (_v.t)
  {
  case val::scalar: _out.push_back(_v.x); break;
  case val::unit: break;
  case val::none: _out.push_back(0); break;
  case val::some: _out.push_back(1); flatten(_v.kids[0], _out); break;
  case val::list:
    _out.push_back(_v.kids.size());
    for (val const &k : _v.kids) { flatten(k, _out); }
    break;
  case val::left: _out.push_back(0); flatten(_v.rec, _out); break;
  case val::right: _out.push_back(1); flatten(_v.rec, _out); break;
  }
}

inline void labels_of(node const &_n, std::vector<unsigned> &_out)
{
  switch (_n.k)
  {
  case kind::optional:
  case kind::many:
  case kind::product:
    for (node const &c : _n.kids) { labels_of(c, _out); }
    break;
  default: _out.push_back(_n.label);
  }
}

// dashed names of every option of the whole parser (the parse context)
inline void option_names(node const &_n, std::vector<std::string> &_out)
{
  if (_n.k == kind::option)
  {
    _out.push_back("--" + long_of(_n.label));
    if (_n.has_short) { _out.push_back("-" + short_of(_n.label)); }
  }
  for (node const &c : _n.kids) { option_names(c, _out); }
}
// dashed names of every flag, switch, unit_switch and option: the parser's "own" tokens
inline void own_names(node const &_n, std::vector<std::string> &_out)
{
  if (_n.k == kind::option || _n.k == kind::flag || _n.k == kind::unit_switch)
  {
    _out.push_back("--" + long_of(_n.label));
    if (_n.has_short) { _out.push_back("-" + short_of(_n.label)); }
  }
  for (node const &c : _n.kids) { own_names(c, _out); }
}

using tokens = std::vector<std::string>;
using state = std::vector<unsigned>; // identities (positions in the argument vector) of the unconsumed tokens
enum class status { ok, missing, error };
struct result
{
  status s;
  state rest; // ok only
  record rec; // ok only
};

struct machine
{
  tokens const &toks;
  std::vector<std::string> opts;

  bool is_flag(unsigned const _id) const { return !toks[_id].empty() && toks[_id][0] == '-'; }
  bool is_option_name(unsigned const _id) const
  {
    for (std::string const &o : opts)
    {
      if (o == toks[_id]) { return true; }
    }
    return false;
  }
  // position in _s of the first positional argument, _s.size() if none
  std::size_t positional(state const &_s) const
  {
    std::size_t i{0};
    while (i < _s.size())
    {
      if (!is_flag(_s[i])) { return i; }
      i += (is_option_name(_s[i]) && i + 1 < _s.size()) ? 2 : 1;
    }
    return _s.size();
  }
  std::size_t find(state const &_s, std::string const &_what) const
  {
    for (std::size_t i = 0; i < _s.size(); ++i)
    {
      if (toks[_s[i]] == _what) { return i; }
    }
    return _s.size();
  }
  static result fail(status const _s) { return result{_s, state{}, record{}}; }
  static val scalar(u64 const _x) { return val{val::scalar, _x, {}, {}}; }
  // the converted value of a token; false if it does not convert
  bool convert(node const &_n, std::string const &_tok, val &_out) const
  {
    if (_n.is_string)
    {
      if (!str_ok(_tok)) { return false; }
      _out = scalar(key(_tok));
      return true;
    }
    if (!conv_ok(_tok)) { return false; }
    _out = scalar(conv_val(_tok));
    return true;
  }

  result run(node const &_n, state _s) const
  {
    switch (_n.k)
    {
    case kind::argument:
    {
      std::size_t const p{positional(_s)};
      if (p == _s.size()) { return fail(status::missing); }
      val v{};
      if (!convert(_n, toks[_s[p]], v)) { return fail(status::error); }
      _s.erase(_s.begin() + static_cast<std::ptrdiff_t>(p));
      return result{status::ok, _s, record{{_n.label, v}}};
    }
    case kind::flag:
    case kind::unit_switch:
    {
      bool found_long{false}, found_short{false};
      std::size_t p{find(_s, "--" + long_of(_n.label))};
      if (p != _s.size()) { found_long = true; _s.erase(_s.begin() + static_cast<std::ptrdiff_t>(p)); }
      if (_n.has_short)
      {
        p = find(_s, "-" + short_of(_n.label));
        if (p != _s.size()) { found_short = true; _s.erase(_s.begin() + static_cast<std::ptrdiff_t>(p)); }
      }
      if (found_long && found_short) { return fail(status::error); }
      bool const found{found_long || found_short};
      if (_n.k == kind::unit_switch)
      {
        return found ? result{status::ok, _s, record{{_n.label, val{val::unit, 0, {}, {}}}}} : fail(status::missing);
      }
      u64 const value{_n.is_switch   ? (found ? 1U : 0U)
                      : _n.is_string ? key(found ? STR_ACTIVE : STR_INACTIVE)
                                     : (found ? g_active[_n.label] : g_inactive[_n.label])};
      return result{status::ok, _s, record{{_n.label, scalar(value)}}};
    }
    case kind::option:
    {
      bool have{false}, twice{false};
      std::string value{};
      for (unsigned spelling = 0; spelling < (_n.has_short ? 2U : 1U); ++spelling)
      {
        std::size_t const p{find(_s, spelling == 0 ? "--" + long_of(_n.label) : "-" + short_of(_n.label))};
        if (p == _s.size()) { continue; }
        if (p + 1 == _s.size()) { return fail(status::error); } // no value after the name
        twice = have;
        have = true;
        value = toks[_s[p + 1]];
        _s.erase(_s.begin() + static_cast<std::ptrdiff_t>(p), _s.begin() + static_cast<std::ptrdiff_t>(p) + 2);
      }
      if (twice) { return fail(status::error); }
      if (!have)
      {
        if (!_n.has_default) { return fail(status::missing); }
        return result{status::ok, _s, record{{_n.label, scalar(_n.is_string ? key(STR_DEFAULT) : g_default[_n.label])}}};
      }
      val v{};
      if (!convert(_n, value, v)) { return fail(status::error); }
      return result{status::ok, _s, record{{_n.label, v}}};
    }
    case kind::unit:
      return _s.empty() ? result{status::ok, _s, record{{_n.label, val{val::unit, 0, {}, {}}}}} : fail(status::error);
    case kind::product:
    {
      result a{run(_n.kids[0], _s)};
      if (a.s != status::ok) { return a; }
      result b{run(_n.kids[1], a.rest)};
      if (b.s != status::ok) { return b; }
      for (auto const &e : b.rec) { a.rec.push_back(e); }
      return result{status::ok, b.rest, a.rec};
    }
    case kind::sum:
    {
      result a{run(_n.kids[0], _s)};
      if (a.s == status::ok) { return result{status::ok, a.rest, record{{_n.label, val{val::left, 0, {}, a.rec}}}}; }
      result b{run(_n.kids[1], _s)};
      if (b.s == status::ok) { return result{status::ok, b.rest, record{{_n.label, val{val::right, 0, {}, b.rec}}}}; }
      return fail(a.s == status::missing && b.s == status::missing ? status::missing : status::error);
    }
    case kind::optional:
    {
      result a{run(_n.kids[0], _s)};
      if (a.s == status::error) { return a; }
      std::vector<unsigned> ls{};
      labels_of(_n.kids[0], ls);
      record r{};
      if (a.s == status::missing)
      {
        for (unsigned const l : ls) { r.push_back({l, val{val::none, 0, {}, {}}}); }
        return result{status::ok, _s, r}; // nothing consumed
      }
      for (auto const &e : a.rec) { r.push_back({e.first, val{val::some, 0, {e.second}, {}}}); }
      return result{status::ok, a.rest, r};
    }
    case kind::many:
    {
      std::vector<unsigned> ls{};
      labels_of(_n.kids[0], ls);
      record r{};
      for (unsigned const l : ls) { r.push_back({l, val{val::list, 0, {}, {}}}); }
      for (std::size_t round = 0; round <= toks.size(); ++round)
      {
        result a{run(_n.kids[0], _s)};
        if (a.s == status::error) { return a; }
        if (a.s == status::missing) { return result{status::ok, _s, r}; } // the failing attempt consumes nothing
        for (auto const &e : a.rec)
        {
          for (auto &d : r)
          {
            if (d.first == e.first) { d.second.kids.push_back(e.second); }
          }
        }
        _s = a.rest;
      }
      verif_assert(false, "harness: many around a parser that succeeds without consuming");
      return fail(status::error);
    }
    }
    return fail(status::error);
  }
};

struct outcome
{
  bool ok;
  std::vector<u64> flat;
};
inline outcome parse(node const &_n, tokens const &_toks)
{
  machine mc{_toks, {}};
  option_names(_n, mc.opts);
  state all{};
  for (unsigned i = 0; i < _toks.size(); ++i) { all.push_back(i); }
  result const r{mc.run(_n, all)};
  outcome o{r.s == status::ok && r.rest.empty(), {}};
  if (o.ok) { flatten(r.rec, o.flat); }
  return o;
}

// own names + a foreign flag, "-", "--", a number, a word
inline tokens alphabet(node const &_n, bool const _with_empty)
{
  tokens r{};
  own_names(_n, r);
  r.push_back("-z");
  r.push_back("-");
  r.push_back("--");
  r.push_back("12");
  r.push_back("xy");
  if (_with_empty) { r.push_back(""); }
  return r;
}
}

// ------------------------------------------------------------------------------------------ labels
FCPPT_RECORD_MAKE_LABEL(l0);
FCPPT_RECORD_MAKE_LABEL(l1);
FCPPT_RECORD_MAKE_LABEL(l2);
FCPPT_RECORD_MAKE_LABEL(l3);
FCPPT_RECORD_MAKE_LABEL(l4);
FCPPT_RECORD_MAKE_LABEL(l5);
template <unsigned K> struct lab_;
template <> struct lab_<0> { using type = l0; };
template <> struct lab_<1> { using type = l1; };
template <> struct lab_<2> { using type = l2; };
template <> struct lab_<3> { using type = l3; };
template <> struct lab_<4> { using type = l4; };
template <> struct lab_<5> { using type = l5; };
template <unsigned K> using lab = typename lab_<K>::type;

// ------------------------------------------------------------------------------------------ observation of real results
inline void obs(std::vector<u64> &_out, int const _v) { _out.push_back(static_cast<std::uint32_t>(_v)); }
inline void obs(std::vector<u64> &_out, unsigned const _v) { _out.push_back(_v); }
inline void obs(std::vector<u64> &_out, bool const _v) { _out.push_back(_v ? 1U : 0U); }
inline void obs(std::vector<u64> &_out, std::string const &_v) { _out.push_back(key(_v)); }
inline void obs(std::vector<u64> &, fcppt::unit const &) {}
template <typename... E> void obs(std::vector<u64> &, fcppt::record::object<E...> const &);
template <typename T> void obs(std::vector<u64> &_out, fcppt::optional::object<T> const &_v)
{
  _out.push_back(_v.has_value() ? 1U : 0U);
  if (_v.has_value()) { obs(_out, _v.get_unsafe()); }
}
template <typename T> void obs(std::vector<u64> &_out, std::vector<T> const &_v)
{
  _out.push_back(_v.size());
  for (T const &e : _v) { obs(_out, e); }
}
template <typename L, typename R>
void obs(std::vector<u64> &_out, fcppt::variant::object<fcppt::options::left<L>, fcppt::options::right<R>> const &_v)
{
  fcppt::variant::match(
      _v,
      [&_out](fcppt::options::left<L> const &_l) { _out.push_back(0); obs(_out, _l.get()); },
      [&_out](fcppt::options::right<R> const &_r) { _out.push_back(1); obs(_out, _r.get()); });
}
template <unsigned K, typename Rec> void obs_label(std::vector<u64> &_out, Rec const &_r)
{
  if constexpr (fcppt::record::has_label<Rec, lab<K>>::value) { obs(_out, fcppt::record::get<lab<K>>(_r)); }
}
template <typename... E> void obs(std::vector<u64> &_out, fcppt::record::object<E...> const &_r)
{
  obs_label<0>(_out, _r); obs_label<1>(_out, _r); obs_label<2>(_out, _r);
  obs_label<3>(_out, _r); obs_label<4>(_out, _r); obs_label<5>(_out, _r);
}

// ------------------------------------------------------------------------------------------ the vocabulary
namespace o = fcppt::options;
inline o::optional_short_name short_name_of(unsigned const _k, bool const _has)
{
  return _has ? o::optional_short_name{o::short_name{short_of(_k)}} : o::optional_short_name{};
}
inline m::node leaf(m::kind const _k, unsigned const _l, bool const _str, bool const _short, bool const _def)
{
  return m::node{_k, _l, _str, _short, _def, {}};
}
template <typename T> inline constexpr bool is_str = std::is_same_v<T, std::string>;

template <unsigned K, typename T> struct Arg
{
  static auto real() { return o::argument<lab<K>, T>{o::long_name{long_of(K)}, o::optional_help_text{}}; }
  static m::node model() { return leaf(m::kind::argument, K, is_str<T>, false, false); }
};
template <unsigned K, typename T, bool Short> struct Flag
{
  static T active() { if constexpr (is_str<T>) { return STR_ACTIVE; } else { return static_cast<T>(g_active[K]); } }
  static T inactive() { if constexpr (is_str<T>) { return STR_INACTIVE; } else { return static_cast<T>(g_inactive[K]); } }
  static auto real()
  {
    return o::flag<lab<K>, T>{short_name_of(K, Short), o::long_name{long_of(K)}, o::make_active_value(active()),
                              o::make_inactive_value(inactive()), o::optional_help_text{}};
  }
  static m::node model() { return leaf(m::kind::flag, K, is_str<T>, Short, false); }
};
template <unsigned K, bool Short> struct Switch
{
  static auto real() { return o::switch_<lab<K>>{short_name_of(K, Short), o::long_name{long_of(K)}, o::optional_help_text{}}; }
  // a switch is flag<bool> with active = true, inactive = false
  static m::node model() { m::node n{leaf(m::kind::flag, K, false, Short, false)}; n.is_switch = true; return n; }
};
template <unsigned K, typename T, bool Short, bool Default> struct Opt
{
  static T dflt() { if constexpr (is_str<T>) { return STR_DEFAULT; } else { return static_cast<T>(g_default[K]); } }
  static auto real()
  {
    return o::option<lab<K>, T>{short_name_of(K, Short), o::long_name{long_of(K)},
                                Default ? o::make_default_value(fcppt::optional::object<T>{dflt()}) : o::no_default_value<T>(),
                                o::optional_help_text{}};
  }
  static m::node model() { return leaf(m::kind::option, K, is_str<T>, Short, Default); }
};
template <unsigned K> struct Unit
{
  static auto real() { return o::unit<lab<K>>{}; }
  static m::node model() { return leaf(m::kind::unit, K, false, false, false); }
};
template <unsigned K, bool Short> struct USwitch
{
  static auto real() { return o::unit_switch<lab<K>>{short_name_of(K, Short), o::long_name{long_of(K)}}; }
  static m::node model() { return leaf(m::kind::unit_switch, K, false, Short, false); }
};
template <typename P> struct Optional
{
  static auto real() { return o::make_optional(P::real()); }
  static m::node model() { return m::node{m::kind::optional, 0, false, false, false, {P::model()}}; }
};
template <typename P> struct Many
{
  static auto real() { return o::make_many(P::real()); }
  static m::node model() { return m::node{m::kind::many, 0, false, false, false, {P::model()}}; }
};
template <typename A, typename B> struct Prod
{
  static auto real() { return o::apply(A::real(), B::real()); }
  static m::node model() { return m::node{m::kind::product, 0, false, false, false, {A::model(), B::model()}}; }
};
template <typename A, typename B, typename C> struct Prod3
{
  static auto real() { return o::apply(A::real(), B::real(), C::real()); }
  static m::node model() { return Prod<A, Prod<B, C>>::model(); }
};
template <unsigned K, typename A, typename B> struct Sum
{
  static auto real() { return o::make_sum<lab<K>>(A::real(), B::real()); }
  static m::node model() { return m::node{m::kind::sum, K, false, false, false, {A::model(), B::model()}}; }
};

// ------------------------------------------------------------------------------------------ the check
// n tokens, each chosen symbolically from the shape's alphabet; flag values, option defaults and the int conversion
// function are symbolic as well
template <typename Shape> void check_parse(bool const _with_empty)
{
  init_symbols();
  auto const parser{Shape::real()};
  m::node const model{Shape::model()};
  m::tokens const alphabet{m::alphabet(model, _with_empty)};
  unsigned const n{static_cast<unsigned>(verif_param("n"))};
  fcppt::args_vector args{};
  for (unsigned i = 0; i < n; ++i)
  {
    unsigned const t{verif_u8("tok")};
    verif_assume(t < alphabet.size());
    args.push_back(alphabet[t]);
  }
  auto const real{o::parse(parser, args)};
  m::outcome const expected{m::parse(model, args)};
  verif_reach("parsed");
  verif_out("real_ok", real.has_success());
  verif_out("model_ok", expected.ok);
  verif_assert(real.has_success() == expected.ok, "parse succeeds exactly when the left-to-right consumption model succeeds (every token consumed exactly once)");
  if (real.has_success() && expected.ok)
  {
    std::vector<u64> got{};
    obs(got, real.get_success_unsafe());
    verif_assert(got.size() == expected.flat.size(), "parse returns a record of the same shape as the model");
    for (std::size_t i = 0; i < got.size() && i < expected.flat.size(); ++i)
    {
      verif_out("value", got[i]);
      verif_assert(got[i] == expected.flat[i], "parse returns the same record as the model");
    }
  }
}
}
#endif
