// C03 (level b) - fcppt::options::parse on composed parsers against the reference consumption model.
// See C03_model.hpp (reference semantics, vocabulary) and C03_env.hpp (what is replaced: value conversion is an
// uninterpreted function, message formatting a placeholder).
// Real code: options::parse, detail::parse_to_empty, argument/flag/switch_/option/unit/unit_switch/optional/many/
// product(apply)/sum ::parse, ::option_names, ::flag_names, product::check_disjoint, constructors, state,
// parse_context, missing_error, combine_errors, and every libs/options .cpp (unity build).
// Inputs: argument vector of n tokens (n = shape parameter), every token a symbolic choice from
//   {the parser's own "--long"/"-short" names, "-z" (foreign flag), "-", "--", "12", "xy" [, ""]};
//   flag active/inactive values and option default values symbolic 32-bit; int conversion = uninterpreted function.
// Outside the claim: vectors longer than the registered n; tokens outside the alphabet; parse_help's usage text,
// commands (C03_commands.cpp); enum value types; parsers passed by reference / unique_ptr / base<>.
//@property C03
//@unity options
//@models rbtree
#include "C03_model.hpp"
#include "unity_options.hpp"
#include "libs/core/src/exception.cpp"
#include "libs/core/src/insert_extract_locale.cpp"

using namespace c03;
using sstr = std::string;

#define SHAPE(name, ...) \
  VERIF_HARNESS(h_parse_##name) { check_parse<__VA_ARGS__>(false); }

// 1. a single argument
SHAPE(arg, Arg<0, int>)
//@harness h_parse_arg param n=0..3 tier=quick loop=200
// 2. flag<int> then a string argument
SHAPE(flag_arg, Prod<Flag<0, int, true>, Arg<1, sstr>>)
//@harness h_parse_flag_arg param n=0..3 tier=quick loop=200
// 3. argument first, then an option without default: the option's value must not become the argument
SHAPE(arg_opt, Prod<Arg<0, int>, Opt<1, int, true, false>>)
//@harness h_parse_arg_opt param n=0..3 tier=quick loop=200
// 4. option with default (string) then a string argument
SHAPE(optdef_arg, Prod<Opt<0, sstr, false, true>, Arg<1, sstr>>)
//@harness h_parse_optdef_arg param n=0..3 tier=quick loop=200
// 5. switch and an optional argument
SHAPE(switch_optarg, Prod<Switch<0, true>, Optional<Arg<1, int>>>)
//@harness h_parse_switch_optarg param n=0..3 tier=quick loop=200
// 6. many arguments and a switch
SHAPE(many_arg_switch, Prod<Many<Arg<0, int>>, Switch<1, false>>)
//@harness h_parse_many_arg_switch param n=0..3 tier=quick loop=200
// 7. an optional option and an argument
SHAPE(optopt_arg, Prod<Optional<Opt<0, int, true, false>>, Arg<1, sstr>>)
//@harness h_parse_optopt_arg param n=0..3 tier=quick loop=200
// 8. many options (repeated option)
SHAPE(many_opt, Many<Opt<0, int, false, false>>)
//@harness h_parse_many_opt param n=0..3 tier=quick loop=200
// 9. sum of a help-like unit_switch and an argument
SHAPE(sum_help_arg, Sum<2, USwitch<0, false>, Arg<1, int>>)
//@harness h_parse_sum_help_arg param n=0..3 tier=quick loop=200
// 10. sum of two products
SHAPE(sum_prod, Sum<4, Prod<USwitch<0, true>, Arg<1, int>>, Prod<Arg<2, sstr>, Arg<3, sstr>>>)
//@harness h_parse_sum_prod param n=0..3 tier=quick loop=200
// 11. unit alone and after a unit_switch
SHAPE(unit, Unit<0>)
//@harness h_parse_unit param n=0..2 tier=quick loop=200
SHAPE(uswitch_unit, Prod<USwitch<0, true>, Unit<1>>)
//@harness h_parse_uswitch_unit param n=0..3 tier=quick loop=200
// 12. three-way apply: argument, argument, switch
SHAPE(arg_arg_switch, Prod3<Arg<0, int>, Arg<1, sstr>, Switch<2, true>>)
//@harness h_parse_arg_arg_switch param n=0..3 tier=quick loop=200
// 13. optional around a product
SHAPE(opt_prod, Optional<Prod<Switch<0, true>, Arg<1, int>>>)
//@harness h_parse_opt_prod param n=0..3 tier=quick loop=200
// 14. many around a product
SHAPE(many_prod, Many<Prod<Opt<0, int, false, false>, Arg<1, int>>>)
//@harness h_parse_many_prod param n=0..3 tier=quick loop=200
// 15. optional around a sum
SHAPE(opt_sum, Prod<Optional<Sum<2, USwitch<0, false>, Arg<1, int>>>, Switch<3, false>>)
//@harness h_parse_opt_sum param n=0..3 tier=quick loop=200
// 16. argument before an optional option (unsigned): the option's value is skipped by the positional lookup
SHAPE(arg_optopt, Prod<Arg<0, sstr>, Optional<Opt<1, unsigned, false, false>>>)
//@harness h_parse_arg_optopt param n=0..3 tier=quick loop=200

// ---- thorough: four tokens, and the alphabet extended by the empty token
#define SHAPE_E(name, ...) \
  VERIF_HARNESS(h_parsee_##name) { check_parse<__VA_ARGS__>(true); }
SHAPE_E(flag_arg, Prod<Flag<0, int, true>, Arg<1, sstr>>)
SHAPE_E(arg_opt, Prod<Arg<0, int>, Opt<1, int, true, false>>)
SHAPE_E(optdef_arg, Prod<Opt<0, sstr, false, true>, Arg<1, sstr>>)
SHAPE_E(many_opt, Many<Opt<0, int, false, false>>)
SHAPE_E(sum_prod, Sum<4, Prod<USwitch<0, true>, Arg<1, int>>, Prod<Arg<2, sstr>, Arg<3, sstr>>>)
//@harness h_parsee_{S} for S in flag_arg,arg_opt,optdef_arg,many_opt,sum_prod param n=0..3 tier=thorough loop=200 wall=3000 paths=200000
//@harness h_parse_{S} for S in arg,flag_arg,arg_opt,optdef_arg,switch_optarg,many_arg_switch,optopt_arg,many_opt,sum_help_arg,sum_prod,uswitch_unit,arg_arg_switch,opt_prod,many_prod,opt_sum,arg_optopt param n=4..4 tier=thorough loop=200 wall=3000 paths=200000
