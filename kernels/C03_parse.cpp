// C03 (level b) - fcppt::options::parse on composed parsers against the reference consumption model (part 1).
// See C03_model.hpp (reference semantics, vocabulary) and C03_env.hpp (what is replaced: value conversion is an
// uninterpreted function, message formatting a placeholder).
// Real code: options::parse, detail::parse_to_empty, argument/flag/switch_/option/unit/unit_switch/optional/many/
// product(apply)/sum ::parse, ::option_names, ::flag_names, product::check_disjoint, constructors, state,
// parse_context, missing_error, combine_errors, and every libs/options .cpp (unity build).
// Inputs: argument vector of n tokens (n = shape parameter), every token a symbolic choice from
//   {the parser's own "--long"/"-short" names, "-z" (foreign flag), "-", "--", "12", "xy" [, ""]};
//   flag active/inactive values and option default values symbolic 32-bit; int conversion = uninterpreted function.
// Bounds: quick n <= 2 for every shape and n = 3 for the shapes marked so; thorough n <= 4.
// Outside the claim: vectors longer than the registered n; tokens outside the alphabet; parse_help's usage text;
// enum value types; parsers passed by unique_ptr / base<>.
//@property C03
//@unity options
//@models rbtree
#include "C03_model.hpp"
#include "unity_options.hpp"
#include "libs/core/src/exception.cpp"
#include "libs/core/src/insert_extract_locale.cpp"

using namespace c03;
using sstr = std::string;

#define SHAPE(name, ...) \
  VERIF_HARNESS(h_parse_##name) { check_parse<__VA_ARGS__>(false); }

// a single argument
SHAPE(arg, Arg<0, int>)
//@harness h_parse_arg param n=0..2 tier=quick loop=200
//@harness h_parse_arg param n=3..3 tier=quick loop=200 cost=5
//@harness h_parse_arg param n=4..4 tier=thorough loop=200 wall=6000 paths=400000

// flag<int> then a string argument
SHAPE(flag_arg, Prod<Flag<0, int, true>, Arg<1, sstr>>)
//@harness h_parse_flag_arg param n=0..2 tier=quick loop=200
//@harness h_parse_flag_arg param n=3..3 tier=quick loop=200 cost=5
//@harness h_parse_flag_arg param n=4..4 tier=thorough loop=200 wall=6000 paths=400000

// argument first, then an option without default: the option's value must not become the argument
SHAPE(arg_opt, Prod<Arg<0, int>, Opt<1, int, true, false>>)
//@harness h_parse_arg_opt param n=0..2 tier=quick loop=200
//@harness h_parse_arg_opt param n=3..3 tier=quick loop=200 cost=5
//@harness h_parse_arg_opt param n=4..4 tier=thorough loop=200 wall=6000 paths=400000

// option with default (string) then a string argument
SHAPE(optdef_arg, Prod<Opt<0, sstr, false, true>, Arg<1, sstr>>)
//@harness h_parse_optdef_arg param n=0..2 tier=quick loop=200
//@harness h_parse_optdef_arg param n=3..3 tier=thorough loop=200 wall=3000
//@harness h_parse_optdef_arg param n=4..4 tier=thorough loop=200 wall=6000 paths=400000

// switch and an optional argument
SHAPE(switch_optarg, Prod<Switch<0, true>, Optional<Arg<1, int>>>)
//@harness h_parse_switch_optarg param n=0..2 tier=quick loop=200
//@harness h_parse_switch_optarg param n=3..3 tier=thorough loop=200 wall=3000
//@harness h_parse_switch_optarg param n=4..4 tier=thorough loop=200 wall=6000 paths=400000

// many arguments and a switch
SHAPE(many_arg_switch, Prod<Many<Arg<0, int>>, Switch<1, false>>)
//@harness h_parse_many_arg_switch param n=0..2 tier=quick loop=200
//@harness h_parse_many_arg_switch param n=3..3 tier=thorough loop=200 wall=3000
//@harness h_parse_many_arg_switch param n=4..4 tier=thorough loop=200 wall=6000 paths=400000

// an optional option and an argument
SHAPE(optopt_arg, Prod<Optional<Opt<0, int, true, false>>, Arg<1, sstr>>)
//@harness h_parse_optopt_arg param n=0..2 tier=quick loop=200
//@harness h_parse_optopt_arg param n=3..3 tier=quick loop=200 cost=5
//@harness h_parse_optopt_arg param n=4..4 tier=thorough loop=200 wall=6000 paths=400000

// many options (a repeated option)
SHAPE(many_opt, Many<Opt<0, int, false, false>>)
//@harness h_parse_many_opt param n=0..2 tier=quick loop=200
//@harness h_parse_many_opt param n=3..3 tier=quick loop=200 cost=5
//@harness h_parse_many_opt param n=4..4 tier=thorough loop=200 wall=6000 paths=400000

// unit alone
SHAPE(unit, Unit<0>)
//@harness h_parse_unit param n=0..2 tier=quick loop=200

// one option with a short name, alone: four tokens reach "--long v -short w" (both spellings: an error, nothing is
// dropped silently) in the quick tier
SHAPE(opt_only, Opt<0, int, true, false>)
//@harness h_parse_opt_only param n=0..3 tier=quick loop=200
//@harness h_parse_opt_only param n=4..4 tier=quick loop=200 cost=9
SHAPE(optdef_only, Opt<0, sstr, true, true>)
//@harness h_parse_optdef_only param n=4..4 tier=thorough loop=200
