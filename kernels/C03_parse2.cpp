// C03 (level b) - fcppt::options::parse on composed parsers against the reference consumption model (part 2).
// See C03_model.hpp (reference semantics, vocabulary) and C03_env.hpp (what is replaced: value conversion is an
// uninterpreted function, message formatting a placeholder).
// Real code: options::parse, detail::parse_to_empty, argument/flag/switch_/option/unit/unit_switch/optional/many/
// product(apply)/sum ::parse, ::option_names, ::flag_names, product::check_disjoint, constructors, state,
// parse_context, missing_error, combine_errors, and every libs/options .cpp (unity build).
// Inputs: argument vector of n tokens (n = shape parameter), every token a symbolic choice from
//   {the parser's own "--long"/"-short" names, "-z" (foreign flag), "-", "--", "12", "xy" [, ""]};
//   flag active/inactive values and option default values symbolic 32-bit; int conversion = uninterpreted function.
// Bounds: quick n <= 2 for every shape and n = 3 for the shapes marked so; thorough n <= 4.
// Outside the claim: vectors longer than the registered n; tokens outside the alphabet; parse_help's usage text;
// enum value types; parsers passed by unique_ptr / base<>.
// FINDING (unchanged tree a52949b, natively reproduced, see C03_findings.patch): h_parse_opt_prod[n=1] and
// h_parse_many_prod[n=2] fail - optional<> / many<> continue with the state carried by the wrapped parser's "missing"
// error, so tokens consumed by the failed attempt are dropped silently ("-a" / "--aa 12" -> success with empty result).
//@property C03
//@unity options
//@models rbtree
#include "C03_model.hpp"
#include "unity_options.hpp"
#include "libs/core/src/exception.cpp"
#include "libs/core/src/insert_extract_locale.cpp"

using namespace c03;
using sstr = std::string;

#define SHAPE(name, ...) \
  VERIF_HARNESS(h_parse_##name) { check_parse<__VA_ARGS__>(false); }

// sum of a help-like unit_switch and an argument
SHAPE(sum_help_arg, Sum<2, USwitch<0, false>, Arg<1, int>>)
//@harness h_parse_sum_help_arg param n=0..2 tier=quick loop=200
//@harness h_parse_sum_help_arg param n=3..3 tier=quick loop=200 cost=5
//@harness h_parse_sum_help_arg param n=4..4 tier=thorough loop=200 wall=6000 paths=400000

// sum of two products
SHAPE(sum_prod, Sum<4, Prod<USwitch<0, true>, Arg<1, int>>, Prod<Arg<2, sstr>, Arg<3, sstr>>>)
//@harness h_parse_sum_prod param n=0..2 tier=quick loop=200
//@harness h_parse_sum_prod param n=3..3 tier=thorough loop=200 wall=3000
//@harness h_parse_sum_prod param n=4..4 tier=thorough loop=200 wall=6000 paths=400000

// unit after a unit_switch
SHAPE(uswitch_unit, Prod<USwitch<0, true>, Unit<1>>)
//@harness h_parse_uswitch_unit param n=0..2 tier=quick loop=200
//@harness h_parse_uswitch_unit param n=3..3 tier=thorough loop=200 wall=3000
//@harness h_parse_uswitch_unit param n=4..4 tier=thorough loop=200 wall=6000 paths=400000

// three-way apply: argument, argument, switch
SHAPE(arg_arg_switch, Prod3<Arg<0, int>, Arg<1, sstr>, Switch<2, true>>)
//@harness h_parse_arg_arg_switch param n=0..2 tier=quick loop=200
//@harness h_parse_arg_arg_switch param n=3..3 tier=thorough loop=200 wall=3000
//@harness h_parse_arg_arg_switch param n=4..4 tier=thorough loop=200 wall=6000 paths=400000

// optional around a product
SHAPE(opt_prod, Optional<Prod<Switch<0, true>, Arg<1, int>>>)
//@harness h_parse_opt_prod param n=0..2 tier=quick loop=200
//@harness h_parse_opt_prod param n=3..3 tier=thorough loop=200 wall=3000
//@harness h_parse_opt_prod param n=4..4 tier=thorough loop=200 wall=6000 paths=400000

// many around a product
SHAPE(many_prod, Many<Prod<Opt<0, int, false, false>, Arg<1, int>>>)
//@harness h_parse_many_prod param n=0..2 tier=quick loop=200
//@harness h_parse_many_prod param n=3..3 tier=thorough loop=200 wall=3000
//@harness h_parse_many_prod param n=4..4 tier=thorough loop=200 wall=6000 paths=400000

// optional around a sum, then a switch
SHAPE(opt_sum, Prod<Optional<Sum<2, USwitch<0, false>, Arg<1, int>>>, Switch<3, false>>)
//@harness h_parse_opt_sum param n=0..2 tier=quick loop=200
//@harness h_parse_opt_sum param n=3..3 tier=thorough loop=200 wall=3000
//@harness h_parse_opt_sum param n=4..4 tier=thorough loop=200 wall=6000 paths=400000

// argument before an optional option (unsigned): the option's value is skipped by the positional lookup
SHAPE(arg_optopt, Prod<Arg<0, sstr>, Optional<Opt<1, unsigned, false, false>>>)
//@harness h_parse_arg_optopt param n=0..2 tier=quick loop=200
//@harness h_parse_arg_optopt param n=3..3 tier=thorough loop=200 wall=3000
//@harness h_parse_arg_optopt param n=4..4 tier=thorough loop=200 wall=6000 paths=400000

// optional / many around a sum whose LEFT alternative can fail hard (conversion) while the RIGHT one is merely missing,
// followed by a parser that could take the offending token.  other_error_fwd.hpp: errors other than "missing", "for
// example failed conversion ... make even optional parsers fail" - so sum(hard, missing) is hard and the whole parse
// fails instead of skipping the sum and handing the token to the following argument.
SHAPE(optsum_name, Prod<Optional<Sum<2, Arg<0, int>, USwitch<1, false>>>, Arg<3, sstr>>)
//@harness h_parse_optsum_name param n=0..2 tier=quick loop=200
//@harness h_parse_optsum_name param n=3..4 tier=thorough loop=200 wall=6000 paths=400000
SHAPE(manysum_name, Prod<Many<Sum<2, Arg<0, int>, USwitch<1, false>>>, Arg<3, sstr>>)
//@harness h_parse_manysum_name param n=0..2 tier=quick loop=200
//@harness h_parse_manysum_name param n=3..3 tier=quick loop=200 cost=5
//@harness h_parse_manysum_name param n=4..4 tier=thorough loop=200 wall=6000 paths=400000
