// C03 (level b) - fcppt::options::parse on composed parsers against the reference consumption model (part 3):
// parsers in positions where they are NOT the last one to run.
// See C03_model.hpp (reference semantics, vocabulary) and C03_env.hpp (environment replacements).
// unit (unit_decl.hpp: "A parser that succeeds when provided with no arguments"; options.doxygen: "parses the empty
// command-line"; unit_impl.hpp on the unchanged tree: other_error "Excess arguments" otherwise) is pinned down while
// arguments are still pending: as the LEFT alternative of a sum (its failure selects the right alternative), as
// the LEFT factor of a product (a pending argument makes the whole product fail - hard, not "missing"), and under
// optional (the failure is not recoverable, so optional(unit) fails as well).  The model's unit: ok iff the remaining
// state is empty, otherwise a hard error; the token accounting (success only with every token consumed exactly
// once, same record) is asserted by check_parse as for every other shape.
// Not built: many(unit) - unit succeeds without consuming, so many<> never terminates on [] (ill-formed definition,
// like many(flag) or many(option with default)).
// Further "never in another position" shapes: unit_switch as the RIGHT factor after a positional; a sum whose
// alternatives can both consume the same token; a sum whose left alternative consumes and then fails, so that the
// right alternative must see the ORIGINAL state.
// Bounds: quick n <= 2 (n <= 3 where marked); thorough n <= 4.
//@property C03
//@unity options
//@models rbtree
#include "C03_model.hpp"
#include "unity_options.hpp"
#include "libs/core/src/exception.cpp"
#include "libs/core/src/insert_extract_locale.cpp"

using namespace c03;
using sstr = std::string;

#define SHAPE(name, ...) \
  VERIF_HARNESS(h_parse_##name) { check_parse<__VA_ARGS__>(false); }

// sum(unit, argument<int>): [] -> left; ["12"] -> unit fails on the pending token -> right(12) (if it converts)
SHAPE(sum_unit_arg, Sum<2, Unit<0>, Arg<1, int>>)
//@harness h_parse_sum_unit_arg param n=0..2 tier=quick loop=200
//@harness h_parse_sum_unit_arg param n=3..4 tier=thorough loop=200 wall=6000 paths=400000

// apply(unit, argument<string>): never succeeds ([]: argument missing; otherwise unit sees a pending argument)
SHAPE(unit_arg, Prod<Unit<0>, Arg<1, sstr>>)
//@harness h_parse_unit_arg param n=0..2 tier=quick loop=200
//@harness h_parse_unit_arg param n=3..4 tier=thorough loop=200 wall=6000 paths=400000

// apply(optional(unit), argument<string>): unit's failure is hard, optional does not absorb it
SHAPE(optunit_arg, Prod<Optional<Unit<0>>, Arg<1, sstr>>)
//@harness h_parse_optunit_arg param n=0..2 tier=quick loop=200
//@harness h_parse_optunit_arg param n=3..4 tier=thorough loop=200 wall=6000 paths=400000

// apply(sum(unit, argument<int>), switch): a pending "--dd" makes unit fail although the switch would consume it later
SHAPE(sumunit_switch, Prod<Sum<2, Unit<0>, Arg<1, int>>, Switch<3, false>>)
//@harness h_parse_sumunit_switch param n=0..2 tier=quick loop=200
//@harness h_parse_sumunit_switch param n=3..4 tier=thorough loop=200 wall=6000 paths=400000

// unit_switch as the right factor, after a positional argument
SHAPE(arg_uswitch, Prod<Arg<0, int>, USwitch<1, true>>)
//@harness h_parse_arg_uswitch param n=0..2 tier=quick loop=200
//@harness h_parse_arg_uswitch param n=3..4 tier=thorough loop=200 wall=6000 paths=400000

// both alternatives can consume the same token: the left one wins when it converts, else the right one takes it
SHAPE(sum_arg_arg, Sum<2, Arg<0, int>, Arg<1, sstr>>)
//@harness h_parse_sum_arg_arg param n=0..2 tier=quick loop=200
//@harness h_parse_sum_arg_arg param n=3..4 tier=thorough loop=200 wall=6000 paths=400000

// the left alternative consumes one token and then fails: the right alternative must run on the original state
SHAPE(sum_prodarg_arg, Sum<4, Prod<Arg<0, int>, Arg<1, int>>, Arg<2, sstr>>)
//@harness h_parse_sum_prodarg_arg param n=0..2 tier=quick loop=200
//@harness h_parse_sum_prodarg_arg param n=3..4 tier=thorough loop=200 wall=6000 paths=400000
