// C03 (level b) - fcppt::options::parse on composed parsers against the reference consumption model (part 3: alphabet extended by the empty token, thorough tier only).
// See C03_model.hpp (reference semantics, vocabulary) and C03_env.hpp (what is replaced: value conversion is an
// uninterpreted function, message formatting a placeholder).
// Real code: options::parse, detail::parse_to_empty, argument/flag/switch_/option/unit/unit_switch/optional/many/
// product(apply)/sum ::parse, ::option_names, ::flag_names, product::check_disjoint, constructors, state,
// parse_context, missing_error, combine_errors, and every libs/options .cpp (unity build).
// Inputs: argument vector of n tokens (n = shape parameter), every token a symbolic choice from
//   {the parser's own "--long"/"-short" names, "-z" (foreign flag), "-", "--", "12", "xy" [, ""]};
//   flag active/inactive values and option default values symbolic 32-bit; int conversion = uninterpreted function.
// Bounds: quick n <= 2 for every shape and n = 3 for the shapes marked so; thorough n <= 4.
// Outside the claim: vectors longer than the registered n; tokens outside the alphabet; parse_help's usage text;
// enum value types; parsers passed by unique_ptr / base<>.
//@property C03
//@unity options
//@models rbtree
#include "C03_model.hpp"
#include "unity_options.hpp"
#include "libs/core/src/exception.cpp"
#include "libs/core/src/insert_extract_locale.cpp"

using namespace c03;
using sstr = std::string;

#define SHAPE(name, ...) \
  VERIF_HARNESS(h_parse_##name) { check_parse<__VA_ARGS__>(false); }

#define SHAPE_E(name, ...) \
  VERIF_HARNESS(h_parsee_##name) { check_parse<__VA_ARGS__>(true); }
SHAPE_E(flag_arg, Prod<Flag<0, int, true>, Arg<1, sstr>>)
SHAPE_E(arg_opt, Prod<Arg<0, int>, Opt<1, int, true, false>>)
SHAPE_E(optdef_arg, Prod<Opt<0, sstr, false, true>, Arg<1, sstr>>)
SHAPE_E(many_opt, Many<Opt<0, int, false, false>>)
SHAPE_E(sum_prod, Sum<4, Prod<USwitch<0, true>, Arg<1, int>>, Prod<Arg<2, sstr>, Arg<3, sstr>>>)
//@harness h_parsee_{S} for S in flag_arg,arg_opt,optdef_arg,many_opt,sum_prod param n=0..3 tier=thorough loop=200 wall=3000 paths=200000
