// C04 (continuations taking their parameter by value / by T&&).
// The laws of C04_optional/either/variant.cpp are stated with continuations taking `A const &`.  Here the same
// tagged-union models are checked with uninterpreted continuations that take their parameter BY VALUE (accepted for
// every value category of the source) and by `A &&` (accepted where the combinator passes the held value on by
// move, i.e. for rvalue sources): the selected branch, the argument (call log) and the result must be the same.
// Sources are passed as rvalue (RV) or lvalue (LV); for LV the source is compared with the model again afterwards
// (a combinator must not change an lvalue source, and optional::filter returns its source AFTER calling the
// predicate).  What a moved-from payload looks like cannot be seen with int payloads: that part is C05_byvalue.cpp.
//@property C04
#include "C04_common.hpp"
#include <fcppt/either/bind.hpp>
#include <fcppt/either/map.hpp>
#include <fcppt/either/map_failure.hpp>
#include <fcppt/either/match.hpp>
#include <fcppt/either/object_impl.hpp>
#include <fcppt/optional/apply.hpp>
#include <fcppt/optional/bind.hpp>
#include <fcppt/optional/combine.hpp>
#include <fcppt/optional/filter.hpp>
#include <fcppt/optional/map.hpp>
#include <fcppt/optional/maybe.hpp>
#include <fcppt/optional/object_impl.hpp>
#include <fcppt/variant/apply.hpp>
#include <fcppt/variant/match.hpp>
#include <fcppt/variant/object_impl.hpp>
#include <type_traits>
#include <utility>

namespace
{
using namespace c04;
namespace opt = fcppt::optional;
namespace ei = fcppt::either;
namespace var = fcppt::variant;

// parameter passing mode: V = by value, R = by rvalue reference
template <bool ByValue, typename A> using par = std::conditional_t<ByValue, A, A &&>;
template <int K, bool BV, typename R, typename A>
struct vfn1
{
  R operator()(par<BV, A> a) const { log_call(K, enc(a)); return static_cast<R>(verif_uf1(K, enc(a))); }
  static R pure(A const &a) { return static_cast<R>(verif_uf1(K, enc(a))); }
};
template <int K, bool BV, typename R, typename A, typename B>
struct vfn2
{
  R operator()(par<BV, A> a, par<BV, B> b) const { log_call(K, enc(a), enc(b)); return static_cast<R>(verif_uf2(K, enc(a), enc(b))); }
  static R pure(A const &a, B const &b) { return static_cast<R>(verif_uf2(K, enc(a), enc(b))); }
};
template <bool RVsrc, typename T> decltype(auto) src(T &x)
{
  if constexpr (RVsrc) return std::move(x);
  else return (x);
}

// BV = continuation by value (else by T&&); RVS = source passed as rvalue (T&& continuations need that)
template <typename T, typename U, bool BV, bool RVS>
void optional_ops()
{
  log_reset();
  bool const h0{symb("h0")}, h1{symb("h1")};
  T const v0{sym<T>("v0")}, v1{sym<T>("v1")};
  auto const mk0{[&] { return h0 ? opt::object<T>{v0} : opt::object<T>{}; }};
  auto const mk1{[&] { return h1 ? opt::object<T>{v1} : opt::object<T>{}; }};
  using F = vfn1<1, BV, U, T>;
  // map
  opt::object<T> a{mk0()};
  opt::object<U> const m{opt::map(src<RVS>(a), F{})};
  verif_assert(m.has_value() == h0 && (!h0 || m.get_unsafe() == F::pure(v0)), "map (by value / T&&) = model");
  verif_assert(g_calls == (h0 ? 1 : 0) && (!h0 || logged(0, 1, enc(v0))), "map calls the function exactly once with the held value");
  // bind
  log_reset();
  opt::object<T> b{mk0()};
  opt::object<U> const bd{opt::bind(src<RVS>(b), [](par<BV, T> x) {
    log_call(2, enc(x));
    return (verif_uf1(2, enc(x)) & 1U) != 0U ? opt::object<U>{static_cast<U>(verif_uf1(3, enc(x)))} : opt::object<U>{};
  })};
  bool const kh{(verif_uf1(2, enc(v0)) & 1U) != 0U};
  verif_assert(bd.has_value() == (h0 && kh) && (!(h0 && kh) || bd.get_unsafe() == static_cast<U>(verif_uf1(3, enc(v0)))), "bind (by value / T&&) = model");
  verif_assert(g_calls == (h0 ? 1 : 0), "bind calls k exactly once iff set");
  // maybe
  log_reset();
  opt::object<T> c{mk0()};
  U const mb{opt::maybe(
      src<RVS>(c), [] { log_call(4, 0); return static_cast<U>(verif_uf1(4, 0)); }, F{})};
  verif_assert(mb == (h0 ? F::pure(v0) : static_cast<U>(verif_uf1(4, 0))), "maybe (by value / T&&) = model");
  verif_assert(g_calls == 1 && g_id[0] == (h0 ? 1 : 4), "maybe calls exactly the selected continuation once");
  // apply / combine
  log_reset();
  using F2 = vfn2<5, BV, T, T, T>;
  opt::object<T> d0{mk0()}, d1{mk1()};
  opt::object<T> const ap{opt::apply(F2{}, src<RVS>(d0), src<RVS>(d1))};
  verif_assert(ap.has_value() == (h0 && h1) && (!(h0 && h1) || ap.get_unsafe() == F2::pure(v0, v1)), "apply (by value / T&&) = model");
  verif_assert(g_calls == ((h0 && h1) ? 1 : 0), "apply calls f once iff all set");
  log_reset();
  opt::object<T> e0{mk0()}, e1{mk1()};
  opt::object<T> const cb{opt::combine(src<RVS>(e0), src<RVS>(e1), F2{})};
  verif_assert(cb.has_value() == (h0 || h1), "combine (by value / T&&): set iff one is set");
  if (h0 || h1) verif_assert(cb.get_unsafe() == ((h0 && h1) ? F2::pure(v0, v1) : h0 ? v0 : v1), "combine (by value / T&&) = model");
  // filter: the predicate is called first, then the source itself is returned (by-value predicates only: the
  // library passes an lvalue)
  if constexpr (BV)
  {
    log_reset();
    opt::object<T> f{mk0()};
    opt::object<T> const fl{opt::filter(src<RVS>(f), [](T x) {
      log_call(6, enc(x));
      return (verif_uf1(6, enc(x)) & 1U) != 0U;
    })};
    bool const keep{h0 && (verif_uf1(6, enc(v0)) & 1U) != 0U};
    verif_assert(fl.has_value() == keep && (!keep || fl.get_unsafe() == v0), "filter (predicate by value) returns the held value iff p(x)");
    verif_assert(g_calls == (h0 ? 1 : 0), "filter calls the predicate once iff set");
    if constexpr (!RVS) verif_assert(f.has_value() == h0 && (!h0 || f.get_unsafe() == v0), "filter leaves an lvalue source unchanged");
  }
  if constexpr (!RVS)
    verif_assert(a.has_value() == h0 && (!h0 || a.get_unsafe() == v0) && d1.has_value() == h1 && (!h1 || d1.get_unsafe() == v1), "lvalue sources are unchanged");
  verif_reach("end");
}

template <typename F, typename S, typename U, bool BV, bool RVS>
void either_ops()
{
  log_reset();
  bool const succ{symb("succ")};
  F const f{sym<F>("f")};
  S const s{sym<S>("s")};
  auto const mk{[&] { return succ ? ei::object<F, S>{s} : ei::object<F, S>{f}; }};
  using G = vfn1<1, BV, U, S>;
  using GF = vfn1<2, BV, U, F>;
  ei::object<F, S> a{mk()};
  ei::object<F, U> const m{ei::map(src<RVS>(a), G{})};
  verif_assert(m.has_success() == succ && (succ ? m.get_success_unsafe() == G::pure(s) : m.get_failure_unsafe() == f), "either::map (by value / T&&) = model");
  verif_assert(g_calls == (succ ? 1 : 0), "either::map calls the function once iff success");
  log_reset();
  ei::object<F, S> b{mk()};
  ei::object<U, S> const mf{ei::map_failure(src<RVS>(b), GF{})};
  verif_assert(mf.has_success() == succ && (succ ? mf.get_success_unsafe() == s : mf.get_failure_unsafe() == GF::pure(f)), "either::map_failure (by value / T&&) = model");
  verif_assert(g_calls == (succ ? 0 : 1), "either::map_failure calls the function once iff failure");
  log_reset();
  ei::object<F, S> c{mk()};
  ei::object<F, U> const bd{ei::bind(src<RVS>(c), [](par<BV, S> x) {
    log_call(3, enc(x));
    return (verif_uf1(3, enc(x)) & 1U) != 0U ? ei::object<F, U>{static_cast<U>(verif_uf1(4, enc(x)))} : ei::object<F, U>{static_cast<F>(verif_uf1(5, enc(x)))};
  })};
  bool const ks{(verif_uf1(3, enc(s)) & 1U) != 0U};
  verif_assert(bd.has_success() == (succ && ks), "either::bind (by value / T&&): success iff both succeed");
  verif_assert(
      bd.has_success() ? bd.get_success_unsafe() == static_cast<U>(verif_uf1(4, enc(s))) : bd.get_failure_unsafe() == (succ ? static_cast<F>(verif_uf1(5, enc(s))) : f),
      "either::bind (by value / T&&) = model");
  log_reset();
  ei::object<F, S> d{mk()};
  U const mt{ei::match(src<RVS>(d), GF{}, G{})};
  verif_assert(mt == (succ ? G::pure(s) : GF::pure(f)), "either::match (by value / T&&) = model");
  verif_assert(g_calls == 1 && (succ ? logged(0, 1, enc(s)) : logged(0, 2, enc(f))), "either::match calls exactly the continuation of the held side, once");
  if constexpr (!RVS) verif_assert(a.has_success() == succ && d.has_success() == succ && (succ ? d.get_success_unsafe() == s : d.get_failure_unsafe() == f), "lvalue sources are unchanged");
  verif_reach("end");
}

template <bool BV, bool RVS>
void variant_ops()
{
  log_reset();
  using uc = unsigned char;
  using V = var::object<int, short, uc>;
  unsigned const tag{verif_u8("tag")};
  verif_assume(tag < 3);
  int const a{sym<int>("a")};
  short const b{sym<short>("b")};
  uc const c{sym<uc>("c")};
  auto const mk{[&] { return tag == 0 ? V{a} : tag == 1 ? V{b} : V{c}; }};
  u64 const held{tag == 0 ? enc(a) : tag == 1 ? enc(b) : enc(c)};
  u64 const e0{verif_uf1(1, enc(a))}, e1{verif_uf1(2, enc(b))}, e2{verif_uf1(3, enc(c))};
  V v{mk()};
  int const r{var::match(src<RVS>(v), vfn1<1, BV, int, int>{}, vfn1<2, BV, int, short>{}, vfn1<3, BV, int, uc>{})};
  verif_assert(r == static_cast<int>(tag == 0 ? e0 : tag == 1 ? e1 : e2), "variant::match (by value / T&&) = f_i(x)");
  verif_assert(g_calls == 1 && logged(0, static_cast<int>(tag) + 1, held), "variant::match calls exactly the held alternative's continuation once");
  log_reset();
  V w{mk()};
  struct visitor
  {
    int operator()(par<BV, int> x) const { return vfn1<1, BV, int, int>{}(std::move(x)); }
    int operator()(par<BV, short> x) const { return vfn1<2, BV, int, short>{}(std::move(x)); }
    int operator()(par<BV, uc> x) const { return vfn1<3, BV, int, uc>{}(std::move(x)); }
  };
  int const r2{var::apply(visitor{}, src<RVS>(w))};
  verif_assert(r2 == r && g_calls == 1 && logged(0, static_cast<int>(tag) + 1, held), "variant::apply (by value / T&&) visits the held alternative once");
  if constexpr (!RVS) verif_assert(v.type_index() == tag && w.type_index() == tag && (tag != 1 || w.get_unsafe<short>() == b), "lvalue sources are unchanged");
  verif_reach("end");
}
}

using uc = unsigned char;
#define H(name, ...) VERIF_HARNESS(name) { __VA_ARGS__; }
H(h_bv_opt_val_rv, (optional_ops<int, short, true, true>())) H(h_bv_opt_val_lv, (optional_ops<short, uc, true, false>())) H(h_bv_opt_rref_rv, (optional_ops<uc, int, false, true>()))
//@harness h_bv_opt_{C} for C in val_rv,val_lv,rref_rv tier=quick
H(h_bv_ei_val_rv, (either_ops<short, int, uc, true, true>())) H(h_bv_ei_val_lv, (either_ops<uc, short, int, true, false>())) H(h_bv_ei_rref_rv, (either_ops<int, uc, short, false, true>()))
//@harness h_bv_ei_{C} for C in val_rv,val_lv,rref_rv tier=quick
H(h_bv_var_val_rv, (variant_ops<true, true>())) H(h_bv_var_val_lv, (variant_ops<true, false>())) H(h_bv_var_rref_rv, (variant_ops<false, true>()))
//@harness h_bv_var_{C} for C in val_rv,val_lv,rref_rv tier=quick
