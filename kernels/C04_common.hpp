// shared by the C04 kernels: symbolic payloads, uninterpreted continuations, call log
#ifndef C04_COMMON_HPP
#define C04_COMMON_HPP
#include "verif_api.h"
#include <cstdint>

namespace c04
{
using u64 = std::uint64_t;

// value of T <-> u64 (sign-extended so that equal T values give equal UF arguments)
template <typename T> inline u64 enc(T const v) { return static_cast<u64>(static_cast<std::int64_t>(v)); }
template <typename T> inline T sym(char const *const n) { return static_cast<T>(verif_u32(n)); }
inline bool symb(char const *const n) { return (verif_u8(n) & 1U) != 0U; }

// ---- call log: which continuation (id) was called with which argument, in order
constexpr int log_cap = 16;
inline int g_calls = 0;
inline int g_id[log_cap];
inline u64 g_arg[log_cap];
inline u64 g_arg2[log_cap];
inline void log_reset() { g_calls = 0; }
inline void log_call(int const id, u64 const a, u64 const b = 0)
{
  if (g_calls < log_cap) { g_id[g_calls] = id; g_arg[g_calls] = a; g_arg2[g_calls] = b; }
  ++g_calls;
}
inline bool logged(int const i, int const id, u64 const a, u64 const b = 0)
{
  return i < g_calls && g_id[i] == id && g_arg[i] == a && g_arg2[i] == b;
}

// ---- "any function" number K : A -> R, logging every call
template <int K, typename R, typename A>
struct fn1
{
  R operator()(A const &a) const { log_call(K, enc(a)); return static_cast<R>(verif_uf1(K, enc(a))); }
  static R pure(A const &a) { return static_cast<R>(verif_uf1(K, enc(a))); } // the same function, without the log
};
template <int K, typename R, typename A, typename B>
struct fn2
{
  R operator()(A const &a, B const &b) const { log_call(K, enc(a), enc(b)); return static_cast<R>(verif_uf2(K, enc(a), enc(b))); }
  static R pure(A const &a, B const &b) { return static_cast<R>(verif_uf2(K, enc(a), enc(b))); }
};
template <int K, typename R, typename A, typename B, typename C>
struct fn3
{
  R operator()(A const &a, B const &b, C const &c) const { log_call(K, enc(a), enc(b) ^ (enc(c) << 32)); return static_cast<R>(verif_uf3(K, enc(a), enc(b), enc(c))); }
  static R pure(A const &a, B const &b, C const &c) { return static_cast<R>(verif_uf3(K, enc(a), enc(b), enc(c))); }
};
// "any predicate"
template <int K, typename A>
struct pred1
{
  bool operator()(A const &a) const { log_call(K, enc(a)); return (verif_uf1(K, enc(a)) & 1U) != 0U; }
  static bool pure(A const &a) { return (verif_uf1(K, enc(a)) & 1U) != 0U; }
};
// "any nullary function": a value chosen by the solver, logged
template <int K, typename R>
struct fn0
{
  R operator()() const { log_call(K, 0); return static_cast<R>(verif_uf1(K, 0)); }
  static R pure() { return static_cast<R>(verif_uf1(K, 0)); }
};
}
#endif
