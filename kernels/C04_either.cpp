// C04 (either part) - fcppt::either combinators agree with the tagged-union model, for ALL continuations.
// Real code: fcppt::either::{object,make_success,make_failure,construct,map,map_failure,bind,join,apply,match,
// sequence,first_success,loop,from_optional,error_from_optional,success_opt,failure_opt,try_call,comparison} and
// fcppt::monad::{bind,return_} on either.
// Tags and payloads are symbolic, continuations are uninterpreted functions wrapped in logging functors (see
// C04_common.hpp), containers of eithers / of functions have length n <= 3 (param), either::loop is run against an
// arbitrary result stream (uninterpreted in the step number) that fails within the first 4 (thorough: 7) steps;
// thorough tier: containers of length 4 / 5.
// try_call with really thrown exceptions (exact / derived / unrelated type, throwing translation function): see
// C04_try_call.cpp.  Outside the claim: either::to_exception (throws), either::output (iostream), payloads with
// non-trivial copy/move (C05).
//@property C04
#include "C04_common.hpp"
#include <fcppt/unit.hpp>
#include <fcppt/either/apply.hpp>
#include <fcppt/either/bind.hpp>
#include <fcppt/either/comparison.hpp>
#include <fcppt/either/construct.hpp>
#include <fcppt/either/error.hpp>
#include <fcppt/either/error_from_optional.hpp>
#include <fcppt/either/failure_opt.hpp>
#include <fcppt/either/first_success.hpp>
#include <fcppt/either/from_optional.hpp>
#include <fcppt/either/join.hpp>
#include <fcppt/either/loop.hpp>
#include <fcppt/either/make_failure.hpp>
#include <fcppt/either/make_success.hpp>
#include <fcppt/either/map.hpp>
#include <fcppt/either/map_failure.hpp>
#include <fcppt/either/match.hpp>
#include <fcppt/either/monad.hpp>
#include <fcppt/either/object_impl.hpp>
#include <fcppt/either/sequence.hpp>
#include <fcppt/either/success_opt.hpp>
#include <fcppt/either/try_call.hpp>
#include <fcppt/monad/bind.hpp>
#include <fcppt/monad/return.hpp>
#include <fcppt/optional/object_impl.hpp>
#include <array>
#include <vector>

namespace
{
using namespace c04;
namespace ei = fcppt::either;
namespace opt = fcppt::optional;

// the tagged-union model of either<F,S>
template <typename F, typename S>
struct meith
{
  bool succ;
  F f;
  S s;
};
template <typename F, typename S> meith<F, S> msym(char const *const t, char const *const f, char const *const s)
{
  return meith<F, S>{symb(t), sym<F>(f), sym<S>(s)};
}
template <typename F, typename S> ei::object<F, S> real(meith<F, S> const &m)
{
  return m.succ ? ei::object<F, S>{m.s} : ei::object<F, S>{m.f};
}
template <typename F, typename S> bool same(ei::object<F, S> const &r, meith<F, S> const &m)
{
  return r.has_success() == m.succ && r.has_failure() == !m.succ && (m.succ ? r.get_success_unsafe() == m.s : r.get_failure_unsafe() == m.f);
}
template <typename F, typename S> bool same(ei::object<F, S> const &a, ei::object<F, S> const &b)
{
  return a.has_success() == b.has_success() &&
         (a.has_success() ? a.get_success_unsafe() == b.get_success_unsafe() : a.get_failure_unsafe() == b.get_failure_unsafe());
}

// "any Kleisli arrow" A -> either<F,R>; one log entry (id KT) per call
template <int KT, int KF, int KS, typename F, typename R, typename A>
struct kl
{
  ei::object<F, R> operator()(A const &a) const
  {
    log_call(KT, enc(a));
    return pure(a);
  }
  static meith<F, R> model(A const &a)
  {
    return meith<F, R>{(verif_uf1(KT, enc(a)) & 1U) != 0U, static_cast<F>(verif_uf1(KF, enc(a))), static_cast<R>(verif_uf1(KS, enc(a)))};
  }
  static ei::object<F, R> pure(A const &a) { return real(model(a)); }
};

// ---------------------------------------------------------------- functor (success and failure side)
template <typename F, typename S, typename U, typename V>
void functor()
{
  log_reset();
  meith<F, S> const m{msym<F, S>("succ", "f", "s")};
  ei::object<F, S> const e{real(m)};
  verif_assert(same(ei::map(e, [](S const &x) { return x; }), m), "map id = id");
  verif_assert(same(ei::map_failure(e, [](F const &x) { return x; }), m), "map_failure id = id");
  using G = fn1<1, U, S>;
  using H = fn1<2, V, U>;
  ei::object<F, U> const r{ei::map(e, G{})};
  verif_assert(same(r, meith<F, U>{m.succ, m.f, G::pure(m.s)}), "map applies the function to the success, keeps the failure");
  verif_assert(g_calls == (m.succ ? 1 : 0), "map calls the function exactly once iff success");
  if (m.succ) verif_assert(logged(0, 1, enc(m.s)), "map passes the success value");
  verif_assert(same(ei::map(r, H{}), ei::map(e, [](S const &x) { return H::pure(G::pure(x)); })), "map h . map g = map (h . g)");
  // failure side
  log_reset();
  using GF = fn1<3, U, F>;
  ei::object<U, S> const rf{ei::map_failure(e, GF{})};
  verif_assert(same(rf, meith<U, S>{m.succ, GF::pure(m.f), m.s}), "map_failure applies the function to the failure, keeps the success");
  verif_assert(g_calls == (m.succ ? 0 : 1), "map_failure calls the function exactly once iff failure");
  if (!m.succ) verif_assert(logged(0, 3, enc(m.f)), "map_failure passes the failure value");
  verif_out("succ", m.succ);
  verif_reach("functor-end");
}

// ---------------------------------------------------------------- monad
template <typename F, typename S, typename U, typename V>
void monad()
{
  log_reset();
  meith<F, S> const m{msym<F, S>("succ", "f", "s")};
  ei::object<F, S> const e{real(m)};
  using K = kl<1, 2, 3, F, U, S>;
  using H = kl<4, 5, 6, F, V, U>;
  ei::object<F, U> const r{ei::bind(e, K{})};
  meith<F, U> const kx{K::model(m.s)};
  verif_assert(same(r, m.succ ? kx : meith<F, U>{false, m.f, U{}}), "bind = k(s) on success, the failure otherwise");
  verif_assert(g_calls == (m.succ ? 1 : 0), "bind calls k exactly once iff success");
  if (m.succ) verif_assert(logged(0, 1, enc(m.s)), "bind passes the success value");
  S const x{sym<S>("x")};
  verif_assert(same(ei::bind(ei::make_success<F>(x), K{}), K::pure(x)), "bind (make_success x) k = k x");
  verif_assert(same(ei::bind(e, [](S const &y) { return ei::make_success<F>(y); }), m), "bind e make_success = e");
  log_reset();
  ei::object<F, V> const lhs{ei::bind(ei::bind(e, K{}), H{})};
  int const lhs_calls{g_calls};
  log_reset();
  ei::object<F, V> const rhs{ei::bind(e, [](S const &y) { return ei::bind(K{}(y), H{}); })};
  verif_assert(same(lhs, rhs), "bind (bind e k) h = bind e (\\x -> bind (k x) h)");
  verif_assert(lhs_calls == g_calls && g_calls == (m.succ ? (kx.succ ? 2 : 1) : 0), "k once iff e succeeds, h once iff k(x) succeeds");
  using G = fn1<7, U, S>;
  verif_assert(same(ei::map(e, G{}), ei::bind(e, [](S const &y) { return ei::make_success<F>(G::pure(y)); })), "map g = bind (make_success . g)");
  verif_assert(same(fcppt::monad::bind(e, K{}), r), "monad::bind = either::bind");
  verif_assert(same(fcppt::monad::return_<ei::object<F, S>>(S{x}), ei::make_success<F>(x)), "monad::return_ = make_success");
  verif_out("succ", m.succ);
  verif_reach("monad-end");
}

// ---------------------------------------------------------------- join
template <typename F, typename S>
void join()
{
  bool const outer{symb("outer")};
  F const of{sym<F>("of")};
  meith<F, S> const in{msym<F, S>("succ", "f", "s")};
  using ee = ei::object<F, ei::object<F, S>>;
  ee const e{outer ? ee{real(in)} : ee{of}};
  ei::object<F, S> const r{ei::join(e)};
  verif_assert(same(r, outer ? in : meith<F, S>{false, of, S{}}), "join: outer failure, else inner failure, else inner success");
  verif_assert(same(r, ei::bind(e, [](ei::object<F, S> const &i) { return i; })), "join = bind id");
  verif_reach("join-end");
}

// ---------------------------------------------------------------- apply
template <typename F, typename A, typename B, typename C, typename R>
void apply()
{
  log_reset();
  meith<F, A> const a{msym<F, A>("ta", "fa", "sa")};
  meith<F, B> const b{msym<F, B>("tb", "fb", "sb")};
  meith<F, C> const c{msym<F, C>("tc", "fc", "sc")};
  ei::object<F, A> const ea{real(a)};
  ei::object<F, B> const eb{real(b)};
  ei::object<F, C> const ec{real(c)};
  using F2 = fn2<1, R, A, B>;
  using F3 = fn3<2, R, A, B, C>;
  ei::object<F, R> const r2{ei::apply(F2{}, ea, eb)};
  verif_assert(
      same(r2, (a.succ && b.succ) ? meith<F, R>{true, F{}, F2::pure(a.s, b.s)} : meith<F, R>{false, !a.succ ? a.f : b.f, R{}}),
      "apply/2 = f(s1,s2) if all succeed, else the failure with the smallest index");
  verif_assert(g_calls == ((a.succ && b.succ) ? 1 : 0), "apply/2 calls f exactly once iff all succeed");
  if (a.succ && b.succ) verif_assert(logged(0, 1, enc(a.s), enc(b.s)), "apply/2 passes the successes in order");
  verif_assert(
      same(r2, ei::bind(ea, [&eb](A const &x) { return ei::map(eb, [&x](B const &y) { return F2::pure(x, y); }); })),
      "apply f a b = bind a (\\x -> map (f x) b)");
  log_reset();
  ei::object<F, R> const r3{ei::apply(F3{}, ea, eb, ec)};
  bool const all{a.succ && b.succ && c.succ};
  verif_assert(
      same(r3, all ? meith<F, R>{true, F{}, F3::pure(a.s, b.s, c.s)} : meith<F, R>{false, !a.succ ? a.f : !b.succ ? b.f : c.f, R{}}),
      "apply/3 = f(s1,s2,s3) if all succeed, else the failure with the smallest index");
  verif_assert(g_calls == (all ? 1 : 0), "apply/3 calls f exactly once iff all succeed");
  using F1 = fn1<3, R, A>;
  verif_assert(same(ei::apply(F1{}, ea), ei::map(ea, [](A const &x) { return F1::pure(x); })), "apply/1 = map");
  verif_reach("apply-end");
}

// ---------------------------------------------------------------- match and conversions
template <typename F, typename S, typename R>
void eliminators()
{
  log_reset();
  meith<F, S> const m{msym<F, S>("succ", "f", "s")};
  ei::object<F, S> const e{real(m)};
  using FF = fn1<1, R, F>;
  using FS = fn1<2, R, S>;
  R const r{ei::match(e, FF{}, FS{})};
  verif_assert(r == (m.succ ? FS::pure(m.s) : FF::pure(m.f)), "match = success_function(s) / failure_function(f)");
  verif_assert(g_calls == 1, "match calls exactly one continuation exactly once");
  verif_assert(m.succ ? logged(0, 2, enc(m.s)) : logged(0, 1, enc(m.f)), "match calls the continuation of the held alternative with the held value");
  // success_opt / failure_opt
  opt::object<S> const so{ei::success_opt(e)};
  opt::object<F> const fo{ei::failure_opt(e)};
  verif_assert(so.has_value() == m.succ && (!m.succ || so.get_unsafe() == m.s), "success_opt = the success, if any");
  verif_assert(fo.has_value() == !m.succ && (m.succ || fo.get_unsafe() == m.f), "failure_opt = the failure, if any");
  // from_optional
  log_reset();
  bool const has{symb("has")};
  S const v{sym<S>("v")};
  opt::object<S> const o{has ? opt::object<S>{v} : opt::object<S>{}};
  using D = fn0<3, F>;
  ei::object<F, S> const fo2{ei::from_optional(o, D{})};
  verif_assert(same(fo2, meith<F, S>{has, D::pure(), v}), "from_optional = success x if set, failure_function() otherwise");
  verif_assert(g_calls == (has ? 0 : 1), "from_optional calls the failure function once iff nothing is held");
  // error_from_optional
  opt::object<F> const oe{has ? opt::object<F>{m.f} : opt::object<F>{}};
  ei::error<F> const err{ei::error_from_optional(oe)};
  verif_assert(err.has_failure() == has && (!has || err.get_failure_unsafe() == m.f), "error_from_optional = failure x if set, no_error otherwise");
  // construct
  log_reset();
  bool const flag{symb("flag")};
  using CS = fn0<4, S>;
  using CF = fn0<5, F>;
  ei::object<F, S> const cons{ei::construct(flag, CS{}, CF{})};
  verif_assert(same(cons, meith<F, S>{flag, CF::pure(), CS::pure()}), "construct = success() if true, failure() otherwise");
  verif_assert(g_calls == 1 && g_id[0] == (flag ? 4 : 5), "construct calls exactly the selected function, once");
  // make_success / make_failure
  verif_assert(same(ei::make_success<F>(m.s), meith<F, S>{true, F{}, m.s}), "make_success holds the success");
  verif_assert(same(ei::make_failure<S>(m.f), meith<F, S>{false, m.f, S{}}), "make_failure holds the failure");
  // try_call, no exception thrown
  log_reset();
  ei::object<R, S> const tc{ei::try_call<int>(CS{}, [](int const &x) { log_call(6, enc(x)); return R{}; })};
  verif_assert(tc.has_success() && tc.get_success_unsafe() == CS::pure(), "try_call = success function() when nothing is thrown");
  verif_assert(g_calls == 1 && g_id[0] == 4, "try_call calls the function once and not the exception converter");
  // comparison
  meith<F, S> const m2{msym<F, S>("succ2", "f2", "s2")};
  ei::object<F, S> const e2{real(m2)};
  bool const eq{m.succ == m2.succ && (m.succ ? m.s == m2.s : m.f == m2.f)};
  verif_assert((e == e2) == eq, "== is tagged-union equality");
  verif_assert((e != e2) == !eq, "!= is its negation");
  verif_out("succ", m.succ);
  verif_reach("eliminators-end");
}

// ---------------------------------------------------------------- sequence over containers of length n <= 3
template <typename F, typename S, typename Src>
void sequence_check(Src const &src, meith<F, S> const *const ms, unsigned const n)
{
  ei::object<F, std::vector<S>> const r{ei::sequence<std::vector<S>>(Src{src})}; // only rvalue sources satisfy the requires-clause (remove_const_t on a reference type)
  unsigned first{n};
  for (unsigned i = n; i > 0; --i)
    if (!ms[i - 1].succ) first = i - 1;
  verif_assert(r.has_success() == (first == n), "sequence succeeds iff every element succeeds");
  if (first == n)
  {
    verif_assert(r.get_success_unsafe().size() == n, "sequence: result has the source's length");
    for (unsigned i = 0; i < n; ++i) verif_assert(r.get_success_unsafe()[i] == ms[i].s, "sequence: successes in source order");
  }
  else
    verif_assert(r.get_failure_unsafe() == ms[first].f, "sequence returns the first failure");
  verif_out("first", first);
}

template <typename F, typename S>
void sequence_vec()
{
  unsigned const n{static_cast<unsigned>(verif_param("n"))};
  meith<F, S> ms[4]{msym<F, S>("t0", "f0", "s0"), msym<F, S>("t1", "f1", "s1"), msym<F, S>("t2", "f2", "s2"), msym<F, S>("t3", "f3", "s3")};
  std::vector<ei::object<F, S>> src;
  for (unsigned i = 0; i < n; ++i) src.push_back(real(ms[i]));
  sequence_check<F, S>(src, ms, n);
  verif_reach("sequence-vec-end");
}

template <typename F, typename S>
void sequence_arr3()
{
  meith<F, S> ms[3]{msym<F, S>("t0", "f0", "s0"), msym<F, S>("t1", "f1", "s1"), msym<F, S>("t2", "f2", "s2")};
  std::array<ei::object<F, S>, 3> const src{real(ms[0]), real(ms[1]), real(ms[2])};
  sequence_check<F, S>(src, ms, 3);
  verif_reach("sequence-arr-end");
}

// ---------------------------------------------------------------- first_success: functions f_0..f_{n-1}
template <typename F, typename S>
struct thunk
{
  unsigned idx;
  ei::object<F, S> operator()() const
  {
    log_call(100, idx);
    return real(model(idx));
  }
  static meith<F, S> model(unsigned const i)
  {
    return meith<F, S>{(verif_uf1(1, i) & 1U) != 0U, static_cast<F>(verif_uf1(2, i)), static_cast<S>(verif_uf1(3, i))};
  }
};

template <typename F, typename S>
void first_success()
{
  log_reset();
  unsigned const n{static_cast<unsigned>(verif_param("n"))};
  std::vector<thunk<F, S>> fs;
  for (unsigned i = 0; i < n; ++i) fs.push_back(thunk<F, S>{i});
  ei::object<std::vector<F>, S> const r{ei::first_success(fs)};
  unsigned first{n};
  for (unsigned i = n; i > 0; --i)
    if (thunk<F, S>::model(i - 1).succ) first = i - 1;
  verif_assert(r.has_success() == (first != n), "first_success succeeds iff some function succeeds");
  if (first != n)
  {
    verif_assert(r.get_success_unsafe() == thunk<F, S>::model(first).s, "first_success returns the first success");
    verif_assert(g_calls == static_cast<int>(first) + 1, "first_success calls f_0..f_i and nothing after the first success");
  }
  else
  {
    verif_assert(r.get_failure_unsafe().size() == n, "first_success returns all n failures");
    for (unsigned i = 0; i < n; ++i) verif_assert(r.get_failure_unsafe()[i] == thunk<F, S>::model(i).f, "first_success: failures in call order");
    verif_assert(g_calls == static_cast<int>(n), "first_success calls every function once when all fail");
  }
  for (int i = 0; i < g_calls && i < log_cap; ++i) verif_assert(logged(i, 100, static_cast<u64>(i)), "first_success calls the functions in container order, each once");
  verif_out("first", first);
  verif_reach("first_success-end");
}

// ---------------------------------------------------------------- loop: an arbitrary stream of results, failing within 4 steps
template <typename F, typename S, unsigned Steps = 4>
void loop()
{
  log_reset();
  using T = thunk<F, S>; // reused as "result of step j"
  bool fails{false};
  for (unsigned j = 0; j < Steps; ++j) fails = fails || !T::model(j).succ;
  verif_assume(fails);
  unsigned step{0};
  F const r{ei::loop(
      [&step] {
        log_call(200, step);
        return real(T::model(step++));
      },
      [](S const &s) { log_call(201, enc(s)); })};
  unsigned first{0};
  while (T::model(first).succ) ++first;
  verif_assert(r == T::model(first).f, "loop returns the first failure of next()");
  verif_assert(step == first + 1, "loop calls next() until the first failure and not again");
  verif_assert(g_calls == static_cast<int>(2 * first + 1), "loop: one body call per success, none for the failure");
  for (unsigned j = 0; j < first; ++j)
  {
    verif_assert(logged(static_cast<int>(2 * j), 200, j), "loop alternates next() ...");
    verif_assert(logged(static_cast<int>(2 * j + 1), 201, enc(T::model(j).s)), "... and the body with that success value, in order");
  }
  verif_assert(logged(static_cast<int>(2 * first), 200, first), "the last call is the failing next()");
  verif_out("first", first);
  verif_reach("loop-end");
}
}

using uc = unsigned char;
#define H(name, ...) VERIF_HARNESS(name) { __VA_ARGS__; }
// type rows: A = either<short,int>, B = either<uc,short>, C = either<int,uc>
H(h_ei_functor_A, (functor<short, int, uc, int>())) H(h_ei_functor_B, (functor<uc, short, int, short>())) H(h_ei_functor_C, (functor<int, uc, short, uc>()))
//@harness h_ei_functor_{T} for T in A,B,C tier=quick
H(h_ei_monad_A, (monad<short, int, uc, int>())) H(h_ei_monad_B, (monad<uc, short, int, short>())) H(h_ei_monad_C, (monad<int, uc, short, uc>()))
//@harness h_ei_monad_{T} for T in A,B,C tier=quick
H(h_ei_join_A, (join<short, int>())) H(h_ei_join_B, (join<uc, short>())) H(h_ei_join_C, (join<int, uc>()))
//@harness h_ei_join_{T} for T in A,B,C tier=quick
H(h_ei_apply_A, (apply<short, int, uc, int, uc>())) H(h_ei_apply_B, (apply<uc, short, int, short, int>())) H(h_ei_apply_C, (apply<int, uc, short, uc, short>()))
//@harness h_ei_apply_{T} for T in A,B,C tier=quick
H(h_ei_elim_A, (eliminators<short, int, uc>())) H(h_ei_elim_B, (eliminators<uc, short, int>())) H(h_ei_elim_C, (eliminators<int, uc, short>()))
//@harness h_ei_elim_{T} for T in A,B,C tier=quick
H(h_ei_seq_vec_A, (sequence_vec<short, int>())) H(h_ei_seq_vec_B, (sequence_vec<uc, short>())) H(h_ei_seq_vec_C, (sequence_vec<int, uc>()))
//@harness h_ei_seq_vec_{T} for T in A,B,C param n=0..3 tier=quick
//@harness h_ei_seq_vec_{T} for T in A,B,C param n=4 tier=thorough
H(h_ei_seq_arr3_A, (sequence_arr3<short, int>()))
//@harness h_ei_seq_arr3_A tier=quick
H(h_ei_first_success_A, (first_success<short, int>())) H(h_ei_first_success_B, (first_success<uc, short>())) H(h_ei_first_success_C, (first_success<int, uc>()))
//@harness h_ei_first_success_{T} for T in A,B,C param n=0..3 tier=quick
//@harness h_ei_first_success_{T} for T in A,B,C param n=4,5 tier=thorough
H(h_ei_loop_A, (loop<short, int>())) H(h_ei_loop_B, (loop<uc, short>())) H(h_ei_loop_C, (loop<int, uc>()))
//@harness h_ei_loop_{T} for T in A,B,C tier=quick
H(h_ei_loop7_A, (loop<short, int, 7>()))
//@harness h_ei_loop7_A tier=thorough
