// C04 (optional part) - fcppt::optional combinators agree with the tagged-union model, for ALL continuations.
// Real code: fcppt::optional::{object,make,make_if,map,bind,join,apply,filter,alternative,combine,cat,sequence,from,
// maybe,maybe_void,maybe_multi,maybe_void_multi,to_container,copy_value,deref,assign,comparison} and
// fcppt::monad::{bind,return_} on optional.
// Presence flags and payloads are symbolic (full range of the payload type); every continuation is an uninterpreted
// function (verif_ufN) wrapped in a functor that logs (function id, argument) so that "exactly once, with the held
// value, never for an absent value" is asserted on the log.  Laws are stated on the real code on both sides, the
// per-combinator model is the documented "if set to x then ... otherwise ..." sentence.
// Outside the claim: payload types with non-trivial copy/move (C05), optional::to_exception (throws; a throw ends the
// path in this engine), optional::output (iostream), to_pointer/from_pointer (raw pointer identity only).
//@property C04
// by-value / T&& continuations on an instrumented payload (a moved-from value is observable there, not with int payloads):
// the optional/either/variant harnesses of C05_byvalue.cpp are decided again for C04 ("return what the documentation states")
//@import C05_byvalue.cpp only=^h_bv_(optional|either|variant)_
// value-category mixes on an instrumented payload (an lvalue argument must be left unchanged, an rvalue moved at most once):
//@import C05_sum.cpp
//@import C05_seq.cpp only=^h_(optional|either)_
#include "C04_common.hpp"
#include <fcppt/make_cref.hpp>
#include <fcppt/reference_impl.hpp>
#include <fcppt/monad/bind.hpp>
#include <fcppt/monad/return.hpp>
#include <fcppt/optional/alternative.hpp>
#include <fcppt/optional/apply.hpp>
#include <fcppt/optional/assign.hpp>
#include <fcppt/optional/bind.hpp>
#include <fcppt/optional/cat.hpp>
#include <fcppt/optional/combine.hpp>
#include <fcppt/optional/comparison.hpp>
#include <fcppt/optional/copy_value.hpp>
#include <fcppt/optional/deref.hpp>
#include <fcppt/optional/filter.hpp>
#include <fcppt/optional/from.hpp>
#include <fcppt/optional/join.hpp>
#include <fcppt/optional/make.hpp>
#include <fcppt/optional/make_if.hpp>
#include <fcppt/optional/map.hpp>
#include <fcppt/optional/maybe.hpp>
#include <fcppt/optional/maybe_multi.hpp>
#include <fcppt/optional/maybe_void.hpp>
#include <fcppt/optional/maybe_void_multi.hpp>
#include <fcppt/optional/monad.hpp>
#include <fcppt/optional/object_impl.hpp>
#include <fcppt/optional/reference.hpp>
#include <fcppt/optional/sequence.hpp>
#include <fcppt/optional/to_container.hpp>
#include <array>
#include <vector>

namespace
{
using namespace c04;
namespace opt = fcppt::optional;

// the tagged-union model of optional<T>
template <typename T>
struct mopt
{
  bool has;
  T val;
};
template <typename T> mopt<T> msym(char const *const h, char const *const v) { return mopt<T>{symb(h), sym<T>(v)}; }
template <typename T> opt::object<T> real(mopt<T> const &m) { return m.has ? opt::object<T>{m.val} : opt::object<T>{}; }
template <typename T> bool same(opt::object<T> const &r, mopt<T> const &m)
{
  return r.has_value() == m.has && (!m.has || r.get_unsafe() == m.val);
}
template <typename T> bool same(opt::object<T> const &a, opt::object<T> const &b)
{
  return a.has_value() == b.has_value() && (!a.has_value() || a.get_unsafe() == b.get_unsafe());
}

// "any Kleisli arrow" A -> optional<R>: presence = UF KH, value = UF KV; one log entry (id KH) per call
template <int KH, int KV, typename R, typename A>
struct kl
{
  opt::object<R> operator()(A const &a) const
  {
    log_call(KH, enc(a));
    return pure(a);
  }
  static mopt<R> model(A const &a) { return mopt<R>{(verif_uf1(KH, enc(a)) & 1U) != 0U, static_cast<R>(verif_uf1(KV, enc(a)))}; }
  static opt::object<R> pure(A const &a) { return real(model(a)); }
};

// ---------------------------------------------------------------- functor
template <typename T, typename U, typename V>
void functor()
{
  log_reset();
  mopt<T> const m{msym<T>("has", "val")};
  opt::object<T> const o{real(m)};
  // identity
  verif_assert(same(opt::map(o, [](T const &x) { return x; }), m), "map id = id");
  // model + exactly once
  using F = fn1<1, U, T>;
  using G = fn1<2, V, U>;
  opt::object<U> const r{opt::map(o, F{})};
  verif_assert(r.has_value() == m.has, "map keeps presence");
  if (m.has) verif_assert(r.get_unsafe() == F::pure(m.val), "map applies the function to the held value");
  verif_assert(g_calls == (m.has ? 1 : 0), "map calls the function exactly once iff a value is held");
  if (m.has) verif_assert(logged(0, 1, enc(m.val)), "map calls the function with the held value");
  // fusion
  opt::object<V> const two{opt::map(r, G{})};
  opt::object<V> const fused{opt::map(o, [](T const &x) { return G::pure(F::pure(x)); })};
  verif_assert(same(two, fused), "map g . map f = map (g . f)");
  verif_assert(g_calls == (m.has ? 2 : 0), "map f then map g: two calls iff a value is held");
  verif_out("has", m.has);
  verif_reach("functor-end");
}

// ---------------------------------------------------------------- monad
template <typename T, typename U, typename V>
void monad()
{
  log_reset();
  mopt<T> const m{msym<T>("has", "val")};
  opt::object<T> const o{real(m)};
  using K = kl<1, 2, U, T>;
  using H = kl<3, 4, V, U>;
  // model
  opt::object<U> const r{opt::bind(o, K{})};
  mopt<U> const kx{K::model(m.val)};
  verif_assert(r.has_value() == (m.has && kx.has), "bind: value iff source has x and k(x) has a value");
  if (m.has && kx.has) verif_assert(r.get_unsafe() == kx.val, "bind returns k(x)");
  verif_assert(g_calls == (m.has ? 1 : 0), "bind calls k exactly once iff a value is held");
  if (m.has) verif_assert(logged(0, 1, enc(m.val)), "bind calls k with the held value");
  // left identity
  T const x{sym<T>("x")};
  verif_assert(same(opt::bind(opt::make(x), K{}), K::pure(x)), "bind (make x) k = k x");
  // right identity
  verif_assert(same(opt::bind(o, [](T const &y) { return opt::make(y); }), m), "bind o make = o");
  // associativity
  log_reset();
  opt::object<V> const lhs{opt::bind(opt::bind(o, K{}), H{})};
  int const lhs_calls{g_calls};
  log_reset();
  opt::object<V> const rhs{opt::bind(o, [](T const &y) { return opt::bind(K{}(y), H{}); })};
  verif_assert(same(lhs, rhs), "bind (bind o k) h = bind o (\\x -> bind (k x) h)");
  verif_assert(lhs_calls == g_calls, "both sides of associativity call the same number of continuations");
  verif_assert(g_calls == (m.has ? (kx.has ? 2 : 1) : 0), "k once iff o set, h once iff k(x) set");
  if (m.has && kx.has) verif_assert(logged(1, 3, enc(kx.val)), "h is called with the value of k(x)");
  // map via bind
  using F = fn1<5, U, T>;
  verif_assert(same(opt::map(o, F{}), opt::bind(o, [](T const &y) { return opt::make(F::pure(y)); })), "map f = bind (make . f)");
  // fcppt::monad instance
  verif_assert(same(fcppt::monad::bind(o, K{}), r), "monad::bind = optional::bind");
  verif_assert(same(fcppt::monad::return_<opt::object<T>>(T{x}), opt::make(x)), "monad::return_ = make");
  verif_out("has", m.has);
  verif_reach("monad-end");
}

// ---------------------------------------------------------------- join
template <typename T>
void join()
{
  bool const outer{symb("outer")};
  mopt<T> const in{msym<T>("has", "val")};
  using oo = opt::object<opt::object<T>>;
  oo const o{outer ? oo{real(in)} : oo{}};
  opt::object<T> const r{opt::join(o)};
  verif_assert(r.has_value() == (outer && in.has), "join: set iff both layers are set");
  if (outer && in.has) verif_assert(r.get_unsafe() == in.val, "join returns the inner value");
  verif_assert(same(r, opt::bind(o, [](opt::object<T> const &i) { return i; })), "join = bind id");
  // join . make = id, join . map make = id
  opt::object<T> const p{real(in)};
  verif_assert(same(opt::join(opt::make(p)), p), "join (make o) = o");
  verif_assert(same(opt::join(opt::map(p, [](T const &y) { return opt::make(y); })), p), "join (map make o) = o");
  verif_reach("join-end");
}

// ---------------------------------------------------------------- apply / maybe_multi
template <typename A, typename B, typename C, typename R>
void apply()
{
  log_reset();
  mopt<A> const a{msym<A>("ha", "va")};
  mopt<B> const b{msym<B>("hb", "vb")};
  mopt<C> const c{msym<C>("hc", "vc")};
  opt::object<A> const oa{real(a)};
  opt::object<B> const ob{real(b)};
  opt::object<C> const oc{real(c)};
  using F2 = fn2<1, R, A, B>;
  using F3 = fn3<2, R, A, B, C>;
  opt::object<R> const r2{opt::apply(F2{}, oa, ob)};
  verif_assert(r2.has_value() == (a.has && b.has), "apply/2: set iff all arguments are set");
  if (a.has && b.has) verif_assert(r2.get_unsafe() == F2::pure(a.val, b.val), "apply/2 = f(x1,x2)");
  verif_assert(g_calls == ((a.has && b.has) ? 1 : 0), "apply/2 calls f exactly once iff all are set");
  if (a.has && b.has) verif_assert(logged(0, 1, enc(a.val), enc(b.val)), "apply/2 passes the held values in order");
  // applicative via monad
  verif_assert(
      same(r2, opt::bind(oa, [&ob](A const &x) { return opt::map(ob, [&x](B const &y) { return F2::pure(x, y); }); })),
      "apply f a b = bind a (\\x -> map (f x) b)");
  log_reset();
  opt::object<R> const r3{opt::apply(F3{}, oa, ob, oc)};
  bool const all{a.has && b.has && c.has};
  verif_assert(r3.has_value() == all, "apply/3: set iff all arguments are set");
  if (all) verif_assert(r3.get_unsafe() == F3::pure(a.val, b.val, c.val), "apply/3 = f(x1,x2,x3)");
  verif_assert(g_calls == (all ? 1 : 0), "apply/3 calls f exactly once iff all are set");
  // unary apply = map
  using F1 = fn1<3, R, A>;
  verif_assert(same(opt::apply(F1{}, oa), opt::map(oa, [](A const &x) { return F1::pure(x); })), "apply/1 = map");
  // maybe_multi
  log_reset();
  R const mm{opt::maybe_multi(fn0<4, R>{}, F2{}, oa, ob)};
  verif_assert(mm == ((a.has && b.has) ? F2::pure(a.val, b.val) : fn0<4, R>::pure()), "maybe_multi selects transform/default");
  verif_assert(g_calls == 1 && g_id[0] == ((a.has && b.has) ? 1 : 4), "maybe_multi calls exactly the selected function, once");
  // maybe_void_multi
  log_reset();
  opt::maybe_void_multi([](A const &x, B const &y, C const &z) { log_call(7, enc(x), enc(y) ^ (enc(z) << 32)); }, oa, ob, oc);
  verif_assert(g_calls == (all ? 1 : 0), "maybe_void_multi calls the function once iff all are set");
  if (all) verif_assert(logged(0, 7, enc(a.val), enc(b.val) ^ (enc(c.val) << 32)), "maybe_void_multi passes the held values");
  verif_reach("apply-end");
}

// ---------------------------------------------------------------- maybe / from / maybe_void / make_if / to_container
template <typename T, typename R>
void eliminators()
{
  log_reset();
  mopt<T> const m{msym<T>("has", "val")};
  opt::object<T> const o{real(m)};
  using D = fn0<1, R>;
  using F = fn1<2, R, T>;
  R const r{opt::maybe(o, D{}, F{})};
  verif_assert(r == (m.has ? F::pure(m.val) : D::pure()), "maybe = transform(x) if set, default() otherwise");
  verif_assert(g_calls == 1, "maybe calls exactly one continuation exactly once");
  verif_assert(m.has ? logged(0, 2, enc(m.val)) : logged(0, 1, 0), "maybe calls the continuation of the held branch");
  log_reset();
  using DT = fn0<3, T>;
  T const fr{opt::from(o, DT{})};
  verif_assert(fr == (m.has ? m.val : DT::pure()), "from = x if set, default() otherwise");
  verif_assert(g_calls == (m.has ? 0 : 1), "from calls default exactly once iff nothing is held");
  log_reset();
  opt::maybe_void(o, [](T const &x) { log_call(4, enc(x)); });
  verif_assert(g_calls == (m.has ? 1 : 0), "maybe_void calls the function once iff set");
  if (m.has) verif_assert(logged(0, 4, enc(m.val)), "maybe_void passes the held value");
  // make_if
  log_reset();
  bool const flag{symb("flag")};
  opt::object<T> const mi{opt::make_if(flag, DT{})};
  verif_assert(mi.has_value() == flag, "make_if: set iff the flag is true");
  if (flag) verif_assert(mi.get_unsafe() == DT::pure(), "make_if holds function()");
  verif_assert(g_calls == (flag ? 1 : 0), "make_if calls the function once iff the flag is true");
  // to_container
  std::vector<T> const v{opt::to_container<std::vector<T>>(opt::object<T>{o})}; // (an lvalue optional is rejected/moved from: see C05)
  verif_assert(v.size() == (m.has ? 1U : 0U), "to_container: one element iff set");
  if (m.has) verif_assert(v[0] == m.val, "to_container holds the value");
  // assign
  opt::object<T> tgt{real(msym<T>("th", "tv"))};
  T const nv{sym<T>("nv")};
  T &ref{opt::assign(tgt, T{nv})};
  verif_assert(tgt.has_value() && tgt.get_unsafe() == nv && &ref == &tgt.get_unsafe(), "assign sets the optional and returns a reference to its content");
  // copy_value / deref on an optional reference to a local
  T const local{sym<T>("local")};
  opt::reference<T const> const oref{m.has ? opt::reference<T const>{fcppt::make_cref(local)} : opt::reference<T const>{}};
  opt::object<T> const cv{opt::copy_value(oref)};
  verif_assert(cv.has_value() == m.has && (!m.has || cv.get_unsafe() == local), "copy_value copies the referenced value iff set");
  opt::object<T const *> const optr{m.has ? opt::object<T const *>{&local} : opt::object<T const *>{}};
  auto const dr{opt::deref(optr)};
  verif_assert(dr.has_value() == m.has && (!m.has || &dr.get_unsafe().get() == &local), "deref references the pointee iff set");
  verif_out("has", m.has);
  verif_reach("eliminators-end");
}

// ---------------------------------------------------------------- filter / alternative / combine / comparison
template <typename T>
void selectors()
{
  log_reset();
  mopt<T> const a{msym<T>("ha", "va")};
  mopt<T> const b{msym<T>("hb", "vb")};
  opt::object<T> const oa{real(a)};
  opt::object<T> const ob{real(b)};
  using P = pred1<1, T>;
  opt::object<T> const f{opt::filter(oa, P{})};
  bool const keep{a.has && P::pure(a.val)};
  verif_assert(f.has_value() == keep && (!keep || f.get_unsafe() == a.val), "filter keeps x iff set and p(x)");
  verif_assert(g_calls == (a.has ? 1 : 0), "filter calls the predicate once iff set");
  if (a.has) verif_assert(logged(0, 1, enc(a.val)), "filter passes the held value");
  verif_assert(same(f, opt::bind(oa, [](T const &x) { return opt::make_if(P::pure(x), [&x] { return x; }); })), "filter p = bind (\\x -> make_if (p x) x)");
  // alternative
  log_reset();
  opt::object<T> const alt{opt::alternative(oa, [&ob] { log_call(2, 0); return ob; })};
  verif_assert(same(alt, a.has ? a : b), "alternative = first if set, else second()");
  verif_assert(g_calls == (a.has ? 0 : 1), "alternative calls the second function once iff the first is nothing");
  // combine
  log_reset();
  using F = fn2<3, T, T, T>;
  opt::object<T> const c{opt::combine(oa, ob, F{})};
  mopt<T> const cm{a.has && b.has ? mopt<T>{true, F::pure(a.val, b.val)} : a.has ? a : b};
  verif_assert(same(c, cm), "combine = f(x1,x2) if both set, else the one that is set, else nothing");
  verif_assert(g_calls == ((a.has && b.has) ? 1 : 0), "combine calls f once iff both are set");
  if (a.has && b.has) verif_assert(logged(0, 3, enc(a.val), enc(b.val)), "combine passes both values in order");
  // comparison
  bool const eq{a.has == b.has && (!a.has || a.val == b.val)};
  verif_assert((oa == ob) == eq, "== is tagged-union equality");
  verif_assert((oa != ob) == !eq, "!= is its negation");
  bool const lt{(a.has && b.has) ? a.val < b.val : (!a.has && b.has)};
  verif_assert((oa < ob) == lt, "< : nothing < set, values compared when both set");
  verif_out("eq", eq);
  verif_reach("selectors-end");
}

// ---------------------------------------------------------------- cat / sequence over containers of length n <= 3
template <typename T, typename Src>
void containers(Src const &src, mopt<T> const *const ms, unsigned const n)
{
  // cat: the present values, in order
  std::vector<T> const c{opt::cat<std::vector<T>>(src)};
  unsigned cnt{0};
  for (unsigned i = 0; i < n; ++i)
    if (ms[i].has) ++cnt;
  verif_assert(c.size() == cnt, "cat: as many elements as present optionals");
  unsigned j{0};
  for (unsigned i = 0; i < n; ++i)
    if (ms[i].has)
    {
      verif_assert(j < c.size() && c[j] == ms[i].val, "cat: present values in source order");
      ++j;
    }
  // sequence: nothing iff some element is nothing, else all values in order
  opt::object<std::vector<T>> const s{opt::sequence<std::vector<T>>(src)};
  verif_assert(s.has_value() == (cnt == n), "sequence: set iff every element is set");
  if (cnt == n)
  {
    verif_assert(s.get_unsafe().size() == n, "sequence: result has the source's length");
    for (unsigned i = 0; i < n; ++i) verif_assert(s.get_unsafe()[i] == ms[i].val, "sequence: values in source order");
  }
  verif_out("cnt", cnt);
}

template <typename T>
void containers_vec()
{
  unsigned const n{static_cast<unsigned>(verif_param("n"))};
  mopt<T> ms[4]{msym<T>("h0", "v0"), msym<T>("h1", "v1"), msym<T>("h2", "v2"), msym<T>("h3", "v3")};
  std::vector<opt::object<T>> src;
  for (unsigned i = 0; i < n; ++i) src.push_back(real(ms[i]));
  containers<T>(src, ms, n);
  verif_reach("containers-vec-end");
}

template <typename T, unsigned N>
void containers_arr()
{
  mopt<T> ms[3]{msym<T>("h0", "v0"), msym<T>("h1", "v1"), msym<T>("h2", "v2")};
  std::array<opt::object<T>, N> src;
  for (unsigned i = 0; i < N; ++i) src[i] = real(ms[i]);
  containers<T>(src, ms, N);
  verif_reach("containers-arr-end");
}
}

using uc = unsigned char;
#define H(name, ...) VERIF_HARNESS(name) { __VA_ARGS__; }
H(h_opt_functor_int, functor<int, short, uc>()) H(h_opt_functor_short, functor<short, uc, int>()) H(h_opt_functor_uc, functor<uc, int, short>())
//@harness h_opt_functor_{T} for T in int,short,uc tier=quick
H(h_opt_monad_int, monad<int, short, uc>()) H(h_opt_monad_short, monad<short, uc, int>()) H(h_opt_monad_uc, monad<uc, int, short>())
//@harness h_opt_monad_{T} for T in int,short,uc tier=quick
H(h_opt_join_int, join<int>()) H(h_opt_join_short, join<short>()) H(h_opt_join_uc, join<uc>())
//@harness h_opt_join_{T} for T in int,short,uc tier=quick
H(h_opt_apply_int, apply<int, short, uc, int>()) H(h_opt_apply_short, apply<short, uc, int, short>()) H(h_opt_apply_uc, apply<uc, int, short, uc>())
//@harness h_opt_apply_{T} for T in int,short,uc tier=quick
H(h_opt_elim_int, eliminators<int, short>()) H(h_opt_elim_short, eliminators<short, uc>()) H(h_opt_elim_uc, eliminators<uc, int>())
//@harness h_opt_elim_{T} for T in int,short,uc tier=quick
H(h_opt_sel_int, selectors<int>()) H(h_opt_sel_short, selectors<short>()) H(h_opt_sel_uc, selectors<uc>())
//@harness h_opt_sel_{T} for T in int,short,uc tier=quick
H(h_opt_cont_vec_int, containers_vec<int>()) H(h_opt_cont_vec_short, containers_vec<short>()) H(h_opt_cont_vec_uc, containers_vec<uc>())
//@harness h_opt_cont_vec_{T} for T in int,short,uc param n=0..3 tier=quick
//@harness h_opt_cont_vec_{T} for T in int,short,uc param n=4 tier=thorough
H(h_opt_cont_arr_int_1, (containers_arr<int, 1>())) H(h_opt_cont_arr_int_3, (containers_arr<int, 3>())) H(h_opt_cont_arr_uc_2, (containers_arr<uc, 2>()))
//@harness h_opt_cont_arr_int_1 tier=quick
//@harness h_opt_cont_arr_int_3 tier=quick
//@harness h_opt_cont_arr_uc_2 tier=quick
