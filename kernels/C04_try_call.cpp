// C04 (either::try_call with really thrown exceptions).
// Real code: fcppt::either::try_call<Exception>(function, to_failure), executed through its try block and catch
// handler (the engine unwinds through the real landing pads).
// The function throws, selected by a symbolic switch, (0) nothing, (1) exactly `Exception`, (2) an object of a class
// DERIVED from `Exception` whose virtual describe() and extra member the translation function observes, (3) an
// object of an unrelated class.  Payloads are symbolic.  Exception classes are defined here (virtual member, counted
// copy constructor), so no libstdc++ exception internals are involved.
//   (0) success function(), to_failure not called;
//   (1),(2) failure = to_failure applied to THE thrown object: the translation function sees the dynamic type
//       (virtual call dispatches to the derived class, the derived member is intact: no slicing copy), the
//       exception object is never copied, to_failure is called exactly once and the function exactly once;
//   (3) the exception escapes try_call unchanged (harness registered with throws=), to_failure is not called.
// Also: an exception thrown by to_failure itself (while handling) escapes.
//@property C04
#include "C04_common.hpp"
#include <fcppt/either/object_impl.hpp>
#include <fcppt/either/try_call.hpp>

namespace c04x
{
inline int g_exc_copies = 0;
struct base_exc
{
  int code;
  explicit base_exc(int const c) : code(c) {}
  base_exc(base_exc const &o) : code(o.code) { ++g_exc_copies; }
  base_exc(base_exc &&o) noexcept : code(o.code) { ++g_exc_copies; }
  virtual ~base_exc() {}
  virtual c04::u64 describe() const { return static_cast<c04::u64>(static_cast<unsigned>(code)); } // "what()"
};
struct derived_exc : base_exc
{
  int extra;
  derived_exc(int const c, int const e) : base_exc(c), extra(e) {}
  c04::u64 describe() const override { return (static_cast<c04::u64>(static_cast<unsigned>(extra)) << 32) | static_cast<unsigned>(code) | (c04::u64{1} << 63); }
};
struct other_exc
{
  int x;
};
struct handler_exc
{
  int x;
};
}

namespace
{
using namespace c04;
using namespace c04x;
namespace ei = fcppt::either;

void try_call_throwing()
{
  log_reset();
  g_exc_copies = 0;
  unsigned const which{verif_u8("which")};
  verif_assume(which < 4);
  int const code{sym<int>("code")}, extra{sym<int>("extra")}, ok{sym<int>("ok")};
  base_exc const *seen{nullptr};
  ei::object<short, int> const r{ei::try_call<base_exc>(
      [which, code, extra, ok]() -> int {
        log_call(1, which);
        if (which == 1) throw base_exc{code};
        if (which == 2) throw derived_exc{code, extra};
        if (which == 3) throw other_exc{code};
        return ok;
      },
      [&seen](base_exc const &e) -> short {
        u64 const d{e.describe()};
        log_call(2, d);
        seen = &e;
        return static_cast<short>(verif_uf1(3, d));
      })};
  // which == 3 never gets here
  verif_assert(which != 3, "an exception of an unrelated type is not caught by try_call");
  verif_assert(r.has_success() == (which == 0), "try_call: success iff the function returns");
  if (which == 0)
  {
    verif_assert(r.get_success_unsafe() == ok, "try_call returns function() as success");
    verif_assert(g_calls == 1 && logged(0, 1, 0), "no exception: function once, to_failure never");
  }
  else
  {
    u64 const expect{which == 1 ? static_cast<u64>(static_cast<unsigned>(code))
                                : ((static_cast<u64>(static_cast<unsigned>(extra)) << 32) | static_cast<unsigned>(code) | (u64{1} << 63))};
    verif_assert(g_calls == 2 && logged(0, 1, which), "throwing: function called exactly once");
    verif_assert(logged(1, 2, expect), "to_failure observes the thrown object with its dynamic type (virtual call, derived members: no slicing)");
    verif_assert(r.get_failure_unsafe() == static_cast<short>(verif_uf1(3, expect)), "failure = to_failure(thrown object)");
    verif_assert(g_exc_copies == 0, "the exception object is never copied (caught by reference)");
  }
  verif_out("which", which);
  verif_reach("end");
}

// the translation function throws while handling: its exception escapes, nothing is swallowed
void try_call_handler_throws()
{
  log_reset();
  bool const thrw{symb("thrw")};
  int const code{sym<int>("code")};
  ei::object<short, int> const r{ei::try_call<base_exc>(
      [code]() -> int { throw derived_exc{code, 1}; },
      [thrw](base_exc const &e) -> short {
        log_call(2, e.describe());
        if (thrw) throw handler_exc{e.code};
        return 7;
      })};
  verif_assert(!thrw, "an exception thrown by to_failure leaves try_call");
  verif_assert(r.has_failure() && r.get_failure_unsafe() == 7 && g_calls == 1, "otherwise the failure is to_failure's result");
  verif_reach("end");
}
}

VERIF_HARNESS(h_ei_try_call_throwing) { try_call_throwing(); }
//@harness h_ei_try_call_throwing tier=quick throws=_ZTIN4c04x9other_excE
VERIF_HARNESS(h_ei_try_call_handler_throws) { try_call_handler_throws(); }
//@harness h_ei_try_call_handler_throws tier=quick throws=_ZTIN4c04x11handler_excE
