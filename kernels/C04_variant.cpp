// C04 (variant part) - fcppt::variant operations agree with the tagged-union model, for ALL continuations.
// Real code: fcppt::variant::{object (construction, copy, assignment, type_index, is_invalid, get_unsafe), match, apply
// (one and two variants), to_optional, to_optional_ref, holds_type, compare, comparison (==, !=, <)} on
// variant<int,short,unsigned char> and the permuted variant<unsigned char,int,short>.
// The held alternative (tag) and all payloads are symbolic; continuations are uninterpreted functions wrapped in
// logging functors, so "exactly the continuation of the held alternative, exactly once, with the held value" is
// asserted on the call log.
// Outside the claim: variant::dynamic_cast (needs __dynamic_cast), type_info/current_type_name (RTTI names),
// output (iostream), valueless variants (need a throwing assignment; a throw ends the path in this engine).
//@property C04
#include "C04_common.hpp"
#include <fcppt/optional/object_impl.hpp>
#include <fcppt/optional/reference.hpp>
#include <fcppt/reference_impl.hpp>
#include <fcppt/variant/apply.hpp>
#include <fcppt/variant/compare.hpp>
#include <fcppt/variant/comparison.hpp>
#include <fcppt/variant/get_unsafe.hpp>
#include <fcppt/variant/holds_type.hpp>
#include <fcppt/variant/match.hpp>
#include <fcppt/variant/object_impl.hpp>
#include <fcppt/variant/to_optional.hpp>
#include <fcppt/variant/to_optional_ref.hpp>
#include <fcppt/either/match.hpp>
#include <fcppt/either/object_impl.hpp>
#include <fcppt/optional/maybe.hpp>
#include <functional>
#include <type_traits>

namespace
{
using namespace c04;
namespace var = fcppt::variant;
namespace opt = fcppt::optional;

// the tagged-union model of variant<T0,T1,T2>
template <typename T0, typename T1, typename T2>
struct mvar
{
  unsigned tag;
  T0 v0;
  T1 v1;
  T2 v2;
  u64 held() const { return tag == 0 ? enc(v0) : tag == 1 ? enc(v1) : enc(v2); }
};
template <typename T0, typename T1, typename T2>
mvar<T0, T1, T2> msym(char const *const t, char const *const a, char const *const b, char const *const c)
{
  unsigned const tag{verif_u8(t)};
  verif_assume(tag < 3);
  return mvar<T0, T1, T2>{tag, sym<T0>(a), sym<T1>(b), sym<T2>(c)};
}
template <typename T0, typename T1, typename T2>
var::object<T0, T1, T2> real(mvar<T0, T1, T2> const &m)
{
  using V = var::object<T0, T1, T2>;
  switch (m.tag)
  {
  case 0: return V{m.v0};
  case 1: return V{m.v1};
  default: return V{m.v2};
  }
}
template <typename V, typename T, typename... Ts> struct index_in;
template <typename T, typename... Ts> struct index_in<var::object<T, Ts...>, T> { static constexpr unsigned value = 0; };
template <typename T, typename U, typename... Ts> struct index_in<var::object<U, Ts...>, T> { static constexpr unsigned value = 1 + index_in<var::object<Ts...>, T>::value; };

// "any visitor": one uninterpreted function per (alternative) resp. per pair of alternatives, logging (id, value(s))
template <typename V, typename R>
struct visitor1
{
  template <typename T>
  R operator()(T const &x) const
  {
    constexpr int k{10 + static_cast<int>(index_in<V, T>::value)};
    log_call(k, enc(x));
    return static_cast<R>(verif_uf1(k, enc(x)));
  }
};
template <typename V, typename R>
struct visitor2
{
  template <typename T, typename U>
  R operator()(T const &x, U const &y) const
  {
    constexpr int k{20 + 3 * static_cast<int>(index_in<V, T>::value) + static_cast<int>(index_in<V, U>::value)};
    log_call(k, enc(x), enc(y));
    return static_cast<R>(verif_uf2(k, enc(x), enc(y)));
  }
};

// verif_uf2 with a function number that is a compile-time constant at every call site
inline u64 uf2_const(int const k, u64 const x, u64 const y)
{
  switch (k)
  {
  case 20: return verif_uf2(20, x, y);
  case 21: return verif_uf2(21, x, y);
  case 22: return verif_uf2(22, x, y);
  case 23: return verif_uf2(23, x, y);
  case 24: return verif_uf2(24, x, y);
  case 25: return verif_uf2(25, x, y);
  case 26: return verif_uf2(26, x, y);
  case 27: return verif_uf2(27, x, y);
  default: return verif_uf2(28, x, y);
  }
}

template <typename T0, typename T1, typename T2, typename R>
void basics()
{
  log_reset();
  using V = var::object<T0, T1, T2>;
  mvar<T0, T1, T2> const m{msym<T0, T1, T2>("tag", "a", "b", "c")};
  V const v{real(m)};
  verif_assert(v.type_index() == m.tag, "type_index = index of the alternative passed to the constructor");
  verif_assert(!v.is_invalid(), "a constructed variant is not invalid");
  verif_assert(var::holds_type<T0>(v) == (m.tag == 0) && var::holds_type<T1>(v) == (m.tag == 1) && var::holds_type<T2>(v) == (m.tag == 2), "holds_type<T> iff T is the held alternative");
  if (m.tag == 0) verif_assert(var::get_unsafe<T0>(v) == m.v0 && v.template get_unsafe<T0>() == m.v0, "get_unsafe returns the held value (0)");
  if (m.tag == 1) verif_assert(var::get_unsafe<T1>(v) == m.v1 && v.template get_unsafe<T1>() == m.v1, "get_unsafe returns the held value (1)");
  if (m.tag == 2) verif_assert(var::get_unsafe<T2>(v) == m.v2 && v.template get_unsafe<T2>() == m.v2, "get_unsafe returns the held value (2)");
  // to_optional / to_optional_ref
  opt::object<T0> const o0{var::to_optional<T0>(v)};
  opt::object<T1> const o1{var::to_optional<T1>(v)};
  opt::object<T2> const o2{var::to_optional<T2>(v)};
  verif_assert(o0.has_value() == (m.tag == 0) && (m.tag != 0 || o0.get_unsafe() == m.v0), "to_optional<T0> = the value iff T0 is held");
  verif_assert(o1.has_value() == (m.tag == 1) && (m.tag != 1 || o1.get_unsafe() == m.v1), "to_optional<T1> = the value iff T1 is held");
  verif_assert(o2.has_value() == (m.tag == 2) && (m.tag != 2 || o2.get_unsafe() == m.v2), "to_optional<T2> = the value iff T2 is held");
  opt::reference<T1 const> const r1{var::to_optional_ref<T1 const>(v)};
  verif_assert(r1.has_value() == (m.tag == 1) && (m.tag != 1 || &r1.get_unsafe().get() == &var::get_unsafe<T1>(v)), "to_optional_ref<T1> refers to the held value iff T1 is held");
  // match
  R const r{var::match(v, fn1<1, R, T0>{}, fn1<2, R, T1>{}, fn1<3, R, T2>{})};
  R const expect{m.tag == 0 ? fn1<1, R, T0>::pure(m.v0) : m.tag == 1 ? fn1<2, R, T1>::pure(m.v1) : fn1<3, R, T2>::pure(m.v2)};
  verif_assert(r == expect, "match = f_i(x) for the held alternative i");
  verif_assert(g_calls == 1, "match invokes exactly one continuation exactly once");
  verif_assert(logged(0, static_cast<int>(m.tag) + 1, m.held()), "match invokes the continuation of the held alternative with the held value");
  // apply, one variant
  log_reset();
  R const a{var::apply(visitor1<V, R>{}, v)};
  verif_assert(g_calls == 1 && logged(0, 10 + static_cast<int>(m.tag), m.held()), "apply/1 visits the held alternative exactly once");
  u64 const e0{verif_uf1(10, enc(m.v0))}, e1{verif_uf1(11, enc(m.v1))}, e2{verif_uf1(12, enc(m.v2))}; // constant function numbers
  verif_assert(a == static_cast<R>(m.tag == 0 ? e0 : m.tag == 1 ? e1 : e2), "apply/1 returns the visitor's result");
  // copy / assignment
  mvar<T0, T1, T2> const m2{msym<T0, T1, T2>("tag2", "a2", "b2", "c2")};
  V w{real(m2)};
  V const copy{v};
  verif_assert(copy == v && copy.type_index() == m.tag, "copy construction keeps alternative and value");
  w = v;
  verif_assert(w == v && w.type_index() == m.tag, "assignment replaces alternative and value");
  verif_out("tag", m.tag);
  verif_reach("basics-end");
}

template <typename T0, typename T1, typename T2, typename R>
void binary()
{
  log_reset();
  using V = var::object<T0, T1, T2>;
  mvar<T0, T1, T2> const ma{msym<T0, T1, T2>("tag", "a", "b", "c")};
  mvar<T0, T1, T2> const mb{msym<T0, T1, T2>("tag2", "a2", "b2", "c2")};
  V const a{real(ma)};
  V const b{real(mb)};
  // apply, two variants
  R const r{var::apply(visitor2<V, R>{}, a, b)};
  int const k{20 + 3 * static_cast<int>(ma.tag) + static_cast<int>(mb.tag)};
  verif_assert(g_calls == 1 && logged(0, k, ma.held(), mb.held()), "apply/2 visits the pair of held alternatives exactly once, in argument order");
  u64 expect{0};
  for (int i = 0; i < 3; ++i)
    for (int j = 0; j < 3; ++j)
    {
      u64 const x{i == 0 ? enc(ma.v0) : i == 1 ? enc(ma.v1) : enc(ma.v2)}, y{j == 0 ? enc(mb.v0) : j == 1 ? enc(mb.v1) : enc(mb.v2)};
      u64 const e{uf2_const(20 + 3 * i + j, x, y)};
      if (static_cast<int>(ma.tag) == i && static_cast<int>(mb.tag) == j) expect = e;
    }
  verif_assert(r == static_cast<R>(expect), "apply/2 returns the visitor's result");
  // comparison operators: lexicographic on (index, value)
  bool const eq{ma.tag == mb.tag && ma.held() == mb.held()};
  bool const lt{ma.tag != mb.tag ? ma.tag < mb.tag : ma.tag == 0 ? ma.v0 < mb.v0 : ma.tag == 1 ? ma.v1 < mb.v1 : ma.v2 < mb.v2};
  verif_assert((a == b) == eq, "== iff same alternative and equal values");
  verif_assert((a != b) == !eq, "!= is the negation of ==");
  verif_assert((a < b) == lt, "< is lexicographic on (type_index, value)");
  // compare with an arbitrary predicate: only consulted for equal alternatives, exactly once
  log_reset();
  bool const c{var::compare(a, b, [](auto const &x, auto const &y) {
    log_call(50, enc(x), enc(y));
    return (verif_uf2(50, enc(x), enc(y)) & 1U) != 0U;
  })};
  bool const same_tag{ma.tag == mb.tag};
  verif_assert(c == (same_tag && (verif_uf2(50, ma.held(), mb.held()) & 1U) != 0U), "compare = same alternative and compare(l,r)");
  verif_assert(g_calls == (same_tag ? 1 : 0), "compare calls the predicate exactly once iff the alternatives agree");
  if (same_tag) verif_assert(logged(0, 50, ma.held(), mb.held()), "compare passes (left value, right value)");
  verif_out("eq", eq);
  verif_reach("binary-end");
}

// ---------------------------------------------------------------- compare with HETEROGENEOUS predicates
// std::equal_to<>, std::less<> and a generic lambda are invocable on every pair of (mutually comparable)
// alternatives.  The contract: false for different alternatives - however equal the values look -, otherwise the
// predicate on the two payloads of the SAME type; and compare(a, b, equal_to<>) must agree with operator==.
template <typename V, typename T0, typename T1, typename T2>
V make_at(unsigned const tag, T0 const v0, T1 const v1, T2 const v2)
{
  if constexpr (std::is_same_v<T2, void *>) return tag == 0 ? V{v0} : V{v1};
  else return tag == 0 ? V{v0} : tag == 1 ? V{v1} : V{v2};
}
// N = 2: T2 is the dummy void*
template <typename T0, typename T1, typename T2, unsigned N>
void compare_hetero()
{
  log_reset();
  using V = std::conditional_t<N == 2, var::object<T0, T1>, var::object<T0, T1, T2>>;
  unsigned const ta{verif_u8("tag")}, tb{verif_u8("tag2")};
  verif_assume(ta < N && tb < N);
  T0 const a0{sym<T0>("a")}, b0{sym<T0>("a2")};
  T1 const a1{sym<T1>("b")}, b1{sym<T1>("b2")};
  using T2v = std::conditional_t<N == 2, int, T2>;
  T2v const a2{sym<T2v>("c")}, b2{sym<T2v>("c2")};
  V const a{make_at<V>(ta, a0, a1, std::conditional_t<N == 2, void *, T2>(N == 2 ? T2{} : T2(a2)))};
  V const b{make_at<V>(tb, b0, b1, std::conditional_t<N == 2, void *, T2>(N == 2 ? T2{} : T2(b2)))};
  bool const same{ta == tb};
  bool const eq_same{ta == 0 ? a0 == b0 : ta == 1 ? a1 == b1 : a2 == b2};
  bool const lt_same{ta == 0 ? a0 < b0 : ta == 1 ? a1 < b1 : a2 < b2};
  bool const ceq{var::compare(a, b, std::equal_to<>{})};
  bool const clt{var::compare(a, b, std::less<>{})};
  verif_assert(ceq == (same && eq_same), "compare(a,b,equal_to<>) = same alternative && equal payloads (never true across alternatives)");
  verif_assert(clt == (same && lt_same), "compare(a,b,less<>) = same alternative && l < r on that alternative");
  verif_assert(ceq == (a == b), "compare(a,b,equal_to<>) agrees with operator==");
  // a generic lambda: an arbitrary relation on (type index, value) pairs, logged
  bool const cg{var::compare(a, b, [](auto const &x, auto const &y) {
    using X = std::remove_cvref_t<decltype(x)>;
    using Y = std::remove_cvref_t<decltype(y)>;
    u64 const ix{std::is_same_v<X, T0> ? 0U : std::is_same_v<X, T1> ? 1U : 2U}, iy{std::is_same_v<Y, T0> ? 0U : std::is_same_v<Y, T1> ? 1U : 2U};
    log_call(60, (ix << 8) | iy, enc(x) ^ (enc(y) << 1));
    return (verif_uf3(60, (ix << 8) | iy, enc(x), enc(y)) & 1U) != 0U;
  })};
  u64 const ha{ta == 0 ? enc(a0) : ta == 1 ? enc(a1) : enc(a2)}, hb{tb == 0 ? enc(b0) : tb == 1 ? enc(b1) : enc(b2)};
  verif_assert(cg == (same && (verif_uf3(60, (static_cast<u64>(ta) << 8) | tb, ha, hb) & 1U) != 0U), "compare(a,b,generic predicate) = same alternative && p(l,r)");
  verif_assert(g_calls == (same ? 1 : 0), "a heterogeneous predicate is never called on two different alternatives");
  if (same) verif_assert(logged(0, 60, (static_cast<u64>(ta) << 8) | tb, ha ^ (hb << 1)), "it is called with (left payload, right payload) of the common alternative");
  verif_out("same", same);
  verif_out("ceq", ceq);
  verif_reach("compare-hetero-end");
}

// match / maybe hand the result of the selected continuation on UNCHANGED - also when that result is a reference: the
// caller gets the very object the continuation returned (here: the held payload itself), so writing through it changes
// the container.  (Whether the result is a reference is decided at run time on purpose: a static_assert would turn a
// change of the deduced type into a build failure of the kernel instead of a verdict.)
struct pa { int n; };
struct pb { int n; };
struct pc { int n; };
void match_ref()
{
  unsigned const tag{verif_u8("tag")};
  verif_assume(tag < 3);
  int const x{static_cast<int>(verif_u32("x"))}, y{static_cast<int>(verif_u32("y"))};
  using V = var::object<pa, pb, pc>;
  V v{tag == 0 ? V{pa{x}} : tag == 1 ? V{pb{x}} : V{pc{x}}};
  auto const held{[&v, tag]() -> int & { return tag == 0 ? var::get_unsafe<pa>(v).n : tag == 1 ? var::get_unsafe<pb>(v).n : var::get_unsafe<pc>(v).n; }};
  {
    decltype(auto) r(var::match(v, [](pa &a) -> int & { return a.n; }, [](pb &b) -> int & { return b.n; }, [](pc &c) -> int & { return c.n; }));
    bool const is_ref{std::is_lvalue_reference_v<decltype(r)>};
    verif_assert(is_ref, "variant::match: a reference returned by the continuation stays a reference");
    verif_assert(r == x, "variant::match: the result is the held payload");
    r = y;
    verif_assert(held() == y, "variant::match: writing through the returned reference changes the held payload");
  }
  {
    V const &cv{v};
    decltype(auto) r(var::match(cv, [](pa const &a) -> int const & { return a.n; }, [](pb const &b) -> int const & { return b.n; }, [](pc const &c) -> int const & { return c.n; }));
    verif_assert(std::is_lvalue_reference_v<decltype(r)>, "variant::match (const): a reference stays a reference");
    held() = x;
    verif_assert(r == x, "variant::match (const): the returned reference refers to the held payload (sees a later change)");
  }
  {
    using E = fcppt::either::object<pa, pb>;
    E e{tag == 0 ? E{pa{x}} : E{pb{x}}};
    decltype(auto) r(fcppt::either::match(e, [](pa &a) -> int & { return a.n; }, [](pb &b) -> int & { return b.n; }));
    verif_assert(std::is_lvalue_reference_v<decltype(r)>, "either::match: a reference stays a reference");
    r = y;
    verif_assert((tag == 0 ? e.get_failure_unsafe().n : e.get_success_unsafe().n) == y, "either::match: writing through the returned reference changes the held value");
  }
  {
    int fallback{x};
    opt::object<pa> o{tag == 0 ? opt::object<pa>{} : opt::object<pa>{pa{x}}};
    decltype(auto) r(opt::maybe(o, [&fallback]() -> int & { return fallback; }, [](pa &a) -> int & { return a.n; }));
    verif_assert(std::is_lvalue_reference_v<decltype(r)>, "optional::maybe: a reference stays a reference");
    r = y;
    verif_assert((tag == 0 ? fallback : o.get_unsafe().n) == y, "optional::maybe: writing through the returned reference changes the selected object");
    verif_assert(tag == 0 || fallback == x, "optional::maybe: the default is untouched when a value is present");
  }
  verif_reach("match-ref-end");
}
}

using uc = unsigned char;
#define H(name, ...) VERIF_HARNESS(name) { __VA_ARGS__; }
H(h_var_basics_isc, (basics<int, short, uc, int>())) H(h_var_basics_cis, (basics<uc, int, short, short>()))
//@harness h_var_basics_{T} for T in isc,cis tier=quick
H(h_var_binary_isc, (binary<int, short, uc, uc>())) H(h_var_binary_cis, (binary<uc, int, short, int>()))
//@harness h_var_binary_{T} for T in isc,cis tier=quick
H(h_var_compare_hetero_isc, (compare_hetero<int, short, uc, 3>())) H(h_var_compare_hetero_ilu, (compare_hetero<int, long, unsigned, 3>()))
H(h_var_compare_hetero_bi, (compare_hetero<bool, int, void *, 2>()))
//@harness h_var_compare_hetero_{T} for T in isc,ilu,bi tier=quick
H(h_var_match_ref, match_ref())
//@harness h_var_match_ref tier=quick
