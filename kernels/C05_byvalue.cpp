// C05 (continuations / predicates taking their parameter BY VALUE or by T&&).
// The other C05 kernels hand every operation a continuation with a forwarding-reference (or const&) parameter.  Here
// the user function takes the element BY VALUE (its parameter is initialised by the library's own call expression: a
// move if the library passes an rvalue, a copy if it passes an lvalue) or by `T &&` (compiles only where the library
// passes an rvalue).  With the instrumented element type a wrongly placed std::move in front of a user call becomes
// visible: the source the operation RETURNS or KEEPS USING afterwards would be moved-from.
//   * operations that pass the element on (map, bind, maybe, match, apply, combine, algorithm::map, tuple/array/grid
//     map, either::loop, fold's state): rvalue argument -> 0 copies, the very element arrives; lvalue argument + VAL
//     -> exactly one copy per call, argument untouched;  RREF is registered for rvalue arguments;
//   * operations that call a user function and then return / go on using the source (optional::filter,
//     algorithm::remove_if / unique_if, find_if_opt / find_by_opt, all_of / contains_if, fold / fold_break /
//     map_optional / map_concat element parameter, container::get_or_insert's key, tree::map): exactly one copy per
//     call for EVERY category, and what is returned / kept is alive, not moved-from, each element once.
// Shapes: presence flags symbolic, lengths n = 0..3 params, predicates uninterpreted functions of the payload.
// Not compilable, so not registered: a `T &&` predicate for optional::filter / remove_if / find_if_opt (the library
// passes an lvalue although filter's concept only asks for invocability with T); optional::alternative takes a
// nullary function (nothing to vary; covered in C05_sum.cpp).
//@property C05
//@models rbtree
#include "C05_common.hpp"
#include <fcppt/loop.hpp>
#include <fcppt/algorithm/all_of.hpp>
#include <fcppt/algorithm/contains_if.hpp>
#include <fcppt/algorithm/find_by_opt.hpp>
#include <fcppt/algorithm/find_if_opt.hpp>
#include <fcppt/algorithm/fold.hpp>
#include <fcppt/algorithm/fold_break.hpp>
#include <fcppt/algorithm/map.hpp>
#include <fcppt/algorithm/map_concat.hpp>
#include <fcppt/algorithm/map_optional.hpp>
#include <fcppt/algorithm/remove_if.hpp>
#include <fcppt/algorithm/unique_if.hpp>
#include <fcppt/array/map.hpp>
#include <fcppt/array/object_impl.hpp>
#include <fcppt/container/get_or_insert.hpp>
#include <fcppt/container/grid/map.hpp>
#include <fcppt/container/grid/object_impl.hpp>
#include <fcppt/container/tree/map.hpp>
#include <fcppt/container/tree/object_impl.hpp>
#include <fcppt/either/bind.hpp>
#include <fcppt/either/loop.hpp>
#include <fcppt/either/map.hpp>
#include <fcppt/either/map_failure.hpp>
#include <fcppt/either/match.hpp>
#include <fcppt/either/object_impl.hpp>
#include <fcppt/optional/apply.hpp>
#include <fcppt/optional/bind.hpp>
#include <fcppt/optional/combine.hpp>
#include <fcppt/optional/filter.hpp>
#include <fcppt/optional/map.hpp>
#include <fcppt/optional/maybe.hpp>
#include <fcppt/optional/maybe_void.hpp>
#include <fcppt/optional/object_impl.hpp>
#include <fcppt/tuple/get.hpp>
#include <fcppt/tuple/map.hpp>
#include <fcppt/tuple/object_impl.hpp>
#include <fcppt/variant/apply.hpp>
#include <fcppt/variant/match.hpp>
#include <fcppt/variant/object_impl.hpp>
#include <map>
#include <utility>
#include <vector>

namespace
{
using namespace c05;
namespace opt = fcppt::optional;
namespace ei = fcppt::either;
namespace var = fcppt::variant;
namespace alg = fcppt::algorithm;
using vec = std::vector<elem>;
inline bool symb(char const *const n) { return (verif_u8(n) & 1U) != 0U; }
inline unsigned param_n() { return static_cast<unsigned>(verif_param("n")); }

opt::object<elem> mkopt(int const id, bool const has) { return has ? opt::object<elem>{mk(id)} : opt::object<elem>{}; }
template <int C>
void arg_opt(opt::object<elem> const &o, int const id, bool const has, msgs const &m)
{
  if constexpr (C != RV) verif_assert(o.has_value() == has && (!has || untouched(o.get_unsafe(), id)), m.unchanged);
}
vec mkvec(unsigned const n, int const base = 0)
{
  vec v;
  for (unsigned i = 0; i < n; ++i) v.push_back(mk(base + static_cast<int>(i)));
  return v;
}
bool vec_untouched(vec const &v, unsigned const n, int const base)
{
  bool ok{v.size() == n};
  for (unsigned i = 0; ok && i < n; ++i) ok = untouched(v[i], base + static_cast<int>(i));
  return ok;
}
// copies a continuation of kind F costs for `calls` element parameters when the library passes rvalues iff C == RV
template <int C, int F>
constexpr int lvalue_cost(int const calls) { return (F == VAL && C != RV) ? calls : 0; }

// ================================================================ optional::filter - the source is returned after the call
template <int C>
void optional_filter_byvalue()
{
  msgs const m = C05_MSGS("optional::filter (predicate by value)");
  reset();
  bool const has{symb("has")};
  opt::object<elem> o{mkopt(0, has)};
  begin_op();
  opt::object<elem> const r{opt::filter(as<C>(o), pred_val<1>{})};
  bool const keep{has && pred_val<1>::model(0)};
  verif_assert(r.has_value() == keep, m.count);
  census c;
  if (r.has_value()) c.note(r.get_unsafe()); // flags a moved-from / destroyed value
  verif_assert(c.seen[0] == (keep ? 1 : 0), m.count);
  verif_assert(g_cont_calls == (has ? 1 : 0), m.count);
  // the predicate's own parameter; an lvalue source is additionally copied into the result
  expect_copies((has ? 1 : 0) + ((C != RV && keep) ? 1 : 0), m);
  arg_opt<C>(o, 0, has, m);
  verif_assert(g_errors == 0, m.noerr);
  verif_reach("end");
}

// ================================================================ optional: map / bind / maybe / maybe_void / apply / combine
template <int C, int F>
void optional_unary()
{
  msgs const m = C05_MSGS("optional::map/bind/maybe/maybe_void (by value / T&&)");
  reset();
  bool const has{symb("has")};
  unsigned const which{verif_u8("which")};
  verif_assume(which < 4);
  opt::object<elem> o{mkopt(0, has)};
  begin_op();
  census c;
  cont<F, C> const k{};
  if (which == 0)
  {
    opt::object<elem> const r{opt::map(as<C>(o), k)};
    if (r.has_value()) c.note(r.get_unsafe());
    verif_assert(r.has_value() == has, m.count);
  }
  else if (which == 1)
  {
    auto const kb{[](std::conditional_t<F == VAL, elem, elem &&> x) {
      ++g_cont_calls;
      return opt::object<elem>{std::move(x)};
    }};
    opt::object<elem> const r{opt::bind(as<C>(o), kb)};
    if (r.has_value()) c.note(r.get_unsafe());
    verif_assert(r.has_value() == has, m.count);
  }
  else if (which == 2)
  {
    elem const r{opt::maybe(
        as<C>(o), [] { return mk(1); }, k)};
    c.note(r);
    verif_assert(c.of(1) == (has ? 0 : 1), m.count);
  }
  else
  {
    opt::maybe_void(as<C>(o), [&c](std::conditional_t<F == VAL, elem, elem &&> x) {
      ++g_cont_calls;
      elem const y{std::move(x)};
      c.note(y);
    });
  }
  verif_assert(c.seen[0] == (has ? 1 : 0) && g_cont_calls == (has ? 1 : 0), m.count);
  expect_copies(lvalue_cost<C, F>(has ? 1 : 0), m);
  arg_opt<C>(o, 0, has, m);
  verif_assert(g_errors == 0, m.noerr);
  verif_out("which", which);
  verif_reach("end");
}

template <int C, int F>
void optional_binary()
{
  msgs const m = C05_MSGS("optional::apply/combine (by value / T&&)");
  reset();
  bool const h0{symb("h0")}, h1{symb("h1")}, comb{symb("combine")};
  opt::object<elem> o0{mkopt(0, h0)}, o1{mkopt(1, h1)};
  begin_op();
  using P = std::conditional_t<F == VAL, elem, elem &&>;
  // keeps the first parameter, consumes the second
  auto const f{[](P x, P y) {
    g_cont_calls += 2;
    elem const dropped{std::move(y)};
    return elem{std::move(x)};
  }};
  opt::object<elem> const r{comb ? opt::combine(as<C>(o0), as<C>(o1), f) : opt::apply(f, as<C>(o0), as<C>(o1))};
  census c;
  if (r.has_value()) c.note(r.get_unsafe());
  bool const both{h0 && h1};
  verif_assert(r.has_value() == (comb ? (h0 || h1) : both), m.count);
  verif_assert(c.seen[0] == ((both || (comb && h0)) ? 1 : 0) && c.seen[1] == ((comb && !h0 && h1) ? 1 : 0), m.count);
  verif_assert(g_cont_calls == (both ? 2 : 0), m.count);
  // combine on lvalues returns a copy of the only set argument
  int const plain{(comb && !both && C != RV && (h0 || h1)) ? 1 : 0};
  expect_copies(lvalue_cost<C, F>(both ? 2 : 0) + plain, m);
  arg_opt<C>(o0, 0, h0, m);
  arg_opt<C>(o1, 1, h1, m);
  verif_assert(g_errors == 0, m.noerr);
  verif_reach("end");
}

// ================================================================ either / variant
using eith = ei::object<elem1, elem>;
template <int C, int F>
void either_ops()
{
  msgs const m = C05_MSGS("either::map/map_failure/bind/match (by value / T&&)");
  reset();
  bool const succ{symb("succ")};
  unsigned const which{verif_u8("which")};
  verif_assume(which < 4);
  eith e{succ ? eith{mk(0)} : eith{mk<1>(1)}};
  begin_op();
  census c;
  cont<F, C> const k{};
  int expect_calls{0};
  auto const note{[&c](eith const &r) {
    if (r.has_success()) c.note(r.get_success_unsafe());
    else c.note(r.get_failure_unsafe());
  }};
  if (which == 0)
  {
    note(ei::map(as<C>(e), k));
    expect_calls = succ ? 1 : 0;
  }
  else if (which == 1)
  {
    note(ei::map_failure(as<C>(e), k));
    expect_calls = succ ? 0 : 1;
  }
  else if (which == 2)
  {
    note(ei::bind(as<C>(e), [](std::conditional_t<F == VAL, elem, elem &&> x) {
      ++g_cont_calls;
      return eith{std::move(x)};
    }));
    expect_calls = succ ? 1 : 0;
  }
  else
  {
    int const r{ei::match(
        as<C>(e),
        [&c](std::conditional_t<F == VAL, elem1, elem1 &&> x) {
          ++g_cont_calls;
          elem1 const y{std::move(x)};
          c.note(y);
          return 1;
        },
        [&c](std::conditional_t<F == VAL, elem, elem &&> x) {
          ++g_cont_calls;
          elem const y{std::move(x)};
          c.note(y);
          return 2;
        })};
    verif_assert(r == (succ ? 2 : 1), m.count);
    expect_calls = 1;
  }
  verif_assert(c.seen[0] == (succ ? 1 : 0) && c.seen[1] == (succ ? 0 : 1) && g_cont_calls == expect_calls, m.count);
  // the side that is not mapped is copied into the result when the argument is an lvalue
  int const passthrough{(C != RV && which != 3 && expect_calls == 0) ? 1 : 0};
  expect_copies(lvalue_cost<C, F>(expect_calls) + passthrough, m);
  if constexpr (C != RV) verif_assert(e.has_success() == succ && (succ ? untouched(e.get_success_unsafe(), 0) : untouched(e.get_failure_unsafe(), 1)), m.unchanged);
  verif_assert(g_errors == 0, m.noerr);
  verif_out("which", which);
  verif_reach("end");
}

using vart = var::object<elem, elem1, elem2>;
template <int C, int F>
void variant_ops()
{
  msgs const m = C05_MSGS("variant::match/apply (by value / T&&)");
  reset();
  unsigned const tag{verif_u8("tag")};
  verif_assume(tag < 3);
  bool const use_apply{symb("apply")};
  vart v{tag == 0 ? vart{mk<0>(0)} : tag == 1 ? vart{mk<1>(1)} : vart{mk<2>(2)}};
  begin_op();
  census c;
  auto const consume{[&c]<int K>(std::conditional_t<F == VAL, elem_t<K>, elem_t<K> &&> x) {
    ++g_cont_calls;
    elem_t<K> const y{std::move(x)};
    c.note(y);
    return 0;
  }};
  auto const c0{[&consume](std::conditional_t<F == VAL, elem, elem &&> x) { return consume.template operator()<0>(std::move(x)); }};
  auto const c1{[&consume](std::conditional_t<F == VAL, elem1, elem1 &&> x) { return consume.template operator()<1>(std::move(x)); }};
  auto const c2{[&consume](std::conditional_t<F == VAL, elem2, elem2 &&> x) { return consume.template operator()<2>(std::move(x)); }};
  struct overl
  {
    decltype(c0) const &f0;
    decltype(c1) const &f1;
    decltype(c2) const &f2;
    int operator()(std::conditional_t<F == VAL, elem, elem &&> x) const { return f0(std::move(x)); }
    int operator()(std::conditional_t<F == VAL, elem1, elem1 &&> x) const { return f1(std::move(x)); }
    int operator()(std::conditional_t<F == VAL, elem2, elem2 &&> x) const { return f2(std::move(x)); }
  };
  if (use_apply) (void)var::apply(overl{c0, c1, c2}, as<C>(v));
  else (void)var::match(as<C>(v), c0, c1, c2);
  for (unsigned i = 0; i < 3; ++i) verif_assert(c.seen[i] == (i == tag ? 1 : 0), m.count);
  verif_assert(g_cont_calls == 1, m.count);
  // overl / c_i forward their by-value parameter by move, so only the library's own parameter initialisation can copy
  expect_copies(lvalue_cost<C, F>(1), m);
  if constexpr (C != RV)
    verif_assert(
        v.type_index() == tag && (tag == 0 ? untouched(v.get_unsafe<elem>(), 0) : tag == 1 ? untouched(v.get_unsafe<elem1>(), 1) : untouched(v.get_unsafe<elem2>(), 2)),
        m.unchanged);
  verif_assert(g_errors == 0, m.noerr);
  verif_reach("end");
}

// ================================================================ ranges: the library passes the element on
template <int C, int F>
void range_map()
{
  msgs const m = C05_MSGS("algorithm::map, tuple::map, array::map, grid::map (by value / T&&)");
  reset();
  unsigned const n{param_n()};
  vec v{mkvec(n)};
  fcppt::tuple::object<elem, elem1> t{mk(4), mk<1>(5)};
  fcppt::array::object<elem, 2> a{mk(6), mk(7)};
  using grid2 = fcppt::container::grid::object<elem, 2>;
  grid2 g{grid2::dim{2U, 1U}, [](grid2::pos const &p) { return mk(8 + static_cast<int>(p.x())); }};
  begin_op();
  cont<F, C> const k{};
  vec const r{alg::map<vec>(as<C>(v), k)};
  auto const tr{fcppt::tuple::map(as<C>(t), k)};
  auto const ar{fcppt::array::map(as<C>(a), k)};
  grid2 const gr{fcppt::container::grid::map(as<C>(g), k)};
  census c;
  for (elem const &e : r) c.note(e);
  c.note(fcppt::tuple::get<0>(tr));
  c.note(fcppt::tuple::get<1>(tr));
  for (elem const &e : ar) c.note(e);
  for (elem const &e : gr) c.note(e);
  for (unsigned i = 0; i < n; ++i) verif_assert(c.seen[i] == 1 && r[i].read() == static_cast<int>(i), m.count);
  for (int i = 4; i < 10; ++i) verif_assert(c.seen[i] == 1, m.count);
  verif_assert(r.size() == n && g_cont_calls == static_cast<int>(n) + 6, m.count);
  expect_copies(lvalue_cost<C, F>(static_cast<int>(n) + 6), m);
  if constexpr (C != RV)
    verif_assert(
        vec_untouched(v, n, 0) && untouched(fcppt::tuple::get<0>(t), 4) && untouched(fcppt::tuple::get<1>(t), 5) && untouched(a.get_unsafe(0), 6) &&
            untouched(a.get_unsafe(1), 7) && untouched(g.get_unsafe(grid2::pos{0U, 0U}), 8) && untouched(g.get_unsafe(grid2::pos{1U, 0U}), 9),
        m.unchanged);
  verif_assert(g_errors == 0, m.noerr);
  verif_reach("end");
}

// fold / fold_break: the STATE is threaded through the user function by value (or T&&) and used again afterwards;
// the element parameter is an lvalue by design (by value: one copy per element, the range stays intact)
template <int C, int F>
void range_fold()
{
  msgs const m = C05_MSGS("algorithm::fold/fold_break (state and element by value / state by T&&)");
  reset();
  unsigned const n{param_n()};
  unsigned const stop{verif_u8("stop")};
  verif_assume(stop <= n);
  vec v{mkvec(n)}, w{mkvec(n, 4)};
  begin_op();
  using S = std::conditional_t<F == VAL, elem, elem &&>;
  census seen_elems;
  elem const r{alg::fold(as<C>(v), mk(8), [&seen_elems](elem e, S st) {
    ++g_cont_calls;
    seen_elems.note(e);
    return elem{std::move(st)};
  })};
  unsigned idx{0};
  elem const b{alg::fold_break(as<C>(w), mk(9), [&idx, stop, &seen_elems](elem e, S st) {
    ++g_cont_calls;
    seen_elems.note(e);
    return std::make_pair(idx++ == stop ? fcppt::loop::break_ : fcppt::loop::continue_, elem{std::move(st)});
  })};
  census c;
  c.note(r);
  c.note(b);
  verif_assert(c.seen[8] == 1 && c.seen[9] == 1, m.count); // the state survives every round trip, alive
  unsigned const calls_b{stop < n ? stop + 1 : n};
  verif_assert(g_cont_calls == static_cast<int>(n + calls_b), m.count);
  for (unsigned i = 0; i < n; ++i) verif_assert(seen_elems.seen[i] == 1 && seen_elems.seen[4 + i] == (i < calls_b ? 1 : 0), m.count);
  expect_copies(static_cast<int>(n + calls_b), m); // one per element parameter (lvalue by design), none for the state
  if constexpr (C != RV) verif_assert(vec_untouched(v, n, 0) && vec_untouched(w, n, 4), m.unchanged);
  verif_assert(g_errors == 0, m.noerr);
  verif_reach("end");
}

// ================================================================ the source is kept / searched / returned after the user call
void range_remove_unique()
{
  msgs const m = C05_MSGS("algorithm::remove_if/unique_if (predicate by value)");
  reset();
  unsigned const n{param_n()};
  vec v{mkvec(n)}, u{mkvec(n, 4)};
  begin_op();
  bool const removed{alg::remove_if(v, pred_val<1>{})};
  int const calls_remove{g_cont_calls};
  // "equal" = an uninterpreted relation on the payloads
  auto const rel{[](std::uint32_t const x, std::uint32_t const y) { return (verif_uf2(2, x, y) & 1U) != 0U; }};
  alg::unique_if(u, [&rel](elem x, elem y) {
    g_cont_calls += 2;
    elem const sx{std::move(x)}, sy{std::move(y)};
    return rel(sx.val, sy.val);
  });
  census c;
  for (elem const &e : v) c.note(e);
  for (elem const &e : u) c.note(e);
  bool any{false};
  for (unsigned i = 0; i < n; ++i)
  {
    bool const rm{pred_val<1>::model(static_cast<int>(i))};
    any = any || rm;
    verif_assert(c.seen[i] == (rm ? 0 : 1), m.count);
  }
  verif_assert(removed == any && calls_remove == static_cast<int>(n), m.count);
  // std::unique: an element is kept iff it is not related to the last kept one
  unsigned last{0};
  for (unsigned i = 0; i < n; ++i)
  {
    bool const kept{i == 0 || !rel(g_val[4 + last], g_val[4 + i])};
    if (kept) last = i;
    verif_assert(c.seen[4 + i] == (kept ? 1 : 0), m.count);
  }
  expect_copies(g_cont_calls, m); // every predicate parameter is a copy of an element that stays in the container
  verif_assert(g_errors == 0, m.noerr);
  verif_reach("end");
}

template <int C>
void range_find()
{
  msgs const m = C05_MSGS("algorithm::find_if_opt/find_by_opt/all_of/contains_if (by value)");
  static_assert(C != RV, "an iterator into an rvalue range would dangle");
  reset();
  unsigned const n{param_n()};
  vec v{mkvec(n)};
  begin_op();
  auto const it{alg::find_if_opt(as<C>(v), pred_val<1>{})};
  int const calls_find{g_cont_calls};
  opt::object<elem> const by{alg::find_by_opt(as<C>(v), [](elem x) {
    ++g_cont_calls;
    bool const hit{(verif_uf1(2, x.val) & 1U) != 0U};
    return hit ? opt::object<elem>{std::move(x)} : opt::object<elem>{};
  })};
  int const calls_by{g_cont_calls - calls_find};
  bool const all{alg::all_of(v, pred_val<3>{})};
  bool const some{alg::contains_if(v, pred_val<4>{})};
  unsigned first1{n}, first2{n}, firstnot3{n}, first4{n};
  for (unsigned i = n; i > 0; --i)
  {
    if (pred_val<1>::model(static_cast<int>(i - 1))) first1 = i - 1;
    if ((verif_uf1(2, g_val[i - 1]) & 1U) != 0U) first2 = i - 1;
    if (!pred_val<3>::model(static_cast<int>(i - 1))) firstnot3 = i - 1;
    if (pred_val<4>::model(static_cast<int>(i - 1))) first4 = i - 1;
  }
  verif_assert(it.has_value() == (first1 != n) && (first1 == n || &*it.get_unsafe() == &v[first1]), m.count);
  verif_assert(calls_find == static_cast<int>(first1 == n ? n : first1 + 1), m.count);
  verif_assert(by.has_value() == (first2 != n) && calls_by == static_cast<int>(first2 == n ? n : first2 + 1), m.count);
  census c;
  if (by.has_value()) c.note(by.get_unsafe());
  if (first2 != n) verif_assert(c.seen[first2] == 1, m.count);
  verif_assert(all == (firstnot3 == n) && some == (first4 != n), m.count);
  expect_copies(g_cont_calls, m);
  verif_assert(vec_untouched(v, n, 0), m.unchanged); // searched, never modified
  verif_assert(g_errors == 0, m.noerr);
  verif_reach("end");
}

template <int C>
void range_map_optional_concat()
{
  msgs const m = C05_MSGS("algorithm::map_optional/map_concat, tree::map (by value)");
  reset();
  unsigned const n{param_n()};
  vec v{mkvec(n)}, w{mkvec(n, 4)};
  fcppt::container::tree::object<elem> t{mk(8)};
  t.push_back(mk(9));
  begin_op();
  vec const o{alg::map_optional<vec>(as<C>(v), [](elem x) {
    ++g_cont_calls;
    return (verif_uf1(1, x.val) & 1U) != 0U ? opt::object<elem>{std::move(x)} : opt::object<elem>{};
  })};
  vec const cc{alg::map_concat<vec>(as<C>(w), [](elem x) {
    ++g_cont_calls;
    vec one;
    one.push_back(std::move(x));
    return one;
  })};
  auto const tm{fcppt::container::tree::map<fcppt::container::tree::object<elem>>(t, cont<VAL>{})};
  census c;
  for (elem const &e : o) c.note(e);
  for (elem const &e : cc) c.note(e);
  c.note(tm.value());
  for (auto const &ch : tm) c.note(ch.value());
  for (unsigned i = 0; i < n; ++i) verif_assert(c.seen[i] == (pred_val<1>::model(static_cast<int>(i)) ? 1 : 0) && c.seen[4 + i] == 1, m.count);
  verif_assert(c.seen[8] == 1 && c.seen[9] == 1 && g_cont_calls == static_cast<int>(2 * n) + 2, m.count);
  expect_copies(g_cont_calls, m); // the library hands out lvalues here by design, for every category
  if constexpr (C != RV) verif_assert(vec_untouched(v, n, 0) && vec_untouched(w, n, 4), m.unchanged);
  verif_assert(untouched(t.value(), 8) && untouched(t.front().get_unsafe().get().value(), 9), m.unchanged);
  verif_assert(g_errors == 0, m.noerr);
  verif_reach("end");
}

// get_or_insert: the KEY is handed to the user function and used again afterwards (emplace)
void container_get_or_insert_key()
{
  msgs const m = C05_MSGS("container::get_or_insert (instrumented key, create by value)");
  reset();
  unsigned const n{param_n()};
  int const kq{static_cast<int>(verif_param("key"))};
  // keys 0,2,4 (ordered by identity) -> mapped 8,9,10
  std::map<elem, elem1> mp;
  for (unsigned i = 0; i < n; ++i) mp.emplace(mk(static_cast<int>(2 * i)), mk<1>(8 + static_cast<int>(i)));
  bool const present{kq % 2 == 0 && static_cast<unsigned>(kq / 2) < n};
  // the probe: equal to a stored key (same identity and payload) or a new one
  elem const key{present ? elem{kq, g_val[kq]} : mk(kq)};
  begin_op();
  elem1 &r{fcppt::container::get_or_insert(mp, key, [](elem k) {
    ++g_cont_calls;
    elem const sink{std::move(k)};
    return mk<1>(12);
  })};
  verif_assert(g_cont_calls == (present ? 0 : 1), m.count);
  verif_assert(r.read() == (present ? 8 + kq / 2 : 12), m.count);
  verif_assert(untouched(key, kq), m.unchanged); // still usable after it went through the user function
  census c;
  for (auto const &kv : mp)
  {
    c.note(kv.first); // the stored keys are alive, in particular the one inserted after the user call
    c.note(kv.second);
  }
  verif_assert(mp.size() == n + (present ? 0U : 1U) && c.seen[kq] == 1 && c.seen[12] == (present ? 0 : 1), m.count);
  for (unsigned i = 0; i < n; ++i) verif_assert(c.seen[2 * i] == 1 && c.seen[8 + i] == 1, m.count);
  expect_copies(present ? 0 : 2, m); // create's parameter and the key stored in the map
  verif_assert(g_errors == 0, m.noerr);
  verif_reach("end");
}

// either::loop hands every success to the body by move
template <int F>
void either_loop_byvalue()
{
  msgs const m = C05_MSGS("either::loop (body by value / T&&)");
  reset();
  unsigned const n{param_n()};
  unsigned step{0};
  census c;
  begin_op();
  elem1 const r{ei::loop(
      [&step, n] {
        unsigned const i{step++};
        return i < n ? eith{mk(static_cast<int>(i))} : eith{mk<1>(7)};
      },
      [&c](std::conditional_t<F == VAL, elem, elem &&> x) {
        ++g_cont_calls;
        elem const y{std::move(x)};
        c.note(y);
      })};
  c.note(r);
  for (unsigned i = 0; i < n; ++i) verif_assert(c.seen[i] == 1, m.count);
  verif_assert(c.seen[7] == 1 && g_cont_calls == static_cast<int>(n), m.count);
  expect_copies(0, m);
  verif_assert(g_errors == 0, m.noerr);
  verif_reach("end");
}
}

#define HCF(name, fn) \
  VERIF_HARNESS(name##_val_rv) { fn<RV, VAL>(); } \
  VERIF_HARNESS(name##_val_lv) { fn<LV, VAL>(); } \
  VERIF_HARNESS(name##_val_clv) { fn<CLV, VAL>(); } \
  VERIF_HARNESS(name##_rref_rv) { fn<RV, RREF>(); }
#define H3(name, fn) \
  VERIF_HARNESS(name##_rv) { fn<RV>(); } \
  VERIF_HARNESS(name##_lv) { fn<LV>(); } \
  VERIF_HARNESS(name##_clv) { fn<CLV>(); }

H3(h_bv_optional_filter, optional_filter_byvalue)
//@harness h_bv_optional_filter_{C} for C in rv,lv,clv tier=quick
HCF(h_bv_optional_unary, optional_unary)
//@harness h_bv_optional_unary_{C} for C in val_rv,val_lv,val_clv,rref_rv tier=quick
HCF(h_bv_optional_binary, optional_binary)
//@harness h_bv_optional_binary_{C} for C in val_rv,val_lv,val_clv,rref_rv tier=quick
HCF(h_bv_either_ops, either_ops)
//@harness h_bv_either_ops_{C} for C in val_rv,val_lv,val_clv,rref_rv tier=quick
HCF(h_bv_variant_ops, variant_ops)
//@harness h_bv_variant_ops_{C} for C in val_rv,val_lv,val_clv,rref_rv tier=quick
HCF(h_bv_range_map, range_map)
//@harness h_bv_range_map_{C} for C in val_rv,val_lv,val_clv,rref_rv param n=0..3 tier=quick
HCF(h_bv_range_fold, range_fold)
//@harness h_bv_range_fold_{C} for C in val_rv,val_lv,val_clv,rref_rv param n=0..3 tier=quick
VERIF_HARNESS(h_bv_range_remove_unique) { range_remove_unique(); }
//@harness h_bv_range_remove_unique param n=0..3 tier=quick
VERIF_HARNESS(h_bv_range_find_lv) { range_find<LV>(); }
VERIF_HARNESS(h_bv_range_find_clv) { range_find<CLV>(); }
//@harness h_bv_range_find_{C} for C in lv,clv param n=0..3 tier=quick
H3(h_bv_range_map_optional_concat, range_map_optional_concat)
//@harness h_bv_range_map_optional_concat_{C} for C in rv,lv,clv param n=0..3 tier=quick
VERIF_HARNESS(h_bv_get_or_insert_key) { container_get_or_insert_key(); }
//@harness h_bv_get_or_insert_key param n=0..3 param key=0..5 tier=quick
VERIF_HARNESS(h_bv_either_loop_val) { either_loop_byvalue<VAL>(); }
VERIF_HARNESS(h_bv_either_loop_rref) { either_loop_byvalue<RREF>(); }
//@harness h_bv_either_loop_{F} for F in val,rref param n=0..3 tier=quick
