// shared by the C05 kernels: the instrumented element type, value categories, result census and the checks
#ifndef C05_COMMON_HPP
#define C05_COMMON_HPP
#include "verif_api.h"
#include <cstdint>
#include <type_traits>
#include <utility>

namespace c05
{
constexpr int max_id = 16; // original elements have ids 0..max_id-1
constexpr int derived = max_id; // an element a continuation builds from an lvalue x has id x.id + derived
enum : unsigned char { alive = 1, moved_from = 2, destroyed = 3 };
enum : unsigned { err_read_moved = 1, err_touch_destroyed = 2, err_double_destroy = 4, err_bad_result = 8 };

inline int g_copies = 0;   // copy constructions + copy assignments
inline int g_moves = 0;    // move constructions + move assignments
inline unsigned g_errors = 0;
inline int g_cont_calls = 0;   // calls of cont<VAL>/cont<RREF>/pred_val, one per element parameter
inline int g_lvalue_calls = 0; // an operation on an rvalue argument handed its continuation an lvalue (xfc only)
inline std::uint32_t g_val[max_id];

// id + symbolic payload; every special member function logs.  K only makes distinct types (either / variant
// alternatives, record fields) that share the counters.
template <int K>
struct elem_t
{
  using elem = elem_t;
  int id;
  std::uint32_t val;
  unsigned char state;
  unsigned char gen; // number of times this object was moved from or assigned to

  elem_t(int const i, std::uint32_t const v) : id(i), val(v), state(alive), gen(0) {}
#ifdef C05_DEFAULT_CTOR
  elem_t() : id(0), val(0), state(moved_from), gen(0) {} // only where a template demands default construction (stream extraction)
#endif
  elem_t(elem const &o) : id(o.read()), val(o.val), state(alive), gen(0) { ++g_copies; }
  elem_t(elem &&o) noexcept : id(o.read()), val(o.val), state(alive), gen(0)
  {
    o.state = moved_from;
    ++o.gen;
    ++g_moves;
  }
  elem &operator=(elem const &o)
  {
    touch();
    id = o.read();
    val = o.val;
    state = alive;
    ++gen;
    ++g_copies;
    return *this;
  }
  elem &operator=(elem &&o) noexcept
  {
    touch();
    id = o.read();
    val = o.val;
    state = alive;
    ++gen;
    o.state = moved_from;
    ++o.gen;
    ++g_moves;
    return *this;
  }
  ~elem_t()
  {
    if (state == destroyed) g_errors |= err_double_destroy;
    state = destroyed;
  }
  // any use of the value: reading a moved-from or destroyed object is the error the property forbids
  int read() const
  {
    if (state == moved_from) g_errors |= err_read_moved;
    if (state == destroyed) g_errors |= err_touch_destroyed;
    return id;
  }
  void touch() const
  {
    if (state == destroyed) g_errors |= err_touch_destroyed;
  }
  bool operator==(elem const &o) const { return read() == o.read() && val == o.val; }
  bool operator<(elem const &o) const { return read() < o.read(); }
};
using elem = elem_t<0>;
using elem1 = elem_t<1>;
using elem2 = elem_t<2>;

inline char const *const val_names[max_id] = {"v0", "v1", "v2", "v3", "v4", "v5", "v6", "v7", "v8", "v9", "v10", "v11", "v12", "v13", "v14", "v15"};
// a fresh original element: concrete identity, symbolic payload
template <int K = 0>
inline elem_t<K> mk(int const id)
{
  g_val[id] = verif_u32(val_names[id]);
  return elem_t<K>{id, g_val[id]};
}
inline void reset()
{
  g_copies = 0;
  g_moves = 0;
  g_errors = 0;
  g_lvalue_calls = 0;
  g_cont_calls = 0;
}
// counters start after the arguments have been built
inline void begin_op()
{
  g_copies = 0;
  g_moves = 0;
}

// ---- value categories: 0 = rvalue, 1 = non-const lvalue, 2 = const lvalue
constexpr int RV = 0, LV = 1, CLV = 2;
template <int C, typename T>
decltype(auto) as(T &x)
{
  if constexpr (C == RV) return std::move(x);
  else if constexpr (C == LV) return (x);
  else return std::as_const(x);
}

// ---- the continuation handed to map-like operations: consumes an rvalue by moving (same id), builds a new element
// (id + derived, same payload) from an lvalue without copying it
struct xf
{
  template <typename T>
  std::remove_cvref_t<T> operator()(T &&x) const
  {
    using E = std::remove_cvref_t<T>;
    if constexpr (std::is_lvalue_reference_v<T>) return E{x.read() + derived, x.val};
    else return E{std::move(x)};
  }
};
// the same, additionally counting when an operation on an rvalue hands the continuation an lvalue (the element cannot
// be moved on; a by-value continuation would copy, a move-only element type is rejected).  Used for the operations whose
// interface passes the element on by move (move_type / move_if_rvalue on the element); fold-like operations that pass
// lvalues by design use xf.
template <int C>
struct xfc
{
  template <typename T>
  std::remove_cvref_t<T> operator()(T &&x) const
  {
    if constexpr (C == RV && std::is_lvalue_reference_v<T>) ++g_lvalue_calls;
    return xf{}(std::forward<T>(x));
  }
};

// ---- continuations that take their parameter BY VALUE (VAL) or by rvalue reference (RREF); FWD = xfc.
// A by-value parameter is initialised by the library's call expression: from an rvalue it is a move, from an lvalue a
// copy (of which the original must stay alive and untouched - observable when the operation keeps using its source).
constexpr int FWD = 0, VAL = 1, RREF = 2;
template <int F, int C = RV>
struct cont;
template <int C>
struct cont<FWD, C> : xfc<C>
{
};
template <int C>
struct cont<VAL, C>
{
  template <int K>
  elem_t<K> operator()(elem_t<K> x) const
  {
    ++g_cont_calls;
    return x; // moves the parameter out
  }
};
template <int C>
struct cont<RREF, C>
{
  template <int K>
  elem_t<K> operator()(elem_t<K> &&x) const
  {
    ++g_cont_calls;
    return std::move(x);
  }
};
// an arbitrary predicate (uninterpreted in the payload) taking the element by value and consuming its parameter
template <int UF = 1>
struct pred_val
{
  template <int K>
  bool operator()(elem_t<K> x) const
  {
    ++g_cont_calls;
    elem_t<K> const sink{std::move(x)};
    return (verif_uf1(UF, sink.val) & 1U) != 0U;
  }
  static bool model(int const id) { return (verif_uf1(UF, g_val[id]) & 1U) != 0U; }
};

// ---- census of the result
struct census
{
  int seen[2 * max_id];
  census() : seen{} {}
  template <int K>
  void note(elem_t<K> const &e)
  {
    if (e.state != alive || e.id < 0 || e.id >= 2 * max_id) { g_errors |= err_bad_result; return; }
    ++seen[e.id];
    if (e.val != g_val[e.id % max_id]) g_errors |= err_bad_result;
  }
  // how often the value that started as original `id` appears: as itself (moved/copied) or as the derived element
  int of(int const id) const { return seen[id] + seen[id + derived]; }
};

struct msgs
{
  char const *nocopy, *noerr, *count, *unchanged, *nomove, *fwd, *byvalue;
};
#define C05_MSGS(op) \
  c05::msgs { op ": no element of an rvalue argument is copied", op ": no moved-from or destroyed element is read, results are alive and carry their value", \
              op ": every element appears in the result as often as documented (never twice)", op ": lvalue argument is unchanged (not moved from, not assigned)", \
              op ": nothing is moved or copied when no element is involved", \
              op ": elements of an rvalue argument reach the continuation as rvalues (move-only types accepted)", \
              op ": a by-value continuation costs exactly one copy per call on an lvalue and none where the library passes an rvalue" }

// copies a VAL continuation may cost: `lvalue_calls` of its calls were made with an lvalue argument
inline void expect_copies(int const lvalue_calls, msgs const &m) { verif_assert(g_copies == lvalue_calls, m.byvalue); }

// an argument element passed as lvalue must be exactly as before
template <int K>
inline bool untouched(elem_t<K> const &e, int const id) { return e.state == alive && e.gen == 0 && e.id == id && e.val == g_val[id]; }

template <int C>
inline void verdict(msgs const &m)
{
  if constexpr (C == RV) verif_assert(g_copies == 0, m.nocopy);
  if constexpr (C == RV) verif_assert(g_lvalue_calls == 0, m.fwd);
  verif_assert(g_errors == 0, m.noerr);
}
}
#endif
