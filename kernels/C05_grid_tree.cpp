// C05 (grid / tree) - rvalue arguments are moved, never copied; lvalue arguments are left untouched.
// Same instrumented element type and verdicts as C05_sum.cpp (see C05_common.hpp).
// Registered: container::grid::{object copy/move, map, apply, resize} on 2-dimensional grids of size w x h
// (params, 0..2 each; resize to a second param size: shrinking, growing, disjoint), container::tree::{object ctor from
// value, copy/move construction, copy/move assignment, push_back / push_front (value and subtree), pop_back,
// pop_front, release, value(), swap, map} on a tree with three levels.
// Outside the claim: grids with more than 4 cells, trees with more than 4 nodes; parent links of trees (C-property
// of the tree container, not of value conservation).
//@property C05
//@import C09_tree.cpp only=^h_massign_first
#include "C05_common.hpp"
#include <fcppt/container/grid/apply.hpp>
#include <fcppt/container/grid/map.hpp>
#include <fcppt/container/grid/object_impl.hpp>
#include <fcppt/container/grid/resize.hpp>
#include <fcppt/container/tree/map.hpp>
#include <fcppt/container/tree/object_impl.hpp>
#include <fcppt/math/dim/comparison.hpp>
#include <fcppt/optional/object_impl.hpp>
#include <utility>

namespace
{
using namespace c05;
namespace grid = fcppt::container::grid;
namespace tree = fcppt::container::tree;
using grid2 = grid::object<elem, 2>;
using tre = tree::object<elem>;

struct pair_ee
{
  elem a;
  elem b;
};

// cell (x,y) of a w x h grid holds id base + x + 2*y  (w,h <= 2)
int cell_id(grid2::pos const &p, int const base) { return base + static_cast<int>(p.x()) + 2 * static_cast<int>(p.y()); }
grid2 mkgrid(unsigned const w, unsigned const h, int const base)
{
  return grid2{grid2::dim{w, h}, [base](grid2::pos const &p) { return mk(cell_id(p, base)); }};
}
template <int C>
void arg_grid(grid2 const &g, unsigned const w, unsigned const h, int const base, msgs const &m)
{
  if constexpr (C != RV)
  {
    verif_assert(g.size() == (grid2::dim{w, h}), m.unchanged);
    for (unsigned y = 0; y < h; ++y)
      for (unsigned x = 0; x < w; ++x) verif_assert(untouched(g.get_unsafe(grid2::pos{x, y}), base + static_cast<int>(x) + 2 * static_cast<int>(y)), m.unchanged);
  }
}

template <int C>
void grid_copy_map()
{
  msgs const m = C05_MSGS("grid::object copy/move, grid::map");
  reset();
  unsigned const w{static_cast<unsigned>(verif_param("w"))}, h{static_cast<unsigned>(verif_param("h"))};
  grid2 g{mkgrid(w, h, 0)}, g2{mkgrid(w, h, 4)};
  begin_op();
  grid2 const cp{as<C>(g)};
  grid2 const mp{grid::map(as<C>(g2), xfc<C>{})};
  census c;
  for (elem const &e : cp) c.note(e);
  for (elem const &e : mp) c.note(e);
  verif_assert(cp.size() == (grid2::dim{w, h}) && mp.size() == (grid2::dim{w, h}), m.count);
  for (unsigned y = 0; y < h; ++y)
    for (unsigned x = 0; x < w; ++x)
    {
      int const id{static_cast<int>(x) + 2 * static_cast<int>(y)};
      verif_assert(c.of(id) == 1 && c.of(4 + id) == 1, m.count);
      verif_assert(cp.get_unsafe(grid2::pos{x, y}).read() == id && mp.get_unsafe(grid2::pos{x, y}).read() % derived == 4 + id, m.count);
    }
  arg_grid<C>(g, w, h, 0, m);
  arg_grid<C>(g2, w, h, 4, m);
  verdict<C>(m);
  verif_reach("end");
}

template <int C1, int C2>
void grid_apply()
{
  msgs const m = C05_MSGS("grid::apply");
  reset();
  unsigned const w{static_cast<unsigned>(verif_param("w"))}, h{static_cast<unsigned>(verif_param("h"))};
  grid2 a{mkgrid(w, h, 0)}, b{mkgrid(w, h, 4)};
  begin_op();
  grid::object<pair_ee, 2> const r{grid::apply(
      [](auto &&x, auto &&y) { return pair_ee{xfc<C1>{}(std::forward<decltype(x)>(x)), xfc<C2>{}(std::forward<decltype(y)>(y))}; }, as<C1>(a), as<C2>(b))};
  census c;
  for (pair_ee const &p : r)
  {
    c.note(p.a);
    c.note(p.b);
  }
  for (unsigned y = 0; y < h; ++y)
    for (unsigned x = 0; x < w; ++x)
    {
      int const id{static_cast<int>(x) + 2 * static_cast<int>(y)};
      verif_assert(c.of(id) == 1 && c.of(4 + id) == 1, m.count);
    }
  arg_grid<C1>(a, w, h, 0, m);
  arg_grid<C2>(b, w, h, 4, m);
  if constexpr (C1 == RV && C2 == RV) verif_assert(g_copies == 0, m.nocopy);
  if constexpr (C1 == RV || C2 == RV) verif_assert(g_lvalue_calls == 0, m.fwd);
  verif_assert(g_errors == 0, m.noerr);
  verif_reach("end");
}

template <int C>
void grid_resize()
{
  msgs const m = C05_MSGS("grid::resize");
  reset();
  unsigned const w{static_cast<unsigned>(verif_param("w"))}, h{static_cast<unsigned>(verif_param("h"))};
  unsigned const w2{static_cast<unsigned>(verif_param("w2"))}, h2{static_cast<unsigned>(verif_param("h2"))};
  grid2 g{mkgrid(w, h, 0)};
  begin_op();
  grid2 const r{grid::resize(as<C>(g), grid2::dim{w2, h2}, [](grid2::pos const &p) { return mk(cell_id(p, 4)); })};
  census c;
  for (elem const &e : r) c.note(e);
  verif_assert(r.size() == (grid2::dim{w2, h2}), m.count);
  for (unsigned y = 0; y < 2; ++y)
    for (unsigned x = 0; x < 2; ++x)
    {
      int const id{static_cast<int>(x) + 2 * static_cast<int>(y)};
      bool const in_new{x < w2 && y < h2}, in_old{x < w && y < h};
      // kept cells come from the old grid, the others from init; nothing else appears
      verif_assert(c.of(id) == ((in_new && in_old) ? 1 : 0), m.count);
      verif_assert(c.of(4 + id) == ((in_new && !in_old) ? 1 : 0), m.count);
      if (in_new) verif_assert(r.get_unsafe(grid2::pos{x, y}).read() == (in_old ? id : 4 + id), m.count);
    }
  arg_grid<C>(g, w, h, 0, m);
  verdict<C>(m);
  verif_reach("end");
}

// ================================================================ tree:  0 -> (1, 2 -> (3))
tre mktree(int const base)
{
  tre t{mk(base)};
  t.push_back(mk(base + 1));
  tre sub{mk(base + 2)};
  sub.push_back(mk(base + 3));
  t.push_back(std::move(sub));
  return t;
}
void note_tree(census &c, tre const &t)
{
  c.note(t.value());
  for (tre const &ch : t) note_tree(c, ch);
}
bool tree_untouched(tre const &t, int const base)
{
  if (!(untouched(t.value(), base) && t.size() == 2)) return false;
  tre const &c1{t.front().get_unsafe().get()}, &c2{t.back().get_unsafe().get()};
  return untouched(c1.value(), base + 1) && c1.empty() && untouched(c2.value(), base + 2) && c2.size() == 1 && untouched(c2.front().get_unsafe().get().value(), base + 3) &&
         c2.front().get_unsafe().get().empty();
}
bool tree_shape(tre const &t, int const base)
{
  if (!(t.value().read() == base && t.size() == 2)) return false;
  tre const &c1{t.front().get_unsafe().get()}, &c2{t.back().get_unsafe().get()};
  return c1.value().read() == base + 1 && c1.empty() && c2.value().read() == base + 2 && c2.size() == 1 && c2.front().get_unsafe().get().value().read() == base + 3;
}
void expect_once(census const &c, int const lo, int const hi, msgs const &m)
{
  for (int i = lo; i < hi; ++i) verif_assert(c.of(i) == 1, m.count);
}

template <int C>
void tree_copy_assign()
{
  msgs const m = C05_MSGS("tree::object construction/assignment");
  reset();
  tre t{mktree(0)}, u{mktree(4)};
  tre target{mk(8)};
  target.push_back(mk(9));
  elem v{mk(10)};
  begin_op();
  tre const from_value{as<C>(v)};
  tre const cp{as<C>(t)};
  target = as<C>(u);
  census c;
  note_tree(c, cp);
  note_tree(c, target);
  note_tree(c, from_value);
  expect_once(c, 0, 8, m);
  verif_assert(c.of(8) == 0 && c.of(9) == 0 && c.of(10) == 1, m.count);
  verif_assert(tree_shape(cp, 0) && tree_shape(target, 4), m.count);
  if constexpr (C != RV) verif_assert(tree_untouched(t, 0) && tree_untouched(u, 4) && untouched(v, 10), m.unchanged);
  verdict<C>(m);
  verif_reach("end");
}

template <int C>
void tree_insert()
{
  msgs const m = C05_MSGS("tree::push_back/push_front/value");
  reset();
  tre t{mk(0)};
  elem a{mk(1)}, b{mk(2)}, nv{mk(3)};
  tre sub{mktree(4)};
  begin_op();
  t.push_back(as<C>(a));
  t.push_front(as<C>(b));
  t.value(as<C>(nv));
  if constexpr (C == RV) t.push_back(std::move(sub)); // subtrees can only be inserted by move
  census c;
  note_tree(c, t);
  verif_assert(c.of(0) == 0 && c.of(1) == 1 && c.of(2) == 1 && c.of(3) == 1, m.count);
  verif_assert(t.value().read() == 3 && t.front().get_unsafe().get().value().read() == 2, m.count);
  if constexpr (C == RV)
  {
    expect_once(c, 4, 8, m);
    verif_assert(tree_shape(t.back().get_unsafe().get(), 4), m.count);
  }
  else
    verif_assert(untouched(a, 1) && untouched(b, 2) && untouched(nv, 3), m.unchanged);
  verdict<C>(m);
  verif_reach("end");
}

void tree_remove()
{
  msgs const m = C05_MSGS("tree::pop_back/pop_front/release/swap");
  reset();
  tre t{mktree(0)}, u{mktree(4)}, s1{mktree(8)};
  tre s2{mk(12)};
  begin_op();
  fcppt::optional::object<tre> const back{t.pop_back()};    // subtree 2 -> (3)
  fcppt::optional::object<tre> const front{t.pop_front()};  // leaf 1
  fcppt::optional::object<tre> const none{t.pop_front()};   // empty now
  tre const rel{u.release(u.begin())};                      // leaf 5
  s1.swap(s2);
  census c;
  note_tree(c, t);
  note_tree(c, u);
  note_tree(c, rel);
  if (back.has_value()) note_tree(c, back.get_unsafe());
  if (front.has_value()) note_tree(c, front.get_unsafe());
  note_tree(c, s1);
  note_tree(c, s2);
  verif_assert(back.has_value() && front.has_value() && !none.has_value() && t.empty(), m.count);
  verif_assert(back.get_unsafe().value().read() == 2 && back.get_unsafe().size() == 1 && front.get_unsafe().value().read() == 1 && rel.value().read() == 5 && u.size() == 1, m.count);
  verif_assert(s1.value().read() == 12 && s1.empty() && tree_shape(s2, 8), m.count);
  expect_once(c, 0, 13, m);
  verdict<RV>(m);
  verif_reach("end");
}

void tree_map()
{
  msgs const m = C05_MSGS("tree::map");
  reset();
  tre t{mktree(0)};
  begin_op();
  tre const r{tree::map<tre>(t, xf{})};
  census c;
  note_tree(c, r);
  expect_once(c, 0, 4, m);
  verif_assert(r.value().read() == derived && r.size() == 2, m.count);
  verif_assert(tree_untouched(t, 0), m.unchanged);
  verif_assert(g_copies == 0, m.nocopy); // map builds the result from the continuation's values only
  verdict<LV>(m);
  verif_reach("end");
}
}

#define H1(name, fn) VERIF_HARNESS(name) { fn(); }
#define H3(name, fn) \
  VERIF_HARNESS(name##_rv) { fn<RV>(); } \
  VERIF_HARNESS(name##_lv) { fn<LV>(); } \
  VERIF_HARNESS(name##_clv) { fn<CLV>(); }
#define H22(name, fn) \
  VERIF_HARNESS(name##_rv_rv) { fn<RV, RV>(); } \
  VERIF_HARNESS(name##_rv_lv) { fn<RV, LV>(); } \
  VERIF_HARNESS(name##_lv_rv) { fn<LV, RV>(); } \
  VERIF_HARNESS(name##_lv_lv) { fn<LV, LV>(); } \
  VERIF_HARNESS(name##_clv_clv) { fn<CLV, CLV>(); }

H3(h_grid_copy_map, grid_copy_map)
//@harness h_grid_copy_map_{C} for C in rv,lv,clv param w=0..2 param h=0..2 if (w==0)==(h==0) tier=quick
H22(h_grid_apply, grid_apply)
//@harness h_grid_apply_{C} for C in rv_rv,rv_lv,lv_rv,lv_lv,clv_clv param w=1..2 param h=1..2 tier=quick
H3(h_grid_resize, grid_resize)
//@harness h_grid_resize_{C} for C in rv,lv,clv param w=0,1,2 param h=1..2 param w2=0,1,2 param h2=1..2 tier=quick
H3(h_tree_copy_assign, tree_copy_assign)
//@harness h_tree_copy_assign_{C} for C in rv,lv,clv tier=quick
H3(h_tree_insert, tree_insert)
//@harness h_tree_insert_{C} for C in rv,lv,clv tier=quick
H1(h_tree_remove, tree_remove)
//@harness h_tree_remove tier=quick
H1(h_tree_map, tree_map)
//@harness h_tree_map tier=quick
