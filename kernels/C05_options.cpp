// C05 (options) - parser constructors take their values by rvalue: they must move them in without copying and must
// not read them afterwards; parse() on the (const) parser leaves the stored values untouched; RUNNING many / optional
// moves every parsed value into the result (no copy of an already parsed value), results in argument order.
// Real code: fcppt::options::{flag, option, argument, many, optional} constructors and parse(), options::parse
// (parse_to_empty) with the instrumented element type of C05_common.hpp as the value type, on top of a unity build of
// libs/options.  many(argument<elem>) and many(option<elem>) run on 0..3 repetitions (thorough 4), optional(argument)
// on 0..1, an unconvertible token at every position of many(argument).
// Replaced (same way as kernels/C03_env.hpp, by explicit specialisation shared by engine and native build):
//   fcppt::extract_from_string<elem>(token) = a FRESH element (next identity, symbolic payload), or nothing for the
//   token "bad"; fcppt::output_to_fcppt_string<elem> and options::pretty_type_impl<elem> = placeholders (message text).
// Outside the claim: operator>> on the element type, usage()/help texts, fcppt::parse::sequence / repetition (their
// only entry points need a std::istream).
// Finding of the first round (fixed in /repo since): the flag constructor compared its parameters after moving from
// them (h_options_flag_ctor).
//@property C05
//@unity options
//@models rbtree
//@flags -I/repo/_build/impl/include
#include "C05_common.hpp"
#include <fcppt/extract_from_string.hpp>
#include <fcppt/output_to_fcppt_string.hpp>
#include <fcppt/string.hpp>
#include <fcppt/optional/object_impl.hpp>
#include <fcppt/options/pretty_type_impl.hpp>
#include <string>
namespace c05
{
inline int g_next_id = 0; // identity of the next element "converted" from a token
}
namespace fcppt
{
template <>
inline fcppt::optional::object<c05::elem> extract_from_string<c05::elem, std::string>(std::string const &_s)
{
  return _s == "bad" ? fcppt::optional::object<c05::elem>{} : fcppt::optional::object<c05::elem>{c05::mk(c05::g_next_id++)};
}
template <>
inline fcppt::string output_to_fcppt_string<c05::elem>(c05::elem const &)
{
  return fcppt::string{"<elem>"};
}
namespace options
{
template <>
struct pretty_type_impl<c05::elem>
{
  static fcppt::string get() { return fcppt::string{"elem"}; }
};
}
}
#include <fcppt/args_vector.hpp>
#include <fcppt/string.hpp>
#include <fcppt/text.hpp>
#include <fcppt/either/object_impl.hpp>
#include <fcppt/optional/object_impl.hpp>
#include <fcppt/options/flag.hpp>
#include <fcppt/options/long_name.hpp>
#include <fcppt/options/make_active_value.hpp>
#include <fcppt/options/make_default_value.hpp>
#include <fcppt/options/make_inactive_value.hpp>
#include <fcppt/options/argument.hpp>
#include <fcppt/options/many_impl.hpp>
#include <fcppt/options/optional_impl.hpp>
#include <fcppt/options/parse.hpp>
#include <fcppt/options/result.hpp>
#include <fcppt/options/option.hpp>
#include <fcppt/options/option_name_set.hpp>
#include <fcppt/options/optional_help_text.hpp>
#include <fcppt/options/optional_short_name.hpp>
#include <fcppt/options/parse_context.hpp>
#include <fcppt/options/state.hpp>
#include <fcppt/record/get.hpp>
#include <fcppt/record/make_label.hpp>
#include "unity_options.hpp"
// the few non-template core functions the options library links against
#include "libs/core/src/exception.cpp"
#include "libs/core/src/from_std_string.cpp"
#include "libs/core/src/insert_extract_locale.cpp"
#include "libs/core/src/type_name.cpp"
#include "libs/core/src/type_name_from_info.cpp"
#include <utility>
#include <vector>

namespace
{
using namespace c05;
namespace op = fcppt::options;
FCPPT_RECORD_MAKE_LABEL(lab);
using flag_t = op::flag<lab, elem>;
using option_t = op::option<lab, elem>;

op::state mkstate(bool const given)
{
  fcppt::args_vector args;
  if (given) args.push_back(fcppt::string{FCPPT_TEXT("--f")});
  return op::state{std::move(args)};
}

flag_t mkflag()
{
  auto act{op::make_active_value(mk(0))};
  auto inact{op::make_inactive_value(mk(1))};
  begin_op();
  return flag_t{op::optional_short_name{}, op::long_name{FCPPT_TEXT("f")}, std::move(act), std::move(inact), op::optional_help_text{}};
}

void options_flag_ctor()
{
  msgs const m = C05_MSGS("options::flag ctor");
  reset();
  flag_t const f{mkflag()};
  verif_assert(g_copies == 0, m.nocopy);
  verif_assert(g_errors == 0, m.noerr); // in particular: the constructor does not look at the values it has just moved from
  verif_reach("end");
}

void options_flag_parse()
{
  msgs const m = C05_MSGS("options::flag parse");
  reset();
  flag_t const f{mkflag()};
  g_errors = 0; // the constructor has its own harness
  bool const given{(verif_u8("given") & 1U) != 0U};
  op::parse_context const ctx{op::option_name_set{}};
  auto const r{f.parse(mkstate(given), ctx)};
  verif_assert(r.has_success(), m.count);
  census c;
  c.note(fcppt::record::get<lab>(r.get_success_unsafe().value()));
  verif_assert(c.of(0) == (given ? 1 : 0) && c.of(1) == (given ? 0 : 1), m.count);
  // the parser is const: a second parse must find the stored values intact
  auto const r2{f.parse(mkstate(!given), ctx)};
  verif_assert(r2.has_success(), m.count);
  census d;
  d.note(fcppt::record::get<lab>(r2.get_success_unsafe().value()));
  verif_assert(d.of(0) == (given ? 0 : 1) && d.of(1) == (given ? 1 : 0), m.unchanged);
  verif_assert(g_errors == 0, m.noerr);
  verif_out("given", given);
  verif_reach("end");
}

void options_option_many()
{
  msgs const m = C05_MSGS("options::option/many ctor, option::parse with default");
  reset();
  bool const has_default{(verif_u8("has_default") & 1U) != 0U};
  auto def{op::make_default_value(has_default ? fcppt::optional::object<elem>{mk(0)} : fcppt::optional::object<elem>{})};
  begin_op();
  option_t o{op::optional_short_name{}, op::long_name{FCPPT_TEXT("f")}, std::move(def), op::optional_help_text{}};
  verif_assert(g_copies == 0 && g_moves == (has_default ? 1 : 0), m.nocopy);
  op::parse_context const ctx{op::option_name_set{}};
  auto const r{o.parse(mkstate(false), ctx)};
  verif_assert(r.has_success() == has_default, m.count);
  census c;
  if (r.has_success()) c.note(fcppt::record::get<lab>(r.get_success_unsafe().value()));
  verif_assert(c.of(0) == (has_default ? 1 : 0), m.count);
  // many(Parser &&) moves the parser (and the default value in it) without copying
  int const copies_before{g_copies};
  op::many<option_t> const many{std::move(o)};
  verif_assert(g_copies == copies_before, m.nocopy);
  verif_assert(g_errors == 0, m.noerr);
  verif_out("has_default", has_default);
  verif_reach("end");
}

// ---------------------------------------------------------------- running many / optional
using argument_t = op::argument<lab, elem>;
option_t mkoption() { return option_t{op::optional_short_name{}, op::long_name{FCPPT_TEXT("f")}, op::make_default_value(fcppt::optional::object<elem>{}), op::optional_help_text{}}; }
argument_t mkargument() { return argument_t{op::long_name{FCPPT_TEXT("a")}, op::optional_help_text{}}; }
void check_in_order(std::vector<elem> const &v, unsigned const n, msgs const &m)
{
  verif_assert(v.size() == n, m.count);
  census c;
  for (unsigned i = 0; i < v.size(); ++i)
  {
    c.note(v[i]);
    verif_assert(v[i].read() == static_cast<int>(i), m.count); // i-th repetition -> i-th converted element
  }
  for (unsigned i = 0; i < n; ++i) verif_assert(c.of(static_cast<int>(i)) == 1, m.count);
}

void options_many_argument()
{
  msgs const m = C05_MSGS("options::many(argument) parse");
  reset();
  g_next_id = 0;
  unsigned const n{static_cast<unsigned>(verif_param("n"))};
  unsigned const bad{static_cast<unsigned>(verif_param("bad"))}; // position of an unconvertible token, n = none
  fcppt::args_vector args;
  for (unsigned i = 0; i < n; ++i) args.push_back(i == bad ? fcppt::string{"bad"} : fcppt::string{"tok"});
  op::many<argument_t> const parser{mkargument()};
  begin_op();
  auto const r{op::parse(parser, args)};
  verif_assert(r.has_success() == (bad >= n), m.count);
  if (r.has_success()) check_in_order(fcppt::record::get<lab>(r.get_success_unsafe()), n, m);
  verif_assert(g_next_id == static_cast<int>(bad < n ? bad : n), m.count); // every token is converted exactly once, none after the bad one
  verdict<RV>(m);
  verif_reach("end");
}

void options_many_option()
{
  msgs const m = C05_MSGS("options::many(option) parse");
  reset();
  g_next_id = 0;
  unsigned const n{static_cast<unsigned>(verif_param("n"))};
  fcppt::args_vector args;
  for (unsigned i = 0; i < n; ++i)
  {
    args.push_back(fcppt::string{"--f"});
    args.push_back(fcppt::string{"tok"});
  }
  op::many<option_t> const parser{mkoption()};
  begin_op();
  auto const r{op::parse(parser, args)};
  verif_assert(r.has_success(), m.count);
  check_in_order(fcppt::record::get<lab>(r.get_success_unsafe()), n, m);
  verif_assert(g_next_id == static_cast<int>(n), m.count);
  verdict<RV>(m);
  verif_reach("end");
}

void options_optional_argument()
{
  msgs const m = C05_MSGS("options::optional(argument) parse");
  reset();
  g_next_id = 0;
  unsigned const n{static_cast<unsigned>(verif_param("n"))};
  fcppt::args_vector args;
  for (unsigned i = 0; i < n; ++i) args.push_back(fcppt::string{"tok"});
  op::optional<argument_t> const parser{mkargument()};
  begin_op();
  auto const r{op::parse(parser, args)};
  verif_assert(r.has_success(), m.count);
  fcppt::optional::object<elem> const &o{fcppt::record::get<lab>(r.get_success_unsafe())};
  verif_assert(o.has_value() == (n == 1), m.count);
  census c;
  if (o.has_value()) c.note(o.get_unsafe());
  verif_assert(c.of(0) == (n == 1 ? 1 : 0) && g_next_id == static_cast<int>(n), m.count);
  verdict<RV>(m);
  verif_reach("end");
}
}

VERIF_HARNESS(h_options_flag_ctor) { options_flag_ctor(); }
//@harness h_options_flag_ctor tier=quick throws=_ZTIN5fcppt7options9exceptionE
VERIF_HARNESS(h_options_flag_parse) { options_flag_parse(); }
//@harness h_options_flag_parse tier=quick throws=_ZTIN5fcppt7options9exceptionE
VERIF_HARNESS(h_options_option_many) { options_option_many(); }
//@harness h_options_option_many tier=quick throws=_ZTIN5fcppt7options9exceptionE
VERIF_HARNESS(h_options_many_argument) { options_many_argument(); }
//@harness h_options_many_argument param n=0..3 param bad=0..3 if bad<=n tier=quick loop=200 throws=_ZTIN5fcppt7options9exceptionE
//@harness h_options_many_argument param n=4 param bad=0,2,4 tier=thorough loop=200 throws=_ZTIN5fcppt7options9exceptionE
VERIF_HARNESS(h_options_many_option) { options_many_option(); }
//@harness h_options_many_option param n=0..3 tier=quick loop=200 throws=_ZTIN5fcppt7options9exceptionE
//@harness h_options_many_option param n=4 tier=thorough loop=200 throws=_ZTIN5fcppt7options9exceptionE
VERIF_HARNESS(h_options_optional_argument) { options_optional_argument(); }
//@harness h_options_optional_argument param n=0..1 tier=quick loop=200 throws=_ZTIN5fcppt7options9exceptionE
