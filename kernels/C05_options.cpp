// C05 (options constructors) - the parser constructors take their values by rvalue: they must move them in without
// copying and must not read them afterwards; parse() on the (const) parser must leave the stored values untouched.
// Real code: fcppt::options::{flag, option, many} constructors and parse() (flag: flag given / not given, option:
// default value used) with the instrumented element type of C05_common.hpp as the value type, on top of a unity
// build of libs/options.
// Outside the claim: parsing a value of the element type from a string (fcppt::extract_from_string: iostreams are not
// executable in the engine; operator>> / operator<< below exist only to satisfy the templates), usage()/help texts,
// fcppt::parse::sequence / repetition (their only entry points need a std::istream).
// Violation on the unchanged tree (triaged as genuine): h_options_flag_ctor: the flag constructor compares
//   `_active_value.get() == _inactive_value.get()` AFTER both parameters were moved into the members; with
//   Type = std::string the moved-from strings are both empty and the constructor throws "The active and the inactive
//   value must be different" for any two distinct strings.
//@property C05
//@unity options
//@flags -I/repo/_build/impl/include
#define C05_DEFAULT_CTOR
#include "C05_common.hpp"
#include <istream>
#include <ostream>
namespace c05
{
template <int K>
std::ostream &operator<<(std::ostream &s, elem_t<K> const &e)
{
  return s << e.id;
}
template <int K>
std::istream &operator>>(std::istream &s, elem_t<K> &e)
{
  return s >> e.id;
}
}
#include <fcppt/args_vector.hpp>
#include <fcppt/string.hpp>
#include <fcppt/text.hpp>
#include <fcppt/either/object_impl.hpp>
#include <fcppt/optional/object_impl.hpp>
#include <fcppt/options/flag.hpp>
#include <fcppt/options/long_name.hpp>
#include <fcppt/options/make_active_value.hpp>
#include <fcppt/options/make_default_value.hpp>
#include <fcppt/options/make_inactive_value.hpp>
#include <fcppt/options/many_impl.hpp>
#include <fcppt/options/option.hpp>
#include <fcppt/options/option_name_set.hpp>
#include <fcppt/options/optional_help_text.hpp>
#include <fcppt/options/optional_short_name.hpp>
#include <fcppt/options/parse_context.hpp>
#include <fcppt/options/state.hpp>
#include <fcppt/record/get.hpp>
#include <fcppt/record/make_label.hpp>
#include "unity_options.hpp"
// the few non-template core functions the options library links against
#include "libs/core/src/exception.cpp"
#include "libs/core/src/from_std_string.cpp"
#include "libs/core/src/insert_extract_locale.cpp"
#include "libs/core/src/type_name.cpp"
#include "libs/core/src/type_name_from_info.cpp"
#include <utility>

namespace
{
using namespace c05;
namespace op = fcppt::options;
FCPPT_RECORD_MAKE_LABEL(lab);
using flag_t = op::flag<lab, elem>;
using option_t = op::option<lab, elem>;

op::state mkstate(bool const given)
{
  fcppt::args_vector args;
  if (given) args.push_back(fcppt::string{FCPPT_TEXT("--f")});
  return op::state{std::move(args)};
}

flag_t mkflag()
{
  auto act{op::make_active_value(mk(0))};
  auto inact{op::make_inactive_value(mk(1))};
  begin_op();
  return flag_t{op::optional_short_name{}, op::long_name{FCPPT_TEXT("f")}, std::move(act), std::move(inact), op::optional_help_text{}};
}

void options_flag_ctor()
{
  msgs const m = C05_MSGS("options::flag ctor");
  reset();
  flag_t const f{mkflag()};
  verif_assert(g_copies == 0, m.nocopy);
  verif_assert(g_errors == 0, m.noerr); // in particular: the constructor does not look at the values it has just moved from
  verif_reach("end");
}

void options_flag_parse()
{
  msgs const m = C05_MSGS("options::flag parse");
  reset();
  flag_t const f{mkflag()};
  g_errors = 0; // the constructor has its own harness
  bool const given{(verif_u8("given") & 1U) != 0U};
  op::parse_context const ctx{op::option_name_set{}};
  auto const r{f.parse(mkstate(given), ctx)};
  verif_assert(r.has_success(), m.count);
  census c;
  c.note(fcppt::record::get<lab>(r.get_success_unsafe().value()));
  verif_assert(c.of(0) == (given ? 1 : 0) && c.of(1) == (given ? 0 : 1), m.count);
  // the parser is const: a second parse must find the stored values intact
  auto const r2{f.parse(mkstate(!given), ctx)};
  verif_assert(r2.has_success(), m.count);
  census d;
  d.note(fcppt::record::get<lab>(r2.get_success_unsafe().value()));
  verif_assert(d.of(0) == (given ? 0 : 1) && d.of(1) == (given ? 1 : 0), m.unchanged);
  verif_assert(g_errors == 0, m.noerr);
  verif_out("given", given);
  verif_reach("end");
}

void options_option_many()
{
  msgs const m = C05_MSGS("options::option/many ctor, option::parse with default");
  reset();
  bool const has_default{(verif_u8("has_default") & 1U) != 0U};
  auto def{op::make_default_value(has_default ? fcppt::optional::object<elem>{mk(0)} : fcppt::optional::object<elem>{})};
  begin_op();
  option_t o{op::optional_short_name{}, op::long_name{FCPPT_TEXT("f")}, std::move(def), op::optional_help_text{}};
  verif_assert(g_copies == 0 && g_moves == (has_default ? 1 : 0), m.nocopy);
  op::parse_context const ctx{op::option_name_set{}};
  auto const r{o.parse(mkstate(false), ctx)};
  verif_assert(r.has_success() == has_default, m.count);
  census c;
  if (r.has_success()) c.note(fcppt::record::get<lab>(r.get_success_unsafe().value()));
  verif_assert(c.of(0) == (has_default ? 1 : 0), m.count);
  // many(Parser &&) moves the parser (and the default value in it) without copying
  int const copies_before{g_copies};
  op::many<option_t> const many{std::move(o)};
  verif_assert(g_copies == copies_before, m.nocopy);
  verif_assert(g_errors == 0, m.noerr);
  verif_out("has_default", has_default);
  verif_reach("end");
}
}

VERIF_HARNESS(h_options_flag_ctor) { options_flag_ctor(); }
//@harness h_options_flag_ctor tier=quick throws=_ZTIN5fcppt7options9exceptionE
VERIF_HARNESS(h_options_flag_parse) { options_flag_parse(); }
//@harness h_options_flag_parse tier=quick throws=_ZTIN5fcppt7options9exceptionE
VERIF_HARNESS(h_options_option_many) { options_option_many(); }
//@harness h_options_option_many tier=quick throws=_ZTIN5fcppt7options9exceptionE
