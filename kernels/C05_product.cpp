// C05 (tuple / array / record) - rvalue arguments are moved, never copied; lvalue arguments are left untouched.
// Same instrumented element type and verdicts as C05_sum.cpp (see C05_common.hpp).  All shapes here are fixed by the
// types (sizes 0..3); payloads are symbolic; array::from_range takes its length as a param (match / mismatch).
// Registered: tuple::{object ctor, make, map, apply, push_back, concat, invoke, from_array}, array::{object ctor, make,
// map, apply, join, append, push_back, from_range}, record::{object ctor, set, map, permute, multiply_disjoint}.
// For an operation documented to keep every element (push_back, concat, join, append, permute, multiply_disjoint,
// from_array, from_range on a matching length) each id must appear exactly once in the result.
// Rejected at compile time for lvalue arguments (so only the rvalue categories are registered): tuple::apply (first
// tuple), tuple::concat, array::join / append / push_back (first array), record::map - each takes a size / element
// metafunction of the unstripped reference type.
// Violation on the unchanged tree (triaged as genuine): h_tuple_apply_rv_*: tuple::apply hands the elements of rvalue
//   tuples to the function as const lvalues (move_if_rvalue is applied to the tuple, tuple::get has no rvalue overload),
//   so move-only elements are rejected and a by-value function copies; tuple::map / array::apply do it right.
//@property C05
#include "C05_common.hpp"
#include <fcppt/array/append.hpp>
#include <fcppt/array/apply.hpp>
#include <fcppt/array/from_range.hpp>
#include <fcppt/array/get.hpp>
#include <fcppt/array/join.hpp>
#include <fcppt/array/make.hpp>
#include <fcppt/array/map.hpp>
#include <fcppt/array/object_impl.hpp>
#include <fcppt/array/push_back.hpp>
#include <fcppt/optional/object_impl.hpp>
#include <fcppt/record/element.hpp>
#include <fcppt/record/get.hpp>
#include <fcppt/record/make_label.hpp>
#include <fcppt/record/map.hpp>
#include <fcppt/record/multiply_disjoint.hpp>
#include <fcppt/record/object_impl.hpp>
#include <fcppt/record/permute.hpp>
#include <fcppt/record/set.hpp>
#include <fcppt/tuple/apply.hpp>
#include <fcppt/tuple/concat.hpp>
#include <fcppt/tuple/from_array.hpp>
#include <fcppt/tuple/get.hpp>
#include <fcppt/tuple/invoke.hpp>
#include <fcppt/tuple/make.hpp>
#include <fcppt/tuple/map.hpp>
#include <fcppt/tuple/object_impl.hpp>
#include <fcppt/tuple/push_back.hpp>
#include <utility>
#include <vector>

namespace
{
using namespace c05;
namespace tup = fcppt::tuple;
namespace arr = fcppt::array;
namespace rec = fcppt::record;

using tup2 = tup::object<elem, elem1>;
using arr2 = arr::object<elem, 2>;

template <int C>
void arg_tup2(tup2 const &t, int const id0, int const id1, msgs const &m)
{
  if constexpr (C != RV) verif_assert(untouched(tup::get<0>(t), id0) && untouched(tup::get<1>(t), id1), m.unchanged);
}
template <int C>
void arg_arr2(arr2 const &a, int const id0, int const id1, msgs const &m)
{
  if constexpr (C != RV) verif_assert(untouched(arr::get<0>(a), id0) && untouched(arr::get<1>(a), id1), m.unchanged);
}
inline void expect_once(census const &c, int const lo, int const hi, msgs const &m)
{
  for (int i = lo; i < hi; ++i) verif_assert(c.of(i) == 1, m.count);
}
template <int C1, int C2>
void verdict2(msgs const &m)
{
  if constexpr (C1 == RV && C2 == RV) verif_assert(g_copies == 0, m.nocopy);
  if constexpr (C1 == RV || C2 == RV) verif_assert(g_lvalue_calls == 0, m.fwd);
  verif_assert(g_errors == 0, m.noerr);
}

// ================================================================ tuple
template <int C>
void tuple_object_make()
{
  msgs const m = C05_MSGS("tuple::object ctor/make");
  reset();
  elem a{mk(0)};
  elem1 b{mk<1>(1)};
  elem c0{mk(2)};
  elem1 d{mk<1>(3)};
  begin_op();
  tup2 const t{as<C>(a), as<C>(b)};
  tup2 const u{tup::make(as<C>(c0), as<C>(d))};
  census c;
  c.note(tup::get<0>(t));
  c.note(tup::get<1>(t));
  c.note(tup::get<0>(u));
  c.note(tup::get<1>(u));
  expect_once(c, 0, 4, m);
  verif_assert(g_copies == (C == RV ? 0 : 4) && g_moves == (C == RV ? 4 : 0), m.count);
  if constexpr (C != RV) verif_assert(untouched(a, 0) && untouched(b, 1) && untouched(c0, 2) && untouched(d, 3), m.unchanged);
  verdict<C>(m);
  verif_reach("end");
}

template <int C>
void tuple_map()
{
  msgs const m = C05_MSGS("tuple::map");
  reset();
  tup2 t{mk(0), mk<1>(1)};
  begin_op();
  tup2 const r{tup::map(as<C>(t), xfc<C>{})};
  census c;
  c.note(tup::get<0>(r));
  c.note(tup::get<1>(r));
  expect_once(c, 0, 2, m);
  arg_tup2<C>(t, 0, 1, m);
  verdict<C>(m);
  verif_reach("end");
}

struct pair_ee
{
  elem a;
  elem b;
};
struct pair_11
{
  elem1 a;
  elem1 b;
};

template <int C1, int C2>
void tuple_apply()
{
  msgs const m = C05_MSGS("tuple::apply");
  reset();
  tup2 t{mk(0), mk<1>(1)};
  tup2 u{mk(2), mk<1>(3)};
  begin_op();
  auto const r{tup::apply(
      [](auto &&x, auto &&y) {
        using R = std::conditional_t<std::is_same_v<std::remove_cvref_t<decltype(x)>, elem>, pair_ee, pair_11>;
        return R{xfc<C1>{}(std::forward<decltype(x)>(x)), xfc<C2>{}(std::forward<decltype(y)>(y))};
      },
      as<C1>(t),
      as<C2>(u))};
  census c;
  c.note(tup::get<0>(r).a);
  c.note(tup::get<0>(r).b);
  c.note(tup::get<1>(r).a);
  c.note(tup::get<1>(r).b);
  expect_once(c, 0, 4, m);
  arg_tup2<C1>(t, 0, 1, m);
  arg_tup2<C2>(u, 2, 3, m);
  verdict2<C1, C2>(m);
  verif_reach("end");
}

template <int C1, int C2>
void tuple_push_back_concat()
{
  msgs const m = C05_MSGS("tuple::push_back/concat");
  reset();
  tup2 t{mk(0), mk<1>(1)};
  elem2 e{mk<2>(2)};
  tup2 u{mk(3), mk<1>(4)};
  tup::object<elem2> w{mk<2>(5)};
  begin_op();
  tup::object<elem, elem1, elem2> const r{tup::push_back(as<C1>(t), as<C2>(e))};
  census c;
  c.note(tup::get<0>(r));
  c.note(tup::get<1>(r));
  c.note(tup::get<2>(r));
  expect_once(c, 0, 3, m);
  // tuple::concat rejects lvalue tuples at compile time (enable_if on is_object<Tuples> without remove_cvref)
  if constexpr (C1 == RV && C2 == RV)
  {
    tup::object<elem, elem1, elem2> const s{tup::concat(as<C1>(u), as<C2>(w))};
    c.note(tup::get<0>(s));
    c.note(tup::get<1>(s));
    c.note(tup::get<2>(s));
    expect_once(c, 3, 6, m);
  }
  arg_tup2<C1>(t, 0, 1, m);
  if constexpr (C2 != RV) verif_assert(untouched(e, 2), m.unchanged);
  verdict2<C1, C2>(m);
  verif_reach("end");
}

template <int C>
void tuple_invoke_from_array()
{
  msgs const m = C05_MSGS("tuple::invoke/from_array");
  reset();
  tup2 t{mk(0), mk<1>(1)};
  arr2 a{mk(2), mk(3)};
  begin_op();
  census c;
  int const r{tup::invoke(
      [&c](auto &&x, auto &&y) {
        elem const p{xfc<C>{}(std::forward<decltype(x)>(x))};
        elem1 const q{xfc<C>{}(std::forward<decltype(y)>(y))};
        c.note(p);
        c.note(q);
        return 7;
      },
      as<C>(t))};
  tup::object<elem, elem> const fa{tup::from_array(as<C>(a))};
  c.note(tup::get<0>(fa));
  c.note(tup::get<1>(fa));
  verif_assert(r == 7, m.count);
  expect_once(c, 0, 4, m);
  arg_tup2<C>(t, 0, 1, m);
  arg_arr2<C>(a, 2, 3, m);
  verdict<C>(m);
  verif_reach("end");
}

// ================================================================ array
template <int C>
void array_object_make()
{
  msgs const m = C05_MSGS("array::object ctor/make");
  reset();
  elem a{mk(0)}, b{mk(1)}, c0{mk(2)}, d{mk(3)};
  begin_op();
  arr2 const x{as<C>(a), as<C>(b)};
  arr2 const y{arr::make(as<C>(c0), as<C>(d))};
  census c;
  for (elem const &e : x) c.note(e);
  for (elem const &e : y) c.note(e);
  expect_once(c, 0, 4, m);
  verif_assert(g_copies == (C == RV ? 0 : 4) && g_moves == (C == RV ? 4 : 0), m.count);
  if constexpr (C != RV) verif_assert(untouched(a, 0) && untouched(b, 1) && untouched(c0, 2) && untouched(d, 3), m.unchanged);
  verdict<C>(m);
  verif_reach("end");
}

template <int C>
void array_map()
{
  msgs const m = C05_MSGS("array::map");
  reset();
  arr2 a{mk(0), mk(1)};
  begin_op();
  arr2 const r{arr::map(as<C>(a), xfc<C>{})};
  census c;
  for (elem const &e : r) c.note(e);
  expect_once(c, 0, 2, m);
  arg_arr2<C>(a, 0, 1, m);
  verdict<C>(m);
  verif_reach("end");
}

template <int C1, int C2>
void array_apply()
{
  msgs const m = C05_MSGS("array::apply");
  reset();
  arr2 a{mk(0), mk(1)};
  arr2 b{mk(2), mk(3)};
  begin_op();
  arr::object<pair_ee, 2> const r{arr::apply(
      [](auto &&x, auto &&y) { return pair_ee{xfc<C1>{}(std::forward<decltype(x)>(x)), xfc<C2>{}(std::forward<decltype(y)>(y))}; }, as<C1>(a), as<C2>(b))};
  census c;
  for (pair_ee const &p : r)
  {
    c.note(p.a);
    c.note(p.b);
  }
  expect_once(c, 0, 4, m);
  arg_arr2<C1>(a, 0, 1, m);
  arg_arr2<C2>(b, 2, 3, m);
  verdict2<C1, C2>(m);
  verif_reach("end");
}

template <int C1, int C2>
void array_join_append_push_back()
{
  msgs const m = C05_MSGS("array::join/append/push_back");
  reset();
  arr2 a{mk(0), mk(1)}, b{mk(2), mk(3)}, p{mk(4), mk(5)}, q{mk(6), mk(7)}, s{mk(8), mk(9)};
  arr::object<elem, 1> one{mk(10)};
  elem last{mk(11)};
  begin_op();
  arr::object<elem, 5> const j{arr::join(as<C1>(a), as<C2>(b), as<C2>(one))};
  census c;
  for (elem const &e : j) c.note(e);
  expect_once(c, 0, 4, m);
  verif_assert(c.of(10) == 1, m.count);
  // order is kept
  verif_assert(arr::get<0>(j).read() % derived == 0 && arr::get<2>(j).read() % derived == 2 && arr::get<4>(j).read() % derived == 10, m.count);
  // array::append / push_back reject an lvalue first array at compile time (array::size<Array1> on a reference type)
  if constexpr (C1 == RV)
  {
    arr::object<elem, 4> const ap{arr::append(as<C1>(p), as<C2>(q))};
    arr::object<elem, 3> const pb{arr::push_back(as<C1>(s), as<C2>(last))};
    for (elem const &e : ap) c.note(e);
    for (elem const &e : pb) c.note(e);
    expect_once(c, 4, 10, m);
    verif_assert(c.of(11) == 1, m.count);
    verif_assert(arr::get<3>(ap).read() == 7 && arr::get<2>(pb).read() == 11, m.count);
    arg_arr2<C2>(q, 6, 7, m);
    if constexpr (C2 != RV) verif_assert(untouched(last, 11), m.unchanged);
  }
  arg_arr2<C1>(a, 0, 1, m);
  arg_arr2<C2>(b, 2, 3, m);
  if constexpr (C2 != RV) verif_assert(untouched(arr::get<0>(one), 10), m.unchanged);
  verdict2<C1, C2>(m);
  verif_reach("end");
}

template <int C>
void array_from_range()
{
  msgs const m = C05_MSGS("array::from_range");
  reset();
  unsigned const n{static_cast<unsigned>(verif_param("n"))};
  std::vector<elem> v;
  v.reserve(3);
  for (unsigned i = 0; i < n; ++i) v.push_back(mk(static_cast<int>(i)));
  begin_op();
  fcppt::optional::object<arr2> const r{arr::from_range<2>(as<C>(v))};
  census c;
  if (r.has_value())
    for (elem const &e : r.get_unsafe()) c.note(e);
  verif_assert(r.has_value() == (n == 2), m.count);
  for (unsigned i = 0; i < n; ++i) verif_assert(c.of(static_cast<int>(i)) == (n == 2 ? 1 : 0), m.count);
  if (n != 2) verif_assert(g_moves == 0 && g_copies == 0, m.nomove);
  if constexpr (C != RV)
  {
    verif_assert(v.size() == n, m.unchanged);
    for (unsigned i = 0; i < n; ++i) verif_assert(untouched(v[i], static_cast<int>(i)), m.unchanged);
  }
  verdict<C>(m);
  verif_reach("end");
}

// ================================================================ record
FCPPT_RECORD_MAKE_LABEL(la);
FCPPT_RECORD_MAKE_LABEL(lb);
FCPPT_RECORD_MAKE_LABEL(lc);
using rec_ab = rec::object<rec::element<la, elem>, rec::element<lb, elem1>>;
using rec_ba = rec::object<rec::element<lb, elem1>, rec::element<la, elem>>;
using rec_c = rec::object<rec::element<lc, elem2>>;
using rec_abc = rec::object<rec::element<la, elem>, rec::element<lb, elem1>, rec::element<lc, elem2>>;

template <int C>
void arg_rec_ab(rec_ab const &r, int const id0, int const id1, msgs const &m)
{
  if constexpr (C != RV) verif_assert(untouched(rec::get<la>(r), id0) && untouched(rec::get<lb>(r), id1), m.unchanged);
}

template <int C>
void record_object_set()
{
  msgs const m = C05_MSGS("record::object ctor/set");
  reset();
  elem a{mk(0)};
  elem1 b{mk<1>(1)};
  elem a2{mk(2)};
  begin_op();
  rec_ab r{la{} = as<C>(a), lb{} = as<C>(b)};
  census c;
  c.note(rec::get<la>(r));
  c.note(rec::get<lb>(r));
  expect_once(c, 0, 2, m);
  rec::set<la>(r, as<C>(a2));
  census d;
  d.note(rec::get<la>(r));
  d.note(rec::get<lb>(r));
  verif_assert(d.of(2) == 1 && d.of(1) == 1 && d.of(0) == 0, m.count);
  if constexpr (C != RV) verif_assert(untouched(a, 0) && untouched(b, 1) && untouched(a2, 2), m.unchanged);
  verdict<C>(m);
  verif_reach("end");
}

template <int C>
void record_map_permute()
{
  msgs const m = C05_MSGS("record::map/permute");
  reset();
  rec_ab r{la{} = mk(0), lb{} = mk<1>(1)};
  rec_ab s{la{} = mk(2), lb{} = mk<1>(3)};
  begin_op();
  census c;
  // record::map rejects lvalue records at compile time (map_result instantiates element_vector on a reference type)
  if constexpr (C == RV)
  {
    rec_ab const mapped{rec::map(as<C>(r), xfc<C>{})};
    c.note(rec::get<la>(mapped));
    c.note(rec::get<lb>(mapped));
    expect_once(c, 0, 2, m);
  }
  rec_ba const perm{rec::permute<rec_ba>(as<C>(s))};
  c.note(rec::get<la>(perm));
  c.note(rec::get<lb>(perm));
  expect_once(c, 2, 4, m);
  verif_assert(rec::get<la>(perm).id == 2 && rec::get<lb>(perm).id == 3, m.count);
  arg_rec_ab<C>(s, 2, 3, m);
  verdict<C>(m);
  verif_reach("end");
}

template <int C1, int C2>
void record_multiply_disjoint()
{
  msgs const m = C05_MSGS("record::multiply_disjoint");
  reset();
  rec_ab r{la{} = mk(0), lb{} = mk<1>(1)};
  rec_c s{lc{} = mk<2>(2)};
  begin_op();
  auto const p{rec::multiply_disjoint(as<C1>(r), as<C2>(s))};
  census c;
  c.note(rec::get<la>(p));
  c.note(rec::get<lb>(p));
  c.note(rec::get<lc>(p));
  expect_once(c, 0, 3, m);
  arg_rec_ab<C1>(r, 0, 1, m);
  if constexpr (C2 != RV) verif_assert(untouched(rec::get<lc>(s), 2), m.unchanged);
  verdict2<C1, C2>(m);
  verif_reach("end");
}
}

#define H3(name, fn) \
  VERIF_HARNESS(name##_rv) { fn<RV>(); } \
  VERIF_HARNESS(name##_lv) { fn<LV>(); } \
  VERIF_HARNESS(name##_clv) { fn<CLV>(); }
#define H22(name, fn) \
  VERIF_HARNESS(name##_rv_rv) { fn<RV, RV>(); } \
  VERIF_HARNESS(name##_rv_lv) { fn<RV, LV>(); } \
  VERIF_HARNESS(name##_lv_rv) { fn<LV, RV>(); } \
  VERIF_HARNESS(name##_lv_lv) { fn<LV, LV>(); } \
  VERIF_HARNESS(name##_clv_clv) { fn<CLV, CLV>(); }

H3(h_tuple_object_make, tuple_object_make)
//@harness h_tuple_object_make_{C} for C in rv,lv,clv tier=quick
H3(h_tuple_map, tuple_map)
//@harness h_tuple_map_{C} for C in rv,lv,clv tier=quick
// tuple::apply rejects an lvalue first tuple at compile time (apply_result takes tuple::size of the unstripped type)
VERIF_HARNESS(h_tuple_apply_rv_rv) { tuple_apply<RV, RV>(); }
VERIF_HARNESS(h_tuple_apply_rv_lv) { tuple_apply<RV, LV>(); }
VERIF_HARNESS(h_tuple_apply_rv_clv) { tuple_apply<RV, CLV>(); }
//@harness h_tuple_apply_{C} for C in rv_rv,rv_lv,rv_clv tier=quick
H22(h_tuple_push_back_concat, tuple_push_back_concat)
//@harness h_tuple_push_back_concat_{C} for C in rv_rv,rv_lv,lv_rv,lv_lv,clv_clv tier=quick
H3(h_tuple_invoke_from_array, tuple_invoke_from_array)
//@harness h_tuple_invoke_from_array_{C} for C in rv,lv,clv tier=quick
H3(h_array_object_make, array_object_make)
//@harness h_array_object_make_{C} for C in rv,lv,clv tier=quick
H3(h_array_map, array_map)
//@harness h_array_map_{C} for C in rv,lv,clv tier=quick
H22(h_array_apply, array_apply)
//@harness h_array_apply_{C} for C in rv_rv,rv_lv,lv_rv,lv_lv,clv_clv tier=quick
// array::join / append / push_back reject an lvalue first array at compile time (array::size<Array1> on a reference type)
VERIF_HARNESS(h_array_join_append_push_back_rv_rv) { array_join_append_push_back<RV, RV>(); }
VERIF_HARNESS(h_array_join_append_push_back_rv_lv) { array_join_append_push_back<RV, LV>(); }
VERIF_HARNESS(h_array_join_append_push_back_rv_clv) { array_join_append_push_back<RV, CLV>(); }
//@harness h_array_join_append_push_back_{C} for C in rv_rv,rv_lv,rv_clv tier=quick
H3(h_array_from_range, array_from_range)
//@harness h_array_from_range_{C} for C in rv,lv,clv param n=0..3 tier=quick
H3(h_record_object_set, record_object_set)
//@harness h_record_object_set_{C} for C in rv,lv,clv tier=quick
H3(h_record_map_permute, record_map_permute)
//@harness h_record_map_permute_{C} for C in rv,lv,clv tier=quick
H22(h_record_multiply_disjoint, record_multiply_disjoint)
//@harness h_record_multiply_disjoint_{C} for C in rv_rv,rv_lv,lv_rv,lv_lv,clv_clv tier=quick
