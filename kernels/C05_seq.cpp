// C05 (ranges and containers) - rvalue arguments are moved, never copied; lvalue arguments are left untouched.
// Same instrumented element type and verdicts as C05_sum.cpp (see C05_common.hpp).  Lengths n = 0..3 (thorough: 4) are params,
// payloads, predicate results and break positions are symbolic.
// Registered: algorithm::{map, fold, fold_break, map_concat, map_optional, reverse, remove_if, generate_n},
// container::{join, pop_back, pop_front, get_or_insert, make}, optional::{cat, sequence}, either::sequence.
//   algorithm::map / optional::cat / optional::sequence / either::sequence / container::join pass the elements of an
//   rvalue range on by move (asserted: the continuation / result gets the very same element, nothing is copied);
//   fold / fold_break / map_concat / map_optional hand the continuation an lvalue by design, so only "no copy made by
//   the library, argument untouched" is asserted for them;
//   pop_back / pop_front / remove_if / get_or_insert mutate their container argument by contract: asserted is that
//   nothing is copied and every element is afterwards either in the container or in the result, exactly once.
// Outside the claim: lengths > 3; either::sequence on lvalue ranges (rejected at compile time).
//@property C05
//@models rbtree
#include "C05_common.hpp"
#include <fcppt/loop.hpp>
#include <fcppt/algorithm/fold.hpp>
#include <fcppt/algorithm/fold_break.hpp>
#include <fcppt/algorithm/generate_n.hpp>
#include <fcppt/algorithm/map.hpp>
#include <fcppt/algorithm/map_concat.hpp>
#include <fcppt/algorithm/map_optional.hpp>
#include <fcppt/algorithm/remove_if.hpp>
#include <fcppt/algorithm/reverse.hpp>
#include <fcppt/container/get_or_insert.hpp>
#include <fcppt/container/join.hpp>
#include <fcppt/container/make.hpp>
#include <fcppt/container/pop_back.hpp>
#include <fcppt/container/pop_front.hpp>
#include <fcppt/either/object_impl.hpp>
#include <fcppt/either/sequence.hpp>
#include <fcppt/optional/cat.hpp>
#include <fcppt/optional/object_impl.hpp>
#include <fcppt/optional/sequence.hpp>
#include <deque>
#include <map>
#include <utility>
#include <vector>

namespace
{
using namespace c05;
namespace alg = fcppt::algorithm;
namespace con = fcppt::container;
namespace opt = fcppt::optional;
namespace ei = fcppt::either;
using vec = std::vector<elem>;
inline bool symb(char const *const n) { return (verif_u8(n) & 1U) != 0U; }
inline unsigned param_n() { return static_cast<unsigned>(verif_param("n")); }

vec mkvec(unsigned const n, int const base = 0)
{
  vec v;
  for (unsigned i = 0; i < n; ++i) v.push_back(mk(base + static_cast<int>(i)));
  return v;
}
template <int C>
void arg_vec(vec const &v, unsigned const n, int const base, msgs const &m)
{
  if constexpr (C != RV)
  {
    verif_assert(v.size() == n, m.unchanged);
    for (unsigned i = 0; i < n; ++i) verif_assert(untouched(v[i], base + static_cast<int>(i)), m.unchanged);
  }
}
void note_vec(census &c, vec const &v)
{
  for (elem const &e : v) c.note(e);
}
void expect_once(census const &c, int const lo, int const hi, msgs const &m)
{
  for (int i = lo; i < hi; ++i) verif_assert(c.of(i) == 1, m.count);
}
bool in_order(vec const &v, int const base)
{
  bool ok{true};
  for (unsigned i = 0; i < v.size(); ++i) ok = ok && v[i].read() % derived == base + static_cast<int>(i);
  return ok;
}

// ================================================================ algorithm
template <int C>
void algorithm_map()
{
  msgs const m = C05_MSGS("algorithm::map");
  reset();
  unsigned const n{param_n()};
  vec v{mkvec(n)};
  begin_op();
  vec const r{alg::map<vec>(as<C>(v), xfc<C>{})};
  std::deque<elem> const d{alg::map<std::deque<elem>>(mkvec(n, 4), xfc<RV>{})}; // another target container
  census c;
  note_vec(c, r);
  for (elem const &e : d) c.note(e);
  verif_assert(r.size() == n && d.size() == n && in_order(r, 0), m.count);
  expect_once(c, 0, static_cast<int>(n), m);
  expect_once(c, 4, 4 + static_cast<int>(n), m);
  arg_vec<C>(v, n, 0, m);
  verdict<C>(m);
  verif_reach("end");
}

template <int C>
void algorithm_fold()
{
  msgs const m = C05_MSGS("algorithm::fold/fold_break");
  reset();
  unsigned const n{param_n()};
  unsigned const stop{verif_u8("stop")}; // fold_break: break at this element
  verif_assume(stop <= n);
  vec v{mkvec(n)}, w{mkvec(n, 4)};
  begin_op();
  vec const r{alg::fold(as<C>(v), vec{}, [](auto &&e, vec &&st) {
    st.push_back(xf{}(std::forward<decltype(e)>(e)));
    return std::move(st);
  })};
  unsigned idx{0};
  vec const b{alg::fold_break(as<C>(w), vec{}, [&idx, stop](auto &&e, vec &&st) {
    bool const brk{idx++ == stop};
    if (!brk) st.push_back(xf{}(std::forward<decltype(e)>(e)));
    return std::make_pair(brk ? fcppt::loop::break_ : fcppt::loop::continue_, std::move(st));
  })};
  census c;
  note_vec(c, r);
  note_vec(c, b);
  verif_assert(r.size() == n && in_order(r, 0) && b.size() == stop && in_order(b, 4), m.count);
  expect_once(c, 0, static_cast<int>(n), m);
  for (unsigned i = 0; i < n; ++i) verif_assert(c.of(4 + static_cast<int>(i)) == (i < stop ? 1 : 0), m.count);
  verif_assert(g_copies == 0, m.nocopy); // the state is moved through, the elements are only handed out by reference
  arg_vec<C>(v, n, 0, m);
  arg_vec<C>(w, n, 4, m);
  verdict<C>(m);
  verif_reach("end");
}

template <int C>
void algorithm_map_concat_optional()
{
  msgs const m = C05_MSGS("algorithm::map_concat/map_optional");
  reset();
  unsigned const n{param_n()};
  vec v{mkvec(n)}, w{mkvec(n, 4)};
  begin_op();
  vec const r{alg::map_concat<vec>(as<C>(v), [](auto &&e) {
    vec one;
    one.push_back(xf{}(std::forward<decltype(e)>(e)));
    return one;
  })};
  vec const o{alg::map_optional<vec>(as<C>(w), [](auto &&e) {
    return (verif_uf1(1, e.val) & 1U) != 0U ? opt::object<elem>{xf{}(std::forward<decltype(e)>(e))} : opt::object<elem>{};
  })};
  census c;
  note_vec(c, r);
  note_vec(c, o);
  verif_assert(r.size() == n && in_order(r, 0), m.count);
  expect_once(c, 0, static_cast<int>(n), m);
  for (unsigned i = 0; i < n; ++i) verif_assert(c.of(4 + static_cast<int>(i)) == ((verif_uf1(1, g_val[4 + i]) & 1U) != 0U ? 1 : 0), m.count);
  verif_assert(g_copies == 0, m.nocopy); // results of the continuation are moved into the target, never copied
  arg_vec<C>(v, n, 0, m);
  arg_vec<C>(w, n, 4, m);
  verdict<C>(m);
  verif_reach("end");
}

template <int C>
void algorithm_reverse()
{
  msgs const m = C05_MSGS("algorithm::reverse");
  reset();
  unsigned const n{param_n()};
  vec v{mkvec(n)};
  begin_op();
  vec const r{alg::reverse(as<C>(v))};
  census c;
  note_vec(c, r);
  verif_assert(r.size() == n, m.count);
  for (unsigned i = 0; i < n; ++i) verif_assert(r[i].read() == static_cast<int>(n - 1 - i), m.count);
  expect_once(c, 0, static_cast<int>(n), m);
  arg_vec<C>(v, n, 0, m);
  verdict<C>(m);
  verif_reach("end");
}

void algorithm_remove_if_generate_n()
{
  msgs const m = C05_MSGS("algorithm::remove_if/generate_n");
  reset();
  unsigned const n{param_n()};
  vec v{mkvec(n)};
  begin_op();
  bool const removed{alg::remove_if(v, [](elem const &e) { return (verif_uf1(1, e.val) & 1U) != 0U; })};
  int next{4};
  vec const g{alg::generate_n<vec>(n, [&next] { return mk(next++); })};
  census c;
  note_vec(c, v);
  note_vec(c, g);
  bool any{false};
  for (unsigned i = 0; i < n; ++i)
  {
    bool const rm{(verif_uf1(1, g_val[i]) & 1U) != 0U};
    any = any || rm;
    verif_assert(c.of(static_cast<int>(i)) == (rm ? 0 : 1), m.count);
  }
  verif_assert(removed == any && g.size() == n && in_order(g, 4), m.count);
  expect_once(c, 4, 4 + static_cast<int>(n), m);
  verdict<RV>(m);
  verif_reach("end");
}

// ================================================================ container
template <int C1, int C2>
void container_join()
{
  msgs const m = C05_MSGS("container::join");
  reset();
  unsigned const n{param_n()}, k{static_cast<unsigned>(verif_param("k"))};
  vec a{mkvec(n)}, b{mkvec(k, 4)}, c3{mkvec(1, 8)};
  begin_op();
  vec const r{con::join(as<C1>(a), as<C2>(b), as<C2>(c3))};
  census c;
  note_vec(c, r);
  verif_assert(r.size() == n + k + 1, m.count);
  for (unsigned i = 0; i < n; ++i) verif_assert(r[i].read() == static_cast<int>(i), m.count);
  for (unsigned i = 0; i < k; ++i) verif_assert(r[n + i].read() == 4 + static_cast<int>(i), m.count);
  verif_assert(r[n + k].read() == 8, m.count);
  arg_vec<C1>(a, n, 0, m);
  arg_vec<C2>(b, k, 4, m);
  arg_vec<C2>(c3, 1, 8, m);
  // copies are needed exactly for the elements of lvalue arguments
  verif_assert(g_copies == static_cast<int>((C1 == RV ? 0U : n) + (C2 == RV ? 0U : k + 1U)), m.nocopy);
  verif_assert(g_errors == 0, m.noerr);
  verif_reach("end");
}

void container_pop()
{
  msgs const m = C05_MSGS("container::pop_back/pop_front");
  reset();
  unsigned const n{param_n()};
  vec v{mkvec(n)};
  std::deque<elem> d;
  for (unsigned i = 0; i < n; ++i) d.push_back(mk(4 + static_cast<int>(i)));
  begin_op();
  opt::object<elem> const back{con::pop_back(v)};
  opt::object<elem> const front{con::pop_front(d)};
  census c;
  note_vec(c, v);
  for (elem const &e : d) c.note(e);
  verif_assert(back.has_value() == (n != 0) && front.has_value() == (n != 0), m.count);
  if (n != 0)
  {
    verif_assert(back.get_unsafe().read() == static_cast<int>(n) - 1 && front.get_unsafe().read() == 4, m.count);
    c.note(back.get_unsafe());
    c.note(front.get_unsafe());
    verif_assert(v.size() == n - 1 && d.size() == n - 1, m.count);
  }
  expect_once(c, 0, static_cast<int>(n), m);
  expect_once(c, 4, 4 + static_cast<int>(n), m);
  for (unsigned i = 0; i + 1 < n; ++i) verif_assert(untouched(v[i], static_cast<int>(i)), m.unchanged); // the remaining elements are not touched
  verdict<RV>(m);
  verif_reach("end");
}

void container_get_or_insert()
{
  msgs const m = C05_MSGS("container::get_or_insert");
  reset();
  unsigned const n{param_n()};
  std::map<int, elem> mp;
  for (unsigned i = 0; i < n; ++i) mp.emplace(static_cast<int>(2 * i), mk(static_cast<int>(i)));
  int const key{static_cast<int>(verif_u8("key"))};
  verif_assume(key < 6);
  begin_op();
  int created{0};
  elem &r{con::get_or_insert(mp, key, [&created](int const k) {
    ++created;
    return mk(6 + k);
  })};
  bool const present{key % 2 == 0 && static_cast<unsigned>(key / 2) < n};
  verif_assert(created == (present ? 0 : 1), m.count);
  verif_assert(r.read() == (present ? key / 2 : 6 + key), m.count);
  verif_assert(mp.size() == n + (present ? 0U : 1U), m.count);
  census c;
  for (auto const &kv : mp) c.note(kv.second);
  expect_once(c, 0, static_cast<int>(n), m);
  if (!present) verif_assert(c.of(6 + key) == 1, m.count);
  for (unsigned i = 0; i < n; ++i) verif_assert(untouched(mp.at(static_cast<int>(2 * i)), static_cast<int>(i)), m.unchanged);
  if (present) verif_assert(g_moves == 0, m.nomove);
  verdict<RV>(m);
  verif_out("present", present);
  verif_reach("end");
}

void container_make()
{
  msgs const m = C05_MSGS("container::make");
  reset();
  elem a{mk(0)}, b{mk(1)};
  begin_op();
  vec const r{con::make<vec>(std::move(a), std::move(b), mk(2))}; // documented: creates the container by moving
  census c;
  note_vec(c, r);
  verif_assert(r.size() == 3 && in_order(r, 0), m.count);
  expect_once(c, 0, 3, m);
  verdict<RV>(m);
  verif_reach("end");
}

// ================================================================ optional::cat / sequence, either::sequence
template <int C>
void optional_cat_sequence()
{
  msgs const m = C05_MSGS("optional::cat/sequence");
  reset();
  unsigned const n{param_n()};
  bool const h[4]{symb("h0"), symb("h1"), symb("h2"), symb("h3")};
  std::vector<opt::object<elem>> v, w;
  for (unsigned i = 0; i < n; ++i)
  {
    v.push_back(h[i] ? opt::object<elem>{mk(static_cast<int>(i))} : opt::object<elem>{});
    w.push_back(h[i] ? opt::object<elem>{mk(4 + static_cast<int>(i))} : opt::object<elem>{});
  }
  begin_op();
  vec const cat{opt::cat<vec>(as<C>(v))};
  opt::object<vec> const seq{opt::sequence<vec>(as<C>(w))};
  census c;
  note_vec(c, cat);
  if (seq.has_value()) note_vec(c, seq.get_unsafe());
  bool all{true};
  for (unsigned i = 0; i < n; ++i) all = all && h[i];
  verif_assert(seq.has_value() == all, m.count);
  for (unsigned i = 0; i < n; ++i)
  {
    verif_assert(c.of(static_cast<int>(i)) == (h[i] ? 1 : 0), m.count);
    verif_assert(c.of(4 + static_cast<int>(i)) == (all ? 1 : 0), m.count);
  }
  if constexpr (C != RV)
  {
    verif_assert(v.size() == n && w.size() == n, m.unchanged);
    for (unsigned i = 0; i < n; ++i)
    {
      verif_assert(v[i].has_value() == h[i] && (!h[i] || untouched(v[i].get_unsafe(), static_cast<int>(i))), m.unchanged);
      verif_assert(w[i].has_value() == h[i] && (!h[i] || untouched(w[i].get_unsafe(), 4 + static_cast<int>(i))), m.unchanged);
    }
  }
  verdict<C>(m);
  verif_reach("end");
}

void either_sequence()
{
  msgs const m = C05_MSGS("either::sequence");
  reset();
  unsigned const n{param_n()};
  bool const s[4]{symb("s0"), symb("s1"), symb("s2"), symb("s3")};
  using eith = ei::object<elem1, elem>;
  std::vector<eith> v;
  for (unsigned i = 0; i < n; ++i) v.push_back(s[i] ? eith{mk(static_cast<int>(i))} : eith{mk<1>(4 + static_cast<int>(i))});
  begin_op();
  ei::object<elem1, vec> const r{ei::sequence<vec>(std::move(v))};
  census c;
  if (r.has_success()) note_vec(c, r.get_success_unsafe());
  else c.note(r.get_failure_unsafe());
  unsigned first{n};
  for (unsigned i = n; i > 0; --i)
    if (!s[i - 1]) first = i - 1;
  verif_assert(r.has_success() == (first == n), m.count);
  for (unsigned i = 0; i < n; ++i)
  {
    verif_assert(c.of(static_cast<int>(i)) == (first == n ? 1 : 0), m.count);
    verif_assert(c.of(4 + static_cast<int>(i)) == (i == first ? 1 : 0), m.count);
  }
  verdict<RV>(m);
  verif_reach("end");
}
}

#define H1(name, fn) VERIF_HARNESS(name) { fn(); }
#define H3(name, fn) \
  VERIF_HARNESS(name##_rv) { fn<RV>(); } \
  VERIF_HARNESS(name##_lv) { fn<LV>(); } \
  VERIF_HARNESS(name##_clv) { fn<CLV>(); }
#define H22(name, fn) \
  VERIF_HARNESS(name##_rv_rv) { fn<RV, RV>(); } \
  VERIF_HARNESS(name##_rv_lv) { fn<RV, LV>(); } \
  VERIF_HARNESS(name##_lv_rv) { fn<LV, RV>(); } \
  VERIF_HARNESS(name##_lv_lv) { fn<LV, LV>(); } \
  VERIF_HARNESS(name##_clv_clv) { fn<CLV, CLV>(); }

H3(h_algorithm_map, algorithm_map)
//@harness h_algorithm_map_{C} for C in rv,lv,clv param n=0..3 tier=quick
//@harness h_algorithm_map_{C} for C in rv,lv,clv param n=4 tier=thorough
H3(h_algorithm_fold, algorithm_fold)
//@harness h_algorithm_fold_{C} for C in rv,lv,clv param n=0..3 tier=quick
//@harness h_algorithm_fold_{C} for C in rv,lv,clv param n=4 tier=thorough
H3(h_algorithm_map_concat_optional, algorithm_map_concat_optional)
//@harness h_algorithm_map_concat_optional_{C} for C in rv,lv,clv param n=0..3 tier=quick
//@harness h_algorithm_map_concat_optional_{C} for C in rv,lv,clv param n=4 tier=thorough
H3(h_algorithm_reverse, algorithm_reverse)
//@harness h_algorithm_reverse_{C} for C in rv,lv,clv param n=0..3 tier=quick
//@harness h_algorithm_reverse_{C} for C in rv,lv,clv param n=4 tier=thorough
H1(h_algorithm_remove_if_generate_n, algorithm_remove_if_generate_n)
//@harness h_algorithm_remove_if_generate_n param n=0..3 tier=quick
//@harness h_algorithm_remove_if_generate_n param n=4 tier=thorough
H22(h_container_join, container_join)
//@harness h_container_join_{C} for C in rv_rv,rv_lv,lv_rv,lv_lv,clv_clv param n=0..3 param k=0,2 tier=quick
//@harness h_container_join_{C} for C in rv_rv,rv_lv,lv_rv,lv_lv,clv_clv param n=4 param k=0,3 tier=thorough
H1(h_container_pop, container_pop)
//@harness h_container_pop param n=0..3 tier=quick
//@harness h_container_pop param n=4 tier=thorough
H1(h_container_get_or_insert, container_get_or_insert)
//@harness h_container_get_or_insert param n=0..3 tier=quick
//@harness h_container_get_or_insert param n=4 tier=thorough
H1(h_container_make, container_make)
//@harness h_container_make tier=quick
H3(h_optional_cat_sequence, optional_cat_sequence)
//@harness h_optional_cat_sequence_{C} for C in rv,lv,clv param n=0..3 tier=quick
//@harness h_optional_cat_sequence_{C} for C in rv,lv,clv param n=4 tier=thorough
H1(h_either_sequence, either_sequence)
//@harness h_either_sequence param n=0..3 tier=quick
//@harness h_either_sequence param n=4 tier=thorough
