// C05 (optional / either / variant / move helpers) - rvalue arguments are moved, never copied; lvalue arguments are
// left untouched; nothing reads a moved-from object.
// Every registered operation is instantiated with the instrumented element type of C05_common.hpp (concrete
// identity, symbolic payload, state alive/moved-from/destroyed, global copy/move counters, error flags) once per value
// category of its argument(s): rv = rvalue, lv = non-const lvalue, clv = const lvalue.  Shapes (present/absent,
// success/failure, held alternative, results of predicates) are symbolic.
//   rv : 0 copies, no read of a moved-from/destroyed object, every element appears in the result at most once and
//        exactly once where the documentation says the value is kept / passed on
//   lv, clv : the argument holds the same alive elements afterwards (never moved from, never assigned), no error flag
// Registered here: optional::{object ctor/assign, map, bind, join, apply, filter, alternative, combine, from, maybe,
// maybe_void, maybe_multi, to_container}, either::{object ctor, map, map_failure, bind, join, apply, match,
// success_opt, failure_opt, from_optional, error_from_optional, first_success, loop}, variant::{object ctor, match,
// apply, to_optional}, move_if_rvalue, move_if, move_clear, move_iterator_if_rvalue, container::make_move_range.
// Outside the claim: either::try_call with a throwing function (handlers are not executed), operations on streams.
// Violations on the unchanged tree (triaged as genuine, reproduced natively with std::string / a counting type):
//   h_either_bind_rv, h_either_join_rv: either::bind copies the failure of an rvalue either
//     (`result_type{_either.get_failure_unsafe()}` lacks move_if_rvalue; join is bind id)
//   h_optional_to_container_lv: to_container(lvalue optional) moves the value out of its argument
//     (container::make moves from every argument; a const lvalue optional does not even compile)
//@property C05
#include "C05_common.hpp"
#include <fcppt/move_clear.hpp>
#include <fcppt/move_if.hpp>
#include <fcppt/move_if_rvalue.hpp>
#include <fcppt/move_iterator_if_rvalue.hpp>
#include <fcppt/container/make_move_range.hpp>
#include <fcppt/container/move_range_impl.hpp>
#include <fcppt/either/apply.hpp>
#include <fcppt/either/bind.hpp>
#include <fcppt/either/error.hpp>
#include <fcppt/either/error_from_optional.hpp>
#include <fcppt/either/failure_opt.hpp>
#include <fcppt/either/first_success.hpp>
#include <fcppt/either/from_optional.hpp>
#include <fcppt/either/join.hpp>
#include <fcppt/either/loop.hpp>
#include <fcppt/either/map.hpp>
#include <fcppt/either/map_failure.hpp>
#include <fcppt/either/match.hpp>
#include <fcppt/either/object_impl.hpp>
#include <fcppt/either/success_opt.hpp>
#include <fcppt/optional/alternative.hpp>
#include <fcppt/optional/apply.hpp>
#include <fcppt/optional/bind.hpp>
#include <fcppt/optional/combine.hpp>
#include <fcppt/optional/filter.hpp>
#include <fcppt/optional/from.hpp>
#include <fcppt/optional/join.hpp>
#include <fcppt/optional/make.hpp>
#include <fcppt/optional/map.hpp>
#include <fcppt/optional/maybe.hpp>
#include <fcppt/optional/maybe_multi.hpp>
#include <fcppt/optional/maybe_void.hpp>
#include <fcppt/optional/object_impl.hpp>
#include <fcppt/optional/to_container.hpp>
#include <fcppt/variant/apply.hpp>
#include <fcppt/variant/match.hpp>
#include <fcppt/variant/object_impl.hpp>
#include <fcppt/variant/to_optional.hpp>
#include <utility>
#include <vector>

namespace
{
using namespace c05;
namespace opt = fcppt::optional;
namespace ei = fcppt::either;
namespace var = fcppt::variant;
inline bool symb(char const *const n) { return (verif_u8(n) & 1U) != 0U; }

template <int K = 0>
opt::object<elem_t<K>> mkopt(int const id, bool const has)
{
  return has ? opt::object<elem_t<K>>{mk<K>(id)} : opt::object<elem_t<K>>{};
}
// lvalue argument check for an optional
template <int C, typename O>
void arg_opt(O const &o, int const id, bool const has, msgs const &m)
{
  if constexpr (C != RV) verif_assert(o.has_value() == has && (!has || untouched(o.get_unsafe(), id)), m.unchanged);
}
template <int K>
void note_opt(census &c, opt::object<elem_t<K>> const &o)
{
  if (o.has_value()) c.note(o.get_unsafe());
}

// ================================================================ optional
template <int C>
void optional_object()
{
  msgs const m = C05_MSGS("optional::object ctor/assign");
  reset();
  elem a{mk(0)};
  begin_op();
  opt::object<elem> o{as<C>(a)};
  census c;
  note_opt(c, o);
  verif_assert(c.of(0) == 1 && g_copies == (C == RV ? 0 : 1) && g_moves == (C == RV ? 1 : 0), m.count);
  if constexpr (C != RV) verif_assert(untouched(a, 0), m.unchanged);
  // construct / assign from an optional of each category
  bool const has{symb("has")};
  opt::object<elem> src{mkopt(1, has)};
  opt::object<elem> tgt{mkopt(2, symb("tgt"))};
  begin_op();
  opt::object<elem> cp{as<C>(src)};
  tgt = as<C>(cp);
  census d;
  note_opt(d, tgt);
  verif_assert(d.of(1) == (has ? 1 : 0) && d.of(2) == 0 && tgt.has_value() == has, m.count);
  arg_opt<C>(src, 1, has, m);
  verdict<C>(m);
  verif_reach("end");
}

template <int C>
void optional_map()
{
  msgs const m = C05_MSGS("optional::map");
  reset();
  bool const has{symb("has")};
  opt::object<elem> o{mkopt(0, has)};
  begin_op();
  opt::object<elem> const r{opt::map(as<C>(o), xfc<C>{})};
  census c;
  note_opt(c, r);
  verif_assert(r.has_value() == has && c.of(0) == (has ? 1 : 0), m.count);
  if (!has) verif_assert(g_moves == 0 && g_copies == 0, m.nomove);
  arg_opt<C>(o, 0, has, m);
  verdict<C>(m);
  verif_reach("end");
}

template <int C>
void optional_bind()
{
  msgs const m = C05_MSGS("optional::bind");
  reset();
  bool const has{symb("has")}, keep{symb("keep")};
  opt::object<elem> o{mkopt(0, has)};
  begin_op();
  opt::object<elem> const r{opt::bind(as<C>(o), [keep](auto &&x) {
    elem y{xfc<C>{}(std::forward<decltype(x)>(x))};
    return keep ? opt::object<elem>{std::move(y)} : opt::object<elem>{};
  })};
  census c;
  note_opt(c, r);
  verif_assert(r.has_value() == (has && keep) && c.of(0) == ((has && keep) ? 1 : 0), m.count);
  arg_opt<C>(o, 0, has, m);
  verdict<C>(m);
  verif_reach("end");
}

template <int C>
void optional_join()
{
  msgs const m = C05_MSGS("optional::join");
  reset();
  bool const outer{symb("outer")}, inner{symb("inner")};
  using oo = opt::object<opt::object<elem>>;
  oo o{outer ? oo{mkopt(0, inner)} : oo{}};
  begin_op();
  opt::object<elem> const r{opt::join(as<C>(o))};
  census c;
  note_opt(c, r);
  verif_assert(r.has_value() == (outer && inner) && c.of(0) == ((outer && inner) ? 1 : 0), m.count);
  if constexpr (C != RV)
    verif_assert(o.has_value() == outer && (!outer || (o.get_unsafe().has_value() == inner && (!inner || untouched(o.get_unsafe().get_unsafe(), 0)))), m.unchanged);
  verdict<C>(m);
  verif_reach("end");
}

struct pair2
{
  elem a;
  elem1 b;
};

template <int C1, int C2>
void optional_apply()
{
  msgs const m = C05_MSGS("optional::apply");
  reset();
  bool const h0{symb("h0")}, h1{symb("h1")};
  opt::object<elem> o0{mkopt(0, h0)};
  opt::object<elem1> o1{mkopt<1>(1, h1)};
  begin_op();
  opt::object<pair2> const r{opt::apply(
      [](auto &&x, auto &&y) { return pair2{xfc<C1>{}(std::forward<decltype(x)>(x)), xfc<C2>{}(std::forward<decltype(y)>(y))}; }, as<C1>(o0), as<C2>(o1))};
  census c;
  if (r.has_value())
  {
    c.note(r.get_unsafe().a);
    c.note(r.get_unsafe().b);
  }
  bool const both{h0 && h1};
  verif_assert(r.has_value() == both && c.of(0) == (both ? 1 : 0) && c.of(1) == (both ? 1 : 0), m.count);
  if (!both) verif_assert(g_moves == 0 && g_copies == 0, m.nomove);
  arg_opt<C1>(o0, 0, h0, m);
  arg_opt<C2>(o1, 1, h1, m);
  if constexpr (C1 == RV || C2 == RV) verif_assert(g_copies == 0, m.nocopy);
  verif_assert(g_errors == 0 && g_lvalue_calls == 0, m.noerr);
  verif_reach("end");
}

template <int C>
void optional_filter()
{
  msgs const m = C05_MSGS("optional::filter");
  reset();
  bool const has{symb("has")};
  opt::object<elem> o{mkopt(0, has)};
  begin_op();
  opt::object<elem> const r{opt::filter(as<C>(o), [](elem const &x) { return (verif_uf1(1, x.val) & 1U) != 0U; })};
  bool const keep{has && (verif_uf1(1, g_val[0]) & 1U) != 0U};
  census c;
  note_opt(c, r);
  verif_assert(r.has_value() == keep && c.of(0) == (keep ? 1 : 0), m.count);
  arg_opt<C>(o, 0, has, m);
  verdict<C>(m);
  verif_reach("end");
}

template <int C>
void optional_alternative()
{
  msgs const m = C05_MSGS("optional::alternative");
  reset();
  bool const h0{symb("h0")}, h1{symb("h1")};
  opt::object<elem> o{mkopt(0, h0)};
  begin_op();
  opt::object<elem> const r{opt::alternative(as<C>(o), [h1] { return mkopt(1, h1); })};
  census c;
  note_opt(c, r);
  verif_assert(r.has_value() == (h0 || h1) && c.of(0) == (h0 ? 1 : 0) && c.of(1) == ((!h0 && h1) ? 1 : 0), m.count);
  arg_opt<C>(o, 0, h0, m);
  verdict<C>(m);
  verif_reach("end");
}

template <int C1, int C2>
void optional_combine()
{
  msgs const m = C05_MSGS("optional::combine");
  reset();
  bool const h0{symb("h0")}, h1{symb("h1")};
  opt::object<elem> o0{mkopt(0, h0)};
  opt::object<elem> o1{mkopt(1, h1)};
  begin_op();
  // the combining function keeps its first argument and consumes (drops) the second
  opt::object<elem> const r{opt::combine(as<C1>(o0), as<C2>(o1), [](auto &&x, auto &&y) {
    elem const dropped{xfc<C2>{}(std::forward<decltype(y)>(y))};
    return xfc<C1>{}(std::forward<decltype(x)>(x));
  })};
  census c;
  note_opt(c, r);
  verif_assert(r.has_value() == (h0 || h1) && c.of(0) == (h0 ? 1 : 0) && c.of(1) == ((!h0 && h1) ? 1 : 0), m.count);
  arg_opt<C1>(o0, 0, h0, m);
  arg_opt<C2>(o1, 1, h1, m);
  if constexpr (C1 == RV && C2 == RV) verif_assert(g_copies == 0, m.nocopy);
  verif_assert(g_errors == 0 && g_lvalue_calls == 0, m.noerr);
  verif_reach("end");
}

template <int C>
void optional_from_maybe()
{
  msgs const m = C05_MSGS("optional::from/maybe/maybe_void/maybe_multi");
  reset();
  bool const has{symb("has")};
  unsigned const which{verif_u8("which")};
  verif_assume(which < 4);
  opt::object<elem> o{mkopt(0, has)};
  opt::object<elem1> o1{mkopt<1>(2, true)};
  begin_op();
  census c;
  if (which == 0)
  {
    elem const r{opt::from(as<C>(o), [] { return mk(1); })};
    c.note(r);
    verif_assert(c.of(0) == (has ? 1 : 0) && c.of(1) == (has ? 0 : 1), m.count);
  }
  else if (which == 1)
  {
    elem const r{opt::maybe(
        as<C>(o), [] { return mk(1); }, xfc<C>{})};
    c.note(r);
    verif_assert(c.of(0) == (has ? 1 : 0) && c.of(1) == (has ? 0 : 1), m.count);
  }
  else if (which == 2)
  {
    opt::maybe_void(as<C>(o), [&c](auto &&x) {
      elem const y{xfc<C>{}(std::forward<decltype(x)>(x))};
      c.note(y);
    });
    verif_assert(c.of(0) == (has ? 1 : 0), m.count);
  }
  else
  {
    pair2 const r{opt::maybe_multi(
        [] { return pair2{mk(1), mk<1>(3)}; },
        [](auto &&x, auto &&y) { return pair2{xfc<C>{}(std::forward<decltype(x)>(x)), xfc<C>{}(std::forward<decltype(y)>(y))}; },
        as<C>(o),
        as<C>(o1))};
    c.note(r.a);
    c.note(r.b);
    verif_assert(c.of(0) == (has ? 1 : 0) && c.of(2) == (has ? 1 : 0) && c.of(1) == (has ? 0 : 1), m.count);
    if constexpr (C != RV) verif_assert(untouched(o1.get_unsafe(), 2), m.unchanged);
  }
  arg_opt<C>(o, 0, has, m);
  verdict<C>(m);
  verif_out("which", which);
  verif_reach("end");
}

template <int C>
void optional_to_container()
{
  msgs const m = C05_MSGS("optional::to_container");
  reset();
  bool const has{symb("has")};
  opt::object<elem> o{mkopt(0, has)};
  begin_op();
  std::vector<elem> const r{opt::to_container<std::vector<elem>>(as<C>(o))};
  census c;
  for (elem const &e : r) c.note(e);
  verif_assert(r.size() == (has ? 1U : 0U) && c.of(0) == (has ? 1 : 0), m.count);
  arg_opt<C>(o, 0, has, m);
  verdict<C>(m);
  verif_reach("end");
}

// ================================================================ either  (failure type elem1, success type elem)
using eith = ei::object<elem1, elem>;
eith mkei(bool const succ, int const sid, int const fid) { return succ ? eith{mk(sid)} : eith{mk<1>(fid)}; }
template <int C>
void arg_ei(eith const &e, bool const succ, int const sid, int const fid, msgs const &m)
{
  if constexpr (C != RV)
    verif_assert(e.has_success() == succ && (succ ? untouched(e.get_success_unsafe(), sid) : untouched(e.get_failure_unsafe(), fid)), m.unchanged);
}
template <typename F, typename S>
void note_ei(census &c, ei::object<F, S> const &e)
{
  if (e.has_success()) c.note(e.get_success_unsafe());
  else c.note(e.get_failure_unsafe());
}

template <int C>
void either_object()
{
  msgs const m = C05_MSGS("either::object ctor");
  reset();
  elem s{mk(0)};
  elem1 f{mk<1>(1)};
  begin_op();
  eith const es{as<C>(s)};
  eith const ef{as<C>(f)};
  census c;
  note_ei(c, es);
  note_ei(c, ef);
  verif_assert(c.of(0) == 1 && c.of(1) == 1 && es.has_success() && ef.has_failure(), m.count);
  verif_assert(g_copies == (C == RV ? 0 : 2) && g_moves == (C == RV ? 2 : 0), m.count);
  if constexpr (C != RV) verif_assert(untouched(s, 0) && untouched(f, 1), m.unchanged);
  verdict<C>(m);
  verif_reach("end");
}

// map, map_failure, bind, join, success_opt, failure_opt, match: one either argument
template <int C>
void either_unary()
{
  msgs const m = C05_MSGS("either::map/map_failure/success_opt/failure_opt/match");
  reset();
  bool const succ{symb("succ")};
  unsigned const which{verif_u8("which")};
  verif_assume(which < 6);
  eith e{mkei(succ, 0, 1)};
  begin_op();
  census c;
  if (which == 0)
  {
    eith const r{ei::map(as<C>(e), xfc<C>{})};
    note_ei(c, r);
    verif_assert(r.has_success() == succ, m.count);
  }
  else if (which == 1)
  {
    eith const r{ei::map_failure(as<C>(e), xfc<C>{})};
    note_ei(c, r);
    verif_assert(r.has_success() == succ, m.count);
  }
  else if (which == 2)
  {
    // (either::bind has its own harness)
    eith const r{ei::map(ei::map_failure(as<C>(e), xfc<C>{}), xfc<RV>{})};
    note_ei(c, r);
    verif_assert(r.has_success() == succ, m.count);
  }
  else if (which == 3)
  {
    opt::object<elem> const r{ei::success_opt(as<C>(e))};
    note_opt(c, r);
    verif_assert(r.has_value() == succ, m.count);
  }
  else if (which == 4)
  {
    opt::object<elem1> const r{ei::failure_opt(as<C>(e))};
    note_opt(c, r);
    verif_assert(r.has_value() == !succ, m.count);
  }
  else
  {
    int const r{ei::match(
        as<C>(e),
        [&c](auto &&x) {
          elem1 const y{xfc<C>{}(std::forward<decltype(x)>(x))};
          c.note(y);
          return 1;
        },
        [&c](auto &&x) {
          elem const y{xfc<C>{}(std::forward<decltype(x)>(x))};
          c.note(y);
          return 2;
        })};
    verif_assert(r == (succ ? 2 : 1), m.count);
  }
  // the held value is passed on exactly once, unless the operation projects on the other side
  bool const drops_success{which == 4}, drops_failure{which == 3};
  verif_assert(c.of(0) == ((succ && !drops_success) ? 1 : 0) && c.of(1) == ((!succ && !drops_failure) ? 1 : 0), m.count);
  arg_ei<C>(e, succ, 0, 1, m);
  verdict<C>(m);
  verif_out("which", which);
  verif_reach("end");
}

template <int C>
void either_bind()
{
  msgs const m = C05_MSGS("either::bind");
  reset();
  bool const succ{symb("succ")}, keep{symb("keep")};
  eith e{mkei(succ, 0, 1)};
  begin_op();
  eith const r{ei::bind(as<C>(e), [keep](auto &&x) {
    elem y{xfc<C>{}(std::forward<decltype(x)>(x))};
    return keep ? eith{std::move(y)} : eith{mk<1>(2)};
  })};
  census c;
  note_ei(c, r);
  verif_assert(r.has_success() == (succ && keep), m.count);
  verif_assert(c.of(0) == ((succ && keep) ? 1 : 0) && c.of(1) == (succ ? 0 : 1) && c.of(2) == ((succ && !keep) ? 1 : 0), m.count);
  arg_ei<C>(e, succ, 0, 1, m);
  verdict<C>(m);
  verif_reach("end");
}

template <int C>
void either_join()
{
  msgs const m = C05_MSGS("either::join");
  reset();
  bool const outer{symb("outer")}, inner{symb("inner")};
  using ee = ei::object<elem1, eith>;
  ee e{outer ? ee{mkei(inner, 0, 1)} : ee{mk<1>(2)}};
  begin_op();
  eith const r{ei::join(as<C>(e))};
  census c;
  note_ei(c, r);
  verif_assert(r.has_success() == (outer && inner), m.count);
  verif_assert(c.of(0) == ((outer && inner) ? 1 : 0) && c.of(1) == ((outer && !inner) ? 1 : 0) && c.of(2) == (outer ? 0 : 1), m.count);
  if constexpr (C != RV)
    verif_assert(
        e.has_success() == outer && (outer ? (e.get_success_unsafe().has_success() == inner &&
                                              (inner ? untouched(e.get_success_unsafe().get_success_unsafe(), 0) : untouched(e.get_success_unsafe().get_failure_unsafe(), 1)))
                                           : untouched(e.get_failure_unsafe(), 2)),
        m.unchanged);
  verdict<C>(m);
  verif_reach("end");
}

template <int C1, int C2>
void either_apply()
{
  msgs const m = C05_MSGS("either::apply");
  reset();
  bool const s0{symb("s0")}, s1{symb("s1")};
  eith e0{mkei(s0, 0, 1)};
  eith e1{mkei(s1, 2, 3)};
  begin_op();
  // the function keeps its first argument and consumes (drops) the second
  eith const r{ei::apply(
      [](auto &&x, auto &&y) {
        elem const dropped{xfc<C2>{}(std::forward<decltype(y)>(y))};
        return xfc<C1>{}(std::forward<decltype(x)>(x));
      },
      as<C1>(e0),
      as<C2>(e1))};
  census c;
  note_ei(c, r);
  bool const both{s0 && s1};
  verif_assert(r.has_success() == both, m.count);
  // all succeed: f(s0,s1) (here s0); otherwise the first failure
  verif_assert(c.of(0) == (both ? 1 : 0) && c.of(1) == (!s0 ? 1 : 0) && c.of(3) == ((s0 && !s1) ? 1 : 0) && c.of(2) == 0, m.count);
  arg_ei<C1>(e0, s0, 0, 1, m);
  arg_ei<C2>(e1, s1, 2, 3, m);
  if constexpr (C1 == RV && C2 == RV) verif_assert(g_copies == 0, m.nocopy);
  verif_assert(g_errors == 0 && g_lvalue_calls == 0, m.noerr);
  verif_reach("end");
}

template <int C>
void either_from_optional()
{
  msgs const m = C05_MSGS("either::from_optional/error_from_optional");
  reset();
  bool const has{symb("has")};
  opt::object<elem> o{mkopt(0, has)};
  opt::object<elem1> oe{mkopt<1>(2, has)};
  begin_op();
  eith const r{ei::from_optional(as<C>(o), [] { return mk<1>(1); })};
  ei::error<elem1> const err{ei::error_from_optional(as<C>(oe))};
  census c;
  note_ei(c, r);
  if (err.has_failure()) c.note(err.get_failure_unsafe());
  verif_assert(r.has_success() == has && err.has_failure() == has, m.count);
  verif_assert(c.of(0) == (has ? 1 : 0) && c.of(1) == (has ? 0 : 1) && c.of(2) == (has ? 1 : 0), m.count);
  arg_opt<C>(o, 0, has, m);
  arg_opt<C>(oe, 2, has, m);
  verdict<C>(m);
  verif_reach("end");
}

// first_success / loop: the eithers are produced by continuations (prvalues): nothing may be copied on the way out
struct thunk
{
  int idx;
  bool succ;
  eith operator()() const { return mkei(succ, idx, idx + 4); }
};
void either_first_success()
{
  msgs const m = C05_MSGS("either::first_success");
  reset();
  unsigned const n{static_cast<unsigned>(verif_param("n"))};
  bool const s[3]{symb("s0"), symb("s1"), symb("s2")};
  std::vector<thunk> fs;
  for (unsigned i = 0; i < n; ++i) fs.push_back(thunk{static_cast<int>(i), s[i]});
  begin_op();
  ei::object<std::vector<elem1>, elem> const r{ei::first_success(fs)};
  census c;
  if (r.has_success()) c.note(r.get_success_unsafe());
  else
    for (elem1 const &e : r.get_failure_unsafe()) c.note(e);
  unsigned first{n};
  for (unsigned i = n; i > 0; --i)
    if (s[i - 1]) first = i - 1;
  verif_assert(r.has_success() == (first != n), m.count);
  for (unsigned i = 0; i < n; ++i)
  {
    verif_assert(c.of(static_cast<int>(i)) == (i == first ? 1 : 0), m.count);        // success i
    verif_assert(c.of(static_cast<int>(i) + 4) == (first == n ? 1 : 0), m.count);    // failure i
  }
  verdict<RV>(m);
  verif_reach("end");
}

void either_loop()
{
  msgs const m = C05_MSGS("either::loop");
  reset();
  unsigned const n{static_cast<unsigned>(verif_param("n"))}; // number of successes before the failure
  unsigned step{0};
  census c;
  begin_op();
  elem1 const r{ei::loop(
      [&step, n] {
        unsigned const i{step++};
        return mkei(i < n, static_cast<int>(i), 7);
      },
      [&c](auto &&x) {
        elem const y{xfc<RV>{}(std::forward<decltype(x)>(x))};
        c.note(y);
      })};
  c.note(r);
  for (unsigned i = 0; i < n; ++i) verif_assert(c.of(static_cast<int>(i)) == 1, m.count);
  verif_assert(c.of(7) == 1 && step == n + 1, m.count);
  verdict<RV>(m);
  verif_reach("end");
}

// ================================================================ variant<elem, elem1, elem2>
using vart = var::object<elem, elem1, elem2>;
vart mkvar(unsigned const tag)
{
  switch (tag)
  {
  case 0: return vart{mk<0>(0)};
  case 1: return vart{mk<1>(1)};
  default: return vart{mk<2>(2)};
  }
}
template <int C>
void arg_var(vart const &v, unsigned const tag, msgs const &m)
{
  if constexpr (C != RV)
    verif_assert(
        v.type_index() == tag && (tag == 0 ? untouched(v.get_unsafe<elem>(), 0) : tag == 1 ? untouched(v.get_unsafe<elem1>(), 1) : untouched(v.get_unsafe<elem2>(), 2)),
        m.unchanged);
}

template <int C>
void variant_ops()
{
  msgs const m = C05_MSGS("variant::object ctor/match/apply/to_optional");
  reset();
  unsigned const tag{verif_u8("tag")}, which{verif_u8("which")};
  verif_assume(tag < 3 && which < 4);
  vart v{mkvar(tag)};
  begin_op();
  census c;
  auto const consume{[&c](auto &&x) {
    auto const y{xfc<C>{}(std::forward<decltype(x)>(x))};
    c.note(y);
    return 0;
  }};
  bool dropped{false};
  if (which == 0) (void)var::match(as<C>(v), consume, consume, consume);
  else if (which == 1) (void)var::apply(consume, as<C>(v));
  else if (which == 2)
  {
    opt::object<elem1> const r{var::to_optional<elem1>(as<C>(v))};
    note_opt(c, r);
    verif_assert(r.has_value() == (tag == 1), m.count);
    dropped = tag != 1;
  }
  else
  {
    vart const w{as<C>(v)}; // copy / move construction of the variant itself
    (void)var::apply(
        [&c](auto const &x) {
          c.note(x);
          return 0;
        },
        w);
  }
  for (unsigned i = 0; i < 3; ++i) verif_assert(c.of(static_cast<int>(i)) == ((i == tag && !dropped) ? 1 : 0), m.count);
  arg_var<C>(v, tag, m);
  verdict<C>(m);
  verif_out("which", which);
  verif_reach("end");
}

// ================================================================ move helpers
template <int C>
void move_helpers()
{
  msgs const m = C05_MSGS("move_if_rvalue/move_if/move_iterator_if_rvalue");
  reset();
  elem a{mk(0)}, b{mk(1)};
  std::vector<elem> v;
  v.push_back(mk(2));
  begin_op();
  using Outer = std::conditional_t<C == RV, std::vector<elem>, std::conditional_t<C == LV, std::vector<elem> &, std::vector<elem> const &>>;
  // move_if_rvalue<Outer>(member): an rvalue exactly when the surrounding object is one
  elem const r0{fcppt::move_if_rvalue<Outer>(a)};
  elem const r1{fcppt::move_if<C == RV>(b)};
  elem const r2{*fcppt::move_iterator_if_rvalue<Outer>(v.begin())};
  census c;
  c.note(r0);
  c.note(r1);
  c.note(r2);
  verif_assert(c.of(0) == 1 && c.of(1) == 1 && c.of(2) == 1, m.count);
  verif_assert(g_moves == (C == RV ? 3 : 0) && g_copies == (C == RV ? 0 : 3), m.count);
  if constexpr (C != RV) verif_assert(untouched(a, 0) && untouched(b, 1) && untouched(v[0], 2), m.unchanged);
  verdict<C>(m);
  verif_reach("end");
}

void move_clear_range()
{
  msgs const m = C05_MSGS("move_clear/make_move_range");
  reset();
  unsigned const n{static_cast<unsigned>(verif_param("n"))};
  std::vector<elem> v, w;
  v.reserve(3);
  w.reserve(3);
  for (unsigned i = 0; i < n; ++i)
  {
    v.push_back(mk(static_cast<int>(i)));
    w.push_back(mk(static_cast<int>(i) + 3));
  }
  begin_op();
  std::vector<elem> const r{fcppt::move_clear(v)};
  verif_assert(v.empty() && r.size() == n, m.count);
  std::vector<elem> r2;
  r2.reserve(3);
  for (elem &&e : fcppt::container::make_move_range(std::move(w))) r2.push_back(std::move(e));
  census c;
  for (elem const &e : r) c.note(e);
  for (elem const &e : r2) c.note(e);
  for (unsigned i = 0; i < n; ++i) verif_assert(c.of(static_cast<int>(i)) == 1 && c.of(static_cast<int>(i) + 3) == 1, m.count);
  verdict<RV>(m);
  verif_reach("end");
}
}

#define H1(name, fn) VERIF_HARNESS(name) { fn(); }
#define H3(name, fn) \
  VERIF_HARNESS(name##_rv) { fn<RV>(); } \
  VERIF_HARNESS(name##_lv) { fn<LV>(); } \
  VERIF_HARNESS(name##_clv) { fn<CLV>(); }
#define H22(name, fn) \
  VERIF_HARNESS(name##_rv_rv) { fn<RV, RV>(); } \
  VERIF_HARNESS(name##_rv_lv) { fn<RV, LV>(); } \
  VERIF_HARNESS(name##_lv_rv) { fn<LV, RV>(); } \
  VERIF_HARNESS(name##_lv_lv) { fn<LV, LV>(); } \
  VERIF_HARNESS(name##_clv_clv) { fn<CLV, CLV>(); }

H3(h_optional_object, optional_object)
//@harness h_optional_object_{C} for C in rv,lv,clv tier=quick
H3(h_optional_map, optional_map)
//@harness h_optional_map_{C} for C in rv,lv,clv tier=quick
H3(h_optional_bind, optional_bind)
//@harness h_optional_bind_{C} for C in rv,lv,clv tier=quick
H3(h_optional_join, optional_join)
//@harness h_optional_join_{C} for C in rv,lv,clv tier=quick
H22(h_optional_apply, optional_apply)
//@harness h_optional_apply_{C} for C in rv_rv,rv_lv,lv_rv,lv_lv,clv_clv tier=quick
H3(h_optional_filter, optional_filter)
//@harness h_optional_filter_{C} for C in rv,lv,clv tier=quick
H3(h_optional_alternative, optional_alternative)
//@harness h_optional_alternative_{C} for C in rv,lv,clv tier=quick
H22(h_optional_combine, optional_combine)
//@harness h_optional_combine_{C} for C in rv_rv,rv_lv,lv_rv,lv_lv,clv_clv tier=quick
H3(h_optional_from_maybe, optional_from_maybe)
//@harness h_optional_from_maybe_{C} for C in rv,lv,clv tier=quick
// to_container: a const lvalue optional does not compile (container::make builds fcppt::reference<T> from T const &)
VERIF_HARNESS(h_optional_to_container_rv) { optional_to_container<RV>(); }
VERIF_HARNESS(h_optional_to_container_lv) { optional_to_container<LV>(); }
//@harness h_optional_to_container_{C} for C in rv,lv tier=quick
H3(h_either_object, either_object)
//@harness h_either_object_{C} for C in rv,lv,clv tier=quick
H3(h_either_unary, either_unary)
//@harness h_either_unary_{C} for C in rv,lv,clv tier=quick
H3(h_either_bind, either_bind)
//@harness h_either_bind_{C} for C in rv,lv,clv tier=quick
H3(h_either_join, either_join)
//@harness h_either_join_{C} for C in rv,lv,clv tier=quick
H22(h_either_apply, either_apply)
//@harness h_either_apply_{C} for C in rv_rv,rv_lv,lv_rv,lv_lv,clv_clv tier=quick
H3(h_either_from_optional, either_from_optional)
//@harness h_either_from_optional_{C} for C in rv,lv,clv tier=quick
H1(h_either_first_success, either_first_success)
//@harness h_either_first_success param n=0..3 tier=quick
H1(h_either_loop, either_loop)
//@harness h_either_loop param n=0..3 tier=quick
H3(h_variant_ops, variant_ops)
//@harness h_variant_ops_{C} for C in rv,lv,clv tier=quick
H3(h_move_helpers, move_helpers)
//@harness h_move_helpers_{C} for C in rv,lv,clv tier=quick
H1(h_move_clear_range, move_clear_range)
//@harness h_move_clear_range param n=0..3 tier=quick
