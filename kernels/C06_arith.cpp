// C06 - checked conversions and integer helpers equal their mathematical definition.
// Every argument is a full-width bit-vector variable; references are written in wider (64/128-bit) arithmetic.
// Assertions are made only where the exact result is representable (the property's own clause).
//@property C06
#include "verif_api.h"
#include <fcppt/bit/mask.hpp>
#include <fcppt/bit/shifted_mask.hpp>
#include <fcppt/bit/test.hpp>
#include <fcppt/cast/truncation_check.hpp>
#include <fcppt/enum/from_int.hpp>
#include <fcppt/math/ceil_div.hpp>
#include <fcppt/math/ceil_div_signed.hpp>
#include <fcppt/math/clamp.hpp>
#include <fcppt/math/diff.hpp>
#include <fcppt/math/div.hpp>
#include <fcppt/math/interval_distance.hpp>
#include <fcppt/math/is_power_of_2.hpp>
#include <fcppt/math/log2.hpp>
#include <fcppt/math/mod.hpp>
#include <fcppt/math/next_power_of_2.hpp>
#include <fcppt/math/power_of_2.hpp>
#include <fcppt/optional/object_impl.hpp>
#include <fcppt/tuple/object_impl.hpp>
#include <cstdint>
#include <limits>
#include <type_traits>

namespace
{
using i128 = __int128;
using u8 = std::uint8_t; using u16 = std::uint16_t; using u32 = std::uint32_t; using u64 = std::uint64_t;
using i8 = std::int8_t; using i16 = std::int16_t; using i32 = std::int32_t; using i64 = std::int64_t;

// a fresh input of exactly the width of T (no truncation of a wider variable: keeps the queries free of extracts)
template <typename T> T sym(char const *const n)
{
  if constexpr (sizeof(T) == 1) return static_cast<T>(verif_u8(n));
  else if constexpr (sizeof(T) == 2) return static_cast<T>(verif_u16(n));
  else if constexpr (sizeof(T) == 4) return static_cast<T>(verif_u32(n));
  else return static_cast<T>(verif_u64(n));
}
template <typename T> constexpr i128 lo() { return static_cast<i128>(std::numeric_limits<T>::min()); }
template <typename T> constexpr i128 hi() { return static_cast<i128>(std::numeric_limits<T>::max()); }
template <typename T> constexpr unsigned digits() { return static_cast<unsigned>(std::numeric_limits<T>::digits); }

// ---- cast::truncation_check: value iff representable, for every (Dest, Source) pair
template <typename D, typename S>
void tc()
{
  S const s{sym<S>("s")};
  fcppt::optional::object<D> const r{fcppt::cast::truncation_check<D>(s)};
  bool const representable{static_cast<i128>(s) >= lo<D>() && static_cast<i128>(s) <= hi<D>()};
  verif_out("representable", representable);
  verif_assert(r.has_value() == representable, "truncation_check has a value exactly when the source is representable");
  if (r.has_value())
    verif_assert(static_cast<i128>(r.get_unsafe()) == static_cast<i128>(s), "truncation_check returns the same number");
  verif_reach("tc-end");
}

// ---- enum_::from_int
template <typename U, unsigned N> struct en { enum class type : U { first = 0, fcppt_maximum = N - 1 }; };
template <typename U, unsigned N, typename V>
void from_int()
{
  using E = typename en<U, N>::type;
  V const v{sym<V>("v")};
  fcppt::optional::object<E> const r{fcppt::enum_::from_int<E>(v)};
  verif_assert(r.has_value() == (static_cast<u64>(v) < N), "from_int yields an enumerator exactly when the integer is below the enum size");
  if (r.has_value())
    verif_assert(static_cast<u64>(r.get_unsafe()) == static_cast<u64>(v), "from_int yields the enumerator with that value");
  verif_reach("from_int-end");
}

// ---- unsigned helpers
template <typename T>
void ceil_div()
{
  T const a{sym<T>("a")}, b{sym<T>("b")};
  fcppt::optional::object<T> const r{fcppt::math::ceil_div(a, b)};
  verif_assert(r.has_value() == (b != 0), "ceil_div: nothing exactly for a zero divisor");
  if (b != 0)
  {
    T const q{static_cast<T>(a / b)}, m{static_cast<T>(a % b)};
    verif_assert(r.get_unsafe() == static_cast<T>(q + (m != 0 ? 1 : 0)), "ceil_div = floor + [remainder != 0]");
  }
  verif_reach("ceil_div-end");
}

// ceil of the exact quotient, from truncating division
template <typename T>
T ceil_ref(T const a, T const b)
{
  T const q{static_cast<T>(a / b)}, m{static_cast<T>(a % b)};
  return static_cast<T>(q + ((m != 0 && ((m < 0) == (b < 0))) ? 1 : 0));
}

template <typename T>
void ceil_div_signed()
{
  T const a{sym<T>("a")}, b{sym<T>("b")};
  // the exact result must be representable: excludes MIN / -1
  verif_assume(!(a == std::numeric_limits<T>::min() && b == -1));
  fcppt::optional::object<T> const r{fcppt::math::ceil_div_signed(a, b)};
  verif_assert(r.has_value() == (b != 0), "ceil_div_signed: nothing exactly for a zero divisor");
  if (b != 0)
  {
    verif_out("ref", static_cast<u64>(ceil_ref(a, b)));
    verif_assert(r.get_unsafe() == ceil_ref(a, b), "ceil_div_signed = quotient rounded towards +infinity");
  }
  verif_reach("ceil_div_signed-end");
}

// the property's own small domain, checked against ceil computed in wider arithmetic
void ceil_div_signed_small()
{
  i32 const a{sym<i32>("a")}, b{sym<i32>("b")};
  verif_assume(a >= -1024 && a <= 1023 && b >= -1024 && b <= 1023);
  fcppt::optional::object<i32> const r{fcppt::math::ceil_div_signed(a, b)};
  verif_assert(r.has_value() == (b != 0), "ceil_div_signed [-1024,1023]^2: nothing exactly for zero divisor");
  if (b != 0)
  {
    // q is the ceiling iff q*b >= a > (q-1)*b for b > 0, and q*b <= a < (q-1)*b for b < 0
    // |q| <= 1024 and |b| <= 1024, so the products fit easily into 32 bits
    i32 const q{r.get_unsafe()}, A{a}, B{b};
    verif_assert(q >= -1024 && q <= 1024, "ceil_div_signed [-1024,1023]^2: |q| <= |a|");
    bool const ok{B > 0 ? (q * B >= A && (q - 1) * B < A) : (q * B <= A && (q - 1) * B > A)};
    verif_assert(ok, "ceil_div_signed [-1024,1023]^2: q = ceil(a/b) by the multiplication characterisation");
  }
  verif_reach("ceil_div_signed_small-end");
}

template <typename T>
void div_mod()
{
  T const a{sym<T>("a")}, b{sym<T>("b")};
  auto const d{fcppt::math::div(a, b)};
  verif_assert(d.has_value() == (b != 0), "div: nothing exactly for a zero divisor");
  if (b != 0) verif_assert(static_cast<T>(d.get_unsafe()) == static_cast<T>(a / b), "div = quotient");
  if constexpr (std::is_unsigned_v<T>)
  {
    fcppt::optional::object<T> const m{fcppt::math::mod(a, b)};
    verif_assert(m.has_value() == (b != 0), "mod: nothing exactly for a zero divisor");
    if (b != 0)
    {
      verif_assert(m.get_unsafe() == static_cast<T>(a % b), "mod = remainder");
      verif_assert(m.get_unsafe() < b, "mod < divisor");
    }
  }
  verif_reach("div_mod-end");
}

// (a multiplication characterisation a = q*b + r of 32-bit division was tried and dropped: z3 does not decide the
// 64-bit product within 60 s; div/mod are compared with the C++ operators instead)

template <typename T>
void clamp()
{
  T const v{sym<T>("v")}, mn{sym<T>("min")}, mx{sym<T>("max")};
  fcppt::optional::object<T> const r{fcppt::math::clamp(v, mn, mx)};
  verif_assert(r.has_value() == (mn <= mx), "clamp: nothing exactly for an empty interval");
  if (mn <= mx)
  {
    T const e{v < mn ? mn : v > mx ? mx : v};
    verif_assert(r.get_unsafe() == e, "clamp = nearest value in [min,max]");
  }
  verif_reach("clamp-end");
}

template <typename T>
void diff()
{
  T const a{sym<T>("a")}, b{sym<T>("b")};
  i128 const exact{static_cast<i128>(a) > static_cast<i128>(b) ? static_cast<i128>(a) - b : static_cast<i128>(b) - a};
  verif_assume(exact <= hi<T>()); // representable
  if constexpr (std::is_signed_v<T>) verif_assume(static_cast<i128>(a) - b >= lo<T>() && static_cast<i128>(a) - b <= hi<T>());
  T const r{fcppt::math::diff(a, b)};
  verif_assert(static_cast<i128>(r) == exact, "diff = |a - b|");
  verif_reach("diff-end");
}

template <typename T>
void pow2()
{
  T const x{sym<T>("x")};
  bool const p{fcppt::math::is_power_of_2(x)};
  verif_assert(p == (__builtin_popcountll(static_cast<u64>(x)) == 1), "is_power_of_2 <=> exactly one bit set");
  // next_power_of_2: least 2^k >= x, when representable (x <= 2^(w-1)); 0 -> 1 as documented
  T const top{static_cast<T>(T{1} << (digits<T>() - 1))};
  if (x <= top)
  {
    T const n{fcppt::math::next_power_of_2(x)};
    verif_out("np2", n);
    verif_assert(__builtin_popcountll(static_cast<u64>(n)) == 1, "next_power_of_2 is a power of two");
    verif_assert(n >= x, "next_power_of_2 >= x");
    verif_assert(n == 1 || static_cast<T>(n / 2) < x, "next_power_of_2 is the least such power");
  }
  verif_reach("pow2-end");
}

template <typename T>
void log2()
{
  T const x{sym<T>("x")};
  verif_assume(x != 0);
  T const r{fcppt::math::log2(x)};
  verif_out("log2", r);
  verif_assert(r < digits<T>(), "log2 < width");
  verif_assert(static_cast<T>(x >> r) == 1, "log2 = floor(log2 x): x >> r == 1");
  verif_reach("log2-end");
}

// bit::test(value, mask) = "value and mask have a common bit", for signed types too (the common bit may be the sign bit)
template <typename T>
void bit_test_any()
{
  T const v{sym<T>("v")}, m{sym<T>("m")};
  using U = std::make_unsigned_t<T>;
  bool const common{static_cast<U>(static_cast<U>(v) & static_cast<U>(m)) != 0};
  verif_assert(fcppt::bit::test(v, fcppt::bit::mask<T>{m}) == common, "bit::test(v, mask) = (v & mask) != 0");
  verif_reach("bit_test-end");
}

template <typename T>
void power_of_2()
{
  unsigned const e{verif_u8("e")};
  verif_assume(e < digits<T>());
  T const r{fcppt::math::power_of_2<T>(e)};
  verif_assert(__builtin_popcountll(static_cast<u64>(r)) == 1 && static_cast<unsigned>(__builtin_ctzll(static_cast<u64>(r))) == e, "power_of_2(e) has exactly bit e set");
  T const v{sym<T>("v")};
  fcppt::bit::mask<T> const m{fcppt::bit::shifted_mask<T>(e)};
  verif_assert(m.get() == r, "shifted_mask(e) = 2^e");
  verif_assert(fcppt::bit::test(v, m) == (((static_cast<u64>(v) >> e) & 1U) != 0), "bit::test(v, shifted_mask(e)) = bit e of v");
  verif_reach("power_of_2-end");
}

template <typename T>
void interval_distance()
{
  // intervals [a1,a2], [b1,b2] with a1<=a2, b1<=b2, small enough that no difference overflows
  T const a1{sym<T>("a1")}, a2{sym<T>("a2")}, b1{sym<T>("b1")}, b2{sym<T>("b2")};
  T const lim{static_cast<T>(hi<T>() / 4)};
  verif_assume(a1 <= a2 && b1 <= b2 && a1 >= -lim && a2 <= lim && b1 >= -lim && b2 <= lim);
  T const r{fcppt::math::interval_distance(fcppt::tuple::object<T, T>{a1, a2}, fcppt::tuple::object<T, T>{b1, b2})};
  T const r2{fcppt::math::interval_distance(fcppt::tuple::object<T, T>{b1, b2}, fcppt::tuple::object<T, T>{a1, a2})};
  bool const disjoint{a2 < b1 || b2 < a1};
  if (disjoint)
    verif_assert(r == (a2 < b1 ? static_cast<T>(b1 - a2) : static_cast<T>(a1 - b2)), "interval_distance of disjoint intervals = gap");
  else
    verif_assert(r <= 0, "interval_distance of overlapping intervals is not positive");
  if (a2 != b2) verif_assert(r == r2, "interval_distance is symmetric");
  verif_reach("interval_distance-end");
}
}

#define H(name, ...) VERIF_HARNESS(name) { __VA_ARGS__; }
#define TC_ROW(D, DN) \
  H(h_tc_##DN##_u8, tc<D, u8>()) H(h_tc_##DN##_u16, tc<D, u16>()) H(h_tc_##DN##_u32, tc<D, u32>()) H(h_tc_##DN##_u64, tc<D, u64>()) \
  H(h_tc_##DN##_i8, tc<D, i8>()) H(h_tc_##DN##_i16, tc<D, i16>()) H(h_tc_##DN##_i32, tc<D, i32>()) H(h_tc_##DN##_i64, tc<D, i64>())
TC_ROW(u8, u8) TC_ROW(u16, u16) TC_ROW(u32, u32) TC_ROW(u64, u64) TC_ROW(i8, i8) TC_ROW(i16, i16) TC_ROW(i32, i32) TC_ROW(i64, i64)
//@harness h_tc_{D}_{S} for D in u8,u16,u32,u64,i8,i16,i32,i64 for S in u8,u16,u32,u64,i8,i16,i32,i64 tier=quick

#define FI_ROW(U, UN, N) \
  H(h_fi_##UN##_##N##_u8, from_int<U, N, u8>()) H(h_fi_##UN##_##N##_u16, from_int<U, N, u16>()) H(h_fi_##UN##_##N##_u32, from_int<U, N, u32>()) H(h_fi_##UN##_##N##_u64, from_int<U, N, u64>())
FI_ROW(u8, u8, 1) FI_ROW(u8, u8, 3) FI_ROW(u8, u8, 9) FI_ROW(u16, u16, 1) FI_ROW(u16, u16, 3) FI_ROW(u16, u16, 9) FI_ROW(u32, u32, 1) FI_ROW(u32, u32, 3) FI_ROW(u32, u32, 9)
//@harness h_fi_{U}_{N}_{V} for U in u8,u16,u32 for N in 1,3,9 for V in u8,u16,u32,u64 tier=quick
FI_ROW(u8, u8, 2) FI_ROW(u8, u8, 17) FI_ROW(u8, u8, 200) FI_ROW(u8, u8, 255) FI_ROW(u16, u16, 256) FI_ROW(u16, u16, 1000) FI_ROW(u16, u16, 65535) FI_ROW(u32, u32, 65536) FI_ROW(u32, u32, 4294967295)
//@harness h_fi_u8_{N}_{V} for N in 2,17,200,255 for V in u8,u16,u32,u64 tier=thorough
//@harness h_fi_u16_{N}_{V} for N in 256,1000 for V in u8,u16,u32,u64 tier=quick
//@harness h_fi_u16_65535_{V} for V in u8,u16,u32,u64 tier=thorough
//@harness h_fi_u32_{N}_{V} for N in 65536,4294967295 for V in u8,u16,u32,u64 tier=thorough

H(h_ceil_div_u32, ceil_div<u32>()) H(h_ceil_div_u64, ceil_div<u64>())
//@harness h_ceil_div_u32 tier=quick
//@harness h_ceil_div_u64 tier=quick
H(h_ceil_div_signed_i32, ceil_div_signed<i32>()) H(h_ceil_div_signed_i64, ceil_div_signed<i64>()) H(h_ceil_div_signed_small, ceil_div_signed_small())
//@harness h_ceil_div_signed_i32 tier=quick
//@harness h_ceil_div_signed_i64 tier=quick
//@harness h_ceil_div_signed_small tier=quick query_ms=240000 wall=600
H(h_div_mod_u8, div_mod<u8>()) H(h_div_mod_u16, div_mod<u16>()) H(h_div_mod_u32, div_mod<u32>()) H(h_div_mod_u64, div_mod<u64>())
//@harness h_div_mod_{T} for T in u8,u16,u32,u64 tier=quick
H(h_clamp_u8, clamp<u8>()) H(h_clamp_u16, clamp<u16>()) H(h_clamp_u32, clamp<u32>()) H(h_clamp_u64, clamp<u64>())
H(h_clamp_i8, clamp<i8>()) H(h_clamp_i16, clamp<i16>()) H(h_clamp_i32, clamp<i32>()) H(h_clamp_i64, clamp<i64>())
//@harness h_clamp_{T} for T in u8,u16,u32,u64,i8,i16,i32,i64 tier=quick
H(h_diff_u32, diff<u32>()) H(h_diff_u64, diff<u64>()) H(h_diff_i32, diff<i32>()) H(h_diff_i64, diff<i64>())
//@harness h_diff_{T} for T in u32,u64,i32,i64 tier=quick
H(h_pow2_u8, pow2<u8>()) H(h_pow2_u16, pow2<u16>()) H(h_pow2_u32, pow2<u32>()) H(h_pow2_u64, pow2<u64>())
//@harness h_pow2_{T} for T in u8,u16,u32,u64 tier=quick loop=70
H(h_log2_u8, log2<u8>()) H(h_log2_u16, log2<u16>()) H(h_log2_u32, log2<u32>()) H(h_log2_u64, log2<u64>())
//@harness h_log2_{T} for T in u8,u16,u32,u64 tier=quick loop=70 hang_s=5
H(h_power_of_2_u8, power_of_2<u8>()) H(h_power_of_2_u16, power_of_2<u16>()) H(h_power_of_2_u32, power_of_2<u32>()) H(h_power_of_2_u64, power_of_2<u64>())
//@harness h_power_of_2_{T} for T in u8,u16,u32,u64 tier=quick
H(h_interval_distance_i32, interval_distance<i32>()) H(h_interval_distance_i64, interval_distance<i64>())
//@harness h_interval_distance_{T} for T in i32,i64 tier=quick
H(h_bit_test_i8, bit_test_any<i8>()) H(h_bit_test_i16, bit_test_any<i16>()) H(h_bit_test_i32, bit_test_any<i32>()) H(h_bit_test_i64, bit_test_any<i64>())
H(h_bit_test_u8, bit_test_any<u8>()) H(h_bit_test_u64, bit_test_any<u64>())
//@harness h_bit_test_{T} for T in i8,i16,i32,i64,u8,u64 tier=quick
