// C07 (second half) - "A buffer grown and filled in any pattern hands exactly its read area to the raw_vector it is
// converted into."
// Real code: fcppt::container::buffer::{object, append_from, append_from_opt, read_from, read_from_opt, to_raw_vector}
// and raw_vector::object(rep).
//
// Histories: buffer{w0} (w0 a driver parameter), then `steps` operations chosen by the solver among
//   resize_write_area(s), fill the first c <= write_size() slots of the write area + written(c), append_from(s, f) with
//   f writing c <= s slots, append_from_opt(s, f) with f succeeding or failing, move construction, move assignment,
//   swap with a second buffer,
// with symbolic sizes s <= 3, counts c and element values.  After every step the read area (read_size, begin/end,
// operator[], read_data) equals the model sequence of everything reported as written and the write area has the
// documented size; finally to_raw_vector yields exactly the model sequence (size, contents, capacity >= size), the
// emptied buffer is destroyed, the raw_vector takes one more push_back and is destroyed: the engine's memory checks and
// leak=1 decide out-of-bounds / double free / leak.  read_from / read_from_opt are checked as one-step histories.
//
// h_buffer_failure: from a buffer with r readable elements and `spare` free slots, one failure / early-return path
// (append_from_opt whose producer scribbles and fails, resize_write_area(0), written(0), append_from writing fewer than
// offered, append_from_opt returning 0, read_from_opt failing) leaves the caller's SAME buffer with its read area
// intact; a retry / written / resize and to_raw_vector then hand over everything read before and after.
//
// Outside the claim: allocation failure, fcppt::io::read_chars (the iostream client), non-default allocators.
//@property C07
#include "verif_api.h"
#include <fcppt/container/buffer/append_from.hpp>
#include <fcppt/container/buffer/append_from_opt.hpp>
#include <fcppt/container/buffer/object_impl.hpp>
#include <fcppt/container/buffer/read_from.hpp>
#include <fcppt/container/buffer/read_from_opt.hpp>
#include <fcppt/container/buffer/to_raw_vector.hpp>
#include <fcppt/container/raw_vector/object_impl.hpp>
#include <fcppt/optional/object_impl.hpp>
#include <cstddef>
#include <cstdint>
#include <utility>

namespace
{
constexpr unsigned MAXN = 24;
using sz_t = std::size_t;

template <typename T>
using buf = fcppt::container::buffer::object<T, std::allocator<T>>;
template <typename T>
using rv = fcppt::container::raw_vector::object<T>;

template <typename T>
T sym(char const *const name)
{
  if constexpr (sizeof(T) == 1) return static_cast<T>(verif_u8(name));
  else return static_cast<T>(verif_u32(name));
}

// symbolic shape value -> one path per feasible value, concrete afterwards (see C07_raw_vector.cpp)
inline unsigned split(unsigned const x)
{
  static constexpr unsigned char identity[32] = {0,  1,  2,  3,  4,  5,  6,  7,  8,  9,  10, 11, 12, 13, 14, 15,
                                                 16, 17, 18, 19, 20, 21, 22, 23, 24, 25, 26, 27, 28, 29, 30, 31};
  return identity[x];
}

inline unsigned shape(char const *const name, unsigned const max)
{
  unsigned const x{verif_u8(name)};
  verif_assume(x <= max);
  return split(x);
}

template <typename T>
struct model
{
  T a[MAXN];
  unsigned n; // read area
  unsigned w; // write area size
};

template <typename T>
void check(buf<T> &b, model<T> const &m)
{
  buf<T> const &cb{b};
  verif_out("read_size", cb.read_size());
  verif_out("write_size", cb.write_size());
  verif_assert(cb.read_size() == m.n, "buffer: read_size equals the number of elements reported as written");
  verif_assert(cb.write_size() == m.w, "buffer: write_size equals the requested write area minus what was written");
  verif_assert(
      cb.begin() == cb.read_data() && cb.end() == cb.read_data_end() && cb.read_data_end() == cb.read_data() + m.n &&
          b.write_data() == cb.read_data_end() && b.write_data_end() == b.write_data() + m.w,
      "buffer: read area and write area are adjacent ranges of the stated sizes");
  if (cb.read_size() == m.n)
  {
    bool same{true};
    for (unsigned i = 0; i < m.n; ++i) same = same & (cb[i] == m.a[i]) & (cb.read_data()[i] == m.a[i]);
    verif_assert(same, "buffer: read area holds exactly the written elements in order");
  }
}

// writes c symbolic elements to p and records them in the model
template <typename T>
void produce(T *const p, unsigned const c, model<T> &m)
{
  for (unsigned i = 0; i < c; ++i)
  {
    T const x{sym<T>("x")};
    p[i] = x;
    m.a[m.n + i] = x;
  }
}

template <typename T>
void step(buf<T> &b, model<T> &m, buf<T> &other, model<T> &mo)
{
  unsigned const op{shape("op", 6U)};
  switch (op)
  {
  case 0:
  {
    unsigned const s{shape("s", 3U)};
    b.resize_write_area(sz_t{s});
    m.w = s;
    break;
  }
  case 1:
  {
    unsigned const c{shape("c", m.w)};
    produce(b.write_data(), c, m);
    b.written(sz_t{c});
    m.n += c;
    m.w -= c;
    break;
  }
  case 2:
  {
    unsigned const s{shape("s", 3U)};
    unsigned const c{shape("c", s)};
    bool called{false};
    b = fcppt::container::buffer::append_from(
        std::move(b),
        sz_t{s},
        [&](T *const p, sz_t const sz) -> sz_t
        {
          verif_assert(sz == s && !called, "append_from: the function is called once with the requested size");
          called = true;
          produce(p, c, m);
          return c;
        });
    verif_assert(called, "append_from: the function is called");
    m.n += c;
    m.w = s - c;
    break;
  }
  case 3:
  {
    unsigned const s{shape("s", 3U)};
    bool const ok{verif_u8("ok") != 0};
    unsigned const c{ok ? shape("c", s) : 0U};
    fcppt::optional::object<buf<T>> r{fcppt::container::buffer::append_from_opt(
        std::move(b),
        sz_t{s},
        [&](T *const p, sz_t const sz) -> fcppt::optional::object<sz_t>
        {
          verif_assert(sz == s, "append_from_opt: the function is called with the requested size");
          if (!ok) return fcppt::optional::object<sz_t>{};
          produce(p, c, m);
          return fcppt::optional::object<sz_t>{sz_t{c}};
        })};
    verif_assert(r.has_value() == ok, "append_from_opt: a buffer is returned exactly when the function succeeds");
    if (ok)
    {
      b = std::move(r.get_unsafe());
      m.n += c;
      m.w = s - c;
    }
    else
    {
      // the buffer was not moved out of; only its write area was resized
      m.w = s;
    }
    break;
  }
  case 4:
  {
    buf<T> t{std::move(b)};
    verif_assert(b.read_size() == 0 && b.write_size() == 0, "buffer move construction: the source is empty");
    check(t, m);
    b = std::move(t);
    break;
  }
  case 5:
  {
    b.swap(other);
    std::swap(m, mo);
    break;
  }
  default:
  {
    fcppt::container::buffer::swap(other, b);
    std::swap(m, mo);
    other = buf<T>{sz_t{1}}; // move assignment over a buffer that owns storage
    mo.n = 0;
    mo.w = 1;
    break;
  }
  }
}

template <typename T>
void history()
{
  unsigned const w0{static_cast<unsigned>(verif_param("w0"))}, steps{static_cast<unsigned>(verif_param("steps"))};
  model<T> m;
  m.n = 0;
  m.w = w0;
  buf<T> b{sz_t{w0}};
  // a second buffer with one readable element, for swap / move assignment
  model<T> mo;
  mo.n = 0;
  mo.w = 2;
  buf<T> other{sz_t{2}};
  produce(other.write_data(), 1U, mo);
  other.written(1U);
  mo.n = 1;
  mo.w = 1;
  check(b, m);
  for (unsigned k = 0; k < steps; ++k)
  {
    step(b, m, other, mo);
    check(b, m);
    check(other, mo);
  }
  rv<T> v{fcppt::container::buffer::to_raw_vector(std::move(b))};
  verif_assert(b.read_size() == 0 && b.write_size() == 0 && b.read_data() == nullptr, "to_raw_vector: the buffer gives up its storage");
  verif_out("size", v.size());
  verif_assert(v.size() == m.n, "to_raw_vector: size equals the read area's");
  verif_assert(v.capacity() >= v.size(), "to_raw_vector: capacity >= size");
  if (v.size() == m.n)
  {
    bool same{true};
    for (unsigned i = 0; i < m.n; ++i) same = same & (v[i] == m.a[i]);
    verif_assert(same, "to_raw_vector: contents are exactly the read area");
  }
  // the raw_vector owns the block like any other: grow it once
  T const x{sym<T>("x")};
  v.push_back(x);
  verif_assert(v.size() == m.n + 1U && v.back() == x, "to_raw_vector: the result accepts push_back");
  if (v.size() == m.n + 1U)
  {
    bool same{true};
    for (unsigned i = 0; i < m.n; ++i) same = same & (v[i] == m.a[i]);
    verif_assert(same, "to_raw_vector: contents survive a push_back");
  }
  verif_reach("history-end");
}

// ---------------------------------------------------------------- failure / early-return paths, then the SAME buffer goes on
// Pre-state through the public API: r readable elements followed by `spare` unused slots.  One failure or no-op path
// (solver's choice), after which the caller's buffer must be exactly what it was as far as the read area is concerned,
// then a continuation (retry that succeeds / fill + written / nothing) and to_raw_vector, which must hand over everything
// read before the failure plus what the continuation added.
template <typename T>
void finish_to_raw_vector(buf<T> &b, model<T> const &m, char const *const id_size, char const *const id_cont)
{
  rv<T> v{fcppt::container::buffer::to_raw_vector(std::move(b))};
  verif_out("size", v.size());
  verif_assert(v.size() == m.n && v.capacity() >= v.size(), id_size);
  if (v.size() == m.n)
  {
    bool same{true};
    for (unsigned i = 0; i < m.n; ++i) same = same & (v[i] == m.a[i]);
    verif_assert(same, id_cont);
  }
  T const x{sym<T>("x")};
  v.push_back(x);
  verif_assert(v.size() == m.n + 1U && v.back() == x, "after a failure path: the raw_vector accepts push_back");
}

template <typename T>
void failure()
{
  unsigned const r{static_cast<unsigned>(verif_param("r"))}, spare{static_cast<unsigned>(verif_param("spare"))};
  model<T> m;
  m.n = 0;
  m.w = r + spare;
  buf<T> b{sz_t{r + spare}};
  produce(b.write_data(), r, m);
  b.written(sz_t{r});
  m.n = r;
  m.w = spare;
  check(b, m);
  T const *const data0{b.read_data()};
  unsigned const path{shape("path", 5U)};
  verif_out("path", path);
  switch (path)
  {
  case 0:
  {
    // append_from_opt whose producer scribbles into the offered write area and then FAILS
    unsigned const s{shape("s", 3U)};
    unsigned const junk{shape("junk", s)};
    bool called{false};
    fcppt::optional::object<buf<T>> const res{fcppt::container::buffer::append_from_opt(
        std::move(b),
        sz_t{s},
        [&](T *const p, sz_t const sz) -> fcppt::optional::object<sz_t>
        {
          verif_assert(sz == s && !called, "failing append_from_opt: the function is called once with the requested size");
          called = true;
          for (unsigned i = 0; i < junk; ++i) p[i] = sym<T>("junk_value");
          return fcppt::optional::object<sz_t>{};
        })};
    verif_assert(called && !res.has_value(), "failing append_from_opt: nothing is returned");
    m.w = s;
    verif_assert(b.read_size() == r, "failing append_from_opt: the caller's buffer keeps its read area size");
    if (s <= spare) verif_assert(b.read_data() == data0, "failing append_from_opt within the spare capacity: no reallocation");
    break;
  }
  case 1:
    b.resize_write_area(sz_t{0});
    m.w = 0;
    verif_assert(b.read_data() == data0 && b.read_size() == r, "resize_write_area(0): read area untouched, no reallocation");
    break;
  case 2:
    b.written(sz_t{0});
    verif_assert(
        b.read_data() == data0 && b.read_size() == r && b.write_size() == spare && b.write_data() == data0 + r,
        "written(0): nothing changes");
    break;
  case 3:
  {
    // append_from whose producer writes fewer elements than offered
    unsigned const s{1U + shape("s", 2U)};
    unsigned const c{shape("c", s - 1U)};
    b = fcppt::container::buffer::append_from(
        std::move(b),
        sz_t{s},
        [&](T *const p, sz_t const sz) -> sz_t
        {
          verif_assert(sz == s, "short append_from: the function is called with the requested size");
          produce(p, c, m);
          return c;
        });
    m.n += c;
    m.w = s - c;
    break;
  }
  case 4:
  {
    // append_from_opt that succeeds with zero elements
    unsigned const s{shape("s", 3U)};
    fcppt::optional::object<buf<T>> res{fcppt::container::buffer::append_from_opt(
        std::move(b), sz_t{s}, [&](T *, sz_t) -> fcppt::optional::object<sz_t> { return fcppt::optional::object<sz_t>{sz_t{0}}; })};
    verif_assert(res.has_value(), "append_from_opt returning 0: a buffer is returned");
    if (res.has_value()) b = std::move(res.get_unsafe());
    m.w = s;
    break;
  }
  default:
  {
    // read_from_opt failing: nothing is returned, the caller's buffer is not involved and nothing leaks
    unsigned const s{shape("s", 3U)};
    fcppt::optional::object<buf<T>> const res{fcppt::container::buffer::read_from_opt<buf<T>>(
        sz_t{s},
        [&](T *const p, sz_t const sz) -> fcppt::optional::object<sz_t>
        {
          verif_assert(sz == s, "failing read_from_opt: the function is called with the requested size");
          if (s != 0) p[0] = sym<T>("junk_value");
          return fcppt::optional::object<sz_t>{};
        })};
    verif_assert(!res.has_value(), "failing read_from_opt: nothing is returned");
    break;
  }
  }
  check(b, m); // read area: size and contents exactly as before (plus what a short append reported)
  unsigned const next{shape("next", 3U)};
  verif_out("next", next);
  switch (next)
  {
  case 0:
  {
    // retry that succeeds
    unsigned const s{shape("s2", 3U)};
    unsigned const c{shape("c2", s)};
    fcppt::optional::object<buf<T>> res{fcppt::container::buffer::append_from_opt(
        std::move(b),
        sz_t{s},
        [&](T *const p, sz_t) -> fcppt::optional::object<sz_t>
        {
          produce(p, c, m);
          return fcppt::optional::object<sz_t>{sz_t{c}};
        })};
    verif_assert(res.has_value(), "retry after a failure: a buffer is returned");
    if (res.has_value()) b = std::move(res.get_unsafe());
    m.n += c;
    m.w = s - c;
    check(b, m);
    break;
  }
  case 1:
  {
    unsigned const c{shape("c2", m.w)};
    produce(b.write_data(), c, m);
    b.written(sz_t{c});
    m.n += c;
    m.w -= c;
    check(b, m);
    break;
  }
  case 2:
  {
    unsigned const s{shape("s2", 3U)};
    b.resize_write_area(sz_t{s});
    m.w = s;
    check(b, m);
    break;
  }
  default: break;
  }
  finish_to_raw_vector(
      b, m, "after a failure path: to_raw_vector has the size of everything read", "after a failure path: to_raw_vector hands over everything read before and after");
  verif_reach("failure-end");
}

template <typename T>
void read_from()
{
  unsigned const s{shape("s", 3U)};
  unsigned const c{shape("c", s)};
  bool const ok{verif_u8("ok") != 0};
  model<T> m;
  m.n = 0;
  m.w = 0;
  buf<T> b{fcppt::container::buffer::read_from<buf<T>>(
      sz_t{s},
      [&](T *const p, sz_t const sz) -> sz_t
      {
        verif_assert(sz == s, "read_from: the function is called with the requested size");
        produce(p, c, m);
        return c;
      })};
  m.n = c;
  m.w = s - c;
  check(b, m);
  model<T> m2;
  m2.n = 0;
  m2.w = 0;
  fcppt::optional::object<buf<T>> r{fcppt::container::buffer::read_from_opt<buf<T>>(
      sz_t{s},
      [&](T *const p, sz_t) -> fcppt::optional::object<sz_t>
      {
        if (!ok) return fcppt::optional::object<sz_t>{};
        produce(p, c, m2);
        return fcppt::optional::object<sz_t>{sz_t{c}};
      })};
  verif_assert(r.has_value() == ok, "read_from_opt: a buffer is returned exactly when the function succeeds");
  if (ok)
  {
    m2.n = c;
    m2.w = s - c;
    check(r.get_unsafe(), m2);
    rv<T> v{fcppt::container::buffer::to_raw_vector(std::move(r.get_unsafe()))};
    bool same{v.size() == c};
    if (same)
      for (unsigned i = 0; i < c; ++i) same = same & (v[i] == m2.a[i]);
    verif_assert(same, "read_from_opt + to_raw_vector: exactly the elements read");
  }
  verif_reach("read_from-end");
}
}

VERIF_HARNESS(h_buffer_history_i32) { history<int>(); }
VERIF_HARNESS(h_buffer_history_u8) { history<unsigned char>(); }
VERIF_HARNESS(h_buffer_failure_i32) { failure<int>(); }
VERIF_HARNESS(h_buffer_failure_u8) { failure<unsigned char>(); }
VERIF_HARNESS(h_buffer_read_from_i32) { read_from<int>(); }
VERIF_HARNESS(h_buffer_read_from_u8) { read_from<unsigned char>(); }

//@harness h_buffer_history_{T} for T in i32,u8 param w0=0..2 param steps=0..2 tier=quick leak=1 paths=100000
//@harness h_buffer_read_from_{T} for T in i32,u8 tier=quick leak=1
//@harness h_buffer_failure_{T} for T in i32,u8 param r=0..2 param spare=0..2 tier=quick leak=1
//@harness h_buffer_history_{T} for T in i32,u8 param w0=0..2 param steps=3 tier=thorough leak=1 paths=400000 wall=1500
