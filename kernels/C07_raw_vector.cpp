// C07 - raw_vector behaves like std::vector: ONE INDUCTIVE STEP per operation from an arbitrary valid state.
// Real code: fcppt::container::raw_vector::{object,rep,comparison} (object_impl.hpp, rep_impl.hpp, comparison.hpp).
//
// Pre-state: representation (first,last,cap) with first <= last <= cap over a block of exactly `cap` elements, built
// through the public object(rep) constructor (what buffer::to_raw_vector does, and the same representation that
// reserve(cap) + n push_backs produce); shape (n,cap) is a driver parameter, the n element values are symbolic, the
// cap-n slots behind them are uninitialised.  For cap == 0 the solver additionally chooses between the null
// representation (default constructed / moved-from) and a zero-size block (what buffer{0} hands over).
// Step: one operation with symbolic position / count / value; a value reference is chosen by the solver between an
// external object and an element of the vector itself (aliasing), which std::vector supports for push_back, insert and
// resize.  Post-state: contents, size, returned iterator offset equal the sequence model written down from the
// std::vector specification; capacity >= size; data_end == data+size; the engine's memory checks decide "no access
// outside the allocation / no double free" and `leak=1` decides "no leak" after the vector has been destroyed.
// Every post-state is again a representation of the pre-state family, so invariant + step cover histories of any length
// within the capacity bound (cap <= 4 quick, <= 6 thorough; inserted counts <= 3).  h_hist2 additionally runs 2..4-step
// histories from the constructors through the public API only.
//
// Outside the claim: allocation failure / length_error (allocation never fails in the engine), element types other than
// int and unsigned char (T must be trivial anyway; moves of non-trivial types are C05), custom allocators, capacities
// above 6, fcppt::io::read_chars (iostream) as a client of buffer.
//@property C07
#include "verif_api.h"
#include <fcppt/container/dynamic_array_impl.hpp>
#include <fcppt/container/raw_vector/comparison.hpp>
#include <fcppt/container/raw_vector/object_impl.hpp>
#include <fcppt/container/raw_vector/rep_impl.hpp>
#include <cstddef>
#include <cstdint>
#include <iterator>
#include <memory>
#include <utility>

namespace
{
constexpr unsigned MAXN = 16;
using sz_t = std::size_t;

template <typename T>
using rv = fcppt::container::raw_vector::object<T>;
template <typename T>
using rep_t = fcppt::container::raw_vector::rep<std::allocator<T>>;

template <typename T>
T sym(char const *const name)
{
  if constexpr (sizeof(T) == 1) return static_cast<T>(verif_u8(name));
  else return static_cast<T>(verif_u32(name));
}

// A symbolic *shape* value (position, count, operation code) is turned into one path per feasible value by reading it
// back through an identity table: the engine forks over the feasible offsets of the load and continues with a concrete
// number, so the reference model below costs no solver queries.  The value itself stays the solver's choice.
inline unsigned split(unsigned const x)
{
  static constexpr unsigned char identity[32] = {0,  1,  2,  3,  4,  5,  6,  7,  8,  9,  10, 11, 12, 13, 14, 15,
                                                 16, 17, 18, 19, 20, 21, 22, 23, 24, 25, 26, 27, 28, 29, 30, 31};
  return identity[x];
}

inline unsigned bounded(unsigned const x, unsigned const max)
{
  verif_assume(x <= max);
  return split(x);
}

inline unsigned shape(char const *const name, unsigned const max) { return bounded(verif_u8(name), max); }

// the sequence model
template <typename T>
struct seq
{
  T a[MAXN];
  unsigned n;
};

template <typename T>
seq<T> sym_seq(unsigned const n, char const *const name)
{
  seq<T> r;
  r.n = n;
  for (unsigned i = 0; i < n; ++i) r.a[i] = sym<T>(name);
  return r;
}

// model operations, written from the std::vector specification
template <typename T>
seq<T> m_insert(seq<T> const &o, unsigned const pos, T const *const src, unsigned const cnt)
{
  seq<T> r;
  r.n = o.n + cnt;
  for (unsigned i = 0; i < r.n; ++i) r.a[i] = i < pos ? o.a[i] : i < pos + cnt ? src[i - pos] : o.a[i - cnt];
  return r;
}

template <typename T>
seq<T> m_insert_fill(seq<T> const &o, unsigned const pos, T const val, unsigned const cnt)
{
  seq<T> r;
  r.n = o.n + cnt;
  for (unsigned i = 0; i < r.n; ++i) r.a[i] = i < pos ? o.a[i] : i < pos + cnt ? val : o.a[i - cnt];
  return r;
}

template <typename T>
seq<T> m_erase(seq<T> const &o, unsigned const first, unsigned const last)
{
  seq<T> r;
  r.n = o.n - (last - first);
  for (unsigned i = 0; i < r.n; ++i) r.a[i] = i < first ? o.a[i] : o.a[i + (last - first)];
  return r;
}

// post-state checks; ids carry the operation name
template <typename T>
void check_ids(rv<T> &v, seq<T> const &e, char const *const id_size, char const *const id_cap, char const *const id_ptrs, char const *const id_cont)
{
  verif_out("size", v.size());
  verif_assert(v.size() == e.n, id_size);
  verif_assert(v.capacity() >= v.size(), id_cap);
  rv<T> const &cv{v};
  bool ptrs{v.empty() == (e.n == 0) && v.data_end() == v.data() + v.size() && v.begin() == v.data() && v.end() == v.data_end() &&
            cv.data() == v.data() && cv.data_end() == v.data_end() && cv.begin() == v.data() && cv.end() == v.data_end()};
  if (v.size() == e.n && e.n != 0)
    ptrs = ptrs && &v.front() == v.data() && &v.back() == v.data() + (e.n - 1) && &cv.front() == v.data() && &cv.back() == &v.back() &&
           &v[e.n - 1] == &v.back() && &cv[0] == v.data();
  verif_assert(ptrs, id_ptrs);
  if (v.size() == e.n)
  {
    bool same{true};
    for (unsigned i = 0; i < e.n; ++i) same = same & (v[i] == e.a[i]);
    verif_assert(same, id_cont);
  }
}
#define CHECK(v, e, op) \
  check_ids(v, e, op ": size equals the model's", op ": capacity >= size", op ": data/begin/end/front/back/empty consistent with size", \
            op ": contents equal the model's")

// arbitrary valid pre-state of shape (n,cap), handed to f together with its model
template <typename T, typename F>
void with_state(char const *const nname, char const *const cname, char const *const vname, F const &f)
{
  unsigned const n{static_cast<unsigned>(verif_param(nname))}, cap{static_cast<unsigned>(verif_param(cname))};
  seq<T> const m{sym_seq<T>(n, vname)};
  bool const null_rep{cap == 0 && verif_u8("null_rep") != 0};
  if (null_rep)
  {
    rv<T> v{};
    f(v, m);
  }
  else
  {
    std::allocator<T> a{};
    T *const p{a.allocate(cap)};
    for (unsigned i = 0; i < n; ++i) p[i] = m.a[i];
    rv<T> v{rep_t<T>{a, p, p + n, p + cap}};
    f(v, m);
  }
}

template <typename T, typename F>
void with_state(F const &f)
{
  with_state<T>("n", "cap", "x", f);
}

// second vector for the binary operations: shapes null, (0,2), (2,3), (1,1)
template <typename T, typename F>
void with_state2(F const &f)
{
  unsigned const s{static_cast<unsigned>(verif_param("s2"))};
  unsigned const n{s == 2 ? 2U : s == 3 ? 1U : 0U}, cap{s == 0 ? 0U : s == 1 ? 2U : s == 2 ? 3U : 1U};
  seq<T> const m{sym_seq<T>(n, "y")};
  if (s == 0)
  {
    rv<T> v{};
    f(v, m);
  }
  else
  {
    std::allocator<T> a{};
    T *const p{a.allocate(cap)};
    for (unsigned i = 0; i < n; ++i) p[i] = m.a[i];
    rv<T> v{rep_t<T>{a, p, p + n, p + cap}};
    f(v, m);
  }
}

// a value reference: external object or (solver's choice) an element of the vector
#define ALIASED_VALUE(T, v, m, ext, ref, mval) \
  T const ext{sym<T>("value")}; \
  bool const alias{(m).n != 0 && verif_u8("alias") != 0}; \
  unsigned const alias_at{alias ? shape("alias_at", (m).n - 1U) : 0U}; \
  verif_out("alias", alias); \
  T const &ref = alias ? (v)[alias_at] : ext; \
  T const mval{alias ? (m).a[alias_at] : ext}

// ---------------------------------------------------------------- single-element operations
template <typename T>
void push_back()
{
  with_state<T>([](rv<T> &v, seq<T> const &m) {
    ALIASED_VALUE(T, v, m, ext, ref, mval);
    v.push_back(ref);
    seq<T> const e{m_insert_fill(m, m.n, mval, 1U)};
    CHECK(v, e, "push_back");
    verif_reach("push_back-end");
  });
}

template <typename T>
void pop_back()
{
  with_state<T>([](rv<T> &v, seq<T> const &m) {
    sz_t const cap0{v.capacity()};
    v.pop_back();
    seq<T> const e{m_erase(m, m.n - 1U, m.n)};
    CHECK(v, e, "pop_back");
    verif_assert(v.capacity() == cap0, "pop_back: capacity unchanged");
    verif_reach("pop_back-end");
  });
}

template <typename T>
void insert_one()
{
  with_state<T>([](rv<T> &v, seq<T> const &m) {
    unsigned const pos{shape("pos", m.n)};
    ALIASED_VALUE(T, v, m, ext, ref, mval);
    auto const it{v.insert(v.begin() + pos, ref)};
    verif_out("it", static_cast<std::uint64_t>(it - v.begin()));
    seq<T> const e{m_insert_fill(m, pos, mval, 1U)};
    verif_assert(it == v.begin() + pos, "insert(pos,value): returned iterator points at the inserted element");
    if (alias) { CHECK(v, e, "insert(pos,value) [value aliases an element]"); }
    else { CHECK(v, e, "insert(pos,value)"); }
    verif_reach("insert_one-end");
  });
}

template <typename T>
void insert_fill()
{
  with_state<T>([](rv<T> &v, seq<T> const &m) {
    unsigned const pos{shape("pos", m.n)}, cnt{shape("cnt", 3U)};
    ALIASED_VALUE(T, v, m, ext, ref, mval);
    T const *const data0{v.data()};
    sz_t const cap0{v.capacity()};
    v.insert(v.begin() + pos, sz_t{cnt}, ref);
    if (cnt == 0) verif_assert(v.data() == data0 && v.capacity() == cap0, "insert(pos,0,value): early return, no reallocation");
    seq<T> const e{m_insert_fill(m, pos, mval, cnt)};
    if (alias) { CHECK(v, e, "insert(pos,n,value) [value aliases an element]"); }
    else { CHECK(v, e, "insert(pos,n,value)"); }
    verif_reach("insert_fill-end");
  });
}

template <typename T>
void insert_ptr_range()
{
  with_state<T>([](rv<T> &v, seq<T> const &m) {
    unsigned const pos{shape("pos", m.n)}, cnt{shape("cnt", 3U)};
    T src[3];
    for (unsigned i = 0; i < 3; ++i) src[i] = sym<T>("src");
    T const *const first{src};
    T const *const data0{v.data()};
    sz_t const cap0{v.capacity()};
    v.insert(v.begin() + pos, first, first + cnt);
    if (cnt == 0) verif_assert(v.data() == data0 && v.capacity() == cap0, "insert(pos,first,first): early return, no reallocation");
    seq<T> const e{m_insert(m, pos, src, cnt)};
    CHECK(v, e, "insert(pos,first,last) [pointer range]");
    verif_reach("insert_ptr_range-end");
  });
}

// a genuinely single-pass input iterator: only the current front of the stream may be read or advanced
template <typename T>
struct stream
{
  T const *src;
  unsigned pos;
};

template <typename T>
class in_it
{
public:
  using iterator_category = std::input_iterator_tag;
  using value_type = T;
  using difference_type = std::ptrdiff_t;
  using pointer = T const *;
  using reference = T const &;
  in_it(stream<T> *const s, unsigned const i) : s_{s}, i_{i} {}
  reference operator*() const
  {
    verif_assert(i_ == s_->pos, "input iterator: only the front of the stream is read");
    return s_->src[i_];
  }
  in_it &operator++()
  {
    verif_assert(i_ == s_->pos, "input iterator: only the front of the stream is advanced");
    ++s_->pos;
    ++i_;
    return *this;
  }
  in_it operator++(int)
  {
    in_it r{*this};
    ++*this;
    return r;
  }
  bool operator==(in_it const &o) const { return i_ == o.i_; }
  bool operator!=(in_it const &o) const { return i_ != o.i_; }

private:
  stream<T> *s_;
  unsigned i_;
};

template <typename T>
void insert_input_range()
{
  with_state<T>([](rv<T> &v, seq<T> const &m) {
    unsigned const pos{shape("pos", m.n)}, cnt{shape("cnt", 3U)};
    T src[3];
    for (unsigned i = 0; i < 3; ++i) src[i] = sym<T>("src");
    stream<T> st{src, 0U};
    T const *const data0{v.data()};
    sz_t const cap0{v.capacity()};
    v.insert(v.begin() + pos, in_it<T>{&st, 0U}, in_it<T>{&st, cnt});
    if (cnt == 0) verif_assert(v.data() == data0 && v.capacity() == cap0, "insert(pos,first,first) [input iterator]: early return, no reallocation");
    seq<T> const e{m_insert(m, pos, src, cnt)};
    CHECK(v, e, "insert(pos,first,last) [input iterator]");
    verif_assert(st.pos == cnt, "insert(pos,first,last) [input iterator]: consumes exactly the range");
    verif_reach("insert_input_range-end");
  });
}

template <typename T>
void erase_one()
{
  with_state<T>([](rv<T> &v, seq<T> const &m) {
    unsigned const pos{shape("pos", m.n - 1U)};
    sz_t const cap0{v.capacity()};
    auto const it{v.erase(v.begin() + pos)};
    verif_out("it", static_cast<std::uint64_t>(it - v.begin()));
    seq<T> const e{m_erase(m, pos, pos + 1U)};
    verif_assert(it == v.begin() + pos, "erase(pos): returned iterator points at the element that followed the erased one");
    CHECK(v, e, "erase(pos)");
    verif_assert(v.capacity() == cap0, "erase(pos): capacity unchanged");
    verif_reach("erase_one-end");
  });
}

template <typename T>
void erase_range()
{
  with_state<T>([](rv<T> &v, seq<T> const &m) {
    unsigned const first{shape("first", m.n)}, last{shape("last", m.n)};
    verif_assume(first <= last);
    sz_t const cap0{v.capacity()};
    T const *const data0{v.data()};
    auto const it{v.erase(v.begin() + first, v.begin() + last)};
    verif_assert(v.data() == data0, "erase(first,last) (also the empty range): storage stays where it is");
    verif_out("it", static_cast<std::uint64_t>(it - v.begin()));
    seq<T> const e{m_erase(m, first, last)};
    // std::vector: "iterator following the last removed element" = begin()+first in the new sequence
    verif_assert(it == v.begin() + first, "erase(first,last): returned iterator points at the element that followed the erased range");
    CHECK(v, e, "erase(first,last)");
    verif_assert(v.capacity() == cap0, "erase(first,last): capacity unchanged");
    verif_reach("erase_range-end");
  });
}

template <typename T>
void resize()
{
  with_state<T>([](rv<T> &v, seq<T> const &m) {
    unsigned const cap{static_cast<unsigned>(v.capacity())};
    unsigned const nsz{shape("new_size", cap + 2U)};
    ALIASED_VALUE(T, v, m, ext, ref, mval);
    T const *const data0{v.data()};
    v.resize(sz_t{nsz}, ref);
    if (nsz <= cap) verif_assert(v.data() == data0 && v.capacity() == cap, "resize within the capacity (same size, shrinking, growing in place): no reallocation");
    seq<T> e;
    e.n = nsz;
    for (unsigned i = 0; i < nsz; ++i) e.a[i] = i < m.n ? m.a[i] : mval;
    if (alias) { CHECK(v, e, "resize [value aliases an element]"); }
    else { CHECK(v, e, "resize"); }
    verif_reach("resize-end");
  });
}

template <typename T>
void reserve()
{
  with_state<T>([](rv<T> &v, seq<T> const &m) {
    unsigned const cap{static_cast<unsigned>(v.capacity())};
    unsigned const want{shape("want", cap + 3U)};
    T const *const before{v.data()};
    v.reserve(sz_t{want});
    CHECK(v, m, "reserve");
    verif_assert(v.capacity() >= want, "reserve: capacity >= requested");
    if (want <= cap) verif_assert(v.data() == before && v.capacity() == cap, "reserve within capacity: no reallocation");
    verif_reach("reserve-end");
  });
}

template <typename T>
void shrink_clear()
{
  with_state<T>([](rv<T> &v, seq<T> const &m) {
    bool const which{verif_u8("shrink") != 0};
    if (which)
    {
      v.shrink_to_fit();
      CHECK(v, m, "shrink_to_fit");
    }
    else
    {
      sz_t const cap0{v.capacity()};
      v.clear();
      seq<T> e;
      e.n = 0;
      CHECK(v, e, "clear");
      verif_assert(v.capacity() == cap0, "clear: capacity unchanged");
    }
    // the post-state is usable: one more push_back
    T const x{sym<T>("value")};
    v.push_back(x);
    seq<T> const e2{m_insert_fill(which ? m : seq<T>{{}, 0U}, which ? m.n : 0U, x, 1U)};
    CHECK(v, e2, "push_back after shrink_to_fit/clear");
    verif_reach("shrink_clear-end");
  });
}

// ---------------------------------------------------------------- binary operations
template <typename T>
void swap_move()
{
  with_state<T>([](rv<T> &a, seq<T> const &ma) {
    with_state2<T>([&a, &ma](rv<T> &b, seq<T> const &mb) {
      unsigned const op{shape("op", 3U)};
      T const *const da{a.data()};
      T const *const db{b.data()};
      sz_t const ca{a.capacity()}, cb{b.capacity()};
      if (op == 0)
      {
        a.swap(b);
        CHECK(a, mb, "swap (lhs)");
        CHECK(b, ma, "swap (rhs)");
        verif_assert(a.data() == db && b.data() == da && a.capacity() == cb && b.capacity() == ca, "swap: exchanges storage, no copy");
      }
      else if (op == 1)
      {
        fcppt::container::raw_vector::swap(a, b);
        CHECK(a, mb, "free swap (lhs)");
        CHECK(b, ma, "free swap (rhs)");
      }
      else if (op == 2)
      {
        rv<T> c{std::move(a)};
        seq<T> empty;
        empty.n = 0;
        CHECK(c, ma, "move construction (target)");
        CHECK(a, empty, "move construction (source is empty)");
        verif_assert(c.data() == da && c.capacity() == ca, "move construction: takes the storage");
        T const x{sym<T>("value")};
        a.push_back(x);
        seq<T> const e{m_insert_fill(empty, 0U, x, 1U)};
        CHECK(a, e, "push_back into a moved-from vector");
      }
      else
      {
        a = std::move(b);
        CHECK(a, mb, "move assignment (target)");
        verif_assert(a.data() == db && a.capacity() == cb, "move assignment: takes the storage");
        // the source is valid but unspecified: it can be inspected, cleared and reused
        verif_assert(b.capacity() >= b.size(), "move assignment: source keeps capacity >= size");
        b.clear();
        T const x{sym<T>("value")};
        b.push_back(x);
        seq<T> empty;
        empty.n = 0;
        seq<T> const e{m_insert_fill(empty, 0U, x, 1U)};
        CHECK(b, e, "clear + push_back on a moved-from (assigned-from) vector");
      }
      verif_reach("swap_move-end");
    });
  });
}

template <typename T>
bool m_less(seq<T> const &a, seq<T> const &b)
{
  for (unsigned i = 0; i < a.n && i < b.n; ++i)
  {
    if (a.a[i] < b.a[i]) return true;
    if (b.a[i] < a.a[i]) return false;
  }
  return a.n < b.n;
}

template <typename T>
void compare()
{
  with_state<T>([](rv<T> &a, seq<T> const &ma) {
    with_state<T>("n2", "cap2", "y", [&a, &ma](rv<T> &b, seq<T> const &mb) {
      bool eq{ma.n == mb.n};
      for (unsigned i = 0; i < ma.n && i < mb.n; ++i) eq = eq && ma.a[i] == mb.a[i];
      bool const lt{m_less(ma, mb)}, gt{m_less(mb, ma)};
      rv<T> const &ca{a};
      rv<T> const &cb{b};
      verif_out("eq", eq);
      verif_out("lt", lt);
      verif_assert((ca == cb) == eq, "operator== is element-wise equality of equally long sequences");
      verif_assert((ca != cb) == !eq, "operator!= is its negation");
      verif_assert((ca < cb) == lt, "operator< is lexicographic");
      verif_assert((ca > cb) == gt, "operator> is lexicographic");
      verif_assert((ca <= cb) == !gt, "operator<= is lexicographic");
      verif_assert((ca >= cb) == !lt, "operator>= is lexicographic");
      verif_reach("compare-end");
    });
  });
}

// ---------------------------------------------------------------- comparison of elements whose == is not bytewise
// A trivial struct with padding; the two vectors live in blocks pre-filled with different bytes (0x00 / 0xFF), the
// fields are then written one by one, so equal elements differ in their padding bytes.  == / != / < / > / <= / >= must
// agree with element-wise comparison through the element's own operators (a bytewise comparison would not).
struct padded
{
  char c;
  int i;
};
static_assert(sizeof(padded) > sizeof(char) + sizeof(int), "padded has padding bytes");
inline bool operator==(padded const &a, padded const &b) { return a.c == b.c && a.i == b.i; }
inline bool operator<(padded const &a, padded const &b) { return a.c < b.c || (a.c == b.c && a.i < b.i); }

void compare_padded()
{
  unsigned const n1{static_cast<unsigned>(verif_param("n"))}, n2{static_cast<unsigned>(verif_param("n2"))};
  std::allocator<padded> a{};
  padded *const p1{a.allocate(n1)};
  padded *const p2{a.allocate(n2)};
  __builtin_memset(static_cast<void *>(p1), 0x00, n1 * sizeof(padded));
  __builtin_memset(static_cast<void *>(p2), 0xFF, n2 * sizeof(padded));
  char c1[4], c2[4];
  int i1[4], i2[4];
  for (unsigned k = 0; k < n1; ++k) { c1[k] = static_cast<char>(verif_u8("c1")); i1[k] = static_cast<int>(verif_u32("i1")); p1[k].c = c1[k]; p1[k].i = i1[k]; }
  for (unsigned k = 0; k < n2; ++k) { c2[k] = static_cast<char>(verif_u8("c2")); i2[k] = static_cast<int>(verif_u32("i2")); p2[k].c = c2[k]; p2[k].i = i2[k]; }
  rv<padded> const v1{rep_t<padded>{a, p1, p1 + n1, p1 + n1}};
  rv<padded> const v2{rep_t<padded>{a, p2, p2 + n2, p2 + n2}};
  // reference on the field values, not on the objects
  bool eq{n1 == n2};
  for (unsigned k = 0; k < n1 && k < n2; ++k) eq = eq & (c1[k] == c2[k]) & (i1[k] == i2[k]);
  bool lt{false}, gt{false}, decided{false};
  for (unsigned k = 0; k < n1 && k < n2; ++k)
  {
    bool const l{c1[k] < c2[k] || (c1[k] == c2[k] && i1[k] < i2[k])};
    bool const g{c2[k] < c1[k] || (c1[k] == c2[k] && i2[k] < i1[k])};
    if (!decided && l) { lt = true; decided = true; }
    if (!decided && g) { gt = true; decided = true; }
  }
  if (!decided) { lt = n1 < n2; gt = n2 < n1; }
  verif_out("eq", eq);
  verif_out("lt", lt);
  verif_assert((v1 == v2) == eq, "padded elements: operator== is element-wise equality, padding bytes do not matter");
  verif_assert((v1 != v2) == !eq, "padded elements: operator!= is its negation");
  verif_assert((v1 < v2) == lt, "padded elements: operator< is lexicographic over the elements' own <");
  verif_assert((v1 > v2) == gt, "padded elements: operator> is lexicographic");
  verif_assert((v1 <= v2) == !gt, "padded elements: operator<= is lexicographic");
  verif_assert((v1 >= v2) == !lt, "padded elements: operator>= is lexicographic");
  verif_reach("compare_padded-end");
}

// ---------------------------------------------------------------- constructors (public API only)
template <typename T>
void construct()
{
  unsigned const how{static_cast<unsigned>(verif_param("how"))};
  unsigned const cnt{shape("cnt", 4U)};
  T src[4];
  for (unsigned i = 0; i < 4; ++i) src[i] = sym<T>("src");
  seq<T> empty;
  empty.n = 0;
  if (how == 0)
  {
    rv<T> v{};
    CHECK(v, empty, "default construction");
    verif_assert(v.capacity() == 0 && v.data() == nullptr, "default construction: no storage");
    rv<T> w{std::allocator<T>{}};
    CHECK(w, empty, "construction from an allocator");
  }
  else if (how == 1)
  {
    T const x{sym<T>("value")};
    rv<T> v(sz_t{cnt}, x);
    seq<T> const e{m_insert_fill(empty, 0U, x, cnt)};
    CHECK(v, e, "construction from count and value");
    rv<T> w(sz_t{cnt}, x, std::allocator<T>{});
    CHECK(w, e, "construction from count, value and allocator");
  }
  else if (how == 2)
  {
    T const *const first{src};
    rv<T> v{first, first + cnt};
    seq<T> const e{m_insert(empty, 0U, src, cnt)};
    CHECK(v, e, "construction from a pointer range");
    rv<T> w{first, first + cnt, std::allocator<T>{}};
    CHECK(w, e, "construction from a pointer range and allocator");
  }
  else if (how == 3)
  {
    stream<T> st{src, 0U};
    rv<T> v{in_it<T>{&st, 0U}, in_it<T>{&st, cnt}};
    seq<T> const e{m_insert(empty, 0U, src, cnt)};
    CHECK(v, e, "construction from an input iterator range");
    verif_assert(st.pos == cnt, "construction from an input iterator range: consumes exactly the range");
  }
  else
  {
    rv<T> v0(std::initializer_list<T>{});
    CHECK(v0, empty, "construction from an empty initializer list");
    rv<T> v3{src[0], src[1], src[2]};
    seq<T> const e3{m_insert(empty, 0U, src, 3U)};
    CHECK(v3, e3, "construction from an initializer list");
    rv<T> v1({src[3]}, std::allocator<T>{});
    seq<T> const e1{m_insert(empty, 0U, src + 3, 1U)};
    CHECK(v1, e1, "construction from an initializer list and allocator");
    verif_assert(v1.get_allocator() == std::allocator<T>{}, "get_allocator");
  }
  verif_reach("construct-end");
}

// ---------------------------------------------------------------- two-step histories through the public API only
template <typename T>
void apply(rv<T> &v, seq<T> &m, bool const solver_chooses_op, char const *const opname, char const *const aname, char const *const bname, char const *const vname)
{
  // the operation is a driver parameter for the leading steps (one solver run each) and the solver's choice for the last
  unsigned const op{solver_chooses_op ? shape(opname, 7U) : static_cast<unsigned>(verif_param(opname))};
  unsigned const a_raw{verif_u8(aname)}, b_raw{verif_u8(bname)};
  unsigned a{0U}, b{0U};
  T const x{sym<T>(vname)};
  switch (op)
  {
  case 0: v.push_back(x); m = m_insert_fill(m, m.n, x, 1U); break;
  case 1: verif_assume(m.n != 0); v.pop_back(); m = m_erase(m, m.n - 1U, m.n); break;
  case 2:
    a = bounded(a_raw, m.n);
    verif_assert(v.insert(v.begin() + a, x) == v.begin() + a, "history: insert(pos,value) returns the position");
    m = m_insert_fill(m, a, x, 1U);
    break;
  case 3: a = bounded(a_raw, m.n); b = bounded(b_raw, 2U); v.insert(v.begin() + a, sz_t{b}, x); m = m_insert_fill(m, a, x, b); break;
  case 4:
    verif_assume(m.n != 0);
    a = bounded(a_raw, m.n - 1U);
    verif_assert(v.erase(v.begin() + a) == v.begin() + a, "history: erase(pos) returns the position");
    m = m_erase(m, a, a + 1U);
    break;
  case 5: a = bounded(a_raw, m.n + 2U); v.resize(sz_t{a}, x);
    {
      seq<T> e;
      e.n = a;
      for (unsigned i = 0; i < a; ++i) e.a[i] = i < m.n ? m.a[i] : x;
      m = e;
    }
    break;
  case 6: a = bounded(a_raw, 5U); v.reserve(sz_t{a}); break;
  default: a = bounded(a_raw, 1U); if (a != 0) v.shrink_to_fit(); else { v.clear(); m.n = 0; } break;
  }
}

template <typename T>
void hist2()
{
  unsigned const n0{static_cast<unsigned>(verif_param("n0"))};
  T src[3];
  for (unsigned i = 0; i < 3; ++i) src[i] = sym<T>("src");
  T const *const first{src};
  rv<T> v{first, first + n0};
  seq<T> m;
  m.n = 0;
  m = m_insert(m, 0U, src, n0);
  unsigned const steps{static_cast<unsigned>(verif_param("steps"))};
  apply(v, m, false, "op1", "a1", "b1", "v1");
  CHECK(v, m, "history step 1");
  bool const op2_fixed{verif_param("op2") < 8}; // 8: the solver's choice
  for (unsigned k = 1; k < steps; ++k)
  {
    if (k == 1 && op2_fixed) apply(v, m, false, "op2", "a2", "b2", "v2");
    else apply(v, m, true, "op", "a", "b", "v");
    CHECK(v, m, "history later step");
  }
  verif_reach("hist2-end");
}

// ---------------------------------------------------------------- aliasing value on BOTH paths, by construction
// Every operation taking `T const &` (push_back, insert(pos,value), insert(pos,n,value), resize(n,value)) with a reference
// to an element of the same vector, once on the in-place path (n=2, cap=4) and once on the reallocating path (n=cap=2);
// that the intended path was taken is asserted through the capacity (in place: unchanged; reallocation: grown).
template <typename T>
void alias_paths()
{
  bool const realloc_path{verif_param("realloc") != 0};
  unsigned const n{2U}, cap{realloc_path ? 2U : 4U};
  seq<T> const m{sym_seq<T>(n, "x")};
  std::allocator<T> a{};
  T *const p{a.allocate(cap)};
  for (unsigned i = 0; i < n; ++i) p[i] = m.a[i];
  rv<T> v{rep_t<T>{a, p, p + n, p + cap}};
  unsigned const op{shape("op", 3U)}, at{shape("alias_at", n - 1U)}, pos{shape("pos", n)}, cnt{1U + shape("cnt", 1U)};
  T const &ref = v[at];
  T const mval{m.a[at]};
  seq<T> e;
  switch (op)
  {
  case 0: v.push_back(ref); e = m_insert_fill(m, n, mval, 1U); break;
  case 1:
    verif_assert(v.insert(v.begin() + pos, ref) == v.begin() + pos, "aliasing insert(pos,value): returned iterator");
    e = m_insert_fill(m, pos, mval, 1U);
    break;
  case 2: v.insert(v.begin() + pos, sz_t{cnt}, ref); e = m_insert_fill(m, pos, mval, cnt); break;
  default: v.resize(sz_t{n + cnt}, ref); e = m_insert_fill(m, n, mval, cnt); break;
  }
  verif_out("capacity", v.capacity());
  verif_assert((v.capacity() != cap) == realloc_path, "aliasing value: the intended path (in place / reallocating) was taken");
  CHECK(v, e, "operation with a value aliasing an element");
  verif_reach(realloc_path ? "alias-reallocating-end" : "alias-in-place-end");
}

// ---------------------------------------------------------------- dynamic_array (anchor): size/data/data_end, no leak
template <typename T>
void dynarray()
{
  unsigned const n{shape("n", 4U)};
  fcppt::container::dynamic_array<T> d{sz_t{n}};
  verif_assert(d.size() == n && d.data_end() == d.data() + n, "dynamic_array: size and data_end");
  for (unsigned i = 0; i < n; ++i) d.data()[i] = sym<T>("x");
  fcppt::container::dynamic_array<T> const &cd{d};
  verif_assert(cd.data() == d.data() && cd.data_end() == d.data_end(), "dynamic_array: const accessors");
  verif_reach("dynarray-end");
}
}

#define BOTH(name, fn) \
  VERIF_HARNESS(h_##name##_i32) { fn<int>(); } \
  VERIF_HARNESS(h_##name##_u8) { fn<unsigned char>(); }

BOTH(push_back, push_back)
BOTH(pop_back, pop_back)
BOTH(insert_one, insert_one)
BOTH(insert_fill, insert_fill)
BOTH(insert_ptr_range, insert_ptr_range)
BOTH(insert_input_range, insert_input_range)
BOTH(erase_one, erase_one)
BOTH(erase_range, erase_range)
BOTH(resize, resize)
BOTH(reserve, reserve)
BOTH(shrink_clear, shrink_clear)
BOTH(swap_move, swap_move)
BOTH(compare, compare)
BOTH(construct, construct)
BOTH(hist2, hist2)
BOTH(dynarray, dynarray)
VERIF_HARNESS(h_compare_padded) { compare_padded(); }
BOTH(alias_paths, alias_paths)

//@harness h_push_back_{T} for T in i32,u8 param cap=0..4 param n=0..4 if n<=cap tier=quick leak=1
//@harness h_pop_back_{T} for T in i32,u8 param cap=1..4 param n=1..4 if n<=cap tier=quick leak=1
//@harness h_insert_one_{T} for T in i32,u8 param cap=0..4 param n=0..4 if n<=cap tier=quick leak=1
//@harness h_insert_fill_{T} for T in i32,u8 param cap=0..4 param n=0..4 if n<=cap tier=quick leak=1
//@harness h_insert_ptr_range_{T} for T in i32,u8 param cap=0..4 param n=0..4 if n<=cap tier=quick leak=1
//@harness h_insert_input_range_{T} for T in i32,u8 param cap=0..4 param n=0..4 if n<=cap tier=quick leak=1
//@harness h_erase_one_{T} for T in i32,u8 param cap=1..4 param n=1..4 if n<=cap tier=quick leak=1
//@harness h_erase_range_{T} for T in i32,u8 param cap=0..4 param n=0..4 if n<=cap tier=quick leak=1
//@harness h_resize_{T} for T in i32,u8 param cap=0..4 param n=0..4 if n<=cap tier=quick leak=1
//@harness h_reserve_{T} for T in i32,u8 param cap=0..4 param n=0..4 if n<=cap tier=quick leak=1
//@harness h_shrink_clear_{T} for T in i32,u8 param cap=0..4 param n=0..4 if n<=cap tier=quick leak=1
//@harness h_swap_move_{T} for T in i32,u8 param cap=0..4 param n=0..4 param s2=0..3 if n<=cap tier=quick leak=1
//@harness h_compare_{T} for T in i32,u8 param cap=0..3 param n=0..3 param cap2=0..3 param n2=0..3 if (n<=cap)&(n2<=cap2)&((cap==n)|(cap==3))&((cap2==n2)|(cap2==3)) tier=quick leak=1
//@harness h_construct_{T} for T in i32,u8 param how=0..4 tier=quick leak=1
//@harness h_dynarray_{T} for T in i32,u8 tier=quick leak=1
//@harness h_compare_padded param n=0..2 param n2=0..2 tier=quick leak=1
//@harness h_alias_paths_{T} for T in i32,u8 param realloc=0..1 tier=quick leak=1
//@harness h_hist2_{T} for T in i32,u8 param n0=0..2 param steps=2 param op1=0..7 param op2=8 if (n0>0)|((op1!=1)&(op1!=4)) tier=quick leak=1 paths=60000
//@harness h_hist2_{T} for T in i32 param n0=0 param steps=3 param op1=0..7 param op2=8 if (op1!=1)&(op1!=4) tier=quick leak=1 paths=60000

//@harness h_push_back_{T} for T in i32,u8 param cap=5..6 param n=0..6 if n<=cap tier=thorough leak=1
//@harness h_pop_back_{T} for T in i32,u8 param cap=5..6 param n=1..6 if n<=cap tier=thorough leak=1
//@harness h_insert_one_{T} for T in i32,u8 param cap=5..6 param n=0..6 if n<=cap tier=thorough leak=1
//@harness h_insert_fill_{T} for T in i32,u8 param cap=5..6 param n=0..6 if n<=cap tier=thorough leak=1
//@harness h_insert_ptr_range_{T} for T in i32,u8 param cap=5..6 param n=0..6 if n<=cap tier=thorough leak=1
//@harness h_insert_input_range_{T} for T in i32,u8 param cap=5..6 param n=0..6 if n<=cap tier=thorough leak=1
//@harness h_erase_one_{T} for T in i32,u8 param cap=5..6 param n=1..6 if n<=cap tier=thorough leak=1
//@harness h_erase_range_{T} for T in i32,u8 param cap=5..6 param n=0..6 if n<=cap tier=thorough leak=1
//@harness h_resize_{T} for T in i32,u8 param cap=5..6 param n=0..6 if n<=cap tier=thorough leak=1
//@harness h_reserve_{T} for T in i32,u8 param cap=5..6 param n=0..6 if n<=cap tier=thorough leak=1
//@harness h_shrink_clear_{T} for T in i32,u8 param cap=5..6 param n=0..6 if n<=cap tier=thorough leak=1
//@harness h_swap_move_{T} for T in i32,u8 param cap=5..6 param n=0..6 param s2=0..3 if n<=cap tier=thorough leak=1
//@harness h_hist2_{T} for T in i32 param n0=1..2 param steps=3 param op1=0..7 param op2=8 tier=thorough leak=1 paths=60000
//@harness h_hist2_{T} for T in u8 param n0=0..2 param steps=3 param op1=0..7 param op2=8 if (n0>0)|((op1!=1)&(op1!=4)) tier=thorough leak=1 paths=60000
//@harness h_hist2_{T} for T in i32 param n0=1 param steps=4 param op1=0..7 param op2=0..7 if ((op1!=1)&(op1!=4))|((op2!=1)&(op2!=4)) tier=thorough leak=1 paths=400000 wall=1500
