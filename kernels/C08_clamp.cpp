// C08 (part 3) - the clamp helpers used to build sub-ranges: clamped_min, clamped_sup, clamped_sup_signed, and their
// composition with the position range: "clamp a signed window to the grid and iterate" visits exactly the in-grid positions
// of the window.
//
// Documented definitions (brief + tests): clamped_min(p)_i = max(p_i, 0) as unsigned; clamped_sup(p, size)_i = min(p_i, size_i);
// clamped_sup_signed(p, size)_i = p_i clamped to [0, size_i].  All components are full-width symbolic (64-bit and 32-bit
// instantiations), N = 1,2,3.  Precondition of clamped_sup_signed (implicit in "size converted to signed"): every extent is
// representable in the signed type.
//
// Composition: for a signed window [lo, hi) (all components symbolic 64-bit) and a grid size (symbolic; the number of cells
// fits size_t), an unsigned position q is a position of the range (clamped_min(lo), clamped_sup_signed(hi, size)) exactly when
// it is in the grid and lo <= q < hi component-wise in signed arithmetic - checked through the REAL pos_range machinery
// (min_less_sup / range membership as proven in C08_positions) on a symbolic q.
//@property C08
#include "verif_api.h"
#include <fcppt/container/grid/clamped_min.hpp>
#include <fcppt/container/grid/clamped_sup.hpp>
#include <fcppt/container/grid/clamped_sup_signed.hpp>
#include <fcppt/container/grid/dim.hpp>
#include <fcppt/container/grid/in_range_dim.hpp>
#include <fcppt/container/grid/min.hpp>
#include <fcppt/container/grid/min_less_sup.hpp>
#include <fcppt/container/grid/pos.hpp>
#include <fcppt/container/grid/sup.hpp>
#include <cstddef>
#include <cstdint>
#include <limits>
#include <type_traits>

namespace
{
namespace grid = fcppt::container::grid;
using sz = std::size_t;

template <typename T, sz N> struct arr { T v[N]; };
template <typename T, sz N> grid::pos<T, N> mk_pos(arr<T, N> const &a)
{
  if constexpr (N == 1) return grid::pos<T, 1>{a.v[0]};
  else if constexpr (N == 2) return grid::pos<T, 2>{a.v[0], a.v[1]};
  else return grid::pos<T, 3>{a.v[0], a.v[1], a.v[2]};
}
template <typename T, sz N> grid::dim<T, N> mk_dim(arr<T, N> const &a)
{
  if constexpr (N == 1) return grid::dim<T, 1>{a.v[0]};
  else if constexpr (N == 2) return grid::dim<T, 2>{a.v[0], a.v[1]};
  else return grid::dim<T, 3>{a.v[0], a.v[1], a.v[2]};
}
template <typename T, sz N> arr<T, N> un_pos(grid::pos<T, N> const &p)
{
  arr<T, N> r{};
  r.v[0] = p.x();
  if constexpr (N >= 2) r.v[1] = p.y();
  if constexpr (N >= 3) r.v[2] = p.z();
  return r;
}
char const *const n_p[3] = {"p0", "p1", "p2"};
char const *const n_q[3] = {"q0", "q1", "q2"};
char const *const n_lo[3] = {"lo0", "lo1", "lo2"};
char const *const n_hi[3] = {"hi0", "hi1", "hi2"};
char const *const n_size[3] = {"size0", "size1", "size2"};
template <typename T, sz N> arr<T, N> syms(char const *const *const names)
{
  arr<T, N> r{};
  for (sz i = 0; i < N; ++i) r.v[i] = static_cast<T>(verif_u64(names[i]));
  return r;
}

template <typename S, sz N> void clamps()
{
  using U = std::make_unsigned_t<S>;
  arr<S, N> const p{syms<S, N>(n_p)};
  arr<U, N> const q{syms<U, N>(n_q)}, size{syms<U, N>(n_size)};
  // clamped_min
  arr<U, N> const cmin{un_pos<U, N>(grid::clamped_min(mk_pos<S, N>(p)).get())};
  for (sz i = 0; i < N; ++i)
  {
    verif_out("cmin", cmin.v[i]);
    verif_assert(cmin.v[i] == (p.v[i] < 0 ? U{0} : static_cast<U>(p.v[i])), "clamped_min_i = max(p_i, 0)");
  }
  // clamped_sup
  arr<U, N> const csup{un_pos<U, N>(grid::clamped_sup(mk_pos<U, N>(q), mk_dim<U, N>(size)).get())};
  for (sz i = 0; i < N; ++i)
  {
    verif_out("csup", csup.v[i]);
    verif_assert(csup.v[i] == (q.v[i] < size.v[i] ? q.v[i] : size.v[i]), "clamped_sup_i = min(p_i, size_i)");
  }
  // clamped_sup_signed: extents representable in the signed type
  for (sz i = 0; i < N; ++i) verif_assume(size.v[i] <= static_cast<U>(std::numeric_limits<S>::max()));
  arr<U, N> const css{un_pos<U, N>(grid::clamped_sup_signed(mk_pos<S, N>(p), mk_dim<U, N>(size)).get())};
  for (sz i = 0; i < N; ++i)
  {
    verif_out("css", css.v[i]);
    U const expect{p.v[i] < 0 ? U{0} : static_cast<U>(p.v[i]) > size.v[i] ? size.v[i] : static_cast<U>(p.v[i])};
    verif_assert(css.v[i] == expect, "clamped_sup_signed_i = p_i clamped to [0, size_i]");
  }
  verif_reach("end");
}

// window [lo,hi) in signed coordinates, clamped to the grid: membership of an arbitrary unsigned position
template <sz N> void window()
{
  using S = std::ptrdiff_t;
  arr<S, N> const lo{syms<S, N>(n_lo)}, hi{syms<S, N>(n_hi)};
  arr<sz, N> const size{syms<sz, N>(n_size)}, q{syms<sz, N>(n_q)};
  for (sz i = 0; i < N; ++i) verif_assume(size.v[i] <= static_cast<sz>(std::numeric_limits<S>::max()));
  grid::min<sz, N> const mn{grid::clamped_min(mk_pos<S, N>(lo))};
  grid::sup<sz, N> const sp{grid::clamped_sup_signed(mk_pos<S, N>(hi), mk_dim<sz, N>(size))};
  arr<sz, N> const m{un_pos<sz, N>(mn.get())}, s{un_pos<sz, N>(sp.get())};
  bool member{true}, expect{true}, nonempty{true}, window_hits_grid{true};
  for (sz i = 0; i < N; ++i)
  {
    member = member & (m.v[i] <= q.v[i]) & (q.v[i] < s.v[i]);
    bool const in_grid{q.v[i] < size.v[i]};
    // q_i < size_i <= PTRDIFF_MAX, so the signed view of q_i is exact when in_grid
    expect = expect & in_grid & (lo.v[i] <= static_cast<S>(q.v[i])) & (static_cast<S>(q.v[i]) < hi.v[i]);
    nonempty = nonempty & (m.v[i] < s.v[i]);
    // the window meets the grid in dimension i iff some integer t has 0 <= t < size_i and lo_i <= t < hi_i
    window_hits_grid = window_hits_grid & (hi.v[i] > 0) & (size.v[i] > 0) & (lo.v[i] < static_cast<S>(size.v[i])) & (lo.v[i] < hi.v[i]);
  }
  verif_assert(member == expect, "positions of (clamped_min(lo), clamped_sup_signed(hi,size)) = in-grid positions of the window [lo,hi)");
  verif_assert(grid::min_less_sup(mn, sp) == nonempty && nonempty == window_hits_grid, "the clamped range is empty exactly when the window misses the grid");
  if (member) verif_assert(grid::in_range_dim(mk_dim<sz, N>(size), mk_pos<sz, N>(q)), "every position of the clamped range is in range");
  verif_reach("end");
}
}

#define H(name, ...) VERIF_HARNESS(name) { __VA_ARGS__; }
H(h_clamps_i64_1, clamps<std::int64_t, 1>()) H(h_clamps_i64_2, clamps<std::int64_t, 2>()) H(h_clamps_i64_3, clamps<std::int64_t, 3>())
H(h_clamps_i32_1, clamps<std::int32_t, 1>()) H(h_clamps_i32_2, clamps<std::int32_t, 2>()) H(h_clamps_i32_3, clamps<std::int32_t, 3>())
//@harness h_clamps_{T}_{N} for T in i64,i32 for N in 1,2,3 tier=quick hang_s=60
H(h_window_1, window<1>()) H(h_window_2, window<2>()) H(h_window_3, window<3>())
//@harness h_window_{N} for N in 1,2,3 tier=quick hang_s=60
