// C08 (part 2) - real grid objects: construction, at_optional / get_unsafe / in_range, fill, resize, map, apply and the
// reference ranges (pos_ref_range) produce, cell by cell, what their documentation says.
//
// fcppt::container::grid::object<std::uint32_t, N> with its real std::vector storage (libstdc++ executed from the headers).
// The grid SHAPES are `param`s (every extent 0..3, the last one of N=3 0..2 in the quick tier; 0..4 / 0..3 in the thorough
// tier) - zero extents, 1-wide dimensions and empty grids included.  Everything else is symbolic:
//   * cell functions (initialiser, fill function, resize's init, map's and apply's function) are UNINTERPRETED functions
//     (verif_uf): the statements hold for every function; a call log checks "called exactly once per position, in storage
//     order" where the documentation says "calls function for every position",
//   * the probed position of at_optional / get_unsafe / in_range is an unconstrained 64-bit vector (far outside too),
//   * min/sup of the reference sub-ranges are symbolic inside the grid.
// Storage order is observed directly: the k-th element of begin()..end() is compared with the cell of the k-th position of
// the reference enumeration (nested loops, x fastest), independently of grid::offset.
//
// outside the claim: value types with non-trivial move semantics (unique_ptr cells in resize/map rvalue overloads are
// exercised only with integers); grid::interpolate; output; comparison; static_row constructor.
//@property C08
#include "verif_api.h"
#include <fcppt/make_cref.hpp>
#include <fcppt/make_ref.hpp>
#include <fcppt/reference_impl.hpp>
#include <fcppt/container/grid/apply.hpp>
#include <fcppt/container/grid/at_optional.hpp>
#include <fcppt/container/grid/fill.hpp>
#include <fcppt/container/grid/in_range.hpp>
#include <fcppt/container/grid/make_pos_ref_crange.hpp>
#include <fcppt/container/grid/make_pos_ref_crange_start_end.hpp>
#include <fcppt/container/grid/make_pos_ref_range.hpp>
#include <fcppt/container/grid/make_pos_ref_range_start_end.hpp>
#include <fcppt/container/grid/map.hpp>
#include <fcppt/container/grid/next_position.hpp>
#include <fcppt/container/grid/object.hpp>
#include <fcppt/container/grid/pos_ref_iterator_impl.hpp>
#include <fcppt/container/grid/pos_ref_range_impl.hpp>
#include <fcppt/container/grid/pos_reference_impl.hpp>
#include <fcppt/container/grid/resize.hpp>
#include <fcppt/math/dim/comparison.hpp>
#include <fcppt/math/dim/null.hpp>
#include <fcppt/math/vector/comparison.hpp>
#include <fcppt/optional/object_impl.hpp>
#include <fcppt/optional/reference.hpp>
#include <cstddef>
#include <cstdint>
#include <iterator>
#include <utility>

namespace
{
namespace grid = fcppt::container::grid;
using u64 = std::uint64_t;
using sz = std::size_t;
using cell = std::uint32_t;
template <sz N> using G = grid::object<cell, N>;
constexpr sz max_cells = 64;

template <sz N> struct arr { sz v[N]; };
template <sz N> grid::pos<sz, N> mk_pos(arr<N> const &a)
{
  if constexpr (N == 1) return grid::pos<sz, 1>{a.v[0]};
  else if constexpr (N == 2) return grid::pos<sz, 2>{a.v[0], a.v[1]};
  else return grid::pos<sz, 3>{a.v[0], a.v[1], a.v[2]};
}
template <sz N> grid::dim<sz, N> mk_dim(arr<N> const &a)
{
  if constexpr (N == 1) return grid::dim<sz, 1>{a.v[0]};
  else if constexpr (N == 2) return grid::dim<sz, 2>{a.v[0], a.v[1]};
  else return grid::dim<sz, 3>{a.v[0], a.v[1], a.v[2]};
}
template <sz N> arr<N> un_pos(grid::pos<sz, N> const &p)
{
  arr<N> r{};
  r.v[0] = p.x();
  if constexpr (N >= 2) r.v[1] = p.y();
  if constexpr (N >= 3) r.v[2] = p.z();
  return r;
}
template <sz N> arr<N> un_dim(grid::dim<sz, N> const &p)
{
  arr<N> r{};
  r.v[0] = p.w();
  if constexpr (N >= 2) r.v[1] = p.h();
  if constexpr (N >= 3) r.v[2] = p.d();
  return r;
}
template <sz N> bool eq(arr<N> const &a, arr<N> const &b)
{
  bool r{true};
  for (sz i = 0; i < N; ++i) r = r & (a.v[i] == b.v[i]);
  return r;
}
template <sz N> bool inside(arr<N> const &mn, arr<N> const &sp, arr<N> const &p)
{
  bool r{true};
  for (sz i = 0; i < N; ++i) r = r & (mn.v[i] <= p.v[i]) & (p.v[i] < sp.v[i]);
  return r;
}
template <sz N> arr<N> zero() { return arr<N>{}; }

char const *const n_w[3] = {"w", "h", "d"};
char const *const n_w2[3] = {"w2", "h2", "d2"};
char const *const n_pos[3] = {"pos0", "pos1", "pos2"};
char const *const n_min[3] = {"min0", "min1", "min2"};
char const *const n_sup[3] = {"sup0", "sup1", "sup2"};
template <sz N> arr<N> params(char const *const *const names)
{
  arr<N> r{};
  for (sz i = 0; i < N; ++i) r.v[i] = verif_param(names[i]);
  return r;
}
template <sz N> arr<N> syms(char const *const *const names)
{
  arr<N> r{};
  for (sz i = 0; i < N; ++i) r.v[i] = verif_u64(names[i]);
  return r;
}

// ---- reference enumeration: all p with mn <= p < sp, x fastest ("storage order"); concrete or symbolic bounds
template <sz N> struct seq { arr<N> p[max_cells]; sz n; };
template <sz N> void ref_enum(arr<N> const &mn, arr<N> const &sp, seq<N> &out)
{
  out.n = 0;
  sz const m1{N >= 2 ? mn.v[N >= 2 ? 1 : 0] : 0}, s1{N >= 2 ? sp.v[N >= 2 ? 1 : 0] : 1};
  sz const m2{N >= 3 ? mn.v[N >= 3 ? 2 : 0] : 0}, s2{N >= 3 ? sp.v[N >= 3 ? 2 : 0] : 1};
  for (sz z = m2; z < s2; ++z)
    for (sz y = m1; y < s1; ++y)
      for (sz x = mn.v[0]; x < sp.v[0]; ++x)
      {
        arr<N> q{};
        q.v[0] = x;
        if constexpr (N >= 2) q.v[1] = y;
        if constexpr (N >= 3) q.v[2] = z;
        out.p[out.n++] = q;
      }
}

// ---- uninterpreted cell functions
template <sz N> cell uf_pos(int const k, arr<N> const &p)
{
  return static_cast<cell>(verif_uf3(k, p.v[0], N >= 2 ? p.v[N >= 2 ? 1 : 0] : 0, N >= 3 ? p.v[N >= 3 ? 2 : 0] : 0));
}
template <sz N> struct logged_fn // cell function number k over positions, logging every call
{
  int k;
  seq<N> *log;
  cell operator()(grid::pos<sz, N> const &p) const
  {
    arr<N> const a{un_pos<N>(p)};
    if (log->n < max_cells) log->p[log->n] = a;
    ++log->n;
    return uf_pos<N>(k, a);
  }
};
template <sz N> void check_log(seq<N> const &log, seq<N> const &ref, char const *const what)
{
  bool ok{log.n == ref.n};
  for (sz i = 0; ok && i < ref.n; ++i) ok = eq(log.p[i], ref.p[i]);
  verif_assert(ok, what);
}
template <sz N> sz product(arr<N> const &a)
{
  sz r{1};
  for (sz i = 0; i < N; ++i) r *= a.v[i];
  return r;
}

// ------------------------------------------------------------------------------------------------------------
// construction by function, size/content/empty, at_optional / get_unsafe / in_range at an arbitrary position
template <sz N> void h_at()
{
  arr<N> const size{params<N>(n_w)};
  seq<N> ref, log;
  log.n = 0;
  ref_enum<N>(zero<N>(), size, ref);
  G<N> g{mk_dim<N>(size), logged_fn<N>{1, &log}};
  check_log(log, ref, "object(size, f) calls f exactly once for every position, in storage order");
  verif_assert(eq(un_dim<N>(g.size()), size), "size() is the constructor argument");
  verif_assert(g.content() == product(size) && g.content() == ref.n, "content() = number of positions");
  verif_assert(g.empty() == (ref.n == 0), "empty() <=> no cells");
  verif_assert(static_cast<sz>(std::distance(g.begin(), g.end())) == ref.n, "begin()..end() has content() elements");
  for (sz k = 0; k < ref.n; ++k)
    verif_assert(*(g.begin() + static_cast<std::ptrdiff_t>(k)) == uf_pos<N>(1, ref.p[k]), "the k-th stored cell is f(k-th position in row-major order)");

  arr<N> const p{syms<N>(n_pos)};
  bool const in{inside(zero<N>(), size, p)};
  verif_out("in", in);
  G<N> const &cg{g};
  verif_assert(grid::in_range(g, mk_pos<N>(p)) == in, "in_range <=> every component below the extent");
  auto const o{grid::at_optional(g, mk_pos<N>(p))};
  auto const co{grid::at_optional(cg, mk_pos<N>(p))};
  verif_assert(o.has_value() == in && co.has_value() == in, "at_optional has an element exactly for in-range positions");
  if (in)
  {
    sz k{0};
    while (k < ref.n && !eq(ref.p[k], p)) ++k; // index of p in the reference enumeration
    verif_assert(k < ref.n, "reference enumeration contains every in-range position");
    cell *const expect{&*(g.begin() + static_cast<std::ptrdiff_t>(k))};
    verif_assert(&o.get_unsafe().get() == expect, "at_optional refers to the cell of that position (non-const)");
    verif_assert(&co.get_unsafe().get() == expect, "at_optional refers to the cell of that position (const)");
    verif_assert(&g.get_unsafe(mk_pos<N>(p)) == expect && &cg.get_unsafe(mk_pos<N>(p)) == expect, "get_unsafe refers to the cell of that position");
    verif_assert(o.get_unsafe().get() == uf_pos<N>(1, p), "the element is f(p)");
    verif_out("value", o.get_unsafe().get());
    verif_reach("in");
  }
  verif_reach("end");
}

// fill
template <sz N> void h_fill()
{
  arr<N> const size{params<N>(n_w)};
  seq<N> ref, log;
  log.n = 0;
  ref_enum<N>(zero<N>(), size, ref);
  cell const v0{verif_u32("v0")};
  G<N> g{mk_dim<N>(size), v0};
  verif_assert(g.content() == ref.n, "content");
  for (sz k = 0; k < ref.n; ++k) verif_assert(*(g.begin() + static_cast<std::ptrdiff_t>(k)) == v0, "object(size, value): every cell is value");
  grid::fill(g, logged_fn<N>{2, &log});
  check_log(log, ref, "fill calls the function exactly once for every position");
  verif_assert(eq(un_dim<N>(g.size()), size) && static_cast<sz>(std::distance(g.begin(), g.end())) == ref.n, "fill keeps the size");
  for (sz k = 0; k < ref.n; ++k)
    verif_assert(*(g.begin() + static_cast<std::ptrdiff_t>(k)) == uf_pos<N>(2, ref.p[k]), "after fill the cell at p is function(p)");
  verif_reach("end");
}

// resize (lvalue and rvalue source)
template <sz N, bool Move> void h_resize()
{
  arr<N> const osize{params<N>(n_w)}, nsize{params<N>(n_w2)};
  seq<N> oref, nref, log, dummy;
  log.n = 0;
  dummy.n = 0;
  ref_enum<N>(zero<N>(), osize, oref);
  ref_enum<N>(zero<N>(), nsize, nref);
  G<N> src{mk_dim<N>(osize), logged_fn<N>{1, &dummy}};
  G<N> const r{Move ? grid::resize(std::move(src), mk_dim<N>(nsize), logged_fn<N>{2, &log})
                    : grid::resize(std::as_const(src), mk_dim<N>(nsize), logged_fn<N>{2, &log})};
  verif_assert(eq(un_dim<N>(r.size()), nsize), "resize: the result has the new size");
  verif_assert(static_cast<sz>(std::distance(r.begin(), r.end())) == nref.n, "resize: the result has content(new size) cells");
  sz calls{0};
  bool order{true};
  for (sz k = 0; k < nref.n; ++k)
  {
    bool const old{inside(zero<N>(), osize, nref.p[k])};
    cell const expect{old ? uf_pos<N>(1, nref.p[k]) : uf_pos<N>(2, nref.p[k])};
    verif_assert(*(r.begin() + static_cast<std::ptrdiff_t>(k)) == expect, "resize: g[p] = old[p] if p is a position of the old grid, init(p) otherwise");
    if (!old)
    {
      order = order && calls < log.n && eq(log.p[calls], nref.p[k]);
      ++calls;
    }
  }
  verif_assert(order && calls == log.n, "resize: init is called exactly for the new positions");
  if (!Move)
  {
    verif_assert(eq(un_dim<N>(src.size()), osize), "resize(lvalue) leaves the source size alone");
    for (sz k = 0; k < oref.n; ++k) verif_assert(*(src.begin() + static_cast<std::ptrdiff_t>(k)) == uf_pos<N>(1, oref.p[k]), "resize(lvalue) leaves the source cells alone");
  }
  verif_reach("end");
}

// map
template <sz N> void h_map()
{
  arr<N> const size{params<N>(n_w)};
  seq<N> ref, dummy;
  dummy.n = 0;
  ref_enum<N>(zero<N>(), size, ref);
  G<N> const src{mk_dim<N>(size), logged_fn<N>{1, &dummy}};
  sz calls{0};
  auto const r{grid::map(src, [&calls](cell const c) { ++calls; return static_cast<std::uint16_t>(verif_uf1(3, c)); })};
  static_assert(std::is_same_v<std::remove_cv_t<decltype(r)>, grid::object<std::uint16_t, N>>);
  verif_assert(eq(un_dim<N>(r.size()), size), "map: same size");
  verif_assert(static_cast<sz>(std::distance(r.begin(), r.end())) == ref.n && calls == ref.n, "map: one result cell and one call per source cell");
  for (sz k = 0; k < ref.n; ++k)
    verif_assert(*(r.begin() + static_cast<std::ptrdiff_t>(k)) == static_cast<std::uint16_t>(verif_uf1(3, uf_pos<N>(1, ref.p[k]))), "map: result[p] = function(source[p])");
  verif_reach("end");
}

// apply with two and three grids
template <sz N> void h_apply()
{
  arr<N> const s1{params<N>(n_w)}, s2{params<N>(n_w2)};
  seq<N> ref, dummy;
  dummy.n = 0;
  ref_enum<N>(zero<N>(), s1, ref);
  G<N> const g1{mk_dim<N>(s1), logged_fn<N>{1, &dummy}};
  G<N> const g2{mk_dim<N>(s2), logged_fn<N>{2, &dummy}};
  G<N> const g3{mk_dim<N>(s1), logged_fn<N>{5, &dummy}};
  auto const f2{[](cell const a, cell const b) { return static_cast<cell>(verif_uf2(4, a, b)); }};
  auto const f3{[](cell const a, cell const b, cell const c) { return static_cast<cell>(verif_uf3(6, a, b, c)); }};
  auto const f1{[](cell const a) { return static_cast<cell>(verif_uf1(7, a)); }};
  G<N> const r2{grid::apply(f2, g1, g2)};
  G<N> const r3{grid::apply(f3, g1, g3, g2)};
  G<N> const r1{grid::apply(f1, g1)};
  verif_assert(eq(un_dim<N>(r1.size()), s1) && static_cast<sz>(std::distance(r1.begin(), r1.end())) == ref.n, "apply(f, g): size of g");
  for (sz k = 0; k < ref.n; ++k)
    verif_assert(*(r1.begin() + static_cast<std::ptrdiff_t>(k)) == static_cast<cell>(verif_uf1(7, uf_pos<N>(1, ref.p[k]))), "apply(f, g)[p] = f(g[p])");
  if (eq(s1, s2))
  {
    verif_assert(eq(un_dim<N>(r2.size()), s1) && eq(un_dim<N>(r3.size()), s1), "apply: grids of the same size s give a grid of size s");
    verif_assert(static_cast<sz>(std::distance(r2.begin(), r2.end())) == ref.n && static_cast<sz>(std::distance(r3.begin(), r3.end())) == ref.n, "apply: content");
    for (sz k = 0; k < ref.n; ++k)
    {
      cell const a{uf_pos<N>(1, ref.p[k])}, b{uf_pos<N>(2, ref.p[k])}, c{uf_pos<N>(5, ref.p[k])};
      verif_assert(*(r2.begin() + static_cast<std::ptrdiff_t>(k)) == static_cast<cell>(verif_uf2(4, a, b)), "apply: r[p] = f(g1[p], g2[p])");
      verif_assert(*(r3.begin() + static_cast<std::ptrdiff_t>(k)) == static_cast<cell>(verif_uf3(6, a, c, b)), "apply: r[p] = f(g1[p], g2[p], g3[p])");
    }
  }
  else
  {
    verif_assert(eq(un_dim<N>(r2.size()), zero<N>()) && r2.begin() == r2.end() && r2.empty(), "apply: grids of different sizes give an empty grid");
    verif_assert(eq(un_dim<N>(r3.size()), zero<N>()) && r3.begin() == r3.end() && r3.empty(), "apply (3 grids): different sizes give an empty grid");
  }
  verif_reach("end");
}

// whole-grid reference ranges (mutable and const): the k-th element is (k-th position, k-th stored cell)
template <sz N> void h_ref_whole()
{
  arr<N> const size{params<N>(n_w)};
  seq<N> ref, dummy;
  dummy.n = 0;
  ref_enum<N>(zero<N>(), size, ref);
  G<N> g{mk_dim<N>(size), logged_fn<N>{1, &dummy}};
  G<N> const &cg{g};
  sz k{0};
  auto const range{grid::make_pos_ref_range(g)};
  verif_assert(range.size() == ref.n, "pos_ref_range::size() = number of cells");
  for (auto const element : range)
  {
    verif_assert(k < ref.n && eq(un_pos<N>(element.pos()), ref.p[k < ref.n ? k : 0]), "pos_ref_range visits the positions in storage order");
    verif_assert(&element.value() == &*(g.begin() + static_cast<std::ptrdiff_t>(k)), "pos_ref_range: value() is the cell at pos()");
    ++k;
  }
  verif_assert(k == ref.n, "pos_ref_range visits every position exactly once");
  k = 0;
  for (auto const element : grid::make_pos_ref_crange(cg))
  {
    verif_assert(k < ref.n && eq(un_pos<N>(element.pos()), ref.p[k < ref.n ? k : 0]), "pos_ref_crange visits the positions in storage order");
    verif_assert(&element.value() == &*(cg.begin() + static_cast<std::ptrdiff_t>(k)), "pos_ref_crange: value() is the cell at pos()");
    ++k;
  }
  verif_assert(k == ref.n, "pos_ref_crange visits every position exactly once");
  verif_reach("end");
}

// one step of a reference sub-range at a symbolic position; min/sup symbolic inside the grid
template <sz N> void h_ref_step()
{
  arr<N> const size{params<N>(n_w)};
  seq<N> ref, dummy;
  dummy.n = 0;
  ref_enum<N>(zero<N>(), size, ref);
  G<N> g{mk_dim<N>(size), logged_fn<N>{1, &dummy}};
  arr<N> const mn{syms<N>(n_min)}, sp{syms<N>(n_sup)}, p{syms<N>(n_pos)};
  for (sz i = 0; i < N; ++i) verif_assume(sp.v[i] <= size.v[i]); // the sub-range lies inside the grid (references to cells)
  using range_type = grid::pos_ref_range<G<N>>;
  typename range_type::min_type const gmin{mk_pos<N>(mn)};
  typename range_type::sup_type const gsup{mk_pos<N>(sp)};
  range_type const range{grid::make_pos_ref_range_start_end(g, gmin, gsup)};
  bool nonempty{true};
  sz count{1};
  for (sz i = 0; i < N; ++i) { nonempty = nonempty & (mn.v[i] < sp.v[i]); count *= sp.v[i] - mn.v[i]; }
  verif_assert(range.size() == (nonempty ? count : 0), "pos_ref_range::size()");
  verif_assert((range.begin() == range.end()) == !nonempty, "pos_ref_range is empty iff some min_i >= sup_i");
  if (nonempty) verif_assert(eq(un_pos<N>((*range.begin()).pos()), mn), "begin() is at min");
  if (inside(mn, sp, p))
  {
    using pos_iterator = typename range_type::iterator::pos_iterator;
    typename range_type::iterator it{g.begin(), pos_iterator{mk_pos<N>(p), gmin, gsup}, g.size()};
    verif_assert(it != range.end(), "a position of the range is not end()");
    sz k{0};
    while (k < ref.n && !eq(ref.p[k], p)) ++k;
    verif_assert(k < ref.n, "inside the sub-range => inside the grid");
    verif_assert(eq(un_pos<N>((*it).pos()), p), "dereference: pos()");
    verif_assert(&(*it).value() == &*(g.begin() + static_cast<std::ptrdiff_t>(k)), "dereference: value() is the cell at pos() (row-major storage)");
    ++it;
    bool last{true};
    for (sz i = 0; i < N; ++i) last = last & (p.v[i] + 1 == sp.v[i]);
    if (last)
      verif_assert(it == range.end(), "successor of the last position is end()");
    else
      verif_assert(it != range.end() && (*it).pos() == grid::next_position(mk_pos<N>(p), gmin, gsup), "increment moves to next_position");
    verif_reach("inside");
  }
  verif_reach("end");
}

// complete enumeration of a reference sub-range with symbolic min/sup inside the grid (forks over the range shapes)
template <sz N> void h_ref_sub()
{
  arr<N> const size{params<N>(n_w)};
  seq<N> all, ref, dummy;
  dummy.n = 0;
  ref_enum<N>(zero<N>(), size, all);
  G<N> g{mk_dim<N>(size), logged_fn<N>{1, &dummy}};
  arr<N> const mn{syms<N>(n_min)}, sp{syms<N>(n_sup)};
  for (sz i = 0; i < N; ++i) verif_assume(sp.v[i] <= size.v[i] && mn.v[i] <= size.v[i]);
  using range_type = grid::pos_ref_range<G<N>>;
  range_type const range{grid::make_pos_ref_range_start_end(g, typename range_type::min_type{mk_pos<N>(mn)}, typename range_type::sup_type{mk_pos<N>(sp)})};
  seq<N> got;
  got.n = 0;
  bool cells{true};
  for (auto const element : range)
  {
    arr<N> const q{un_pos<N>(element.pos())};
    sz k{0};
    while (k < all.n && !eq(all.p[k], q)) ++k;
    cells = cells && k < all.n && &element.value() == &*(g.begin() + static_cast<std::ptrdiff_t>(k));
    if (got.n < max_cells) got.p[got.n] = q;
    ++got.n;
  }
  bool nonempty{true};
  for (sz i = 0; i < N; ++i) nonempty = nonempty & (mn.v[i] < sp.v[i]);
  ref.n = 0;
  if (nonempty) ref_enum<N>(mn, sp, ref);
  verif_out("n", got.n);
  check_log(got, ref, "the sub-range visits exactly the positions min <= p < sup, in storage order (none if some min_i >= sup_i)");
  verif_assert(cells, "every visited element refers to the cell of its position");
  verif_assert(range.size() == got.n, "size() = number of visited elements");
  verif_reach("end");
}
}

#define H(name, ...) VERIF_HARNESS(name) { __VA_ARGS__; }
#define ALLN(name, fn) H(name##_1, fn<1>()) H(name##_2, fn<2>()) H(name##_3, fn<3>())
ALLN(h_at, h_at)
//@harness h_at_1 param w=0..4 tier=quick loop=80 hang_s=60
//@harness h_at_2 param w=0..3 param h=0..3 tier=quick loop=80 hang_s=60
//@harness h_at_3 param w=0..3 param h=0..3 param d=0..2 tier=quick loop=80 hang_s=60
ALLN(h_fill, h_fill)
//@harness h_fill_1 param w=0..4 tier=quick loop=80 hang_s=60
//@harness h_fill_2 param w=0..3 param h=0..3 tier=quick loop=80 hang_s=60
//@harness h_fill_3 param w=0..3 param h=0..3 param d=0..2 tier=quick loop=80 hang_s=60
ALLN(h_map, h_map)
//@harness h_map_1 param w=0..4 tier=quick loop=80 hang_s=60
//@harness h_map_2 param w=0..3 param h=0..3 tier=quick loop=80 hang_s=60
//@harness h_map_3 param w=0..3 param h=0..3 param d=0..2 tier=quick loop=80 hang_s=60
ALLN(h_ref_whole, h_ref_whole)
//@harness h_ref_whole_1 param w=0..4 tier=quick loop=80 hang_s=60
//@harness h_ref_whole_2 param w=0..3 param h=0..3 tier=quick loop=80 hang_s=60
//@harness h_ref_whole_3 param w=0..3 param h=0..3 param d=0..2 tier=quick loop=80 hang_s=60
ALLN(h_ref_step, h_ref_step)
//@harness h_ref_step_1 param w=0..4 tier=quick loop=80 hang_s=60
//@harness h_ref_step_2 param w=0..3 param h=0..3 tier=quick loop=80 hang_s=60
//@harness h_ref_step_3 param w=0..3 param h=0..3 param d=0..2 tier=quick loop=80 hang_s=60
ALLN(h_ref_sub, h_ref_sub)
//@harness h_ref_sub_1 param w=0..4 tier=quick loop=80 hang_s=60
//@harness h_ref_sub_2 param w=0..3 param h=0..2 tier=quick loop=300 hang_s=60
//@harness h_ref_sub_2 param w=0..4 param h=3..4 tier=thorough loop=600 hang_s=60
//@harness h_ref_sub_3 param w=0..2 param h=0..2 param d=0..1 tier=quick loop=300 hang_s=60
//@harness h_ref_sub_3 param w=0..3 param h=0..3 param d=2..2 tier=thorough loop=600 hang_s=60
H(h_resize_lv_1, h_resize<1, false>()) H(h_resize_lv_2, h_resize<2, false>()) H(h_resize_lv_3, h_resize<3, false>())
H(h_resize_rv_1, h_resize<1, true>()) H(h_resize_rv_2, h_resize<2, true>()) H(h_resize_rv_3, h_resize<3, true>())
//@harness h_resize_{V}_1 for V in lv,rv param w=0..4 param w2=0..4 tier=quick loop=80 hang_s=60
//@harness h_resize_lv_2 param w=0..2 param h=0..2 param w2=0..2 param h2=0..2 tier=quick loop=80 hang_s=60
//@harness h_resize_rv_2 param w=1..2 param h=1..2 param w2=0..2 param h2=0..2 tier=quick loop=80 hang_s=60
//@harness h_resize_lv_3 param w=1..2 param h=1..2 param d=1..2 param w2=0..2 param h2=0..2 param d2=0..2 tier=quick loop=80 hang_s=60
//@harness h_resize_{V}_2 for V in lv,rv param w=0..3 param h=0..3 param w2=0..3 param h2=0..3 if max(w,h,w2,h2)==3 tier=thorough loop=80 hang_s=60
//@harness h_resize_{V}_3 for V in lv,rv param w=0..2 param h=0..2 param d=0..2 param w2=0..2 param h2=0..2 param d2=0..2 tier=thorough loop=80 hang_s=60
ALLN(h_apply, h_apply)
//@harness h_apply_1 param w=0..3 param w2=0..3 tier=quick loop=80 hang_s=60
//@harness h_apply_2 param w=0..2 param h=0..2 param w2=0..2 param h2=0..2 tier=quick loop=80 hang_s=60
//@harness h_apply_3 param w=0..2 param h=1..2 param d=1..2 param w2=0..2 param h2=1..2 param d2=1..2 tier=quick loop=80 hang_s=60
//@harness h_apply_3 param w=0..2 param h=0..2 param d=0..2 param w2=0..2 param h2=0..2 param d2=0..2 if min(h,d,h2,d2)==0 tier=thorough loop=80 hang_s=60
