// C08 (part 4) - resize / map / apply / fill with a cell type whose MOVED-FROM state is observable.
//
// Every other C08 harness uses trivially copyable cells (uint32_t), for which "moved out of the source grid" and "copied"
// are indistinguishable.  Here the cell is a kernel-defined struct `mcell` {value, moved flag}: its move constructor and
// move assignment mark the source object as moved-from (and scramble its value); copying or moving an object that is
// already moved-from is recorded in a global flag.  With it the documented cell-by-cell results are checked together with
// what the value category of the SOURCE grid permits:
//   * non-const LVALUE source (Grid deduced as `G &`):  resize(g, new_size, init) where init READS g (replicates the border:
//     init(p) = g[p clamped into g]), map(g, f) and apply(f, g1, g2) with f taking its arguments BY VALUE, fill(g, f) with f
//     reading another lvalue grid:  every result cell has the documented value and is a live object, and the source grids
//     are unchanged afterwards - no cell is moved-from, the values are the same, a second resize / at_optional on the source
//     gives the same cells again;
//   * RVALUE source (std::move(g)):  the result has the documented values, every result cell is live, and no cell was
//     moved or copied after it had already been moved from ("moved at most once"); in apply with one lvalue and one rvalue
//     grid the lvalue grid is unchanged.
// Shapes are params: source 0..2 x 0..2, new size 0..3 x 0..3 (2x2 -> 3x3 included), N = 2 and N = 1; the cell values are
// uninterpreted functions of the position, the functions applied by map / apply are uninterpreted.
//@property C08
#include "verif_api.h"
#include <fcppt/container/grid/apply.hpp>
#include <fcppt/container/grid/at_optional.hpp>
#include <fcppt/container/grid/fill.hpp>
#include <fcppt/container/grid/map.hpp>
#include <fcppt/container/grid/object.hpp>
#include <fcppt/container/grid/resize.hpp>
#include <fcppt/math/dim/comparison.hpp>
#include <fcppt/math/vector/comparison.hpp>
#include <fcppt/optional/object_impl.hpp>
#include <fcppt/optional/reference.hpp>
#include <cstddef>
#include <cstdint>
#include <iterator>
#include <utility>

namespace
{
namespace grid = fcppt::container::grid;
using sz = std::size_t;
using u32 = std::uint32_t;

bool used_after_move; // some cell was copied / moved / read through value() after it had been moved from

struct mcell
{
  u32 v;
  bool moved;
  explicit mcell(u32 const _v) : v{_v}, moved{false} {}
  mcell(mcell const &o) : v{o.v}, moved{o.moved}
  {
    if (o.moved) used_after_move = true;
  }
  mcell(mcell &&o) noexcept : v{o.v}, moved{o.moved}
  {
    if (o.moved) used_after_move = true;
    o.moved = true;
    o.v = 0xDEADBEEFU;
  }
  mcell &operator=(mcell const &o)
  {
    if (o.moved) used_after_move = true;
    v = o.v;
    moved = o.moved;
    return *this;
  }
  mcell &operator=(mcell &&o) noexcept
  {
    if (o.moved) used_after_move = true;
    v = o.v;
    moved = o.moved;
    if (&o != this)
    {
      o.moved = true;
      o.v = 0xDEADBEEFU;
    }
    return *this;
  }
  ~mcell() = default;
};

template <sz N> using G = grid::object<mcell, N>;
template <sz N> struct arr { sz v[N]; };
template <sz N> grid::pos<sz, N> mk_pos(arr<N> const &a)
{
  if constexpr (N == 1) return grid::pos<sz, 1>{a.v[0]};
  else return grid::pos<sz, 2>{a.v[0], a.v[1]};
}
template <sz N> grid::dim<sz, N> mk_dim(arr<N> const &a)
{
  if constexpr (N == 1) return grid::dim<sz, 1>{a.v[0]};
  else return grid::dim<sz, 2>{a.v[0], a.v[1]};
}
template <sz N> arr<N> un_pos(grid::pos<sz, N> const &p)
{
  arr<N> r{};
  r.v[0] = p.x();
  if constexpr (N >= 2) r.v[1] = p.y();
  return r;
}
template <sz N> arr<N> un_dim(grid::dim<sz, N> const &p)
{
  arr<N> r{};
  r.v[0] = p.w();
  if constexpr (N >= 2) r.v[1] = p.h();
  return r;
}
template <sz N> bool eq(arr<N> const &a, arr<N> const &b)
{
  bool r{true};
  for (sz i = 0; i < N; ++i) r = r & (a.v[i] == b.v[i]);
  return r;
}
template <sz N> bool inside(arr<N> const &size, arr<N> const &p)
{
  bool r{true};
  for (sz i = 0; i < N; ++i) r = r & (p.v[i] < size.v[i]);
  return r;
}
template <sz N> sz cells(arr<N> const &size)
{
  sz r{1};
  for (sz i = 0; i < N; ++i) r *= size.v[i];
  return r;
}
// k-th position in storage order (x fastest) of a grid of the given (concrete) size
template <sz N> arr<N> kth(arr<N> const &size, sz const k)
{
  arr<N> r{};
  r.v[0] = k % size.v[0];
  if constexpr (N >= 2) r.v[1] = k / size.v[0];
  return r;
}
template <sz N> arr<N> clamped(arr<N> const &size, arr<N> const &p) // nearest position of a non-empty grid
{
  arr<N> r{};
  for (sz i = 0; i < N; ++i) r.v[i] = p.v[i] < size.v[i] ? p.v[i] : size.v[i] - 1;
  return r;
}
char const *const n_w[2] = {"w", "h"};
char const *const n_w2[2] = {"w2", "h2"};
template <sz N> arr<N> params(char const *const *const names)
{
  arr<N> r{};
  for (sz i = 0; i < N; ++i) r.v[i] = verif_param(names[i]);
  return r;
}
template <sz N> u32 uf_pos(int const k, arr<N> const &p) { return static_cast<u32>(verif_uf2(k, p.v[0], N >= 2 ? p.v[N >= 2 ? 1 : 0] : 0)); }
template <sz N> G<N> make(int const k, arr<N> const &size)
{
  return G<N>{mk_dim<N>(size), [k](grid::pos<sz, N> const &p) { return mcell{uf_pos<N>(k, un_pos<N>(p))}; }};
}
// the grid still has exactly the cells it was built with: live objects with the original values
template <sz N> void check_intact(G<N> const &g, int const k, arr<N> const &size, char const *const what)
{
  bool ok{eq(un_dim<N>(g.size()), size) && static_cast<sz>(std::distance(g.begin(), g.end())) == cells(size)};
  for (sz i = 0; ok && i < cells(size); ++i)
  {
    mcell const &c{*(g.begin() + static_cast<std::ptrdiff_t>(i))};
    ok = !c.moved && c.v == uf_pos<N>(k, kth(size, i));
  }
  verif_assert(ok, what);
}

// ---------------------------------------------------------------------------------------------------------------------
// resize of a NON-CONST LVALUE grid; init reads the source grid (border replication)
template <sz N> void resize_lvalue()
{
  used_after_move = false;
  arr<N> const osize{params<N>(n_w)}, nsize{params<N>(n_w2)};
  bool const src_empty{cells(osize) == 0};
  G<N> src{make<N>(1, osize)};
  auto const init{[&src, &osize, src_empty](grid::pos<sz, N> const &p) -> mcell
                  {
                    arr<N> const a{un_pos<N>(p)};
                    if (src_empty) return mcell{uf_pos<N>(2, a)};
                    return src.get_unsafe(mk_pos<N>(clamped(osize, a))); // a copy of the nearest source cell
                  }};
  auto const expect{[&](arr<N> const &a) { return inside(osize, a) ? uf_pos<N>(1, a) : src_empty ? uf_pos<N>(2, a) : uf_pos<N>(1, clamped(osize, a)); }};
  G<N> const r{grid::resize(src, mk_dim<N>(nsize), init)};
  verif_assert(eq(un_dim<N>(r.size()), nsize) && static_cast<sz>(std::distance(r.begin(), r.end())) == cells(nsize), "resize(lvalue): the result has the new size");
  for (sz k = 0; k < cells(nsize); ++k)
  {
    mcell const &c{*(r.begin() + static_cast<std::ptrdiff_t>(k))};
    verif_assert(!c.moved, "resize(lvalue): every result cell is a live object");
    verif_assert(c.v == expect(kth(nsize, k)), "resize(lvalue): g[p] = old[p] if p is a position of the old grid, init(p) otherwise (init reads the old grid)");
  }
  check_intact<N>(src, 1, osize, "resize(lvalue): the source grid is unchanged (no cell moved out of it)");
  // the source is still usable: a second resize and at_optional see the same cells
  G<N> const r2{grid::resize(src, mk_dim<N>(nsize), init)};
  bool same{eq(un_dim<N>(r2.size()), nsize)};
  for (sz k = 0; same && k < cells(nsize); ++k)
  {
    mcell const &c{*(r2.begin() + static_cast<std::ptrdiff_t>(k))};
    same = !c.moved && c.v == expect(kth(nsize, k));
  }
  verif_assert(same, "resize(lvalue): a second resize of the same source gives the same grid");
  for (sz k = 0; k < cells(osize); ++k)
  {
    auto const o{grid::at_optional(src, mk_pos<N>(kth(osize, k)))};
    verif_assert(o.has_value() && !o.get_unsafe().get().moved && o.get_unsafe().get().v == uf_pos<N>(1, kth(osize, k)), "resize(lvalue): at_optional on the source afterwards yields the original cell");
  }
  verif_assert(!used_after_move, "resize(lvalue): no moved-from cell was ever copied or moved");
  verif_reach("end");
}

// resize of an RVALUE grid: values right, result live, nothing moved twice
template <sz N> void resize_rvalue()
{
  used_after_move = false;
  arr<N> const osize{params<N>(n_w)}, nsize{params<N>(n_w2)};
  G<N> src{make<N>(1, osize)};
  G<N> const r{grid::resize(std::move(src), mk_dim<N>(nsize), [](grid::pos<sz, N> const &p) { return mcell{uf_pos<N>(2, un_pos<N>(p))}; })};
  verif_assert(eq(un_dim<N>(r.size()), nsize) && static_cast<sz>(std::distance(r.begin(), r.end())) == cells(nsize), "resize(rvalue): the result has the new size");
  for (sz k = 0; k < cells(nsize); ++k)
  {
    mcell const &c{*(r.begin() + static_cast<std::ptrdiff_t>(k))};
    arr<N> const a{kth(nsize, k)};
    verif_assert(!c.moved, "resize(rvalue): every result cell is a live object");
    verif_assert(c.v == (inside(osize, a) ? uf_pos<N>(1, a) : uf_pos<N>(2, a)), "resize(rvalue): g[p] = old[p] if p is a position of the old grid, init(p) otherwise");
  }
  verif_assert(!used_after_move, "resize(rvalue): every source cell is moved at most once");
  verif_reach("end");
}

// map with a function taking its argument by value
template <sz N> void map_by_value()
{
  used_after_move = false;
  arr<N> const size{params<N>(n_w)};
  auto const f{[](mcell c) { return mcell{static_cast<u32>(verif_uf1(3, c.v))}; }};
  G<N> src{make<N>(1, size)};
  G<N> const r{grid::map(src, f)}; // non-const lvalue
  verif_assert(eq(un_dim<N>(r.size()), size) && static_cast<sz>(std::distance(r.begin(), r.end())) == cells(size), "map(lvalue): same size");
  for (sz k = 0; k < cells(size); ++k)
  {
    mcell const &c{*(r.begin() + static_cast<std::ptrdiff_t>(k))};
    verif_assert(!c.moved && c.v == static_cast<u32>(verif_uf1(3, uf_pos<N>(1, kth(size, k)))), "map(lvalue): result[p] = function(source[p])");
  }
  check_intact<N>(src, 1, size, "map(lvalue): the source grid is unchanged (no cell moved out of it)");
  verif_assert(!used_after_move, "map(lvalue): no moved-from cell was used");
  G<N> const r2{grid::map(std::move(src), f)}; // rvalue: the cells may be moved into the function, once
  verif_assert(eq(un_dim<N>(r2.size()), size), "map(rvalue): same size");
  for (sz k = 0; k < cells(size); ++k)
  {
    mcell const &c{*(r2.begin() + static_cast<std::ptrdiff_t>(k))};
    verif_assert(!c.moved && c.v == static_cast<u32>(verif_uf1(3, uf_pos<N>(1, kth(size, k)))), "map(rvalue): result[p] = function(source[p])");
  }
  verif_assert(!used_after_move, "map(rvalue): every source cell is moved at most once");
  verif_reach("end");
}

// apply with a function taking its arguments by value: two lvalues, the same lvalue twice, lvalue + rvalue
template <sz N> void apply_by_value()
{
  used_after_move = false;
  arr<N> const s1{params<N>(n_w)}, s2{params<N>(n_w2)};
  bool const same_size{eq(s1, s2)};
  auto const f{[](mcell a, mcell b) { return mcell{static_cast<u32>(verif_uf2(4, a.v, b.v))}; }};
  G<N> g1{make<N>(1, s1)}, g2{make<N>(2, s2)};
  auto const check{[&](G<N> const &r, int const k2, char const *const what)
                   {
                     bool ok{true};
                     if (same_size || k2 == 1)
                     {
                       ok = eq(un_dim<N>(r.size()), s1) && static_cast<sz>(std::distance(r.begin(), r.end())) == cells(s1);
                       for (sz k = 0; ok && k < cells(s1); ++k)
                       {
                         mcell const &c{*(r.begin() + static_cast<std::ptrdiff_t>(k))};
                         ok = !c.moved && c.v == static_cast<u32>(verif_uf2(4, uf_pos<N>(1, kth(s1, k)), uf_pos<N>(k2, kth(s1, k))));
                       }
                     }
                     else
                     {
                       arr<N> const zero{};
                       ok = eq(un_dim<N>(r.size()), zero) && r.begin() == r.end();
                     }
                     verif_assert(ok, what);
                   }};
  G<N> const r{grid::apply(f, g1, g2)};
  check(r, 2, "apply(lvalue, lvalue): r[p] = f(g1[p], g2[p]) for equal sizes, empty otherwise");
  check_intact<N>(g1, 1, s1, "apply(lvalue, lvalue): the first grid is unchanged");
  check_intact<N>(g2, 2, s2, "apply(lvalue, lvalue): the second grid is unchanged");
  G<N> const rr{grid::apply(f, g1, g1)};
  check(rr, 1, "apply(g, g): r[p] = f(g[p], g[p])");
  check_intact<N>(g1, 1, s1, "apply(g, g): the grid is unchanged");
  verif_assert(!used_after_move, "apply(lvalues): no moved-from cell was used");
  {
    // rvalue first, lvalue second: the value category of the FIRST grid says nothing about the others
    G<N> tmp{make<N>(1, s1)};
    G<N> const rl{grid::apply(f, std::move(tmp), g2)};
    check(rl, 2, "apply(rvalue, lvalue): r[p] = f(g1[p], g2[p]) for equal sizes, empty otherwise");
    check_intact<N>(g2, 2, s2, "apply(rvalue, lvalue): the lvalue grid is unchanged");
    verif_assert(!used_after_move, "apply(rvalue, lvalue): no moved-from cell was used");
  }
  G<N> const rm{grid::apply(f, g1, std::move(g2))};
  check(rm, 2, "apply(lvalue, rvalue): r[p] = f(g1[p], g2[p]) for equal sizes, empty otherwise");
  check_intact<N>(g1, 1, s1, "apply(lvalue, rvalue): the lvalue grid is unchanged");
  verif_assert(!used_after_move, "apply(lvalue, rvalue): every cell of the rvalue grid is moved at most once");
  verif_reach("end");
}

// fill with a function that reads another lvalue grid (and the grid being filled)
template <sz N> void fill_from_grid()
{
  used_after_move = false;
  arr<N> const size{params<N>(n_w)};
  G<N> other{make<N>(1, size)};
  G<N> g{make<N>(2, size)};
  grid::fill(g, [&other, &g](grid::pos<sz, N> const &p) { return mcell{static_cast<u32>(verif_uf2(5, other.get_unsafe(p).v, g.get_unsafe(p).v))}; });
  for (sz k = 0; k < cells(size); ++k)
  {
    mcell const &c{*(g.begin() + static_cast<std::ptrdiff_t>(k))};
    verif_assert(!c.moved && c.v == static_cast<u32>(verif_uf2(5, uf_pos<N>(1, kth(size, k)), uf_pos<N>(2, kth(size, k)))), "fill: the cell at p is function(p), evaluated on the old cell");
  }
  grid::fill(g, [&other](grid::pos<sz, N> const &p) { return other.get_unsafe(p); });
  for (sz k = 0; k < cells(size); ++k)
  {
    mcell const &c{*(g.begin() + static_cast<std::ptrdiff_t>(k))};
    verif_assert(!c.moved && c.v == uf_pos<N>(1, kth(size, k)), "fill with copies of another grid's cells");
  }
  check_intact<N>(other, 1, size, "fill: the grid read by the function is unchanged");
  verif_assert(!used_after_move, "fill: no moved-from cell was used");
  verif_reach("end");
}

// assignment history: the storage holds exactly content() cells, one per in-range position, after every step - copy
// assignment, move assignment from another grid, swap, and move assignment whose right-hand side is (an alias of) the
// target itself, as in  slots[i] = std::move(slots[j])  with i == j.  A standard-library type would only promise a
// "valid but unspecified" state for the last one; a grid whose size() and storage disagree is not a valid state, so the
// assertion after the self-move is: size() and the number of stored cells agree, and every stored cell is addressable
// through at_optional.
template <sz N> void assign_history()
{
  used_after_move = false;
  arr<N> const s1{params<N>(n_w)}, s2{params<N>(n_w2)};
  G<N> a{make<N>(1, s1)}, b{make<N>(2, s2)};
  G<N> c{make<N>(2, s2)};
  c = a; // copy assignment
  check_intact<N>(c, 1, s1, "copy assignment: the target has the size and cells of the source");
  check_intact<N>(a, 1, s1, "copy assignment: the source is unchanged");
  c = std::move(b); // move assignment from another grid
  check_intact<N>(c, 2, s2, "move assignment: the target has the size and cells of the source");
  std::swap(a, c);
  check_intact<N>(a, 2, s2, "swap (1)");
  check_intact<N>(c, 1, s1, "swap (2)");
  G<N> *const alias{&a};
  a = std::move(*alias); // self move assignment through an alias
  sz const stored{static_cast<sz>(std::distance(a.begin(), a.end()))};
  verif_assert(stored == a.content(), "self move assignment: size() and the stored cells still agree (offset maps the in-range positions onto the storage)");
  sz count{0};
  for (sz k = 0; k < cells(s2) && eq(un_dim<N>(a.size()), s2); ++k)
  {
    if (grid::at_optional(a, mk_pos<N>(kth(s2, k))).has_value()) ++count;
  }
  verif_assert(!eq(un_dim<N>(a.size()), s2) || count == cells(s2), "self move assignment: at_optional yields an element for every in-range position");
  verif_reach("end");
}
}

#define H(name, ...) VERIF_HARNESS(name) { __VA_ARGS__; }
H(h_mv_resize_lv_1, resize_lvalue<1>()) H(h_mv_resize_lv_2, resize_lvalue<2>())
//@harness h_mv_resize_lv_1 param w=0..3 param w2=0..4 tier=quick loop=80 hang_s=60
//@harness h_mv_resize_lv_2 param w=0..2 param h=0..2 param w2=0..3 param h2=0..3 tier=quick loop=80 hang_s=60
H(h_mv_resize_rv_1, resize_rvalue<1>()) H(h_mv_resize_rv_2, resize_rvalue<2>())
//@harness h_mv_resize_rv_1 param w=0..3 param w2=0..4 tier=quick loop=80 hang_s=60
//@harness h_mv_resize_rv_2 param w=1..2 param h=1..2 param w2=0..3 param h2=0..3 tier=quick loop=80 hang_s=60
H(h_mv_map_1, map_by_value<1>()) H(h_mv_map_2, map_by_value<2>())
//@harness h_mv_map_1 param w=0..4 tier=quick loop=80 hang_s=60
//@harness h_mv_map_2 param w=0..3 param h=0..3 tier=quick loop=80 hang_s=60
H(h_mv_apply_1, apply_by_value<1>()) H(h_mv_apply_2, apply_by_value<2>())
//@harness h_mv_apply_1 param w=0..3 param w2=0..3 tier=quick loop=80 hang_s=60
//@harness h_mv_apply_2 param w=0..2 param h=0..2 param w2=0..2 param h2=0..2 tier=quick loop=80 hang_s=60
H(h_mv_fill_1, fill_from_grid<1>()) H(h_mv_fill_2, fill_from_grid<2>())
//@harness h_mv_fill_1 param w=0..4 tier=quick loop=80 hang_s=60
//@harness h_mv_fill_2 param w=0..3 param h=0..3 tier=quick loop=80 hang_s=60

H(h_mv_assign_1, assign_history<1>()) H(h_mv_assign_2, assign_history<2>())
//@harness h_mv_assign_1 param w=0..3 param w2=0..3 tier=quick loop=80 hang_s=60
//@harness h_mv_assign_2 param w=0..2 param h=0..2 param w2=1..2 param h2=1..2 tier=quick loop=80 hang_s=60
