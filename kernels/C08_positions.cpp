// C08 (part 1) - grid positions, offsets and position ranges are an exact row-major bijection.
//
// Inductive characterisation instead of enumeration of sizes.  All extents, range bounds and positions are symbolic
// bit-vectors, bounded only by the ASSUMPTION "< 2^LIM" so that no product of N <= 3 factors overflows size_t
// (LIM = 16 unless stated at the harness; that bound is an assumption on the inputs, not an enumeration).
//
// whole grid (min = 0, sup = size), for N = 1,2,3 and EVERY size (zero and 1-wide extents included):
//   (a) in_range_dim(size,p)  <=>  p_i < size_i for all i;  contents(size) = prod size_i
//   (b) offset(0,size) = 0 and make_pos_range(size).begin() is the zero position when the grid is not empty
//   (c) in range => offset(p,size) < contents(size)
//   (d) in range and not last => next_position(p) is in range and offset(next) = offset(p) + 1   (storage order)
//   (e) p last (p_i = size_i - 1) => offset(p) = contents - 1, next_position(p) = end_position = range.end()
//   (f) range.end() is not an in-range position, and begin() == end() exactly for an empty grid; size() = contents
//   (g) two in-range positions with equal offset are equal (injectivity, asked directly of the solver)
// By induction on the offset, (b)-(f) say that begin(), ++, ..., end() visits every in-range position exactly once, in
// storage order, for every size: the k-th visited position has offset k, there are contents(size) of them.
// The increments are made through the REAL pos_iterator (constructed at the symbolic position) and the real pos_range.
//
// sub-range (min, sup), also partly or completely outside any grid, inverted and empty:
//   the same with rank(p) = sum (p_i - min_i) * prod_{j<i} (sup_j - min_j):  rank(min) = 0, rank(next) = rank + 1,
//   successor of the last position = end(), end() is not inside, range empty <=> some min_i >= sup_i <=> begin()==end(),
//   size() = prod (sup_i - min_i) if not empty, 0 otherwise;  min_less_sup, range_dim, range_size against their definitions.
//   Together with a grid size: inside the sub-range and inside the grid => the step between the storage offsets of
//   consecutive positions is what row-major storage says (offset(next) - offset(p) computed by the reference formula).
//
// Finally a REAL `for (p : range)` loop over sub-ranges with symbolic bounds in [0,B]^N (B = 6,3,2 for N = 1,2,3 quick; 5,3 for N = 2,3 thorough) is
// compared with nested reference loops (empty, inverted, 1-wide ranges included).
//
// outside the claim: N >= 4; extents >= 2^16 (region where products may overflow size_t; nothing is documented there);
// grid::interpolate (floating point); grid::output (iostream).
//@property C08
#include "verif_api.h"
#include <fcppt/container/grid/dim.hpp>
#include <fcppt/container/grid/end_position.hpp>
#include <fcppt/container/grid/in_range_dim.hpp>
#include <fcppt/container/grid/make_pos_range.hpp>
#include <fcppt/container/grid/make_pos_range_start_end.hpp>
#include <fcppt/container/grid/min.hpp>
#include <fcppt/container/grid/min_less_sup.hpp>
#include <fcppt/container/grid/next_position.hpp>
#include <fcppt/container/grid/offset.hpp>
#include <fcppt/container/grid/pos.hpp>
#include <fcppt/container/grid/pos_iterator_impl.hpp>
#include <fcppt/container/grid/pos_range.hpp>
#include <fcppt/container/grid/range_dim.hpp>
#include <fcppt/container/grid/range_size.hpp>
#include <fcppt/container/grid/sup.hpp>
#include <fcppt/math/dim/contents.hpp>
#include <fcppt/math/dim/comparison.hpp>
#include <fcppt/math/vector/comparison.hpp>
#include <fcppt/math/vector/null.hpp>
#include <cstddef>
#include <cstdint>

namespace
{
namespace grid = fcppt::container::grid;
using u64 = std::uint64_t;
using sz = std::size_t;

template <sz N> struct arr { sz v[N]; };

template <sz N> arr<N> sym(char const *const *const names, unsigned const lim)
{
  arr<N> r{};
  for (sz i = 0; i < N; ++i)
  {
    r.v[i] = verif_u64(names[i]);
    if (lim != 0 && lim < 64) verif_assume(r.v[i] < (sz{1} << lim));
  }
  return r;
}
// lim == 0: the only assumption is that the number of cells is representable: every partial product e_0*...*e_i
// (computed exactly, in 128 bits) fits size_t
template <sz N> void assume_fits(arr<N> const &e)
{
  unsigned __int128 t{1};
  for (sz i = 0; i < N; ++i)
  {
    t *= e.v[i];
    verif_assume(t <= ~sz{0});
  }
}
char const *const n_size[3] = {"size0", "size1", "size2"};
char const *const n_pos[3] = {"pos0", "pos1", "pos2"};
char const *const n_q[3] = {"q0", "q1", "q2"};
char const *const n_min[3] = {"min0", "min1", "min2"};
char const *const n_sup[3] = {"sup0", "sup1", "sup2"};

template <sz N> grid::pos<sz, N> mk_pos(arr<N> const &a)
{
  if constexpr (N == 1) return grid::pos<sz, 1>{a.v[0]};
  else if constexpr (N == 2) return grid::pos<sz, 2>{a.v[0], a.v[1]};
  else return grid::pos<sz, 3>{a.v[0], a.v[1], a.v[2]};
}
template <sz N> grid::dim<sz, N> mk_dim(arr<N> const &a)
{
  if constexpr (N == 1) return grid::dim<sz, 1>{a.v[0]};
  else if constexpr (N == 2) return grid::dim<sz, 2>{a.v[0], a.v[1]};
  else return grid::dim<sz, 3>{a.v[0], a.v[1], a.v[2]};
}
template <sz N> arr<N> un_pos(grid::pos<sz, N> const &p)
{
  arr<N> r{};
  r.v[0] = p.x();
  if constexpr (N >= 2) r.v[1] = p.y();
  if constexpr (N >= 3) r.v[2] = p.z();
  return r;
}
template <sz N> arr<N> un_dim(grid::dim<sz, N> const &p)
{
  arr<N> r{};
  r.v[0] = p.w();
  if constexpr (N >= 2) r.v[1] = p.h();
  if constexpr (N >= 3) r.v[2] = p.d();
  return r;
}
template <sz N> bool eq(arr<N> const &a, arr<N> const &b)
{
  bool r{true};
  for (sz i = 0; i < N; ++i) r = r & (a.v[i] == b.v[i]);
  return r;
}
// ---- reference model (from the documentation / property statement) ----
template <sz N> bool ref_inside(arr<N> const &mn, arr<N> const &sp, arr<N> const &p)
{
  bool r{true};
  for (sz i = 0; i < N; ++i) r = r & (mn.v[i] <= p.v[i]) & (p.v[i] < sp.v[i]);
  return r;
}
template <sz N> bool ref_nonempty(arr<N> const &mn, arr<N> const &sp)
{
  bool r{true};
  for (sz i = 0; i < N; ++i) r = r & (mn.v[i] < sp.v[i]);
  return r;
}
template <sz N> bool ref_last(arr<N> const &sp, arr<N> const &p)
{
  bool r{true};
  for (sz i = 0; i < N; ++i) r = r & (p.v[i] + 1 == sp.v[i]);
  return r;
}
template <sz N> sz ref_count(arr<N> const &mn, arr<N> const &sp) // number of p with min <= p < sup
{
  if (!ref_nonempty(mn, sp)) return 0;
  sz r{1};
  for (sz i = 0; i < N; ++i) r *= sp.v[i] - mn.v[i];
  return r;
}
template <sz N> arr<N> zero() { return arr<N>{}; }

template <sz N> void out(char const *const tag, arr<N> const &a)
{
  for (sz i = 0; i < N; ++i) verif_out(tag, a.v[i]);
}

// ---------------------------------------------------------------- whole grid
template <sz N> void whole(unsigned const lim)
{
  arr<N> const size{sym<N>(n_size, lim)}, p{sym<N>(n_pos, lim)};
  if (lim == 0) assume_fits(size);
  grid::dim<sz, N> const dim{mk_dim<N>(size)};
  grid::pos<sz, N> const pos{mk_pos<N>(p)};
  grid::min<sz, N> const gmin{fcppt::math::vector::null<grid::pos<sz, N>>()};
  grid::sup<sz, N> const gsup{mk_pos<N>(size)};
  bool const inside{ref_inside(zero<N>(), size, p)};
  sz const count{ref_count(zero<N>(), size)};

  // (a)
  verif_assert(grid::in_range_dim(dim, pos) == inside, "in_range_dim <=> every component below the extent");
  sz const contents{fcppt::math::dim::contents(dim)};
  verif_out("contents", contents);
  {
    sz prod{1};
    for (sz i = 0; i < N; ++i) prod *= size.v[i];
    verif_assert(contents == prod, "contents = product of the extents");
  }
  // (b)
  verif_assert(grid::offset(fcppt::math::vector::null<grid::pos<sz, N>>(), dim) == 0, "offset of the zero position is 0");
  grid::pos_range<sz, N> const range{grid::make_pos_range(dim)};
  verif_assert(eq(un_pos<N>(range.min().get()), zero<N>()) && eq(un_pos<N>(range.sup().get()), size), "make_pos_range = [0, size)");
  verif_assert(eq(un_pos<N>(*range.begin()), zero<N>()), "begin() is the zero position");
  // (f)
  arr<N> const endp{un_pos<N>(*range.end())};
  out("end", endp);
  verif_assert(!ref_inside(zero<N>(), size, endp), "end() is not an in-range position");
  verif_assert(!grid::in_range_dim(dim, *range.end()), "end() is not in_range_dim");
  verif_assert((range.begin() == range.end()) == (count == 0), "begin() == end() exactly for a grid without cells");
  verif_assert(range.size() == count, "size() of the whole-grid range = number of cells");
  verif_assert(eq(un_pos<N>(grid::end_position(gmin, gsup)), endp), "range.end() is end_position");

  if (inside)
  {
    sz const off{grid::offset(pos, dim)};
    verif_out("off", off);
    // (c)
    verif_assert(off < contents, "in range => offset < contents");
    grid::pos_iterator<sz, N> it{pos, gmin, gsup};
    verif_assert(it != range.end(), "an in-range position never compares equal to end()");
    ++it;
    arr<N> const nx{un_pos<N>(*it)};
    out("next", nx);
    verif_assert(eq(un_pos<N>(grid::next_position(pos, gmin, gsup)), nx), "iterator increment is next_position");
    if (ref_last(size, p))
    {
      // (e)
      verif_assert(off + 1 == contents, "the last position has offset contents-1");
      verif_assert(it == range.end(), "successor of the last position is end()");
      verif_assert(eq(nx, endp), "successor of the last position is end_position");
      verif_reach("last");
    }
    else
    {
      // (d)
      verif_assert(ref_inside(zero<N>(), size, nx), "successor of a non-last in-range position is in range");
      verif_assert(grid::in_range_dim(dim, *it), "successor of a non-last in-range position is in_range_dim");
      verif_assert(grid::offset(*it, dim) == off + 1, "offset(next_position(p)) = offset(p) + 1");
      verif_assert(it != range.end(), "successor of a non-last position is not end()");
      verif_reach("step");
    }
  }
  verif_reach("end");
}

// (g) injectivity of offset on in-range positions, asked directly
template <sz N> void inject(unsigned const lim)
{
  arr<N> const size{sym<N>(n_size, lim)}, p{sym<N>(n_pos, lim)}, q{sym<N>(n_q, lim)};
  if (lim == 0) assume_fits(size);
  verif_assume(ref_inside(zero<N>(), size, p) && ref_inside(zero<N>(), size, q));
  grid::dim<sz, N> const dim{mk_dim<N>(size)};
  sz const op{grid::offset(mk_pos<N>(p), dim)}, oq{grid::offset(mk_pos<N>(q), dim)};
  verif_out("op", op);
  verif_assert(op != oq || eq(p, q), "offset is injective on in-range positions");
  verif_reach("end");
}

// ---------------------------------------------------------------- sub-range
template <sz N> sz ref_rank(arr<N> const &mn, arr<N> const &sp, arr<N> const &p)
{
  sz r{0}, stride{1};
  for (sz i = 0; i < N; ++i)
  {
    r += (p.v[i] - mn.v[i]) * stride;
    stride *= sp.v[i] - mn.v[i];
  }
  return r;
}

template <sz N> void sub(unsigned const lim)
{
  arr<N> const mn{sym<N>(n_min, lim)}, sp{sym<N>(n_sup, lim)}, p{sym<N>(n_pos, lim)};
  grid::min<sz, N> const gmin{mk_pos<N>(mn)};
  grid::sup<sz, N> const gsup{mk_pos<N>(sp)};
  grid::pos<sz, N> const pos{mk_pos<N>(p)};
  bool const nonempty{ref_nonempty(mn, sp)};
  bool const inside{ref_inside(mn, sp, p)};
  if (lim == 0)
  {
    arr<N> d{};
    for (sz i = 0; i < N; ++i) d.v[i] = nonempty ? sp.v[i] - mn.v[i] : 0;
    assume_fits(d);
  }
  sz const count{ref_count(mn, sp)};

  verif_assert(grid::min_less_sup(gmin, gsup) == nonempty, "min_less_sup <=> min_i < sup_i for every i");
  {
    arr<N> const rd{un_dim<N>(grid::range_dim(gmin, gsup))};
    for (sz i = 0; i < N; ++i)
      verif_assert(rd.v[i] == (nonempty ? sp.v[i] - mn.v[i] : 0), "range_dim = sup - min, or null for an empty range");
  }
  verif_assert(grid::range_size(gmin, gsup) == count, "range_size = number of positions between min and sup");

  grid::pos_range<sz, N> const range{grid::make_pos_range_start_end(gmin, gsup)};
  verif_assert(range.size() == count, "size() = product of (sup_i - min_i), 0 for an empty range");
  verif_assert((range.begin() == range.end()) == !nonempty, "nothing is visited exactly when some min_i >= sup_i");
  verif_assert(eq(un_pos<N>(*range.begin()), mn), "begin() is min");
  arr<N> const endp{un_pos<N>(*range.end())};
  out("end", endp);
  verif_assert(!ref_inside(mn, sp, endp), "end() is not a position of the range");
  verif_assert(eq(un_pos<N>(grid::end_position(gmin, gsup)), endp), "range.end() is end_position");

  if (inside)
  {
    // (inside implies nonempty)
    sz const rank{ref_rank(mn, sp, p)};
    verif_out("rank", rank);
    verif_assert(rank < count, "rank < size()");
    verif_assert(ref_rank(mn, sp, mn) == 0, "rank(min) = 0");
    grid::pos_iterator<sz, N> it{pos, gmin, gsup};
    verif_assert(it != range.end(), "a position of the range never compares equal to end()");
    ++it;
    arr<N> const nx{un_pos<N>(*it)};
    out("next", nx);
    verif_assert(eq(un_pos<N>(grid::next_position(pos, gmin, gsup)), nx), "iterator increment is next_position");
    if (ref_last(sp, p))
    {
      verif_assert(rank + 1 == count, "the last position has rank size()-1");
      verif_assert(it == range.end(), "successor of the last position is end()");
      verif_reach("last");
    }
    else
    {
      verif_assert(ref_inside(mn, sp, nx), "successor of a non-last position is inside the range");
      verif_assert(ref_rank(mn, sp, nx) == rank + 1, "rank(next_position(p)) = rank(p) + 1");
      verif_assert(it != range.end(), "successor of a non-last position is not end()");
      verif_reach("step");
    }
  }
  verif_reach("end");
}

// ---------------------------------------------------------------- a real loop over a small symbolic sub-range
// (the induction above, unrolled by the executor: min_i, sup_i symbolic in [0, B], forks over the shapes of the range)
template <sz N, sz B> void enumerate()
{
  arr<N> const mn{sym<N>(n_min, 0)}, sp{sym<N>(n_sup, 0)};
  for (sz i = 0; i < N; ++i) verif_assume(mn.v[i] <= B && sp.v[i] <= B);
  constexpr sz cap{128};
  arr<N> got[cap];
  sz n{0};
  grid::pos_range<sz, N> const range{grid::make_pos_range_start_end(grid::min<sz, N>{mk_pos<N>(mn)}, grid::sup<sz, N>{mk_pos<N>(sp)})};
  for (grid::pos<sz, N> const p : range)
  {
    if (n < cap) got[n] = un_pos<N>(p);
    ++n;
  }
  verif_out("n", n);
  // reference: nested loops, x fastest, nothing unless every min_i < sup_i
  sz k{0};
  bool ok{true};
  if (ref_nonempty(mn, sp))
  {
    sz const m1{N >= 2 ? mn.v[N >= 2 ? 1 : 0] : 0}, s1{N >= 2 ? sp.v[N >= 2 ? 1 : 0] : 1};
    sz const m2{N >= 3 ? mn.v[N >= 3 ? 2 : 0] : 0}, s2{N >= 3 ? sp.v[N >= 3 ? 2 : 0] : 1};
    for (sz z = m2; z < s2; ++z)
      for (sz y = m1; y < s1; ++y)
        for (sz x = mn.v[0]; x < sp.v[0]; ++x)
        {
          arr<N> q{};
          q.v[0] = x;
          if constexpr (N >= 2) q.v[1] = y;
          if constexpr (N >= 3) q.v[2] = z;
          ok = ok && k < n && k < cap && eq(got[k < cap ? k : 0], q);
          ++k;
        }
  }
  verif_assert(ok && k == n, "the range visits exactly the positions min <= p < sup, x fastest (none if some min_i >= sup_i)");
  verif_assert(range.size() == n, "size() = number of positions visited");
  verif_reach("end");
}
}

#define H(name, ...) VERIF_HARNESS(name) { __VA_ARGS__; }
H(h_enumerate_1, enumerate<1, 6>()) H(h_enumerate_2, enumerate<2, 3>()) H(h_enumerate_3, enumerate<3, 2>())
//@harness h_enumerate_{N} for N in 1,2,3 tier=quick loop=200 hang_s=60
H(h_enumerate_deep_2, enumerate<2, 5>()) H(h_enumerate_deep_3, enumerate<3, 3>())
//@harness h_enumerate_deep_{N} for N in 2,3 tier=thorough loop=400 paths=100000 wall=3000 hang_s=60
// _fit: NO bound on the extents / range bounds other than "the number of cells (positions) is representable in size_t"
H(h_whole_fit_1, whole<1>(0)) H(h_whole_fit_2, whole<2>(0)) H(h_whole_fit_3, whole<3>(0))
//@harness h_whole_fit_{N} for N in 1,2 tier=quick hang_s=60
//@harness h_whole_fit_3 tier=quick hang_s=60 query_ms=240000 wall=1200 cost=9
H(h_inject_fit_1, inject<1>(0)) H(h_inject_fit_2, inject<2>(0)) H(h_inject_fit_3, inject<3>(0))
//@harness h_inject_fit_{N} for N in 1,2 tier=quick hang_s=60
//@harness h_inject_fit_3 tier=quick hang_s=60 query_ms=240000 wall=1200 cost=9
H(h_sub_fit_1, sub<1>(0)) H(h_sub_fit_2, sub<2>(0)) H(h_sub_fit_3, sub<3>(0))
//@harness h_sub_fit_{N} for N in 1,2 tier=quick hang_s=60
//@harness h_sub_fit_3 tier=quick hang_s=60 query_ms=240000 wall=1200 cost=9
// _16: the bound of the plan (every component < 2^16), kept as an independent, easier instance of the same statements
H(h_whole_16_1, whole<1>(16)) H(h_whole_16_2, whole<2>(16)) H(h_whole_16_3, whole<3>(16))
//@harness h_whole_16_{N} for N in 1,2 tier=quick hang_s=60
//@harness h_whole_16_3 tier=quick hang_s=60 query_ms=240000 wall=1200 cost=5
H(h_inject_16_1, inject<1>(16)) H(h_inject_16_2, inject<2>(16)) H(h_inject_16_3, inject<3>(16))
//@harness h_inject_16_{N} for N in 1,2 tier=quick hang_s=60
//@harness h_inject_16_3 tier=quick hang_s=60 query_ms=240000 wall=1200 cost=5
H(h_sub_16_1, sub<1>(16)) H(h_sub_16_2, sub<2>(16)) H(h_sub_16_3, sub<3>(16))
//@harness h_sub_16_{N} for N in 1,2 tier=quick hang_s=60
//@harness h_sub_16_3 tier=quick hang_s=60 query_ms=240000 wall=1200 cost=5
