// C09 (comparison) - operator== / != of tree::object is recursive STRUCTURAL equality, not equality of the value sequence.
//
// C09_tree.cpp compares nodes of forests in which value sequence and shape differ together.  Here the two operands are
// drawn by the solver from a catalogue of 8 shapes with 3..5 nodes that contains several shapes per node count, so that
// all 64 ordered pairs are covered, in particular pairs with the SAME pre-order value sequence and DIFFERENT shapes:
//   1(2(3)) vs 1(2,3);  1(2(3,4),5) vs 1(2(3),4,5) vs 1(2,3(4),5) vs 1(2,3,4,5) vs 1(2(3(4)),5);  1(2(3),4) vs 1(2,3(4)).
// Values are symbolic; param mode: 0 = both value sequences free, 1 = equal position by position (then == must hold
// exactly when the shapes are the same), 2 = same shape, exactly one solver-chosen position differs (then != must hold).
// Both operands are built with the real API in one of three operation orders chosen by the solver (top-down push_back,
// top-down push_front in reverse, bottom-up push_back(object&&) of finished subtrees), so equal trees built by different
// operation orders are covered.  Reference: value equal, same number of children, children pairwise equal - computed
// without short circuit on the shape tables.
// h_cmp_reinsert: a tree vs its copy in which the last child of the first inner child is popped and re-inserted behind
// its former parent (same pre_order value sequence, different shape => unequal), then moved back (=> equal again).
// For every tree built here pre_order, to_root, level, depth, child_position and map are compared with the shape table
// as well (h_shape_traversals; cheap, the shapes are concrete).
// h_map_order: tree::map with a STATEFUL callback (numbers its calls, logs its arguments) on every catalogue shape - the
// function is applied in pre-order; every path model is replayed against the native g++ build (validate >= paths), which
// catches compiler-dependent evaluation order.  h_sort_pred: sort(predicate) hands the predicate only references to the
// values stored in two different children; result sorted, same child nodes, links kept.
// Bounds: shapes with at most 5 nodes (catalogue below).  Outside the claim: as in C09_tree.cpp.
//@property C09
#include "verif_api.h"
#include <fcppt/reference_impl.hpp>
#include <fcppt/container/tree/child_position.hpp>
#include <fcppt/container/tree/comparison.hpp>
#include <fcppt/container/tree/depth.hpp>
#include <fcppt/container/tree/level.hpp>
#include <fcppt/container/tree/make_pre_order.hpp>
#include <fcppt/container/tree/make_to_root.hpp>
#include <fcppt/container/tree/map.hpp>
#include <fcppt/container/tree/object_impl.hpp>
#include <fcppt/container/tree/pre_order.hpp>
#include <fcppt/container/tree/to_root.hpp>
#include <fcppt/optional/object_impl.hpp>
#include <cstdint>
#include <iterator>
#include <utility>

unsigned char verif_cmp_ident[16] = {0, 1, 2, 3, 4, 5, 6, 7, 8, 9, 10, 11, 12, 13, 14, 15};

namespace
{
using tree = fcppt::container::tree::object<int>;
using utree = fcppt::container::tree::object<std::uint16_t>;
constexpr unsigned MAXN = 5, NSHAPES = 8, NONE = 255;

// a shape = number of nodes + parent index of every node, nodes numbered in pre-order (children left to right)
struct shape { unsigned n; unsigned char parent[MAXN]; };
shape const catalogue[NSHAPES] = {
    {3, {NONE, 0, 1, 0, 0}},    // 0: 1(2(3))
    {3, {NONE, 0, 0, 0, 0}},    // 1: 1(2,3)
    {4, {NONE, 0, 1, 0, 0}},    // 2: 1(2(3),4)
    {4, {NONE, 0, 0, 2, 0}},    // 3: 1(2,3(4))
    {5, {NONE, 0, 1, 1, 0}},    // 4: 1(2(3,4),5)
    {5, {NONE, 0, 1, 0, 0}},    // 5: 1(2(3),4,5)
    {5, {NONE, 0, 0, 2, 0}},    // 6: 1(2,3(4),5)
    {5, {NONE, 0, 1, 2, 0}},    // 7: 1(2(3(4)),5)
};

unsigned pick(char const *const name, unsigned const hi) // 0..hi, concrete after the fork
{
  unsigned const s = verif_u8(name);
  verif_assume(s <= hi);
  return verif_cmp_ident[s];
}

// ---- reference on the shape table
unsigned nchildren(shape const &s, unsigned const i)
{
  unsigned c = 0;
  for (unsigned j = 0; j < s.n; ++j) c += s.parent[j] == i ? 1U : 0U;
  return c;
}
unsigned child(shape const &s, unsigned const i, unsigned const k) // k-th child of i
{
  unsigned c = 0;
  for (unsigned j = 0; j < s.n; ++j)
    if (s.parent[j] == i && c++ == k) return j;
  return NONE;
}
unsigned index_in_parent(shape const &s, unsigned const i)
{
  unsigned c = 0;
  for (unsigned j = 0; j < i; ++j) c += s.parent[j] == s.parent[i] ? 1U : 0U;
  return c;
}
unsigned level_of(shape const &s, unsigned const i)
{
  unsigned l = 0;
  for (unsigned cur = s.parent[i]; cur != NONE; cur = s.parent[cur]) ++l;
  return l;
}
unsigned height_of(shape const &s, unsigned const i)
{
  unsigned h = 0;
  for (unsigned k = 0; k < nchildren(s, i); ++k)
  {
    unsigned const c = height_of(s, child(s, i, k));
    if (c > h) h = c;
  }
  return h + 1;
}
unsigned subtree_size(shape const &s, unsigned const i)
{
  unsigned n = 1;
  for (unsigned k = 0; k < nchildren(s, i); ++k) n += subtree_size(s, child(s, i, k));
  return n;
}
// recursive structural equality; values symbolic, no short circuit on them
bool ref_eq(shape const &sa, int const *const va, unsigned const i, shape const &sb, int const *const vb, unsigned const j)
{
  bool e = va[i] == vb[j];
  unsigned const n = nchildren(sa, i);
  if (n != nchildren(sb, j)) return false;
  for (unsigned k = 0; k < n; ++k) e = e & ref_eq(sa, va, child(sa, i, k), sb, vb, child(sb, j, k));
  return e;
}

// ---- building a shape with the real API; node[i] = address of the real node standing for table node i
struct built
{
  tree *root;
  tree *node[MAXN];
};
tree subtree_bottom_up(shape const &s, int const *const v, unsigned const i)
{
  tree t{v[i]};
  for (unsigned k = 0; k < nchildren(s, i); ++k) t.push_back(subtree_bottom_up(s, v, child(s, i, k)));
  return t;
}
void index_nodes(shape const &s, built &b, tree &t, unsigned const i)
{
  b.node[i] = &t;
  unsigned k = 0;
  for (tree &c : t) index_nodes(s, b, c, child(s, i, k++));
}
// how: 0 top-down push_back in pre-order, 1 top-down push_front of the children in reverse, 2 bottom-up push_back(object&&)
built build(shape const &s, int const *const v, unsigned const how)
{
  built b{};
  if (how == 2) b.root = new tree(subtree_bottom_up(s, v, 0));
  else
  {
    b.root = new tree(v[0]);
    b.node[0] = b.root;
    if (how == 0)
      for (unsigned i = 1; i < s.n; ++i) b.node[i] = &b.node[s.parent[i]]->push_back(v[i]).get();
    else
      for (unsigned p = 0; p < s.n; ++p) // parents in pre-order, each one's children last to first
        for (unsigned k = nchildren(s, p); k > 0; --k)
        {
          unsigned const c = child(s, p, k - 1);
          b.node[c] = &b.node[p]->push_front(v[c]).get();
        }
  }
  index_nodes(s, b, *b.root, 0);
  return b;
}
void fresh_values(int *const v, unsigned const n)
{
  for (unsigned i = 0; i < n; ++i) v[i] = static_cast<int>(verif_u32("v"));
}

// ---- traversals / metrics of one built tree against its shape table
std::uint16_t mapped(int const v) { return static_cast<std::uint16_t>(verif_uf1(1, static_cast<std::uint32_t>(v))); }
void check_mapped(shape const &s, int const *const v, utree const &m, unsigned const i)
{
  verif_assert(m.value() == mapped(v[i]), "map applies the function to every value");
  verif_assert(m.size() == nchildren(s, i), "map keeps the shape");
  unsigned k = 0;
  for (utree const &c : m.children())
  {
    utree::const_optional_ref const p = c.parent();
    verif_assert(p.has_value() && &p.get_unsafe().get() == &m, "mapped child's parent() is the mapped node listing it");
    check_mapped(s, v, c, child(s, i, k++));
  }
}
void check_traversals(shape const &s, int const *const v, built const &b)
{
  for (unsigned i = 0; i < s.n; ++i)
  {
    tree &t = *b.node[i];
    tree const &ct = t;
    verif_assert(t.value() == v[i], "node holds the value it was built with");
    verif_assert(t.size() == nchildren(s, i), "number of children as built");
    verif_assert(fcppt::container::tree::level(ct) == level_of(s, i), "level equals the number of ancestors");
    verif_assert(fcppt::container::tree::depth(ct) == height_of(s, i), "depth equals the height of the subtree");
    {
      unsigned cur = i;
      for (tree const &a : fcppt::container::tree::make_to_root(ct))
      {
        verif_assert(cur != NONE, "to_root ends at the root");
        verif_assert(&a == b.node[cur], "to_root visits the chain of parents");
        cur = s.parent[cur];
      }
      verif_assert(cur == NONE, "to_root reaches the root");
    }
    {
      // nodes are numbered in pre-order: the subtree of i is i .. i + size - 1
      unsigned const n = subtree_size(s, i);
      unsigned k = 0;
      for (tree &a : fcppt::container::tree::make_pre_order(t))
      {
        verif_assert(k < n, "pre_order visits no more than the subtree");
        verif_assert(&a == b.node[i + k], "pre_order visits node, then children left to right");
        ++k;
      }
      verif_assert(k == n, "pre_order visits the whole subtree");
    }
    if (s.parent[i] != NONE)
    {
      tree &pr = *b.node[s.parent[i]];
      fcppt::optional::object<tree::iterator> const pos = fcppt::container::tree::child_position(pr, t);
      verif_assert(pos.has_value(), "child_position finds a child");
      verif_assert(&*pos.get_unsafe() == &t, "child_position points at the child");
      verif_assert(
          static_cast<unsigned>(std::distance(pr.begin(), pos.get_unsafe())) == index_in_parent(s, i),
          "child_position is the index in the parent's list");
      verif_assert(!fcppt::container::tree::child_position(t, pr).has_value(), "child_position of a non-child is nothing");
    }
    else
      verif_assert(!ct.parent().has_value(), "the root has no parent");
  }
  utree const m = fcppt::container::tree::map<utree>(*b.root, [](int const &x) { return mapped(x); });
  check_mapped(s, v, m, 0);
}
// the pre_order value sequences of two trees coincide (no short circuit: one solver obligation)
bool same_sequence(tree const &x, tree const &y)
{
  int sx[2 * MAXN], sy[2 * MAXN];
  unsigned nx = 0, ny = 0;
  for (tree const &a : fcppt::container::tree::make_pre_order(x)) sx[nx++] = a.value();
  for (tree const &a : fcppt::container::tree::make_pre_order(y)) sy[ny++] = a.value();
  if (nx != ny) return false;
  bool e = true;
  for (unsigned i = 0; i < nx; ++i) e = e & (sx[i] == sy[i]);
  return e;
}
std::uint64_t preorder_sum(tree const &t)
{
  std::uint64_t h = 0;
  for (tree const &a : fcppt::container::tree::make_pre_order(t)) h = h * 3 + static_cast<std::uint32_t>(a.value());
  return h;
}
}

// operator== / != on two catalogue shapes chosen by the solver
VERIF_HARNESS(h_cmp_shapes)
{
  unsigned const mode = static_cast<unsigned>(verif_param("mode"));
  unsigned const sa = pick("shape_a", NSHAPES - 1);
  unsigned const sb = mode == 2 ? sa : pick("shape_b", NSHAPES - 1);
  shape const &A = catalogue[sa];
  shape const &B = catalogue[sb];
  int va[MAXN], vb[MAXN];
  fresh_values(va, A.n);
  fresh_values(vb, B.n);
  if (mode == 1) // same value sequence position by position (as far as both reach)
    for (unsigned i = 0; i < A.n && i < B.n; ++i) verif_assume(va[i] == vb[i]);
  if (mode == 2) // same shape, exactly one position differs
  {
    unsigned const d = pick("differ_at", A.n - 1);
    for (unsigned i = 0; i < A.n; ++i) verif_assume((va[i] == vb[i]) == (i != d));
  }
  unsigned const ha = static_cast<unsigned>(verif_param("how_a")), hb = pick("how_b", 2);
  built const a = build(A, va, ha);
  built const b = build(B, vb, hb);
  bool const expected = ref_eq(A, va, 0, B, vb, 0);
  tree const &ta = *a.root;
  tree const &tb = *b.root;
  bool const got = (ta == tb);
  verif_out("shape_a", sa);
  verif_out("shape_b", sb);
  verif_out("equal", got);
  verif_assert(got == expected, "operator== is recursive structural equality (value, child count, children pairwise)");
  verif_assert((ta != tb) == !expected, "operator!= is its negation");
  verif_assert((tb == ta) == expected, "operator== is symmetric");
  if (mode == 1)
  {
    verif_assert(got == (sa == sb), "equal value sequences: equal exactly when the shapes are the same");
    if (A.n == B.n) verif_assert(same_sequence(ta, tb), "harness: the pre_order value sequences coincide");
    if (sa != sb && A.n == B.n) verif_reach("same-sequence-different-shape");
  }
  if (mode == 2) verif_assert(!got, "same shape with one differing value is unequal");
  // inner nodes: first child of a against first child of b
  {
    tree const &ca = *a.node[1];
    tree const &cb = *b.node[1];
    verif_assert((ca == cb) == ref_eq(A, va, 1, B, vb, 1), "operator== on inner nodes ignores their position and parent");
  }
  delete a.root;
  delete b.root;
  verif_reach("cmp-shapes-end");
}

// pop the last child of the first inner child of the root and re-insert it behind its former parent
VERIF_HARNESS(h_cmp_reinsert)
{
  static unsigned char const with_grandchild[6] = {0, 2, 4, 5, 6, 7};
  unsigned const si = with_grandchild[pick("shape", 5)];
  shape const &S = catalogue[si];
  int v[MAXN];
  fresh_values(v, S.n);
  built const orig = build(S, v, pick("how", 2));
  tree const &to = *orig.root;
  tree c(to);
  verif_assert(c == to, "a copy compares equal");
  // first child of the root that has children
  tree::iterator it = c.begin();
  while (it->empty()) ++it;
  tree &former_parent = *it;
  tree::optional_object popped = former_parent.pop_back();
  verif_assert(popped.has_value(), "pop_back on an inner node returns the child");
  verif_assert(c != to, "a tree with one node popped is unequal");
  c.insert(std::next(it), std::move(popped.get_unsafe()));
  verif_assert(same_sequence(c, to), "harness: same pre_order value sequence after re-inserting");
  verif_assert(!(c == to), "same value sequence, grandchild turned into child: not equal");
  verif_assert(c != to, "same value sequence, grandchild turned into child: unequal");
  verif_assert(!(to == c), "... in both operand orders");
  // links of the re-inserted node
  {
    tree &moved = *std::next(it);
    verif_assert(moved.parent().has_value() && &moved.parent().get_unsafe().get() == &c, "re-inserted node's parent() is the root");
    for (tree &g : moved) verif_assert(g.parent().has_value() && &g.parent().get_unsafe().get() == &moved, "its children follow");
  }
  // and back: release it from the root, append it to its former parent
  former_parent.push_back(c.release(std::next(it)));
  verif_assert(c == to, "moving the node back restores equality");
  verif_assert(!(c != to), "moving the node back restores equality (!=)");
  verif_out("shape", si);
  delete orig.root;
  verif_reach("cmp-reinsert-end");
}

// traversals and metrics on every catalogue shape, every operation order
VERIF_HARNESS(h_shape_traversals)
{
  unsigned const si = pick("shape", NSHAPES - 1);
  shape const &S = catalogue[si];
  int v[MAXN];
  fresh_values(v, S.n);
  built const b = build(S, v, pick("how", 2));
  check_traversals(S, v, b);
  verif_out("shape", si);
  verif_out("values", preorder_sum(*b.root));
  delete b.root;
  verif_reach("shape-traversals-end");
}

// tree::map applies the function in PRE-ORDER (a node's value before its children, children left to right): a stateful
// callback numbers its calls and logs its arguments; the mapped tree must carry 0,1,2,... in pre-order and the logged
// arguments must be the values in pre-order.  (The order of evaluation inside map's result construction is compiler
// dependent if it is written with parentheses instead of braces: every path model of this harness is replayed against
// the native g++ build - validate >= number of paths - where the same assertions run.)
VERIF_HARNESS(h_map_order)
{
  unsigned const si = static_cast<unsigned>(verif_param("shape"));
  shape const &S = catalogue[si];
  int v[MAXN];
  fresh_values(v, S.n);
  built const b = build(S, v, pick("how", 2));
  unsigned calls = 0;
  int seen[2 * MAXN];
  unsigned *const pc = &calls;
  int *const ps = seen;
  utree const m = fcppt::container::tree::map<utree>(*b.root, [pc, ps](int const &x) {
    if (*pc < 2 * MAXN) ps[*pc] = x;
    return static_cast<std::uint16_t>((*pc)++);
  });
  verif_assert(calls == S.n, "map calls the function once per node");
  for (unsigned i = 0; i < S.n && i < calls; ++i) verif_assert(seen[i] == v[i], "map visits the values in pre-order");
  {
    // nodes of the catalogue are numbered in pre-order: mapped node number i must carry call number i
    unsigned k = 0;
    for (utree const &a : fcppt::container::tree::make_pre_order(m))
    {
      verif_assert(a.value() == k, "the k-th node of the mapped tree in pre-order got the k-th call");
      verif_assert(k < S.n && a.size() == nchildren(S, k), "mapped tree has the shape of the source");
      ++k;
    }
    verif_assert(k == S.n, "mapped tree has as many nodes as the source");
  }
  verif_out("shape", si);
  verif_out("calls", calls);
  verif_out("values", preorder_sum(*b.root));
  delete b.root;
  verif_reach("map-order-end");
}

// sort(predicate): the predicate is only ever handed the values stored in the children of that node (by reference to
// the live nodes, no copies), the result is sorted w.r.t. it, and the other nodes are untouched
VERIF_HARNESS(h_sort_pred)
{
  unsigned const si = static_cast<unsigned>(verif_param("shape"));
  shape const &S = catalogue[si];
  int v[MAXN];
  fresh_values(v, S.n);
  built const b = build(S, v, 0);
  tree &root = *b.root;
  unsigned const n = nchildren(S, 0);
  unsigned calls = 0, foreign = 0;
  unsigned *const pc = &calls, *const pf = &foreign;
  // addresses of the children's values before the sort (during std::list::sort the nodes are temporarily spliced out of
  // the child list, so the list itself cannot be consulted from inside the predicate)
  int const *slot[MAXN];
  for (unsigned k = 0; k < n; ++k) slot[k] = &b.node[child(S, 0, k)]->value();
  int const *const *const psl = slot;
  root.sort([pc, pf, psl, n](int const &x, int const &y) {
    ++*pc;
    bool fx = false, fy = false;
    for (unsigned k = 0; k < n; ++k)
    {
      if (psl[k] == &x) fx = true;
      if (psl[k] == &y) fy = true;
    }
    if (!fx || !fy || &x == &y) ++*pf;
    return x < y;
  });
  verif_assert(foreign == 0, "sort's predicate is called on the values stored in two different children, by reference");
  verif_assert(calls >= n - 1 && calls <= n * n, "sort calls the predicate at least n-1 times");
  verif_assert(root.size() == n && root.value() == v[0], "sort keeps the node and the number of children");
  {
    tree::const_iterator it = root.begin();
    for (unsigned k = 0; k + 1 < n; ++k)
    {
      int const x = it->value();
      ++it;
      verif_assert(!(it->value() < x), "children are sorted w.r.t. the predicate");
    }
    for (tree const &c : root)
    {
      unsigned found = NONE;
      for (unsigned k = 0; k < n; ++k)
        if (b.node[child(S, 0, k)] == &c) found = k;
      verif_assert(found != NONE, "sort permutes the same child nodes");
      unsigned const ci = child(S, 0, found);
      verif_assert(c.value() == v[ci] && c.size() == nchildren(S, ci), "sorted children keep value and children");
      verif_assert(c.parent().has_value() && &c.parent().get_unsafe().get() == &root, "sorted children keep their parent");
    }
  }
  verif_out("shape", si);
  verif_out("calls", calls);
  delete b.root;
  verif_reach("sort-pred-end");
}

// param how_a = operation order of the left operand (partitions the choice for parallelism)
//@harness h_cmp_shapes param mode=0..2 param how_a=0..2 tier=quick loop=70 leak=1
//@harness h_cmp_reinsert tier=quick loop=70 leak=1
//@harness h_shape_traversals tier=quick loop=70 leak=1
// <= 3 resp. <= 6 paths per instance, every path model replayed natively (validate >= paths)
//@harness h_map_order param shape=0..7 tier=quick loop=70 leak=1 validate=12
//@harness h_sort_pred param shape=1,5,6 tier=quick loop=70 leak=1 validate=12
