// C09 - tree::object keeps parent/child links consistent under every operation history.
//
// Real code: fcppt::container::tree::{object (object_impl.hpp), pre_order, to_root, depth, level, child_position, map,
// comparison} and what they use (fcppt::move_clear, container::pop_back/pop_front/maybe_front/maybe_back,
// algorithm::fold/map/find_if_opt, optional, reference) instantiated for tree::object<int>, std::list/std::deque
// executed from the libstdc++ headers.
//
// Histories: a base forest is built with the real API (param base), then k steps follow; every step is an operation
// code and operand indices CHOSEN BY THE SOLVER among all current nodes (roots and inner nodes) and child positions;
// node values are symbolic 32-bit ints.  The harness keeps a plain reference forest (arrays: value, parent index,
// ordered child indices) that is updated by a few lines per operation written from the documentation:
//   - a node object stays where it is (its place in its parent's child list is its identity); operations on a node
//     change its value and its children only;
//   - push/insert(object&&), move construction and move assignment transfer value and children and leave the source
//     node in place without children; copies are deep;
//   - pop/release detach a child (the result has no parent); erase/clear/destruction remove whole subtrees;
//   - sort is a stable sort of the children by value; swap exchanges value and children of two nodes.
// After EVERY step the real forest is walked in lockstep with the reference: value, child count, and for every child
// that parent() is exactly the node listing it, roots have no parent.  At the end of the history (every step in the
// thorough "deep" harnesses) for every node: level, depth, to_root chain, pre_order sequence (node identities),
// child_position, front/back, const parent(); for every root: map with an uninterpreted function into a tree of a
// different value type, deep copy == original, copy is address-disjoint, mutating the copy leaves the original
// unchanged and makes == false exactly when a value differs.  All trees are destroyed at the end; the executor checks
// every access for use-after-free/bounds and (leak=1) that no heap object survives, i.e. ownership stayed a forest.
//
// One defect must not mask the rest: the operation groups live in separate harnesses -
//   h_ops              : every operation except swap / copy assignment / move assignment
//   h_swap_first/second    : histories whose first / second step is swap, the other steps from the basic set
//   h_cassign_first/second : ... copy assignment (source not a proper ancestor of the destination)
//   h_cbelow_first/second  : ... copy assignment INTO a descendant of the source (child = root): x must become a copy of
//                            the source as it was before the assignment
//   h_massign_first/second : ... move assignment
//   h_all / h_core     : all operations mixed / a reduced set for the longest histories (thorough tier)
//   h_cmp              : operator== / != on an arbitrary (solver-chosen) pair of nodes against recursive equality
// Parameters: base = base forest (0 single node; 1 root+2 children; 2 root-child-grandchild; 3 the 4+2 node forest of
// the design sketch; 4 three children, one with a child; 5 two trees of equal shape), k = number of symbolic steps,
// first = operation code of step 0 (partitions the solver's choice over harness instances; codes at the //@harness
// lines), deep = 0 lockstep walk after every step / 1 plus all traversal checks at the end / 2 after every step.
//
// Preconditions assumed (not documented, but the result would not be a tree): the source of push/insert(object&&) is
// not the destination node or one of its ancestors; swap operands are not ancestor and descendant of each other;
// the source of a move assignment is not the destination or one of its ancestors.  Copy assignment is checked for
// every pair, including ancestor/descendant pairs and self assignment; swap with itself is checked.
//
// Bounds: quick k <= 2 (k = 2 on the 3-node bases), thorough k = 2 on the 6-node forest, k = 3 from a single node
// (all operations), k = 4 from a single node over the reduced set; at most MAXN = 16 live nodes and MAXR = 6 trees
// (histories that would exceed them are cut by verif_assume).
//
// Outside the claim: tree::output / detail::print (iostream); value types with throwing copy/move (exception safety);
// histories longer than the bounds above (the statement's "length 40" is not reachable by path enumeration; the
// argument is inductive: every operation is checked from every state reachable within the bounds, and the lockstep
// walk re-establishes the full link invariant after each step); tree::object<T> for T other than int / uint16_t
// (the link handling does not depend on T).
//@property C09
#include "verif_api.h"
#include <fcppt/make_cref.hpp>
#include <fcppt/reference_impl.hpp>
#include <fcppt/container/tree/child_position.hpp>
#include <fcppt/container/tree/comparison.hpp>
#include <fcppt/container/tree/depth.hpp>
#include <fcppt/container/tree/level.hpp>
#include <fcppt/container/tree/make_pre_order.hpp>
#include <fcppt/container/tree/make_to_root.hpp>
#include <fcppt/container/tree/map.hpp>
#include <fcppt/container/tree/object_impl.hpp>
#include <fcppt/container/tree/pre_order.hpp>
#include <fcppt/container/tree/to_root.hpp>
#include <fcppt/optional/object_impl.hpp>
#include <fcppt/optional/reference.hpp>
#include <cstdint>
#include <iterator>
#include <utility>

// identity table read through a symbolic index: the executor forks over the feasible indices and the loaded value is
// concrete afterwards (external linkage so that the compiler cannot fold the load)
unsigned char verif_ident[32] = {0,  1,  2,  3,  4,  5,  6,  7,  8,  9,  10, 11, 12, 13, 14, 15,
                                 16, 17, 18, 19, 20, 21, 22, 23, 24, 25, 26, 27, 28, 29, 30, 31};

namespace
{
using tree = fcppt::container::tree::object<int>;
using utree = fcppt::container::tree::object<std::uint16_t>;

constexpr unsigned MAXN = 16, MAXR = 6, NONE = 255;

// ------------------------------------------------------------------ reference forest
struct mnode
{
  bool used;
  int val;
  unsigned parent; // NONE for a root
  unsigned nch;
  unsigned char ch[MAXN];
  tree *real; // the real node this reference node stands for (refreshed by sync())
};
mnode N[MAXN];
unsigned nroots;
unsigned char roots[MAXR];

unsigned m_free()
{
  unsigned n = 0;
  for (unsigned i = 0; i < MAXN; ++i) n += N[i].used ? 0U : 1U;
  return n;
}
void need_nodes(unsigned const n) { verif_assume(m_free() >= n); } // bound on the forest size
unsigned m_new(int const v)
{
  for (unsigned i = 0; i < MAXN; ++i)
    if (!N[i].used)
    {
      N[i].used = true; N[i].val = v; N[i].parent = NONE; N[i].nch = 0; N[i].real = nullptr;
      return i;
    }
  verif_assume(false);
  return 0;
}
void m_link(unsigned const p, unsigned const pos, unsigned const c)
{
  for (unsigned k = N[p].nch; k > pos; --k) N[p].ch[k] = N[p].ch[k - 1];
  N[p].ch[pos] = static_cast<unsigned char>(c);
  ++N[p].nch;
  N[c].parent = p;
}
unsigned m_index(unsigned const c) // position of c in its parent's child list
{
  unsigned const p = N[c].parent;
  for (unsigned k = 0; k < N[p].nch; ++k)
    if (N[p].ch[k] == c) return k;
  verif_assert(false, "harness: reference forest corrupt");
  return 0;
}
void m_unlink(unsigned const c)
{
  unsigned const p = N[c].parent, at = m_index(c);
  for (unsigned k = at; k + 1 < N[p].nch; ++k) N[p].ch[k] = N[p].ch[k + 1];
  --N[p].nch;
  N[c].parent = NONE;
}
void m_free_subtree(unsigned const c)
{
  for (unsigned k = 0; k < N[c].nch; ++k) m_free_subtree(N[c].ch[k]);
  N[c].used = false; N[c].nch = 0; N[c].real = nullptr;
}
void m_drop_children(unsigned const x)
{
  for (unsigned k = 0; k < N[x].nch; ++k) m_free_subtree(N[x].ch[k]);
  N[x].nch = 0;
}
unsigned m_size(unsigned const c)
{
  unsigned n = 1;
  for (unsigned k = 0; k < N[c].nch; ++k) n += m_size(N[c].ch[k]);
  return n;
}
unsigned m_copy(unsigned const c) // deep copy, the result is detached
{
  unsigned const d = m_new(N[c].val);
  for (unsigned k = 0; k < N[c].nch; ++k)
  {
    unsigned const e = m_copy(N[c].ch[k]);
    m_link(d, N[d].nch, e);
  }
  return d;
}
bool m_anc_or_self(unsigned const a, unsigned const b) // a == b or a is an ancestor of b
{
  for (unsigned cur = b; cur != NONE; cur = N[cur].parent)
    if (cur == a) return true;
  return false;
}
void m_take_children(unsigned const dst, unsigned const src) // dst has no children
{
  N[dst].nch = N[src].nch;
  for (unsigned k = 0; k < N[src].nch; ++k)
  {
    N[dst].ch[k] = N[src].ch[k];
    N[N[src].ch[k]].parent = dst;
  }
  N[src].nch = 0;
}
unsigned m_level(unsigned const i)
{
  unsigned l = 0;
  for (unsigned cur = N[i].parent; cur != NONE; cur = N[cur].parent) ++l;
  return l;
}
unsigned m_height(unsigned const i) // documented: a leaf has depth 1
{
  unsigned h = 0;
  for (unsigned k = 0; k < N[i].nch; ++k)
  {
    unsigned const c = m_height(N[i].ch[k]);
    if (c > h) h = c;
  }
  return h + 1;
}
void m_pre(unsigned const i, unsigned char *const seq, unsigned &n)
{
  seq[n++] = static_cast<unsigned char>(i);
  for (unsigned k = 0; k < N[i].nch; ++k) m_pre(N[i].ch[k], seq, n);
}
bool m_eq(unsigned const a, unsigned const b) // no short circuit on values: shape is concrete, values symbolic
{
  bool e = N[a].val == N[b].val;
  if (N[a].nch != N[b].nch) return false;
  for (unsigned k = 0; k < N[a].nch; ++k) e = e & m_eq(N[a].ch[k], N[b].ch[k]);
  return e;
}
void add_root(unsigned const c, tree *const real)
{
  N[c].real = real; N[c].parent = NONE;
  roots[nroots++] = static_cast<unsigned char>(c);
}
tree &r(unsigned const i) { return *N[i].real; }

// ------------------------------------------------------------------ lockstep walk (after every step)
void walk(unsigned const i)
{
  tree &t = r(i);
  verif_assert(t.value() == N[i].val, "node value equals the reference forest");
  verif_assert(t.size() == N[i].nch, "number of children equals the reference forest");
  verif_assert(t.empty() == (N[i].nch == 0), "empty() iff no children");
  unsigned k = 0;
  for (tree::iterator it = t.begin(); it != t.end(); ++it, ++k)
  {
    tree &c = *it;
    tree::optional_ref const p = c.parent();
    verif_assert(p.has_value(), "a child has a parent");
    verif_assert(&p.get_unsafe().get() == &t, "a child's parent() is the node that lists it");
    unsigned const ci = N[i].ch[k];
    N[ci].real = &c;
    walk(ci);
  }
}
void sync()
{
  for (unsigned q = 0; q < nroots; ++q)
  {
    unsigned const i = roots[q];
    verif_assert(!r(i).parent().has_value(), "a root has no parent");
    walk(i);
  }
}

// ------------------------------------------------------------------ operand choice
unsigned char alive[MAXN];
unsigned nalive;
void list_alive()
{
  nalive = 0;
  for (unsigned i = 0; i < MAXN; ++i)
    if (N[i].used) alive[nalive++] = static_cast<unsigned char>(i);
}
unsigned pick_node(char const *const name) // any current node, root or inner
{
  unsigned const s = verif_u8(name);
  verif_assume(s < nalive);
  return alive[s];
}
unsigned pick_upto(char const *const name, unsigned const hi) // 0..hi inclusive
{
  unsigned const s = verif_u8(name);
  verif_assume(s <= hi);
  return verif_ident[s];
}
int fresh_value() { return static_cast<int>(verif_u32("v")); }

// ------------------------------------------------------------------ operations: real call + reference update
unsigned new_root(int const v)
{
  verif_assume(nroots < MAXR);
  need_nodes(1);
  unsigned const c = m_new(v);
  add_root(c, new tree(v));
  return c;
}
// how: 0 push_back, 1 push_front, 2 insert before position pos
unsigned op_add_value(unsigned const x, unsigned how, unsigned pos, int const v)
{
  need_nodes(1);
  tree &t = r(x);
  if (how == 0)
  {
    tree::reference const ref = t.push_back(v);
    pos = N[x].nch;
    verif_assert(&ref.get() == &*std::prev(t.end()), "push_back returns a reference to the new last child");
  }
  else if (how == 1)
  {
    tree::reference const ref = t.push_front(v);
    pos = 0;
    verif_assert(&ref.get() == &*t.begin(), "push_front returns a reference to the new first child");
  }
  else
    t.insert(std::next(t.begin(), pos), v);
  unsigned const c = m_new(v);
  m_link(x, pos, c);
  return c;
}
void op_add_tree(unsigned const x, unsigned const how, unsigned pos, unsigned const y)
{
  need_nodes(1);
  verif_assume(!m_anc_or_self(y, x)); // a tree cannot be put below itself
  tree &t = r(x);
  tree &s = r(y);
  if (how == 0) { t.push_back(std::move(s)); pos = N[x].nch; }
  else if (how == 1) { t.push_front(std::move(s)); pos = 0; }
  else t.insert(std::next(t.begin(), pos), std::move(s));
  unsigned const c = m_new(N[y].val); // the source keeps its place and (int) value and loses its children
  m_take_children(c, y);
  m_link(x, pos, c);
}
// a detached tree object handed out by pop/release: checked, then kept as a new root of the forest
void adopt(unsigned const c, tree &obj)
{
  verif_assert(!obj.parent().has_value(), "a detached subtree has no parent");
  N[c].real = &obj;
  walk(c);
  add_root(c, new tree(std::move(obj)));
}
void op_pop(unsigned const x, bool const back)
{
  verif_assume(nroots < MAXR);
  tree &t = r(x);
  tree::optional_object res = back ? t.pop_back() : t.pop_front();
  if (N[x].nch == 0)
  {
    verif_assert(!res.has_value(), "pop on a node without children returns nothing");
    return;
  }
  verif_assert(res.has_value(), "pop on a node with children returns the child");
  unsigned const c = N[x].ch[back ? N[x].nch - 1 : 0];
  m_unlink(c);
  adopt(c, res.get_unsafe());
}
void op_release(unsigned const x, unsigned const k)
{
  verif_assume(nroots < MAXR);
  tree &t = r(x);
  tree res = t.release(std::next(t.begin(), k));
  unsigned const c = N[x].ch[k];
  m_unlink(c);
  adopt(c, res);
}
void op_erase(unsigned const x, unsigned const k1, unsigned const k2, bool const range)
{
  tree &t = r(x);
  if (range) t.erase(std::next(t.begin(), k1), std::next(t.begin(), k2));
  else t.erase(std::next(t.begin(), k1));
  for (unsigned k = k1; k < k2; ++k)
  {
    unsigned const c = N[x].ch[k1];
    m_unlink(c);
    m_free_subtree(c);
  }
}
void op_clear(unsigned const x)
{
  r(x).clear();
  m_drop_children(x);
}
// sort: the result must be a permutation of the same child nodes (std::list::sort relinks, addresses are stable),
// non-decreasing by value, equal values in their previous relative order - this determines the result uniquely
void op_sort(unsigned const x, bool const pred)
{
  tree &t = r(x);
  if (pred) t.sort([](int const &a, int const &b) { return a < b; });
  else t.sort();
  unsigned const n = N[x].nch;
  verif_assert(t.size() == n, "sort keeps the number of children");
  unsigned char neworder[MAXN];
  unsigned oldpos[MAXN];
  bool seen[MAXN];
  for (unsigned k = 0; k < n; ++k) seen[k] = false;
  unsigned j = 0;
  for (tree::iterator it = t.begin(); it != t.end(); ++it, ++j)
  {
    unsigned found = NONE;
    for (unsigned k = 0; k < n; ++k)
      if (N[N[x].ch[k]].real == &*it) found = k;
    verif_assert(found != NONE, "sort result consists of the same child nodes");
    verif_assert(!seen[found], "sort result lists every child once");
    seen[found] = true;
    neworder[j] = N[x].ch[found];
    oldpos[j] = found;
  }
  for (unsigned k = 0; k + 1 < n; ++k)
  {
    int const a = N[neworder[k]].val, b = N[neworder[k + 1]].val;
    verif_assert(a <= b, "children are sorted by value");
    verif_assert((a != b) | (oldpos[k] < oldpos[k + 1]), "sort is stable");
  }
  for (unsigned k = 0; k < n; ++k) N[x].ch[k] = neworder[k];
}
void op_copy_construct(unsigned const x)
{
  verif_assume(nroots < MAXR);
  need_nodes(m_size(x));
  tree const &src = r(x);
  tree *const h = new tree(src);
  add_root(m_copy(x), h);
}
void op_move_construct(unsigned const x)
{
  verif_assume(nroots < MAXR);
  need_nodes(1);
  tree *const h = new tree(std::move(r(x)));
  unsigned const c = m_new(N[x].val);
  m_take_children(c, x);
  add_root(c, h);
}
void op_set_value(unsigned const x, int const v, bool const viaref)
{
  if (viaref) r(x).value() = v;
  else r(x).value(v);
  N[x].val = v;
}
void op_destroy_root(unsigned const q)
{
  unsigned const i = roots[q];
  delete N[i].real;
  m_free_subtree(i);
  for (unsigned k = q; k + 1 < nroots; ++k) roots[k] = roots[k + 1];
  --nroots;
}
void op_swap(unsigned const x, unsigned const y, bool const member)
{
  verif_assume(x == y || (!m_anc_or_self(x, y) && !m_anc_or_self(y, x)));
  if (member) r(x).swap(r(y));
  else
  {
    using std::swap;
    swap(r(x), r(y)); // finds fcppt::container::tree::swap
  }
  if (x == y) return;
  mnode const a = N[x], b = N[y];
  N[x].val = b.val; N[y].val = a.val;
  N[x].nch = b.nch; N[y].nch = a.nch;
  for (unsigned k = 0; k < b.nch; ++k) { N[x].ch[k] = b.ch[k]; N[b.ch[k]].parent = x; }
  for (unsigned k = 0; k < a.nch; ++k) { N[y].ch[k] = a.ch[k]; N[a.ch[k]].parent = y; }
}
// below: true = the destination lies inside the source tree (x = y with y a proper ancestor of x), checked separately
void op_copy_assign(unsigned const x, unsigned const y, bool const below)
{
  verif_assume((x != y && m_anc_or_self(y, x)) == below);
  need_nodes(m_size(y));
  tree const &src = r(y);
  tree &res = (r(x) = src);
  verif_assert(&res == N[x].real, "copy assignment returns *this");
  if (x == y) return;
  unsigned const tmp = m_copy(y); // x becomes a copy of y as it was before the assignment (y may be below or above x)
  m_drop_children(x);
  N[x].val = N[tmp].val;
  m_take_children(x, tmp);
  m_free_subtree(tmp);
}
void op_move_assign(unsigned const x, unsigned const y)
{
  verif_assume(!m_anc_or_self(y, x)); // includes self move
  int const v = N[y].val;
  tree &res = (r(x) = std::move(r(y)));
  verif_assert(&res == N[x].real, "move assignment returns *this");
  unsigned char kids[MAXN];
  unsigned const nk = N[y].nch;
  for (unsigned k = 0; k < nk; ++k) kids[k] = N[y].ch[k];
  N[y].nch = 0;           // the source loses its children first ...
  m_drop_children(x);     // ... then the destination's old children (possibly including the source) are destroyed
  N[x].val = v;
  N[x].nch = nk;
  for (unsigned k = 0; k < nk; ++k) { N[x].ch[k] = kids[k]; N[kids[k]].parent = x; }
}

// ------------------------------------------------------------------ one symbolic step
enum : unsigned
{
  PUSH_BACK_V, PUSH_FRONT_V, INSERT_V, PUSH_BACK_T, PUSH_FRONT_T, INSERT_T, POP_BACK, POP_FRONT, RELEASE, ERASE,
  ERASE_RANGE, CLEAR, SORT, COPY_CTOR, MOVE_CTOR, SET_VALUE, DESTROY, SWAP, COPY_ASSIGN, MOVE_ASSIGN, COPY_ASSIGN_BELOW, NOPS
};
constexpr unsigned long bit(unsigned const o) { return 1UL << o; }
constexpr unsigned long M_BASIC = bit(SWAP) - 1; // everything before SWAP
constexpr unsigned long M_SWAP = bit(SWAP), M_CASSIGN = bit(COPY_ASSIGN), M_MASSIGN = bit(MOVE_ASSIGN);
constexpr unsigned long M_CBELOW = bit(COPY_ASSIGN_BELOW);
constexpr unsigned long M_ALL = bit(NOPS) - 1;
// reduced set for the longest histories: one representative of every re-parenting mechanism
constexpr unsigned long M_CORE = bit(PUSH_BACK_V) | bit(PUSH_FRONT_T) | bit(POP_FRONT) | bit(RELEASE) | bit(MOVE_CTOR) |
                                 bit(COPY_CTOR) | bit(SWAP) | bit(COPY_ASSIGN) | bit(MOVE_ASSIGN);

void step(unsigned long const mask, unsigned const fixed)
{
  list_alive();
  unsigned o;
  if (fixed < NOPS) o = fixed;
  else
  {
    o = verif_u8("op");
    verif_assume(o < NOPS);
  }
  verif_assume(((mask >> o) & 1UL) != 0);
  switch (o)
  {
  case PUSH_BACK_V: { unsigned const x = pick_node("x"); op_add_value(x, 0, 0, fresh_value()); break; }
  case PUSH_FRONT_V: { unsigned const x = pick_node("x"); op_add_value(x, 1, 0, fresh_value()); break; }
  case INSERT_V:
  {
    unsigned const x = pick_node("x");
    unsigned const pos = pick_upto("pos", N[x].nch);
    op_add_value(x, 2, pos, fresh_value());
    break;
  }
  case PUSH_BACK_T: { unsigned const x = pick_node("x"), y = pick_node("y"); op_add_tree(x, 0, 0, y); break; }
  case PUSH_FRONT_T: { unsigned const x = pick_node("x"), y = pick_node("y"); op_add_tree(x, 1, 0, y); break; }
  case INSERT_T:
  {
    unsigned const x = pick_node("x"), y = pick_node("y");
    unsigned const pos = pick_upto("pos", N[x].nch);
    op_add_tree(x, 2, pos, y);
    break;
  }
  case POP_BACK: op_pop(pick_node("x"), true); break;
  case POP_FRONT: op_pop(pick_node("x"), false); break;
  case RELEASE:
  {
    unsigned const x = pick_node("x");
    verif_assume(N[x].nch > 0);
    op_release(x, pick_upto("pos", N[x].nch - 1));
    break;
  }
  case ERASE:
  {
    unsigned const x = pick_node("x");
    verif_assume(N[x].nch > 0);
    unsigned const k = pick_upto("pos", N[x].nch - 1);
    op_erase(x, k, k + 1, false);
    break;
  }
  case ERASE_RANGE:
  {
    unsigned const x = pick_node("x");
    unsigned const k2 = pick_upto("pos2", N[x].nch);
    unsigned const k1 = pick_upto("pos", k2);
    op_erase(x, k1, k2, true);
    break;
  }
  case CLEAR: op_clear(pick_node("x")); break;
  case SORT:
  {
    unsigned const x = pick_node("x");
    op_sort(x, pick_upto("pred", 1) != 0);
    break;
  }
  case COPY_CTOR: op_copy_construct(pick_node("x")); break;
  case MOVE_CTOR: op_move_construct(pick_node("x")); break;
  case SET_VALUE:
  {
    unsigned const x = pick_node("x");
    op_set_value(x, fresh_value(), pick_upto("viaref", 1) != 0);
    break;
  }
  case DESTROY:
  {
    verif_assume(nroots > 0);
    op_destroy_root(pick_upto("root", nroots - 1));
    break;
  }
  case SWAP:
  {
    unsigned const x = pick_node("x"), y = pick_node("y");
    op_swap(x, y, pick_upto("member", 1) != 0);
    break;
  }
  case COPY_ASSIGN: { unsigned const x = pick_node("x"), y = pick_node("y"); op_copy_assign(x, y, false); break; }
  case COPY_ASSIGN_BELOW: { unsigned const x = pick_node("x"), y = pick_node("y"); op_copy_assign(x, y, true); break; }
  default: { unsigned const x = pick_node("x"), y = pick_node("y"); op_move_assign(x, y); break; }
  }
}

// ------------------------------------------------------------------ base forests, built with the real API
void build(unsigned const base)
{
  switch (base)
  {
  case 0: new_root(fresh_value()); break;
  case 1:
  {
    unsigned const a = new_root(fresh_value());
    op_add_value(a, 0, 0, fresh_value());
    op_add_value(a, 1, 0, fresh_value());
    break;
  }
  case 2:
  {
    unsigned const a = new_root(fresh_value());
    unsigned const b = op_add_value(a, 0, 0, fresh_value());
    sync();
    op_add_value(b, 0, 0, fresh_value());
    break;
  }
  case 3: // the forest of the design sketch: 1(2(4),3) and 10(20)
  {
    unsigned const a = new_root(fresh_value());
    unsigned const b = op_add_value(a, 0, 0, fresh_value());
    op_add_value(a, 0, 0, fresh_value());
    sync();
    op_add_value(b, 0, 0, fresh_value());
    unsigned const c = new_root(fresh_value());
    op_add_value(c, 0, 0, fresh_value());
    break;
  }
  case 4: // three children (all orders for sort), the middle one with a child
  {
    unsigned const a = new_root(fresh_value());
    op_add_value(a, 0, 0, fresh_value());
    unsigned const b = op_add_value(a, 0, 0, fresh_value());
    op_add_value(a, 0, 0, fresh_value());
    sync();
    op_add_value(b, 0, 0, fresh_value());
    break;
  }
  default: // two trees of the same shape: r(a(b),c) twice
  {
    for (unsigned q = 0; q < 2; ++q)
    {
      unsigned const a = new_root(fresh_value());
      unsigned const b = op_add_value(a, 0, 0, fresh_value());
      op_add_value(a, 0, 0, fresh_value());
      sync();
      op_add_value(b, 0, 0, fresh_value());
    }
    break;
  }
  }
  sync();
}

// ------------------------------------------------------------------ traversals and metrics against the reference
std::uint16_t mapped(int const v) { return static_cast<std::uint16_t>(verif_uf1(1, static_cast<std::uint32_t>(v))); }

void walk_mapped(utree const &m, unsigned const i)
{
  verif_assert(m.value() == mapped(N[i].val), "map applies the function to the node value");
  verif_assert(m.size() == N[i].nch, "map keeps the shape");
  unsigned k = 0;
  for (utree const &c : m.children())
  {
    utree::const_optional_ref const p = c.parent();
    verif_assert(p.has_value() && &p.get_unsafe().get() == &m, "mapped child's parent() is the mapped node listing it");
    walk_mapped(c, N[i].ch[k]);
    ++k;
  }
}
// copy of reference node i: same shape and values, own nodes, consistent links; returns the last node in pre-order
tree *walk_copy(tree &c, unsigned const i)
{
  verif_assert(c.value() == N[i].val, "copy has the same value");
  verif_assert(c.size() == N[i].nch, "copy has the same shape");
  for (unsigned j = 0; j < nalive; ++j) verif_assert(&c != N[alive[j]].real, "copy shares no node with the forest");
  tree *last = &c;
  unsigned k = 0;
  for (tree &d : c)
  {
    tree::optional_ref const p = d.parent();
    verif_assert(p.has_value() && &p.get_unsafe().get() == &c, "copied child's parent() is the copied node listing it");
    last = walk_copy(d, N[i].ch[k]);
    ++k;
  }
  return last;
}

void deep(bool const final)
{
  list_alive();
  for (unsigned j = 0; j < nalive; ++j)
  {
    unsigned const i = alive[j];
    tree &t = r(i);
    tree const &ct = t;
    verif_assert(fcppt::container::tree::level(ct) == m_level(i), "level equals the number of ancestors");
    verif_assert(fcppt::container::tree::depth(ct) == m_height(i), "depth equals the height of the subtree");
    {
      unsigned cur = i;
      for (tree const &a : fcppt::container::tree::make_to_root(ct))
      {
        verif_assert(cur != NONE, "to_root ends at the root");
        verif_assert(&a == N[cur].real, "to_root visits the chain of parents");
        cur = N[cur].parent;
      }
      verif_assert(cur == NONE, "to_root reaches the root");
    }
    {
      unsigned char seq[MAXN];
      unsigned n = 0, k = 0;
      m_pre(i, seq, n);
      for (tree &a : fcppt::container::tree::make_pre_order(t))
      {
        verif_assert(k < n, "pre_order visits no more than the subtree");
        verif_assert(&a == N[seq[k]].real, "pre_order visits node, then children left to right");
        ++k;
      }
      verif_assert(k == n, "pre_order visits the whole subtree");
    }
    {
      tree::const_optional_ref const p = ct.parent();
      verif_assert(p.has_value() == (N[i].parent != NONE), "const parent() has a value iff the node is a child");
      if (N[i].parent != NONE)
      {
        verif_assert(&p.get_unsafe().get() == N[N[i].parent].real, "const parent() is the node listing it");
        tree &pr = r(N[i].parent);
        fcppt::optional::object<tree::iterator> const pos = fcppt::container::tree::child_position(pr, t);
        verif_assert(pos.has_value(), "child_position finds a child");
        verif_assert(&*pos.get_unsafe() == &t, "child_position points at the child");
        verif_assert(
            static_cast<unsigned>(std::distance(pr.begin(), pos.get_unsafe())) == m_index(i),
            "child_position is the index in the parent's list");
        fcppt::optional::object<tree::iterator> const rev = fcppt::container::tree::child_position(t, pr);
        verif_assert(!rev.has_value(), "child_position of a non-child is nothing");
      }
      verif_assert(!fcppt::container::tree::child_position(t, t).has_value(), "a node is not its own child");
    }
    {
      tree::optional_ref const f = t.front(), b = t.back();
      tree::const_optional_ref const cf = ct.front(), cb = ct.back();
      verif_assert(f.has_value() == (N[i].nch != 0) && b.has_value() == (N[i].nch != 0), "front/back iff children");
      if (N[i].nch != 0)
      {
        verif_assert(&f.get_unsafe().get() == N[N[i].ch[0]].real, "front is the first child");
        verif_assert(&b.get_unsafe().get() == N[N[i].ch[N[i].nch - 1]].real, "back is the last child");
        verif_assert(&cf.get_unsafe().get() == N[N[i].ch[0]].real && &cb.get_unsafe().get() == &b.get_unsafe().get(), "const front/back");
        verif_assert(&*ct.begin() == &f.get_unsafe().get() && &*t.rbegin() == &b.get_unsafe().get() && &*ct.rbegin() == &b.get_unsafe().get(), "begin/rbegin");
      }
    }
  }
  for (unsigned q = 0; q < nroots; ++q)
  {
    unsigned const i = roots[q];
    tree const &ct = r(i);
    {
      utree const m = fcppt::container::tree::map<utree>(ct, [](int const &v) { return mapped(v); });
      verif_assert(!m.parent().has_value(), "mapped tree is a root");
      walk_mapped(m, i);
    }
    {
      tree c(ct);
      verif_assert(!c.parent().has_value(), "a copy is a root");
      tree *const last = walk_copy(c, i);
      verif_assert(c == ct, "a copy compares equal");
      verif_assert(!(c != ct), "a copy does not compare unequal");
      if (final && q + 1 == nroots)
      {
        // independence: mutate the copy, the forest must not change
        int const old = last->value(), w = fresh_value();
        last->value(w);
        bool const same = (c == ct);
        verif_assert(same == (w == old), "== after changing one value of the copy");
        last->push_back(w);
        verif_assert(c != ct, "a copy with an extra node is unequal");
        c.clear();
      }
    }
  }
  if (final) sync();
}

void observe()
{
  list_alive();
  std::uint64_t shape = 0, sum = 0;
  for (unsigned q = 0; q < nroots; ++q)
  {
    unsigned char seq[MAXN];
    unsigned n = 0;
    m_pre(roots[q], seq, n);
    for (unsigned k = 0; k < n; ++k)
    {
      shape = shape * 7 + m_level(seq[k]) + 1;
      sum = sum * 3 + static_cast<std::uint32_t>(r(seq[k]).value());
    }
    shape = shape * 7;
  }
  verif_out("nodes", nalive);
  verif_out("roots", nroots);
  verif_out("shape", shape);
  verif_out("values", sum);
}
void teardown()
{
  while (nroots > 0) op_destroy_root(nroots - 1);
}

// history: masks[s] is the set of operations allowed at step s
// param deep: 0 = lockstep walk after every step only, 1 = plus the traversal/metric checks at the end, 2 = after every step
void history(unsigned long const m0, unsigned long const m1, unsigned long const m2, unsigned long const m3)
{
  unsigned const depth = static_cast<unsigned>(verif_param("deep"));
  unsigned const base = static_cast<unsigned>(verif_param("base")), k = static_cast<unsigned>(verif_param("k"));
  unsigned const first = static_cast<unsigned>(verif_param("first")); // >= NOPS: first operation chosen by the solver too
  unsigned long const masks[4] = {m0, m1, m2, m3};
  build(base);
  for (unsigned s = 0; s < k && s < 4; ++s)
  {
    step(masks[s], s == 0 ? first : NOPS);
    sync();
    if (depth >= 2 && s + 1 < k) deep(false);
  }
  if (depth >= 1) deep(true);
  observe();
  teardown();
  verif_reach("end");
}
}

// every operation except swap / copy assignment / move assignment
VERIF_HARNESS(h_ops) { history(M_BASIC, M_BASIC, M_BASIC, M_BASIC); }
// histories containing swap (resp. copy assignment, copy assignment into a descendant of the source, move assignment)
// as the first / as the second step, the other steps drawn from the basic set
VERIF_HARNESS(h_swap_first) { history(M_SWAP, M_BASIC | M_SWAP, M_BASIC | M_SWAP, M_BASIC); }
VERIF_HARNESS(h_swap_second) { history(M_BASIC, M_SWAP, M_BASIC | M_SWAP, M_BASIC); }
VERIF_HARNESS(h_cassign_first) { history(M_CASSIGN, M_BASIC | M_CASSIGN, M_BASIC | M_CASSIGN, M_BASIC); }
VERIF_HARNESS(h_cassign_second) { history(M_BASIC, M_CASSIGN, M_BASIC | M_CASSIGN, M_BASIC); }
VERIF_HARNESS(h_cbelow_first) { history(M_CBELOW, M_BASIC | M_CBELOW, M_BASIC | M_CBELOW, M_BASIC); }
VERIF_HARNESS(h_cbelow_second) { history(M_BASIC, M_CBELOW, M_BASIC | M_CBELOW, M_BASIC); }
VERIF_HARNESS(h_massign_first) { history(M_MASSIGN, M_BASIC | M_MASSIGN, M_BASIC | M_MASSIGN, M_BASIC); }
VERIF_HARNESS(h_massign_second) { history(M_BASIC, M_MASSIGN, M_BASIC | M_MASSIGN, M_BASIC); }
// all operations mixed (meaningful once swap/assignment are correct), and the reduced set for the longest histories
VERIF_HARNESS(h_all) { history(M_ALL, M_ALL, M_ALL, M_ALL); }
VERIF_HARNESS(h_core) { history(M_CORE, M_CORE, M_CORE, M_CORE); }

// operator== / != on an arbitrary pair of nodes after a short history
VERIF_HARNESS(h_cmp)
{
  unsigned const base = static_cast<unsigned>(verif_param("base")), k = static_cast<unsigned>(verif_param("k"));
  build(base);
  for (unsigned s = 0; s < k; ++s)
  {
    step(M_BASIC, NOPS);
    sync();
  }
  list_alive();
  unsigned const x = pick_node("cx"), y = pick_node("cy");
  tree const &a = r(x);
  tree const &b = r(y);
  bool const expected = m_eq(x, y);
  bool const got = (a == b);
  verif_out("equal", got);
  verif_assert(got == expected, "operator== is equality of values and shape, recursively");
  verif_assert((a != b) == !expected, "operator!= is its negation");
  teardown();
  verif_reach("cmp-end");
}

// ---- quick tier (operation codes: 0 push_back(v) 1 push_front(v) 2 insert(v) 3 push_back(tree&&) 4 push_front(tree&&)
// 5 insert(tree&&) 6 pop_back 7 pop_front 8 release 9 erase 10 erase(range) 11 clear 12 sort 13 copy ctor 14 move ctor
// 15 value(v) 16 destroy a tree 17 swap 18 copy assign 19 move assign 20 copy assign into a descendant of the source)
// one step, every basic operation (param first = operation code: partitions the solver's choice for parallelism), full checks
//@harness h_ops param base=0..5 param k=1 param first=0..16 param deep=1 if (base>0)|(first<3)|(first==6)|(first==7)|(first>9) tier=quick loop=70 leak=1
// two steps: first operation = param, second chosen by the solver; lockstep walk after each step, destruction, leak check
//@harness h_ops param base=1,2 param k=2 param first=0..15 param deep=0 tier=quick loop=70 leak=1
// swap / copy assignment / move assignment alone (full checks), and combined with one other operation before or after
//@harness h_swap_first param base=1..5 param k=1 param first=17 param deep=1 tier=quick loop=70 leak=1
//@harness h_cassign_first param base=1..5 param k=1 param first=18 param deep=1 tier=quick loop=70 leak=1
//@harness h_massign_first param base=1..5 param k=1 param first=19 param deep=1 tier=quick loop=70 leak=1
//@harness h_cbelow_first param base=1..5 param k=1 param first=20 param deep=1 tier=quick loop=70 leak=1
//@harness h_swap_first param base=1,2 param k=2 param first=17 param deep=0 tier=quick loop=70 leak=1
//@harness h_cassign_first param base=1,2 param k=2 param first=18 param deep=0 tier=quick loop=70 leak=1
//@harness h_massign_first param base=1,2 param k=2 param first=19 param deep=0 tier=quick loop=70 leak=1
//@harness h_cbelow_first param base=1,2 param k=2 param first=20 param deep=0 tier=quick loop=70 leak=1
//@harness h_swap_second param base=1,2 param k=2 param first=0..15 param deep=0 tier=quick loop=70 leak=1
//@harness h_cassign_second param base=1,2 param k=2 param first=0..15 param deep=0 tier=quick loop=70 leak=1
//@harness h_massign_second param base=1,2 param k=2 param first=0..15 param deep=0 tier=quick loop=70 leak=1
//@harness h_cbelow_second param base=1,2 param k=2 param first=0..15 param deep=0 tier=quick loop=70 leak=1
//@harness h_cmp param base=3,5 param k=0 tier=quick loop=70 leak=1
//@harness h_cmp param base=1,2 param k=1 tier=quick loop=70 leak=1
// ---- thorough tier (about 25 minutes on 6 cores)
// two steps with the full checks at the end on the small bases, lockstep-only on the 6-node forest of the design sketch
//@harness h_ops param base=0..2 param k=2 param first=0..15 param deep=1 if (base>0)|(first<3)|(first==6)|(first==7)|(first>9) tier=thorough loop=70 leak=1 paths=100000 wall=3000
//@harness h_ops param base=3 param k=2 param first=0..16 param deep=0 tier=thorough loop=70 leak=1 paths=200000 wall=3000
// three steps from a single node, basic operations / all operations; full checks after every step for k = 2
//@harness h_ops param base=0 param k=3 param first=0..15 param deep=0 if (first<3)|(first==6)|(first==7)|(first>9) tier=thorough loop=70 leak=1 paths=200000 wall=3000
//@harness h_all param base=0 param k=3 param first=0,1,2,6,7,10,11,12,13,14,15,17,18 param deep=0 tier=thorough loop=70 leak=1 paths=200000 wall=3000
//@harness h_ops param base=1 param k=2 param first=0..15 param deep=2 tier=thorough loop=70 leak=1 paths=100000 wall=3000
// four steps from a single node over the reduced operation set (push_back(v), push_front(tree&&), pop_front, release,
// move/copy construction, swap, copy/move assignment)
//@harness h_core param base=0 param k=4 param first=0,7,13,14,17,18 param deep=0 tier=thorough loop=70 leak=1 paths=400000 wall=3000
// swap / assignments combined with one other operation on the 6-node forest, and all operations mixed on the small bases
//@harness h_swap_first param base=3 param k=2 param first=17 param deep=0 tier=thorough loop=70 leak=1 paths=100000 wall=3000
//@harness h_cassign_first param base=3 param k=2 param first=18 param deep=0 tier=thorough loop=70 leak=1 paths=100000 wall=3000
//@harness h_massign_first param base=3 param k=2 param first=19 param deep=0 tier=thorough loop=70 leak=1 paths=100000 wall=3000
//@harness h_cbelow_first param base=3 param k=2 param first=20 param deep=0 tier=thorough loop=70 leak=1 paths=100000 wall=3000
//@harness h_swap_second param base=3 param k=2 param first=0..16 param deep=0 tier=thorough loop=70 leak=1 paths=100000 wall=3000
//@harness h_cassign_second param base=3 param k=2 param first=0..16 param deep=0 tier=thorough loop=70 leak=1 paths=100000 wall=3000
//@harness h_massign_second param base=3 param k=2 param first=0..16 param deep=0 tier=thorough loop=70 leak=1 paths=100000 wall=3000
//@harness h_cbelow_second param base=3 param k=2 param first=0..16 param deep=0 tier=thorough loop=70 leak=1 paths=100000 wall=3000
//@harness h_all param base=1,2 param k=2 param first=0..20 param deep=0 if (first!=16) tier=thorough loop=70 leak=1 paths=100000 wall=3000
//@harness h_cmp param base=3,5 param k=1 tier=thorough loop=70 leak=1 paths=100000 wall=3000
