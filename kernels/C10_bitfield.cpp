// C10 - bitfield is observationally a set of enumerators.
// Real code: fcppt::container::bitfield::{object,proxy,operators,comparison,is_subset_eq,init,hash}.
// Operands are produced by the real code from symbolic sets (init / initializer list / set), so every examined
// representation is reachable; no representation invariant is assumed.
//@property C10
#include "verif_api.h"
#include <fcppt/container/bitfield/comparison.hpp>
#include <fcppt/container/bitfield/hash.hpp>
#include <fcppt/container/bitfield/init.hpp>
#include <fcppt/container/bitfield/is_subset_eq.hpp>
#include <fcppt/container/bitfield/object_impl.hpp>
#include <fcppt/container/bitfield/operators.hpp>
#include <cstdint>
#include <functional>

namespace
{
template <unsigned N>
struct en
{
  enum class type : unsigned
  {
    first = 0,
    fcppt_maximum = N - 1
  };
};

// a symbolic subset of {0..N-1}, N <= 128, as two words
struct sset
{
  std::uint64_t lo, hi;
  bool has(unsigned const i) const { return i < 64 ? ((lo >> i) & 1U) != 0 : ((hi >> (i - 64)) & 1U) != 0; }
};

sset fresh_set(char const *const nlo, char const *const nhi, unsigned const n)
{
  sset r{verif_u64(nlo), n > 64 ? verif_u64(nhi) : 0U};
  return r;
}

template <unsigned N, typename W>
using bf = fcppt::container::bitfield::object<typename en<N>::type, W>;

template <unsigned N, typename W>
bf<N, W> build(sset const &s)
{
  using E = typename en<N>::type;
  return fcppt::container::bitfield::init<bf<N, W>>([&s](E const e) { return s.has(static_cast<unsigned>(e)); });
}

template <unsigned N, typename W>
bf<N, W> rebuild(bf<N, W> const &r)
{
  using E = typename en<N>::type;
  return fcppt::container::bitfield::init<bf<N, W>>([&r](E const e) { return r.get(e); });
}

template <unsigned N, typename W>
bf<N, W> apply_op(unsigned const op, bf<N, W> const &a, bf<N, W> const &b)
{
  switch (op)
  {
  case 0: return a | b;
  case 1: return a & b;
  case 2: return a ^ b;
  case 3: return ~a;
  case 4: { bf<N, W> t{a}; t |= b; return t; }
  case 5: { bf<N, W> t{a}; t &= b; return t; }
  case 6: { bf<N, W> t{a}; t ^= b; return t; }
  default: return ~(~a);
  }
}

bool model_op(unsigned const op, bool const x, bool const y)
{
  switch (op)
  {
  case 0: case 4: return x || y;
  case 1: case 5: return x && y;
  case 2: case 6: return x != y;
  case 3: return !x;
  default: return x;
  }
}

// same enumerators => equal, not unequal, equal hash - however the value was computed
template <unsigned N, typename W>
void same_set_checks(bf<N, W> const &r, char const *const eq, char const *const ne, char const *const hs)
{
  bf<N, W> const c{rebuild<N, W>(r)};
  verif_assert(r == c, eq);
  verif_assert(!(r != c), ne);
  verif_assert(
      fcppt::container::bitfield::hash<bf<N, W>>{}(r) == fcppt::container::bitfield::hash<bf<N, W>>{}(c), hs);
}

// depth-1 expression over the operators, probed at an arbitrary enumerator
template <unsigned N, typename W>
void ops()
{
  using E = typename en<N>::type;
  sset const A{fresh_set("A_lo", "A_hi", N)}, B{fresh_set("B_lo", "B_hi", N)};
  bf<N, W> const a{build<N, W>(A)}, b{build<N, W>(B)};
  unsigned const op{verif_u8("op")};
  verif_assume(op < 8);
  bf<N, W> const r{apply_op<N, W>(op, a, b)};
  unsigned const e{verif_u8("e")};
  verif_assume(e < N);
  bool const expected{model_op(op, A.has(e), B.has(e))};
  verif_out("expected", expected);
  verif_out("got", r.get(static_cast<E>(e)));
  verif_assert(r.get(static_cast<E>(e)) == expected, "get(op(a,b),e) equals set algebra");
  verif_assert(static_cast<bool>(r[static_cast<E>(e)]) == expected, "operator[] equals set algebra");
  verif_assert((r & static_cast<E>(e)) == expected, "field & enumerator equals membership");
  same_set_checks<N, W>(r, "op result == bitfield rebuilt from its own enumerators", "op result != rebuilt is false",
                        "hash(op result) == hash(rebuilt)");
  verif_reach("ops-end");
}

// depth-2 expression: op2(op1(a,b), c)
template <unsigned N, typename W>
void ops2()
{
  using E = typename en<N>::type;
  sset const A{fresh_set("A_lo", "A_hi", N)}, B{fresh_set("B_lo", "B_hi", N)}, C{fresh_set("C_lo", "C_hi", N)};
  bf<N, W> const a{build<N, W>(A)}, b{build<N, W>(B)}, c{build<N, W>(C)};
  unsigned const op1{verif_u8("op1")}, op2{verif_u8("op2")};
  verif_assume(op1 < 4 && op2 < 4);
  bf<N, W> const r{apply_op<N, W>(op2, apply_op<N, W>(op1, a, b), c)};
  unsigned const e{verif_u8("e")};
  verif_assume(e < N);
  bool const expected{model_op(op2, model_op(op1, A.has(e), B.has(e)), C.has(e))};
  verif_assert(r.get(static_cast<E>(e)) == expected, "depth-2 expression equals set algebra");
  same_set_checks<N, W>(r, "depth-2 result == rebuilt", "depth-2 result != rebuilt is false", "hash(depth-2 result) == hash(rebuilt)");
  verif_reach("ops2-end");
}

// relations: ==, !=, is_subset_eq, hash agree with the sets
template <unsigned N, typename W>
void relations()
{
  sset const A{fresh_set("A_lo", "A_hi", N)}, B{fresh_set("B_lo", "B_hi", N)};
  bf<N, W> const a{build<N, W>(A)}, b{build<N, W>(B)};
  // set equality / inclusion on the low N bits of the two words (straight-line: no branch per enumerator)
  constexpr std::uint64_t mlo{N >= 64 ? ~std::uint64_t{0} : ((std::uint64_t{1} << (N % 64)) - 1U)};
  constexpr std::uint64_t mhi{N <= 64 ? std::uint64_t{0} : ((std::uint64_t{1} << ((N - 64) % 64)) - 1U)};
  std::uint64_t const alo{A.lo & mlo}, ahi{A.hi & mhi}, blo{B.lo & mlo}, bhi{B.hi & mhi};
  bool const same{alo == blo && ahi == bhi};
  bool const sub{(alo & ~blo) == 0 && (ahi & ~bhi) == 0};
  verif_out("same", same);
  verif_assert((a == b) == same, "== is set equality");
  verif_assert((a != b) == !same, "!= is its negation");
  verif_assert(fcppt::container::bitfield::is_subset_eq(a, b) == sub, "is_subset_eq is set inclusion");
  if (same)
    verif_assert(
        fcppt::container::bitfield::hash<bf<N, W>>{}(a) == fcppt::container::bitfield::hash<bf<N, W>>{}(b),
        "equal sets hash equally");
  verif_assert(a == a, "== reflexive");
  verif_reach("relations-end");
}

// set / get / operator[] assignment / null / initializer list
template <unsigned N, typename W>
void setget()
{
  using E = typename en<N>::type;
  sset const A{fresh_set("A_lo", "A_hi", N)};
  bf<N, W> a{build<N, W>(A)};
  unsigned const e{verif_u8("e")}, f{verif_u8("f")};
  bool const v{verif_u8("v") != 0};
  verif_assume(e < N && f < N);
  unsigned const how{verif_u8("how")};
  verif_assume(how < 3);
  if (how == 0) a.set(static_cast<E>(e), v);
  else if (how == 1) a[static_cast<E>(e)] = v;
  else if (v) a |= static_cast<E>(e);
  else a.set(static_cast<E>(e), false);
  bool const expected{f == e ? v : A.has(f)};
  verif_assert(a.get(static_cast<E>(f)) == expected, "set(e,v) changes exactly enumerator e");
  bf<N, W> const n{bf<N, W>::null()};
  verif_assert(!n.get(static_cast<E>(f)), "null() contains nothing");
  bf<N, W> const il{static_cast<E>(e), static_cast<E>(f)};
  unsigned const g{verif_u8("g")};
  verif_assume(g < N);
  verif_assert(il.get(static_cast<E>(g)) == (g == e || g == f), "initializer list {e,f} contains exactly e and f");
  bf<N, W> viaset{bf<N, W>::null()};
  viaset.set(static_cast<E>(e), true);
  viaset.set(static_cast<E>(f), true);
  verif_assert(il == viaset, "initializer list equals null()+set");
  // complement of the empty set equals the full set built with set()
  bf<N, W> full{bf<N, W>::null()};
  for (unsigned i = 0; i < N; ++i) full.set(static_cast<E>(i), true);
  verif_assert(~n == full, "~null() == full set built with set()");
  verif_assert(
      fcppt::container::bitfield::hash<bf<N, W>>{}(~n) == fcppt::container::bitfield::hash<bf<N, W>>{}(full),
      "hash(~null()) == hash(full set)");
  verif_reach("setget-end");
}

// the same object on both sides of an assigning operator (aliasing operands)
template <unsigned N, typename W>
void selfops()
{
  using E = typename en<N>::type;
  sset const A{fresh_set("A_lo", "A_hi", N)};
  bf<N, W> a{build<N, W>(A)};
  bf<N, W> const original{a};
  unsigned const op{verif_u8("op")};
  verif_assume(op < 6);
  switch (op)
  {
  case 0: a |= a; break;
  case 1: a &= a; break;
  case 2: a ^= a; break;
  case 3: a = a | a; break;
  case 4: a = a & a; break;
  default: a = a ^ a; break;
  }
  unsigned const e{verif_u8("e")};
  verif_assume(e < N);
  bool const expected{(op == 2 || op == 5) ? false : A.has(e)};
  verif_assert(a.get(static_cast<E>(e)) == expected, "s op= s equals the set algebra of s with itself");
  if (op == 2 || op == 5) verif_assert(a == bf<N, W>::null(), "s ^= s is the empty set");
  else verif_assert(a == original, "s |= s and s &= s leave s unchanged");
  same_set_checks<N, W>(a, "self-op result == rebuilt", "self-op result != rebuilt is false", "hash(self-op result) == hash(rebuilt)");
  verif_reach("selfops-end");
}

// init with a function whose result is only CONVERTIBLE to bool (the documentation asks for "callable as bool(element_type)"):
// a non-zero word such as `flags & (1 << i)` must set exactly enumerator i
template <unsigned N, typename W>
void init_nonbool()
{
  using E = typename en<N>::type;
  sset const A{fresh_set("A_lo", "A_hi", N)};
  bf<N, W> const a{fcppt::container::bitfield::init<bf<N, W>>([&A](E const e) -> std::uint64_t {
    unsigned const i{static_cast<unsigned>(e)};
    return i < 64 ? (A.lo & (std::uint64_t{1} << i)) : (A.hi & (std::uint64_t{1} << (i - 64)));
  })};
  unsigned const e{verif_u8("e")};
  verif_assume(e < N);
  verif_assert(a.get(static_cast<E>(e)) == A.has(e), "init with a truthy (non-bool) function result sets exactly the enumerators for which it is non-zero");
  verif_assert(a == build<N, W>(A), "init with a truthy function == init with the bool function");
  verif_reach("init_nonbool-end");
}
}

#define INST(N, W, WN) \
  VERIF_HARNESS(h_initnb_##N##_##WN) { init_nonbool<N, W>(); } \
  VERIF_HARNESS(h_self_##N##_##WN) { selfops<N, W>(); } \
  VERIF_HARNESS(h_ops_##N##_##WN) { ops<N, W>(); } \
  VERIF_HARNESS(h_ops2_##N##_##WN) { ops2<N, W>(); } \
  VERIF_HARNESS(h_rel_##N##_##WN) { relations<N, W>(); } \
  VERIF_HARNESS(h_setget_##N##_##WN) { setget<N, W>(); }

//@harness h_ops_{N}_{W} for N in 1,3,8,9,17 for W in u8,u16,u32,u64 tier=quick loop=140
//@harness h_rel_{N}_{W} for N in 1,3,8,9,17 for W in u8,u16,u32,u64 tier=quick loop=140
//@harness h_setget_{N}_{W} for N in 1,3,8,9,17 for W in u8,u16,u32,u64 tier=quick loop=140
//@harness h_ops2_{N}_{W} for N in 3,9 for W in u8,u32 tier=quick loop=140
//@harness h_self_{N}_{W} for N in 1,3,8,9,17,33 for W in u8,u16,u32,u64 tier=quick loop=140
//@harness h_initnb_{N}_{W} for N in 3,9,17,33 for W in u8,u32,u64 tier=quick loop=140
// enumerators beyond bit 31 of a 64-bit word (and beyond the first word of narrower ones) already in the quick tier
//@harness h_setget_33_{W} for W in u32,u64 tier=quick loop=140
//@harness h_rel_33_{W} for W in u32,u64 tier=quick loop=140
//@harness h_ops_33_u64 tier=quick loop=140
//@harness h_setget_64_u64 tier=quick loop=140
//@harness h_self_{N}_{W} for N in 64,65 for W in u8,u16,u32,u64 tier=thorough loop=140
//@harness h_ops_33_u32 tier=thorough loop=140
//@harness h_ops_64_u64 tier=thorough loop=140
// (h_ops_64_u32: the equality-with-rebuilt query over two 32-bit words sits at the 60 s solver budget - dropped)
//@harness h_ops_65_u64 tier=thorough loop=140
// (h_ops for 33/64/65 enumerators in 8/16-bit words and 65 in 32-bit words, i.e. 3-9 storage words: the equality-with-rebuilt
//  query gets no z3 answer within 60 s; outside the claim.  set/get and the relations are decided for all of them.)
//@harness h_rel_{N}_{W} for N in 64,65 for W in u8,u16,u32,u64 tier=thorough loop=140
//@harness h_rel_33_{W} for W in u8,u16 tier=thorough loop=140
//@harness h_setget_{N}_{W} for N in 65 for W in u8,u16,u32,u64 tier=thorough loop=140
//@harness h_setget_33_{W} for W in u8,u16 tier=thorough loop=140
//@harness h_setget_64_{W} for W in u8,u16,u32 tier=thorough loop=140
//@harness h_ops2_{N}_{W} for N in 1,8,17 for W in u8,u16,u32,u64 tier=thorough loop=140
//@harness h_ops2_33_{W} for W in u32,u64 tier=thorough loop=140
// (depth-2 expressions over 65 enumerators: z3 gave no answer within 60 s per query; outside the claim)
#define INSTN(N) INST(N, std::uint8_t, u8) INST(N, std::uint16_t, u16) INST(N, std::uint32_t, u32) INST(N, std::uint64_t, u64)
INSTN(1)
INSTN(3)
INSTN(8)
INSTN(9)
INSTN(17)
INSTN(33)
INSTN(64)
INSTN(65)
