// C11 (supplement 2) - re-entrancy DURING a signal call: a callback destroys ANOTHER connection of the same signal while
// the call is iterating.
// Real code: fcppt::signal::object<int(int)> / object<void(int)> over signal::base and over signal::unregister::base
// (object_impl.hpp: a range-for over the intrusive list; algorithm::fold / loop_break_impl for the non-void signal),
// intrusive::{list,base,iterator}, detail::concrete_connection.
//
// What the unchanged tree supports (read from the implementation): the loop holds an iterator to the CURRENT node and
// reads its next pointer only after the callback has returned.  Destroying any OTHER connection from inside a callback
// - the immediate successor (also when it is the last one), a later one, an earlier one that has already run - unlinks
// that node from the ring, so the iteration continues correctly and the destroyed connection is never touched again.
// A callback destroying its OWN connection is not supported by the implementation (the running fcppt::function and the
// node the iterator stands on would be freed under the loop) and is therefore not part of the histories.
//
// Histories: n = 2..3 connections (driver parameter) on the heap (so any access to a destroyed connection is a
// use-after-free for the engine and for ASan); for every callback the solver chooses whether it destroys another
// connection and which one.  Reference (from the property statement): exactly the connections alive at the moment
// their turn comes are invoked, once each, in connection order; the non-void signal folds exactly their results from the
// initial value; with unregister::base the unregister callback of a connection destroyed during the call has run
// exactly once when the call returns; a second, ordinary call invokes exactly the survivors.  leak=1.
//
// Outside the claim: a callback destroying its own connection or the signal, connecting from inside a callback during a
// call, throwing callbacks, threads.
//@property C11
#include "verif_api.h"
#include <fcppt/signal/auto_connection.hpp>
#include <fcppt/signal/base_impl.hpp>
#include <fcppt/signal/object_impl.hpp>
#include <fcppt/signal/unregister/base_impl.hpp>
#include <fcppt/unique_ptr_impl.hpp>
#include <cstdint>
#include <type_traits>
#include <utility>

namespace
{
constexpr unsigned NC = 3;

inline unsigned split(unsigned const x)
{
  static constexpr unsigned char identity[16] = {0, 1, 2, 3, 4, 5, 6, 7, 8, 9, 10, 11, 12, 13, 14, 15};
  return identity[x];
}

inline unsigned shape(char const *const name, unsigned const max)
{
  unsigned const x{verif_u8(name)};
  verif_assume(x <= max);
  return split(x);
}

int cb_result(unsigned const k, int const arg) { return static_cast<int>(verif_uf2(2, k, static_cast<std::uint32_t>(arg))); }
int comb_result(int const state, int const v)
{
  return static_cast<int>(verif_uf2(1, static_cast<std::uint32_t>(state), static_cast<std::uint32_t>(v)));
}

fcppt::signal::auto_connection *C[NC];
unsigned victim[NC]; // which connection callback k destroys when it runs; NC = none
unsigned call_log[8];
unsigned n_calls;
unsigned unregistered[NC];

int on_call(unsigned const k, int const x)
{
  if (n_calls < 8) call_log[n_calls] = k;
  ++n_calls;
  unsigned const v{victim[k]};
  if (v < NC && C[v] != nullptr)
  {
    delete C[v]; // another connection of the same signal dies while the call is iterating
    C[v] = nullptr;
  }
  return cb_result(k, x);
}

template <typename Sig>
Sig *make_signal()
{
  if constexpr (std::is_void_v<typename Sig::result_type>) return new Sig{};
  else return new Sig{typename Sig::combiner_function{[](int const a, int const b) { return comb_result(a, b); }}};
}

template <typename Sig, bool Unregister>
void connect(Sig &s, unsigned const k)
{
  typename Sig::function f{[k](int const x)
                           {
                             if constexpr (std::is_void_v<typename Sig::result_type>) (void)on_call(k, x);
                             else return on_call(k, x);
                           }};
  if constexpr (Unregister)
    C[k] = new fcppt::signal::auto_connection{s.connect(std::move(f), fcppt::signal::unregister::function{[k] { ++unregistered[k]; }})};
  else
    C[k] = new fcppt::signal::auto_connection{s.connect(std::move(f))};
}

// one call, checked against the model: alive[] is updated the way the property statement prescribes
template <typename Sig>
void checked_call(Sig &s, unsigned const n, bool (&alive)[NC], char const *const id_set, char const *const id_fold)
{
  int const init{static_cast<int>(verif_u32("init"))}, arg{static_cast<int>(verif_u32("arg"))};
  unsigned expected_log[NC];
  unsigned expected_n{0};
  int expected{init};
  for (unsigned k = 0; k < n; ++k)
  {
    if (!alive[k]) continue; // not alive when its turn comes
    expected_log[expected_n++] = k;
    expected = comb_result(expected, cb_result(k, arg));
    unsigned const v{victim[k]};
    if (v < NC && alive[v]) alive[v] = false;
  }
  n_calls = 0;
  int r{expected};
  if constexpr (std::is_void_v<typename Sig::result_type>) s(arg);
  else r = s(typename Sig::initial_value{init}, arg);
  verif_out("calls", n_calls);
  bool same{n_calls == expected_n};
  for (unsigned i = 0; i < expected_n && same; ++i) same = call_log[i] == expected_log[i];
  verif_assert(same, id_set);
  verif_assert(r == expected, id_fold);
  bool ptrs{true};
  for (unsigned k = 0; k < n; ++k) ptrs = ptrs && ((C[k] != nullptr) == alive[k]);
  verif_assert(ptrs, "the connections destroyed during the call are exactly the victims of the callbacks that ran");
  verif_assert(s.empty() == (!alive[0] && !alive[1] && (n < 3 || !alive[2])), "empty() agrees with the survivors");
}

template <typename Sig, bool Unregister>
void during_call()
{
  unsigned const n{static_cast<unsigned>(verif_param("n"))};
  bool alive[NC];
  for (unsigned k = 0; k < NC; ++k) { C[k] = nullptr; victim[k] = NC; unregistered[k] = 0; alive[k] = k < n; }
  n_calls = 0;
  Sig *const s{make_signal<Sig>()};
  for (unsigned k = 0; k < n; ++k) connect<Sig, Unregister>(*s, k);
  // for every callback: destroy nobody (n-1 ... encoded as the last choice) or one of the n-1 OTHER connections
  for (unsigned k = 0; k < n; ++k)
  {
    unsigned const choice{shape("victim", n - 1U)}; // 0..n-2: the choice-th other connection, n-1: nobody
    if (choice < n - 1U) victim[k] = choice < k ? choice : choice + 1U;
    verif_out("victim", victim[k]);
  }
  checked_call(
      *s, n, alive, "during a call: exactly the connections alive when their turn comes are invoked, once, in order",
      "during a call: the result folds exactly the invoked callbacks from the initial value");
  if constexpr (Unregister)
  {
    bool ok{true};
    for (unsigned k = 0; k < n; ++k) ok = ok && unregistered[k] == (alive[k] ? 0U : 1U);
    verif_assert(ok, "during a call: the unregister callback of every destroyed connection has run exactly once, of no other");
  }
  // second call: the victims of the first call are gone, the surviving callbacks may destroy further survivors
  checked_call(
      *s, n, alive, "second call: exactly the survivors alive at their turn are invoked, once, in order",
      "second call: the result folds exactly the invoked callbacks");
  // tear down (callbacks no longer destroy anything)
  for (unsigned k = 0; k < NC; ++k) victim[k] = NC;
  bool const signal_first{verif_u8("signal_first") != 0};
  if (signal_first) delete s;
  for (unsigned k = 0; k < NC; ++k) { delete C[k]; C[k] = nullptr; }
  if (!signal_first) delete s;
  if constexpr (Unregister)
  {
    bool ok{true};
    for (unsigned k = 0; k < NC; ++k) ok = ok && unregistered[k] == (k < n ? 1U : 0U);
    verif_assert(ok, "at the end every connection has unregistered exactly once");
  }
  verif_reach("during_call-end");
}
}

VERIF_HARNESS(h_during_call_int) { during_call<fcppt::signal::object<int(int)>, false>(); }
VERIF_HARNESS(h_during_call_void) { during_call<fcppt::signal::object<void(int)>, false>(); }
VERIF_HARNESS(h_during_call_int_unregister) { during_call<fcppt::signal::object<int(int), fcppt::signal::unregister::base>, true>(); }
VERIF_HARNESS(h_during_call_void_unregister) { during_call<fcppt::signal::object<void(int), fcppt::signal::unregister::base>, true>(); }

//@harness h_during_call_{V} for V in int,void,int_unregister,void_unregister param n=2..3 tier=quick leak=1
