// C11 (first half) - an intrusive list contains exactly the live, not moved-from elements that were linked into it (or
// into a list it took over), in link order, and never refers to a destroyed element.
// Real code: fcppt::intrusive::{list,base,iterator} (list_impl.hpp, base_impl.hpp, iterator_impl.hpp).
//
// Histories: a pool of NL list slots and NE element slots; lists and elements are created with new and destroyed with
// delete, so that "destroyed" is decided by the harness and every later access to a destroyed object - read or write,
// e.g. through a stale prev/next link - is a use-after-free for the engine (and for ASan in the native replay).
// Start: one of a few configurations built through the public constructors (driver parameter `init`), then the first
// operation is a driver parameter (`op1`; in the deepest runs also `op2`/`op3`) and the further operations are the solver's choice, each with operand
// slots chosen by the solver:
//   0 construct an element into a live list      1 destroy an element            2 move-construct an element
//   3 move-assign an element (also onto itself)  4 unlink an element             5 construct a list
//   6 move-construct a list                      7 move-assign a list (also onto itself, from empty and non-empty)
//   8 destroy a list (before its elements)
// New objects go to the first free slot (slots are interchangeable).  Model: per list the sequence of element slots.
//   construct: append; destroy/unlink: remove; element move: the target takes the source's place, the source is in no
//   list; element move-assign additionally removes the target from its old list; list move: target gets the source's
//   sequence, source becomes empty, the target's previous members are in no list; list destroy: members are in no list.
// After every step, for every live list: forward iteration yields exactly the model's sequence and terminates within
// pool size + 1 steps, backward iteration yields the reverse, empty() agrees.  At the end everything is destroyed, in
// either order (elements first / lists first, solver's choice); leak=1.
//
// The model also tracks which ring every element is on (a list's ring, or a headless ring left behind by a destroyed /
// assigned-over list, or alone), because two defects of the unchanged tree are triggered by exactly these situations:
//   D1  list::operator=(list&&) with an EMPTY source and a target that still has members,
//   D2  base(base&&) / base::operator=(base&&) from a source that is linked to nothing but itself (after unlink(), after
//       having been moved from, last member of a headless ring).
// h_list_all explores all histories (D1/D2 show up as violations); h_list_safe excludes exactly the histories that perform
// D1 or D2 by assumption and must hold without any violation - this pins every violation of h_list_all on D1/D2.
//
// Outside the claim: histories longer than the bounds below, pools above 3 lists / 4 elements, concurrent use.
//@property C11
#include "verif_api.h"
#include <fcppt/intrusive/base_impl.hpp>
#include <fcppt/intrusive/iterator_impl.hpp>
#include <fcppt/intrusive/list_impl.hpp>
#include <utility>

namespace
{
constexpr unsigned NL = 3;
constexpr unsigned NE = 4;

class elem;
using list_t = fcppt::intrusive::list<elem>;

class elem : public fcppt::intrusive::base<elem>
{
public:
  explicit elem(list_t &l) : fcppt::intrusive::base<elem>{l}, tag{7} {}
  elem(elem &&) noexcept = default;
  elem &operator=(elem &&) noexcept = default;
  ~elem() = default;
  elem(elem const &) = delete;
  elem &operator=(elem const &) = delete;
  int tag;
};

inline unsigned split(unsigned const x)
{
  static constexpr unsigned char identity[16] = {0, 1, 2, 3, 4, 5, 6, 7, 8, 9, 10, 11, 12, 13, 14, 15};
  return identity[x];
}

inline unsigned shape(char const *const name, unsigned const max)
{
  unsigned const x{verif_u8(name)};
  verif_assume(x <= max);
  return split(x);
}

struct world
{
  list_t *L[NL];
  elem *E[NE];
  // model
  unsigned seq[NL][NE];
  unsigned cnt[NL];
  // ring bookkeeping (only used to recognise the D1/D2 situations)
  unsigned ering[NE];
  unsigned lring[NL];
  unsigned next_ring;
  bool avoid;
};

constexpr unsigned NO_RING = 0xFFFFU;

bool headless(world const &w, unsigned const r)
{
  for (unsigned l = 0; l < NL; ++l)
    if (w.L[l] != nullptr && w.lring[l] == r) return false;
  return true;
}

unsigned ring_size(world const &w, unsigned const r)
{
  unsigned n{0};
  for (unsigned e = 0; e < NE; ++e)
    if (w.E[e] != nullptr && w.ering[e] == r) ++n;
  return n;
}

bool isolated(world const &w, unsigned const e) { return headless(w, w.ering[e]) && ring_size(w, w.ering[e]) == 1; }

void m_remove(world &w, unsigned const e)
{
  for (unsigned l = 0; l < NL; ++l)
  {
    unsigned k{0};
    for (unsigned i = 0; i < w.cnt[l]; ++i)
      if (w.seq[l][i] != e) w.seq[l][k++] = w.seq[l][i];
    w.cnt[l] = k;
  }
}

void m_replace(world &w, unsigned const from, unsigned const to)
{
  for (unsigned l = 0; l < NL; ++l)
    for (unsigned i = 0; i < w.cnt[l]; ++i)
      if (w.seq[l][i] == from) w.seq[l][i] = to;
}

unsigned free_elem(world const &w)
{
  for (unsigned i = 0; i < NE; ++i)
    if (w.E[i] == nullptr) return i;
  return NE;
}

unsigned free_list(world const &w)
{
  for (unsigned i = 0; i < NL; ++i)
    if (w.L[i] == nullptr) return i;
  return NL;
}

// the k-th live slot, k chosen by the solver
unsigned live_elem(world const &w, char const *const name)
{
  unsigned n{0};
  for (unsigned e = 0; e < NE; ++e)
    if (w.E[e] != nullptr) ++n;
  verif_assume(n != 0);
  unsigned k{shape(name, n - 1U)};
  for (unsigned e = 0; e < NE; ++e)
    if (w.E[e] != nullptr && k-- == 0) return e;
  return NE;
}

unsigned live_list(world const &w, char const *const name)
{
  unsigned n{0};
  for (unsigned l = 0; l < NL; ++l)
    if (w.L[l] != nullptr) ++n;
  verif_assume(n != 0);
  unsigned k{shape(name, n - 1U)};
  for (unsigned l = 0; l < NL; ++l)
    if (w.L[l] != nullptr && k-- == 0) return l;
  return NL;
}

void new_elem(world &w, unsigned const l)
{
  unsigned const e{free_elem(w)};
  verif_assume(e < NE);
  w.E[e] = new elem{*w.L[l]};
  w.seq[l][w.cnt[l]++] = e;
  w.ering[e] = w.lring[l];
}

void new_list(world &w)
{
  unsigned const l{free_list(w)};
  verif_assume(l < NL);
  w.L[l] = new list_t{};
  w.cnt[l] = 0;
  w.lring[l] = w.next_ring++;
}

void apply(world &w, unsigned const op)
{
  switch (op)
  {
  case 0: new_elem(w, live_list(w, "l")); break;
  case 1:
  {
    unsigned const e{live_elem(w, "e")};
    delete w.E[e];
    w.E[e] = nullptr;
    m_remove(w, e);
    w.ering[e] = NO_RING;
    break;
  }
  case 2:
  {
    unsigned const e{free_elem(w)};
    verif_assume(e < NE);
    unsigned const f{live_elem(w, "f")};
    if (w.avoid) verif_assume(!isolated(w, f)); // D2
    w.E[e] = new elem{std::move(*w.E[f])};
    m_replace(w, f, e);
    w.ering[e] = w.ering[f];
    w.ering[f] = w.next_ring++;
    break;
  }
  case 3:
  {
    unsigned const e{live_elem(w, "e")}, f{live_elem(w, "f")};
    if (e != f)
    {
      m_remove(w, e);
      w.ering[e] = NO_RING;
      if (w.avoid) verif_assume(!isolated(w, f)); // D2 (f may have become isolated by e leaving their common ring)
      m_replace(w, f, e);
      w.ering[e] = w.ering[f];
      w.ering[f] = w.next_ring++;
    }
    *w.E[e] = std::move(*w.E[f]);
    break;
  }
  case 4:
  {
    unsigned const e{live_elem(w, "e")};
    w.E[e]->unlink();
    m_remove(w, e);
    w.ering[e] = w.next_ring++;
    break;
  }
  case 5: new_list(w); break;
  case 6:
  {
    unsigned const l{free_list(w)};
    verif_assume(l < NL);
    unsigned const s{live_list(w, "s")};
    w.L[l] = new list_t{std::move(*w.L[s])};
    w.cnt[l] = w.cnt[s];
    for (unsigned i = 0; i < w.cnt[s]; ++i) w.seq[l][i] = w.seq[s][i];
    w.cnt[s] = 0;
    w.lring[l] = w.lring[s];
    w.lring[s] = w.next_ring++;
    break;
  }
  case 7:
  {
    unsigned const l{live_list(w, "l")}, s{live_list(w, "s")};
    if (w.avoid) verif_assume(!(l != s && w.cnt[s] == 0 && w.cnt[l] != 0)); // D1
    *w.L[l] = std::move(*w.L[s]);
    if (l != s)
    {
      w.cnt[l] = w.cnt[s];
      for (unsigned i = 0; i < w.cnt[s]; ++i) w.seq[l][i] = w.seq[s][i];
      w.cnt[s] = 0;
      w.lring[l] = w.lring[s]; // the old ring of l stays behind without a head
      w.lring[s] = w.next_ring++;
    }
    break;
  }
  default:
  {
    unsigned const l{live_list(w, "l")};
    delete w.L[l];
    w.L[l] = nullptr;
    w.cnt[l] = 0;
    w.lring[l] = NO_RING;
    break;
  }
  }
}

void check(world &w)
{
  for (unsigned l = 0; l < NL; ++l)
  {
    if (w.L[l] == nullptr) continue;
    list_t &lst{*w.L[l]};
    unsigned k{0};
    bool same{true};
    for (list_t::iterator it{lst.begin()}; it != lst.end() && k <= NE; ++it, ++k)
      same = same && k < w.cnt[l] && &*it == w.E[w.seq[l][k]] && it->tag == 7;
    verif_out("length", k);
    verif_assert(k <= NE, "iteration over a list terminates within the pool size");
    verif_assert(k == w.cnt[l], "a list has exactly as many members as the model");
    verif_assert(same, "iteration yields exactly the live linked elements in link order");
    list_t const &clst{lst};
    verif_assert(clst.empty() == (w.cnt[l] == 0), "empty() agrees with the model");
    unsigned c{0};
    for (list_t::const_iterator it{clst.begin()}; it != clst.end() && c <= NE; ++it) ++c;
    verif_assert(c == w.cnt[l], "const iteration has the same length");
    // backwards
    unsigned b{0};
    bool rsame{true};
    for (list_t::iterator it{lst.end()}; it != lst.begin() && b <= NE; ++b)
    {
      --it;
      rsame = rsame && b < w.cnt[l] && &*it == w.E[w.seq[l][w.cnt[l] - 1U - b]];
    }
    verif_assert(b == w.cnt[l] && rsame, "backward iteration yields the reverse sequence");
  }
}

void init(world &w, unsigned const how)
{
  for (unsigned l = 0; l < NL; ++l) { w.L[l] = nullptr; w.cnt[l] = 0; w.lring[l] = NO_RING; }
  for (unsigned e = 0; e < NE; ++e) { w.E[e] = nullptr; w.ering[e] = NO_RING; }
  w.next_ring = 0;
  new_list(w);
  new_list(w);
  switch (how)
  {
  case 0: break;                                                       // two empty lists
  case 1: new_elem(w, 0); new_elem(w, 0); break;                       // {e0,e1} {}
  case 2: new_elem(w, 0); new_elem(w, 1); break;                       // {e0} {e1}
  case 3: new_elem(w, 0); new_elem(w, 1); new_elem(w, 0); break;       // {e0,e2} {e1}
  default: new_elem(w, 0); new_elem(w, 0); new_elem(w, 0); break;      // {e0,e1,e2} {}
  }
}

void history(bool const avoid)
{
  world w;
  w.avoid = avoid;
  init(w, static_cast<unsigned>(verif_param("init")));
  unsigned const steps{static_cast<unsigned>(verif_param("steps"))};
  unsigned const op2{static_cast<unsigned>(verif_param("op2"))}, op3{static_cast<unsigned>(verif_param("op3"))}; // 9: the solver's choice
  check(w);
  apply(w, static_cast<unsigned>(verif_param("op1")));
  check(w);
  for (unsigned k = 1; k < steps; ++k)
  {
    apply(w, k == 1 && op2 < 9 ? op2 : k == 2 && op3 < 9 ? op3 : shape("op", 8U));
    check(w);
  }
  // tear down in either order
  bool const lists_first{verif_u8("lists_first") != 0};
  if (lists_first)
    for (unsigned l = 0; l < NL; ++l) { delete w.L[l]; w.L[l] = nullptr; }
  for (unsigned e = 0; e < NE; ++e) delete w.E[e];
  for (unsigned l = 0; l < NL; ++l) delete w.L[l];
  verif_reach("history-end");
}
}

VERIF_HARNESS(h_list_all) { history(false); }
VERIF_HARNESS(h_list_safe) { history(true); }

//@harness h_list_{V} for V in all,safe param init=0..4 param steps=1..2 param op1=0..8 param op2=9 param op3=9 if (init>0)|(op1==0)|(op1>=5) tier=quick leak=1 paths=200000
//@harness h_list_{V} for V in all,safe param init=1 param steps=3 param op1=0..8 param op2=9 param op3=9 tier=quick leak=1 paths=200000
//@harness h_list_{V} for V in all,safe param init=0,2,3,4 param steps=3 param op1=0..8 param op2=9 param op3=9 if (init>0)|(op1==0)|(op1>=5) tier=thorough leak=1 paths=200000
//@harness h_list_safe param init=1 param steps=4 param op1=2,3,7,8 param op2=0..8 param op3=9 tier=thorough leak=1 paths=400000 wall=1500
//@harness h_list_safe param init=1 param steps=5 param op1=7 param op2=0 param op3=1,2,3,7 tier=thorough leak=1 paths=1000000 wall=1700 cost=9
//@harness h_list_safe param init=1 param steps=5 param op1=7 param op2=2 param op3=1,7 tier=thorough leak=1 paths=1000000 wall=1700 cost=9
