// C11 (supplement) - (1) the signal as seen from INSIDE a connection's unregister callback, (2) self-move-assignment.
// Real code: fcppt::signal::object<int(int), unregister::base>, unregister::detail::concrete_connection (destructor:
// unlink(), then the unregister callback), fcppt::intrusive::{list,base}, fcppt::signal::object<int(int)>.
//
// (1) h_unregister_reentrant: a signal over unregister::base with n = 1..3 connections (driver parameter).  Every
// connection's unregister callback is re-entrant: it calls the signal (fresh symbolic initial value and argument, call
// log), queries empty() and walks connections().  The connections are destroyed one after the other in an order chosen
// by the solver (so the dying one is first / middle / last in connection order), with an ordinary call in between.
// Reference, from the property statement ("a call invokes exactly the callbacks whose connection object is still
// alive"; a connection whose destructor runs is not alive) and the implementation order on the unchanged tree
// (concrete_connection::~concrete_connection unlinks before it runs the callback): during the unregister callback of
// connection c the signal behaves as if c had already been removed - the nested call invokes exactly the other live
// callbacks, once each, in connection order, folds their results from the initial value, empty() is true exactly when c
// was the last live connection, connections() has exactly the other live connections; the callback runs exactly once
// per connection.
// h_unregister_reentrant_connect: the unregister callback connects a NEW callback to the signal; it must be appended
// behind the survivors and called by later calls.
//
// (2) h_selfmove: x = std::move(x) for a non-empty intrusive list (keeps its members in order), for a linked element
// (keeps its place), for signal::object over base and over unregister::base with 0..2 connections (keeps connections and
// combiner: a later call folds the same callbacks with the same combiner; no unregister callback runs).
//
// Outside the claim: throwing callbacks, destroying the signal or another connection from inside an unregister
// callback, threads.
//@property C11
#include "verif_api.h"
#include <fcppt/intrusive/base_impl.hpp>
#include <fcppt/intrusive/list_impl.hpp>
#include <fcppt/signal/auto_connection.hpp>
#include <fcppt/signal/base_impl.hpp>
#include <fcppt/signal/object_impl.hpp>
#include <fcppt/signal/unregister/base_impl.hpp>
#include <fcppt/unique_ptr_impl.hpp>
#include <cstdint>
#include <type_traits>
#include <utility>

namespace
{
constexpr unsigned NC = 4;

inline unsigned split(unsigned const x)
{
  static constexpr unsigned char identity[16] = {0, 1, 2, 3, 4, 5, 6, 7, 8, 9, 10, 11, 12, 13, 14, 15};
  return identity[x];
}

inline unsigned shape(char const *const name, unsigned const max)
{
  unsigned const x{verif_u8(name)};
  verif_assume(x <= max);
  return split(x);
}

using usig_t = fcppt::signal::object<int(int), fcppt::signal::unregister::base>;
using sig_t = fcppt::signal::object<int(int)>;

int cb_result(unsigned const k, int const arg) { return static_cast<int>(verif_uf2(2, k, static_cast<std::uint32_t>(arg))); }
int comb_result(int const state, int const v)
{
  return static_cast<int>(verif_uf2(1, static_cast<std::uint32_t>(state), static_cast<std::uint32_t>(v)));
}

// ---- shared state of one history
usig_t *g_sig;
unsigned call_log[8];
unsigned n_calls;
unsigned unregistered[NC];
// model: live connections of the signal in connection order; `dying` is removed from it BEFORE its destructor runs
unsigned m_seq[NC];
unsigned m_cnt;
bool reconnect_in_callback;
fcppt::signal::auto_connection *C[NC];
unsigned next_slot;

void m_remove(unsigned const k)
{
  unsigned j{0};
  for (unsigned i = 0; i < m_cnt; ++i)
    if (m_seq[i] != k) m_seq[j++] = m_seq[i];
  m_cnt = j;
}

// one call of the signal checked against the model
void checked_call(char const *const id_count, char const *const id_order, char const *const id_fold)
{
  int const init{static_cast<int>(verif_u32("init"))}, arg{static_cast<int>(verif_u32("arg"))};
  n_calls = 0;
  int const r{(*g_sig)(usig_t::initial_value{init}, arg)};
  int expected{init};
  for (unsigned i = 0; i < m_cnt; ++i) expected = comb_result(expected, cb_result(m_seq[i], arg));
  verif_out("calls", n_calls);
  verif_assert(n_calls == m_cnt, id_count);
  if (n_calls == m_cnt)
  {
    bool order{true};
    for (unsigned i = 0; i < m_cnt; ++i) order = order && call_log[i] == m_seq[i];
    verif_assert(order, id_order);
  }
  verif_assert(r == expected, id_fold);
}

void connect(unsigned const k);

void on_unregister(unsigned const k)
{
  ++unregistered[k];
  verif_assert(unregistered[k] == 1, "the unregister callback of a connection runs at most once");
  // the model has already dropped k: the signal must agree with it right now
  checked_call(
      "inside unregister: the nested call invokes exactly the OTHER live callbacks, once each",
      "inside unregister: the nested call runs them in connection order",
      "inside unregister: the nested call folds their results from the initial value");
  verif_assert(g_sig->empty() == (m_cnt == 0), "inside unregister: empty() is true exactly when the dying connection was the last live one");
  unsigned len{0};
  bool same{true};
  for (auto &item : g_sig->connections())
  {
    if (len > NC) break;
    // identify the connection by what its callback logs
    n_calls = 0;
    (void)item.function()(0);
    same = same && len < m_cnt && n_calls == 1 && call_log[0] == m_seq[len];
    ++len;
  }
  verif_assert(len == m_cnt && same, "inside unregister: connections() holds exactly the other live connections in order");
  if (reconnect_in_callback && next_slot < NC)
  {
    connect(next_slot);
    checked_call(
        "inside unregister: a callback connected from the unregister callback is called",
        "inside unregister: ... after the survivors",
        "inside unregister: ... and folded last");
  }
}

void connect(unsigned const k)
{
  usig_t::function f{[k](int const x)
                     {
                       if (n_calls < 8) call_log[n_calls] = k;
                       ++n_calls;
                       return cb_result(k, x);
                     }};
  C[k] = new fcppt::signal::auto_connection{g_sig->connect(std::move(f), fcppt::signal::unregister::function{[k] { on_unregister(k); }})};
  m_seq[m_cnt++] = k;
  if (k >= next_slot) next_slot = k + 1U;
}

void reentrant(bool const reconnect)
{
  unsigned const n{static_cast<unsigned>(verif_param("n"))};
  reconnect_in_callback = false;
  m_cnt = 0;
  next_slot = 0;
  n_calls = 0;
  for (unsigned k = 0; k < NC; ++k) { C[k] = nullptr; unregistered[k] = 0; }
  g_sig = new usig_t{usig_t::combiner_function{[](int const a, int const b) { return comb_result(a, b); }}};
  for (unsigned k = 0; k < n; ++k) connect(k);
  checked_call("before: all callbacks are invoked", "before: in connection order", "before: folded from the initial value");
  reconnect_in_callback = reconnect;
  // destroy the connections one by one, the solver picks which live one dies next
  unsigned const deaths{reconnect ? 1U : n};
  for (unsigned round = 0; round < deaths; ++round)
  {
    unsigned live{0};
    for (unsigned k = 0; k < NC; ++k)
      if (C[k] != nullptr) ++live;
    unsigned pick{shape("dying", live - 1U)};
    unsigned d{NC};
    for (unsigned k = 0; k < NC; ++k)
      if (C[k] != nullptr && pick-- == 0) { d = k; break; }
    verif_out("dying", d);
    m_remove(d); // a connection whose destructor is running is not alive
    delete C[d];
    C[d] = nullptr;
    verif_assert(unregistered[d] == 1, "the unregister callback has run exactly once when the connection is gone");
    checked_call("after a death: exactly the live callbacks are invoked", "after a death: in connection order", "after a death: folded from the initial value");
    verif_assert(g_sig->empty() == (m_cnt == 0), "after a death: empty() agrees with the live connections");
  }
  reconnect_in_callback = false;
  bool ok{true};
  for (unsigned k = 0; k < NC; ++k) ok = ok && unregistered[k] == ((k < next_slot && C[k] == nullptr) ? 1U : 0U);
  verif_assert(ok, "unregister callbacks: once per dead connection, never for a live one");
  // tear down: remaining connections die while the signal is alive (callbacks stay re-entrant, without reconnecting)
  for (unsigned k = 0; k < NC; ++k)
    if (C[k] != nullptr)
    {
      m_remove(k);
      delete C[k];
      C[k] = nullptr;
    }
  delete g_sig;
  g_sig = nullptr;
  verif_reach("reentrant-end");
}

// ---------------------------------------------------------------- self-move-assignment
class elem;
using list_t = fcppt::intrusive::list<elem>;
class elem : public fcppt::intrusive::base<elem>
{
public:
  explicit elem(list_t &l) : fcppt::intrusive::base<elem>{l} {}
  elem(elem &&) noexcept = default;
  elem &operator=(elem &&) noexcept = default;
  ~elem() = default;
};

template <typename X>
X &same(X &x) { return x; } // defeats -Wself-move style folding, the call is inlined

void check_list(list_t &l, elem *const *const e, unsigned const n, char const *const id)
{
  unsigned k{0};
  bool ok{true};
  for (list_t::iterator it{l.begin()}; it != l.end() && k <= NC; ++it, ++k) ok = ok && k < n && &*it == e[k];
  unsigned b{0};
  for (list_t::iterator it{l.end()}; it != l.begin() && b <= NC; ++b)
  {
    --it;
    ok = ok && b < n && &*it == e[n - 1U - b];
  }
  verif_assert(ok && k == n && b == n && l.empty() == (n == 0), id);
}

void selfmove_list()
{
  unsigned const n{static_cast<unsigned>(verif_param("n"))};
  list_t *const l{new list_t{}};
  elem *e[NC];
  for (unsigned i = 0; i < n; ++i) e[i] = new elem{*l};
  *l = std::move(same(*l));
  check_list(*l, e, n, "list = std::move(same list): keeps its members in order");
  if (n != 0)
  {
    unsigned const i{shape("i", n - 1U)};
    *e[i] = std::move(same(*e[i]));
    check_list(*l, e, n, "element = std::move(same element): keeps its place in the list");
    // an unlinked element assigned to itself stays unlinked and harmless
    e[i]->unlink();
    *e[i] = std::move(same(*e[i]));
    elem *rest[NC];
    unsigned r{0};
    for (unsigned j = 0; j < n; ++j)
      if (j != i) rest[r++] = e[j];
    check_list(*l, rest, r, "unlinked element = std::move(itself): stays out of the list");
  }
  bool const list_first{verif_u8("list_first") != 0};
  if (list_first) delete l;
  for (unsigned i = 0; i < n; ++i) delete e[i];
  if (!list_first) delete l;
  verif_reach("selfmove_list-end");
}

template <typename S>
void selfmove_signal()
{
  constexpr bool U{std::is_same_v<S, usig_t>};
  unsigned const n{static_cast<unsigned>(verif_param("n"))};
  n_calls = 0;
  static unsigned unreg[NC];
  for (unsigned k = 0; k < NC; ++k) unreg[k] = 0;
  S *const s{new S{typename S::combiner_function{[](int const a, int const b) { return comb_result(a, b); }}}};
  fcppt::signal::auto_connection *c[NC];
  for (unsigned k = 0; k < n; ++k)
  {
    typename S::function f{[k](int const x)
                           {
                             if (n_calls < 8) call_log[n_calls] = k;
                             ++n_calls;
                             return cb_result(k, x);
                           }};
    if constexpr (U) c[k] = new fcppt::signal::auto_connection{s->connect(std::move(f), fcppt::signal::unregister::function{[k] { ++unreg[k]; }})};
    else c[k] = new fcppt::signal::auto_connection{s->connect(std::move(f))};
  }
  *s = std::move(same(*s));
  int const init{static_cast<int>(verif_u32("init"))}, arg{static_cast<int>(verif_u32("arg"))};
  n_calls = 0;
  int const r{(*s)(typename S::initial_value{init}, arg)};
  int expected{init};
  for (unsigned k = 0; k < n; ++k) expected = comb_result(expected, cb_result(k, arg));
  bool order{n_calls == n};
  for (unsigned k = 0; k < n && order; ++k) order = call_log[k] == k;
  verif_assert(order, "signal = std::move(same signal): keeps its connections in order");
  verif_assert(r == expected, "signal = std::move(same signal): keeps its combiner (same fold)");
  verif_assert(s->empty() == (n == 0), "signal = std::move(same signal): empty() unchanged");
  bool quiet{true};
  for (unsigned k = 0; k < NC; ++k) quiet = quiet && unreg[k] == 0;
  verif_assert(quiet, "signal = std::move(same signal): no unregister callback runs");
  for (unsigned k = 0; k < n; ++k) delete c[k];
  if constexpr (U)
  {
    bool once{true};
    for (unsigned k = 0; k < NC; ++k) once = once && unreg[k] == (k < n ? 1U : 0U);
    verif_assert(once, "after self-move-assignment every connection still unregisters exactly once");
  }
  delete s;
  verif_reach("selfmove_signal-end");
}
}

VERIF_HARNESS(h_unregister_reentrant) { reentrant(false); }
VERIF_HARNESS(h_unregister_reentrant_connect) { reentrant(true); }
VERIF_HARNESS(h_selfmove_list) { selfmove_list(); }
VERIF_HARNESS(h_selfmove_signal) { selfmove_signal<sig_t>(); }
VERIF_HARNESS(h_selfmove_signal_unregister) { selfmove_signal<usig_t>(); }

//@harness h_unregister_reentrant param n=1..3 tier=quick leak=1
//@harness h_unregister_reentrant_connect param n=1..3 tier=quick leak=1
//@harness h_selfmove_list param n=0..3 tier=quick leak=1
//@harness h_selfmove_signal param n=0..2 tier=quick leak=1
//@harness h_selfmove_signal_unregister param n=0..2 tier=quick leak=1
