// C11 (second half) - calling a signal invokes exactly the callbacks whose connection object is still alive, once each
// in connection order, combines their results as a left fold from the initial value, and runs a connection's unregister
// callback exactly once when that connection dies.
// Real code: fcppt::signal::{object<int(int)>, base, detail::concrete_connection, unregister::base,
// unregister::detail::concrete_connection}, fcppt::function (std::function), fcppt::unique_ptr, fcppt::algorithm::fold,
// on top of fcppt::intrusive::list.
//
// Histories over a pool of 2 signal slots and 3 connection slots (signals on the heap so that "destroyed" is decided by
// the harness and stale links are use-after-free): the first operation is a driver parameter, the others and all
// operands are the solver's choice:
//   0 connect a callback        1 destroy a connection        2 call a signal (symbolic initial value and argument)
//   3 move-construct a signal   4 move-assign a signal (also onto itself)   5 destroy a signal (before its connections)
//   6 construct a signal
// Callback k returns an uninterpreted function f(k, arg) and appends k to a call log; the combiner of the signal created
// as number c is an uninterpreted function g(c, state, value) and travels with the signal when it is moved.
// After every call: log == the model's sequence of live connections of that signal, result == g(..g(g(init,f(k1)),f(k2))..).
// After every step: empty() agrees with the model; with unregister::base the unregister callback of connection k has run
// exactly once if k is dead and not at all if it is alive.  A moved-from signal is only destroyed or assigned to
// (its combiner is a moved-from std::function).
// h_signal*_safe exclude by assumption the one situation that triggers defect D1 of the intrusive list (move-assignment from
// a signal WITHOUT connections onto a signal that still has connections, see C11_intrusive_list.cpp) and must hold
// without violation; h_signal*_all explore everything.
//
// Outside the claim: void signals' own operator() (same list iteration, no fold), exceptions thrown by callbacks,
// re-entrant connect/disconnect from inside a callback, threads.
//@property C11
#include "verif_api.h"
#include <fcppt/signal/auto_connection.hpp>
#include <fcppt/signal/base_impl.hpp>
#include <fcppt/signal/object_impl.hpp>
#include <fcppt/signal/unregister/base_impl.hpp>
#include <fcppt/unique_ptr_impl.hpp>
#include <cstdint>
#include <utility>

namespace
{
constexpr unsigned NS = 2;
constexpr unsigned NC = 3;

inline unsigned split(unsigned const x)
{
  static constexpr unsigned char identity[16] = {0, 1, 2, 3, 4, 5, 6, 7, 8, 9, 10, 11, 12, 13, 14, 15};
  return identity[x];
}

inline unsigned shape(char const *const name, unsigned const max)
{
  unsigned const x{verif_u8(name)};
  verif_assume(x <= max);
  return split(x);
}

// call log and unregister counters (one harness run = one history)
unsigned call_log[8];
unsigned n_calls;
unsigned unregistered[NC];

int cb_result(unsigned const k, int const arg) { return static_cast<int>(verif_uf2(2, k, static_cast<std::uint32_t>(arg))); }
int comb_result(unsigned const c, int const state, int const v)
{
  return static_cast<int>(verif_uf3(1, c, static_cast<std::uint32_t>(state), static_cast<std::uint32_t>(v)));
}

template <bool Unregister>
struct sig_of
{
  using type = fcppt::signal::object<int(int)>;
};
template <>
struct sig_of<true>
{
  using type = fcppt::signal::object<int(int), fcppt::signal::unregister::base>;
};

template <bool Unregister>
struct world
{
  using sig_t = typename sig_of<Unregister>::type;
  sig_t *S[NS];
  fcppt::signal::auto_connection *C[NC];
  // model
  unsigned seq[NS][NC];
  unsigned cnt[NS];
  unsigned comb[NS];    // which combiner the signal carries
  bool moved_from[NS];
  bool was_connected[NC];
  unsigned next_comb;
  bool avoid;
};

template <bool U>
void m_remove(world<U> &w, unsigned const k)
{
  for (unsigned s = 0; s < NS; ++s)
  {
    unsigned j{0};
    for (unsigned i = 0; i < w.cnt[s]; ++i)
      if (w.seq[s][i] != k) w.seq[s][j++] = w.seq[s][i];
    w.cnt[s] = j;
  }
}

template <bool U>
unsigned usable_signal(world<U> const &w, char const *const name, bool const allow_moved_from)
{
  unsigned n{0};
  for (unsigned s = 0; s < NS; ++s)
    if (w.S[s] != nullptr && (allow_moved_from || !w.moved_from[s])) ++n;
  verif_assume(n != 0);
  unsigned k{shape(name, n - 1U)};
  for (unsigned s = 0; s < NS; ++s)
    if (w.S[s] != nullptr && (allow_moved_from || !w.moved_from[s]) && k-- == 0) return s;
  return NS;
}

template <bool U>
unsigned live_connection(world<U> const &w, char const *const name)
{
  unsigned n{0};
  for (unsigned c = 0; c < NC; ++c)
    if (w.C[c] != nullptr) ++n;
  verif_assume(n != 0);
  unsigned k{shape(name, n - 1U)};
  for (unsigned c = 0; c < NC; ++c)
    if (w.C[c] != nullptr && k-- == 0) return c;
  return NC;
}

template <bool U>
unsigned free_signal(world<U> const &w)
{
  for (unsigned s = 0; s < NS; ++s)
    if (w.S[s] == nullptr) return s;
  return NS;
}

template <bool U>
void new_signal(world<U> &w)
{
  using sig_t = typename world<U>::sig_t;
  unsigned const s{free_signal(w)};
  verif_assume(s < NS);
  unsigned const c{w.next_comb++};
  w.S[s] = new sig_t{typename sig_t::combiner_function{[c](int const a, int const b) { return comb_result(c, a, b); }}};
  w.cnt[s] = 0;
  w.comb[s] = c;
  w.moved_from[s] = false;
}

template <bool U>
void connect(world<U> &w, unsigned const s)
{
  using sig_t = typename world<U>::sig_t;
  unsigned k{NC};
  for (unsigned c = 0; c < NC; ++c)
    if (w.C[c] == nullptr && !w.was_connected[c]) { k = c; break; }
  verif_assume(k < NC);
  typename sig_t::function f{[k](int const x)
                             {
                               if (n_calls < 8) call_log[n_calls] = k;
                               ++n_calls;
                               return cb_result(k, x);
                             }};
  if constexpr (U)
    w.C[k] = new fcppt::signal::auto_connection{
        w.S[s]->connect(std::move(f), fcppt::signal::unregister::function{[k] { ++unregistered[k]; }})};
  else
    w.C[k] = new fcppt::signal::auto_connection{w.S[s]->connect(std::move(f))};
  w.was_connected[k] = true;
  w.seq[s][w.cnt[s]++] = k;
}

template <bool U>
void apply(world<U> &w, unsigned const op)
{
  using sig_t = typename world<U>::sig_t;
  switch (op)
  {
  case 0: connect(w, usable_signal(w, "s", false)); break;
  case 1:
  {
    unsigned const k{live_connection(w, "k")};
    delete w.C[k];
    w.C[k] = nullptr;
    m_remove(w, k);
    break;
  }
  case 2:
  {
    unsigned const s{usable_signal(w, "s", false)};
    int const init{static_cast<int>(verif_u32("init"))}, arg{static_cast<int>(verif_u32("arg"))};
    n_calls = 0;
    int const r{(*w.S[s])(typename sig_t::initial_value{init}, arg)};
    int expected{init};
    for (unsigned i = 0; i < w.cnt[s]; ++i) expected = comb_result(w.comb[s], expected, cb_result(w.seq[s][i], arg));
    verif_out("calls", n_calls);
    verif_assert(n_calls == w.cnt[s], "call: exactly the live connections of this signal are invoked, once each");
    if (n_calls == w.cnt[s])
    {
      bool order{true};
      for (unsigned i = 0; i < w.cnt[s]; ++i) order = order && call_log[i] == w.seq[s][i];
      verif_assert(order, "call: callbacks run in connection order");
    }
    verif_assert(r == expected, "call: result is the left fold of the callback results from the initial value");
    break;
  }
  case 3:
  {
    unsigned const d{free_signal(w)};
    verif_assume(d < NS);
    unsigned const s{usable_signal(w, "s", false)};
    w.S[d] = new sig_t{std::move(*w.S[s])};
    w.cnt[d] = w.cnt[s];
    for (unsigned i = 0; i < w.cnt[s]; ++i) w.seq[d][i] = w.seq[s][i];
    w.comb[d] = w.comb[s];
    w.moved_from[d] = false;
    w.cnt[s] = 0;
    w.moved_from[s] = true;
    break;
  }
  case 4:
  {
    unsigned const d{usable_signal(w, "d", true)}, s{usable_signal(w, "s", false)};
    if (d == s)
    {
      *w.S[d] = std::move(*w.S[s]); // self-move-assignment: the signal keeps connections and combiner
      break;
    }
    if (w.avoid) verif_assume(!(w.cnt[s] == 0 && w.cnt[d] != 0)); // D1
    *w.S[d] = std::move(*w.S[s]);
    w.cnt[d] = w.cnt[s];
    for (unsigned i = 0; i < w.cnt[s]; ++i) w.seq[d][i] = w.seq[s][i];
    w.comb[d] = w.comb[s];
    w.moved_from[d] = false;
    w.cnt[s] = 0;
    w.moved_from[s] = true;
    break;
  }
  case 6: new_signal(w); break;
  default:
  {
    unsigned const s{usable_signal(w, "s", true)};
    delete w.S[s];
    w.S[s] = nullptr;
    w.cnt[s] = 0;
    break;
  }
  }
}

template <bool U>
void check(world<U> &w)
{
  for (unsigned s = 0; s < NS; ++s)
    if (w.S[s] != nullptr) verif_assert(w.S[s]->empty() == (w.cnt[s] == 0), "empty() is true exactly when no connection of the signal is alive");
  if constexpr (U)
  {
    bool ok{true};
    for (unsigned k = 0; k < NC; ++k)
      ok = ok && unregistered[k] == ((w.was_connected[k] && w.C[k] == nullptr) ? 1U : 0U);
    verif_assert(ok, "the unregister callback has run exactly once for every dead connection and never for a live one");
  }
}

template <bool U>
void history(bool const avoid)
{
  world<U> w;
  w.avoid = avoid;
  for (unsigned s = 0; s < NS; ++s) { w.S[s] = nullptr; w.cnt[s] = 0; w.moved_from[s] = false; }
  for (unsigned k = 0; k < NC; ++k) { w.C[k] = nullptr; w.was_connected[k] = false; unregistered[k] = 0; }
  w.next_comb = 0;
  n_calls = 0;
  unsigned const init{static_cast<unsigned>(verif_param("init"))}, steps{static_cast<unsigned>(verif_param("steps"))};
  new_signal(w);
  if (init >= 1) connect(w, 0);
  if (init >= 2) connect(w, 0);
  if (init >= 3) new_signal(w);
  check(w);
  apply(w, static_cast<unsigned>(verif_param("op1")));
  check(w);
  for (unsigned i = 1; i < steps; ++i)
  {
    apply(w, shape("op", 6U));
    check(w);
  }
  // one final call of every usable signal, then tear down in either order
  for (unsigned s = 0; s < NS; ++s)
    if (w.S[s] != nullptr && !w.moved_from[s])
    {
      int const fi{static_cast<int>(verif_u32("final_init"))}, fa{static_cast<int>(verif_u32("final_arg"))};
      n_calls = 0;
      int const r{(*w.S[s])(typename world<U>::sig_t::initial_value{fi}, fa)};
      int expected{fi};
      for (unsigned i = 0; i < w.cnt[s]; ++i) expected = comb_result(w.comb[s], expected, cb_result(w.seq[s][i], fa));
      verif_assert(n_calls == w.cnt[s] && r == expected, "final call: live callbacks only, folded from the initial value");
    }
  bool const signals_first{verif_u8("signals_first") != 0};
  if (signals_first)
    for (unsigned s = 0; s < NS; ++s) { delete w.S[s]; w.S[s] = nullptr; }
  for (unsigned k = 0; k < NC; ++k) { delete w.C[k]; w.C[k] = nullptr; }
  for (unsigned s = 0; s < NS; ++s) { delete w.S[s]; w.S[s] = nullptr; }
  check(w);
  verif_reach("history-end");
}
}

VERIF_HARNESS(h_signal_all) { history<false>(false); }
VERIF_HARNESS(h_signal_safe) { history<false>(true); }
VERIF_HARNESS(h_signal_unregister_all) { history<true>(false); }
VERIF_HARNESS(h_signal_unregister_safe) { history<true>(true); }

//@harness h_signal_{V} for V in all,safe param init=0..3 param steps=1..3 param op1=0..6 if ((init>0)|(op1!=1))&((init==3)|(op1!=4))&((init<3)|((op1!=3)&(op1!=6))) tier=quick leak=1 paths=200000
//@harness h_signal_unregister_{V} for V in all,safe param init=0..3 param steps=1..2 param op1=0..6 if ((init>0)|(op1!=1))&((init==3)|(op1!=4))&((init<3)|((op1!=3)&(op1!=6))) tier=quick leak=1 paths=200000
//@harness h_signal_unregister_{V} for V in all,safe param init=0..3 param steps=3 param op1=0..6 if ((init>0)|(op1!=1))&((init==3)|(op1!=4))&((init<3)|((op1!=3)&(op1!=6))) tier=thorough leak=1 paths=200000
//@harness h_signal_safe param init=0..3 param steps=4 param op1=0..6 if ((init>0)|(op1!=1))&((init==3)|(op1!=4))&((init<3)|((op1!=3)&(op1!=6))) tier=quick leak=1 paths=400000
//@harness h_signal_safe param init=0..3 param steps=5 param op1=0..6 if ((init>0)|(op1!=1))&((init==3)|(op1!=4))&((init<3)|((op1!=3)&(op1!=6))) tier=thorough leak=1 paths=1000000 wall=1700
