// Contract model of the few std::basic_istream<char> members fcppt::parse::detail::stream and
// fcppt::parse::detail::consume_remaining use, over a text buffer owned by the harness.
//
//   ENGINE build : the istream object is raw storage holding exactly what the inlined accessors read: a fake vptr (only
//                  the virtual-base offset vptr[-3] is read, to convert istream& -> basic_ios&) and the ios_base state
//                  word _M_streambuf_state (bad()/eof()/fail()/rdstate() are inline loads of it).  The out-of-line
//                  members get / tellg / seekg / clear (extern templates of libstdc++, so they stay calls) are
//                  redirected (//@stub) to the c12_* functions below, which implement the standard's / libstdc++'s
//                  documented behaviour on the model state.
//   NATIVE build : a REAL std::istream over a 30-line std::streambuf on the same text.  The driver replays sampled
//                  paths and every counterexample natively, which cross-checks this contract against libstdc++.
// Not modelled: exceptions() masks (default: none), tied streams, locales, wide streams.
#ifndef VERIF_C12_ISTREAM_MODEL_HPP
#define VERIF_C12_ISTREAM_MODEL_HPP
#include "verif_api.h"
#include <fcppt/optional/object_impl.hpp>
#include <ios>
#include <istream>
#include <sstream>
#include <streambuf>
#include <string>
#include <cwchar>

namespace c12
{
constexpr unsigned max_text = 8;
template <typename Ch>
struct model_state
{
  Ch text[max_text];
  long n;
  long off;
  unsigned gets, tells, seeks;
  unsigned *state; // -> the iostate word inside the istream object (engine build)
  unsigned native_dummy;
  bool noseek; // forward-only source: rdbuf()->pubseekoff / pubseekpos fail (the default of std::basic_streambuf)
};
template <typename Ch>
inline model_state<Ch> msv{};
inline model_state<char> &ms = msv<char>; // the narrow model (C02_entry / C12 char harnesses)

constexpr unsigned goodbit = 0, badbit = 1, eofbit = 2, failbit = 4; // libstdc++ _Ios_Iostate values (static_asserted below)
static_assert(std::ios_base::badbit == 1 && std::ios_base::eofbit == 2 && std::ios_base::failbit == 4);

#ifdef VERIF_NATIVE
template <typename Ch>
class text_buf : public std::basic_streambuf<Ch>
{
  using base = std::basic_streambuf<Ch>;
  using typename base::int_type;
  using typename base::off_type;
  using typename base::pos_type;
  using typename base::traits_type;

protected:
  int_type underflow() override { return msv<Ch>.off < msv<Ch>.n ? traits_type::to_int_type(msv<Ch>.text[msv<Ch>.off]) : traits_type::eof(); }
  int_type uflow() override { return msv<Ch>.off < msv<Ch>.n ? traits_type::to_int_type(msv<Ch>.text[msv<Ch>.off++]) : traits_type::eof(); }
  pos_type seekoff(off_type const o, std::ios_base::seekdir const dir, std::ios_base::openmode) override
  {
    off_type const base_off = dir == std::ios_base::beg ? 0 : (dir == std::ios_base::cur ? msv<Ch>.off : msv<Ch>.n);
    off_type const np = base_off + o;
    if (msv<Ch>.noseek || np < 0 || np > msv<Ch>.n)
      return pos_type(off_type(-1));
    msv<Ch>.off = np;
    return pos_type(np);
  }
  pos_type seekpos(pos_type const p, std::ios_base::openmode const m) override { return seekoff(off_type(p), std::ios_base::beg, m); }
};
template <typename Ch>
class basic_holder
{
public:
  basic_holder() : buf_{}, is_{&buf_}
  {
    is_.unsetf(std::ios_base::skipws);
    msv<Ch>.state = &msv<Ch>.native_dummy;
    // the layout the engine-side object relies on: virtual base at +16, state word at +32 inside ios_base
    is_.clear(std::ios_base::failbit);
    std::ios_base &base = is_;
    bool const layout_ok =
        reinterpret_cast<char *>(&base) - reinterpret_cast<char *>(&is_) == 16 &&
        *reinterpret_cast<unsigned *>(reinterpret_cast<char *>(&base) + 32) == 4U;
    is_.clear();
    bool const layout_ok2 = *reinterpret_cast<unsigned *>(reinterpret_cast<char *>(&base) + 32) == 0U;
    verif_assert(layout_ok && layout_ok2, "libstdc++ istream layout assumed by the engine-side model");
  }
  std::basic_istream<Ch> &get() { return is_; }
  void set_state(unsigned const s) { is_.clear(static_cast<std::ios_base::iostate>(s)); }
  unsigned state() { return static_cast<unsigned>(is_.rdstate()); }

private:
  text_buf<Ch> buf_;
  std::basic_istream<Ch> is_;
};
#else
template <typename Ch>
class basic_holder
{
public:
  basic_holder()
  {
    // Itanium ABI: vptr[-3] (bytes -24..-17) = offset of the virtual base basic_ios inside basic_istream (16:
    // vptr + _M_gcount precede it)
    vt_[0] = 16;
    vt_[1] = 0;
    vt_[2] = 0;
    vt_[3] = 0;
    // every other byte of the fake object is a defined zero: code that reaches into istream internals the model does
    // not provide (e.g. a std::getline inlined into the code under test) then runs into null facets / buffers and ends
    // in a reported throw or null dereference instead of an "uninitialised read" the driver only lists
    for (unsigned i = 0; i < sizeof(raw_); ++i)
      raw_[i] = 0;
    *reinterpret_cast<long **>(raw_) = &vt_[3];
    // libstdc++ ios_base: vptr, _M_precision, _M_width (8 each), _M_flags, _M_exception (4 each), _M_streambuf_state
    // at offset 32 (the native build asserts this layout against the real class, see the other holder)
    msv<Ch>.state = reinterpret_cast<unsigned *>(raw_ + 16 + 32);
    *reinterpret_cast<unsigned *>(raw_ + 16 + 28) = 0; // _M_exception
    *msv<Ch>.state = 0;
  }
  std::basic_istream<Ch> &get() { return *reinterpret_cast<std::basic_istream<Ch> *>(raw_); }
  void set_state(unsigned const s) { *msv<Ch>.state = s; }
  unsigned state() { return *msv<Ch>.state; }

private:
  long vt_[4];
  alignas(16) unsigned char raw_[sizeof(std::basic_istream<Ch>)];
};
#endif
using holder = basic_holder<char>;

template <typename Ch>
void set_text_symbolic_ch(unsigned const n)
{
  msv<Ch>.n = n;
  msv<Ch>.off = 0;
  msv<Ch>.gets = msv<Ch>.tells = msv<Ch>.seeks = 0;
  msv<Ch>.noseek = false;
  for (unsigned i = 0; i < max_text; ++i)
  {
    // input names are built at run time (a constant table of strings becomes a relative lookup table in the IR)
    char name[3] = {'t', static_cast<char>('0' + i), 0};
    if constexpr (sizeof(Ch) == 1)
      msv<Ch>.text[i] = i < n ? static_cast<Ch>(verif_u8(name)) : Ch{};
    else
    {
      msv<Ch>.text[i] = i < n ? static_cast<Ch>(verif_u32(name)) : Ch{};
      // precondition: the text consists of characters.  char_traits<wchar_t>::eof() (WEOF = 0xffffffff) is by
      // definition not one: an istream cannot distinguish wchar_t(-1) from end of input (fcppt::io::get documents
      // "Returns an empty optional for end-of-file").  For char, to_int_type goes through unsigned char, so all 256
      // values are characters.
      verif_assume(std::char_traits<Ch>::to_int_type(msv<Ch>.text[i]) != std::char_traits<Ch>::eof());
    }
  }
}
inline void set_text_symbolic(unsigned const n) { set_text_symbolic_ch<char>(n); }

// ---------------------------------------------------------------- the contract (engine only; natively never called)
// int_type basic_istream::get(): sentry(noskipws): if !good() -> setstate(failbit), no extraction.  Otherwise
// sbumpc(); at end of the sequence -> setstate(eofbit | failbit) and Traits::eof() is returned.
template <typename Ch>
typename std::char_traits<Ch>::int_type model_get()
{
  auto &m = msv<Ch>;
  ++m.gets;
  if (*m.state != goodbit)
  {
    *m.state |= failbit;
    return std::char_traits<Ch>::eof();
  }
  if (m.off >= m.n)
  {
    *m.state |= eofbit | failbit;
    return std::char_traits<Ch>::eof();
  }
  return std::char_traits<Ch>::to_int_type(m.text[m.off++]);
}
// pos_type tellg(): sentry; "if fail() returns pos_type(-1), otherwise rdbuf()->pubseekoff(0, cur, in)"
template <typename Ch>
std::streampos model_tellg()
{
  auto &m = msv<Ch>;
  ++m.tells;
  if (*m.state != goodbit)
  {
    *m.state |= failbit;
    return std::streampos(std::streamoff(-1));
  }
  // [istream.unformatted] tellg: "if fail() != false, returns pos_type(-1) ... Otherwise, returns
  // rdbuf()->pubseekoff(0, cur, in)": a buffer that cannot seek answers pos_type(-1) and NO state bit is set
  if (m.noseek)
    return std::streampos(std::streamoff(-1));
  return std::streampos(std::streamoff(m.off));
}
// seekg(pos): clears eofbit first (C++11 / N3168); sentry; if !fail() rdbuf()->pubseekpos(pos, in), failure -> failbit
template <typename Ch>
void model_seekg(std::streampos const p)
{
  auto &m = msv<Ch>;
  ++m.seeks;
  *m.state &= ~eofbit;
  if (*m.state != goodbit)
  {
    *m.state |= failbit;
    return;
  }
  long const np = static_cast<long>(std::streamoff(p));
  if (m.noseek || np < 0 || np > m.n)
    *m.state |= failbit;
  else
    m.off = np;
}
// seekg(off, dir): same protocol with rdbuf()->pubseekoff(off, dir, in); for the in-memory sources modelled here the
// target is base(dir) + off.  (Not called by the pinned code; present so that an equivalent reformulation of
// set_position is judged on its behaviour instead of ending as "unmodelled external".)
template <typename Ch>
void model_seekg_off(std::streamoff const off, std::ios_base::seekdir const dir)
{
  auto &m = msv<Ch>;
  ++m.seeks;
  *m.state &= ~eofbit;
  if (*m.state != goodbit)
  {
    *m.state |= failbit;
    return;
  }
  long const base{dir == std::ios_base::beg ? 0L : dir == std::ios_base::cur ? static_cast<long>(m.off) : static_cast<long>(m.n)};
  long np{0};
  bool const ovf{__builtin_add_overflow(base, static_cast<long>(off), &np)};
  if (m.noseek || ovf || np < 0 || np > m.n)
    *m.state |= failbit;
  else
    m.off = np;
}
}

extern "C" std::istream &c12_seekg_off(std::istream *const self, std::streamoff const off, std::ios_base::seekdir const dir)
{
  c12::model_seekg_off<char>(off, dir);
  return *self;
}
extern "C" std::wistream &c12_wseekg_off(std::wistream *const self, std::streamoff const off, std::ios_base::seekdir const dir)
{
  c12::model_seekg_off<wchar_t>(off, dir);
  return *self;
}
extern "C" int c12_get(std::istream *) { return c12::model_get<char>(); }
extern "C" std::streampos c12_tellg(std::istream *) { return c12::model_tellg<char>(); }
extern "C" std::istream &c12_seekg(std::istream *const self, std::streampos const p)
{
  c12::model_seekg<char>(p);
  return *self;
}
// basic_ios::clear(state): rdbuf() != 0, exceptions() == goodbit
extern "C" void c12_clear(std::basic_ios<char> *, std::ios_base::iostate const s) { *c12::msv<char>.state = static_cast<unsigned>(s); }
extern "C" std::wint_t c12_wget(std::wistream *) { return c12::model_get<wchar_t>(); }
extern "C" std::wstreampos c12_wtellg(std::wistream *) { return c12::model_tellg<wchar_t>(); }
extern "C" std::wistream &c12_wseekg(std::wistream *const self, std::wstreampos const p)
{
  c12::model_seekg<wchar_t>(p);
  return *self;
}
extern "C" void c12_wclear(std::basic_ios<wchar_t> *, std::ios_base::iostate const s) { *c12::msv<wchar_t>.state = static_cast<unsigned>(s); }
// fcppt::io::stream_to_string(istream&): "Reads the contents of a stream into a string": output << input.rdbuf()
// drains the BUFFER (the istream's state bits are not touched); empty optional if input.fail()
namespace c12
{
template <typename Ch>
fcppt::optional::object<std::basic_string<Ch>> model_stream_to_string()
{
  auto &m = msv<Ch>;
  std::basic_string<Ch> rest{};
  while (m.off < m.n)
    rest.push_back(m.text[m.off++]);
  return (*m.state & (failbit | badbit)) != 0 ? fcppt::optional::object<std::basic_string<Ch>>{}
                                              : fcppt::optional::object<std::basic_string<Ch>>{std::move(rest)};
}
// std::basic_istringstream<Ch>(basic_string&&, openmode) / ~basic_istringstream(): extern templates of libstdc++, so the
// calls inside the REAL parse_string / phrase_parse_string / grammar_parse_string survive and are redirected here
// (engine only).  The constructor lays out, inside the caller's own storage for the istringstream, exactly what the
// inlined accessors read - the vptr (for the virtual-base offset), ios_base::_M_flags (unsetf(skipws)), _M_exception,
// _M_streambuf_state - and loads the string into the model text.  Layout of libstdc++'s basic_istringstream: basic_istream
// part (vptr, _M_gcount: 16 bytes), basic_stringbuf (104 bytes), then the virtual base basic_ios at 120; the native
// build asserts these offsets against the real class (check_istringstream_layout).
constexpr long iss_vbase = 120;
// stand-in for the vtables of basic_istringstream: only vptr[-3], the virtual-base offset, is ever read
inline long iss_vt[4] = {iss_vbase, 0, 0, 0};
template <typename Ch>
void model_iss_ctor(void *const self, std::basic_string<Ch> &&s)
{
  unsigned char *const raw = static_cast<unsigned char *>(self);
  for (unsigned i = 0; i < sizeof(std::basic_istringstream<Ch>); ++i)
    raw[i] = 0; // see basic_holder: no uninitialised bytes in the fake object
  *reinterpret_cast<long **>(raw) = &iss_vt[3];
  // the inlined destructor destroys the stringbuf's std::string (at 16 + 72): give it the empty small-string state
  *reinterpret_cast<unsigned char **>(raw + 88) = raw + 104;
  *reinterpret_cast<unsigned long *>(raw + 96) = 0;
  raw[104] = 0;
  *reinterpret_cast<void **>(raw + 72) = nullptr; // the streambuf's locale (destroyed by the opaque-locale model)
  *reinterpret_cast<unsigned *>(raw + iss_vbase + 24) = static_cast<unsigned>(std::ios_base::skipws | std::ios_base::dec); // _M_flags
  *reinterpret_cast<unsigned *>(raw + iss_vbase + 28) = 0; // _M_exception
  auto &m = msv<Ch>;
  m.state = reinterpret_cast<unsigned *>(raw + iss_vbase + 32);
  *m.state = 0;
  m.n = static_cast<long>(s.size());
  m.off = 0;
  m.gets = m.tells = m.seeks = 0;
  m.noseek = false;
  verif_assert(s.size() <= max_text, "model text capacity");
  for (unsigned i = 0; i < max_text; ++i)
    m.text[i] = i < s.size() ? s[i] : Ch{};
}
#ifdef VERIF_NATIVE
template <typename Ch>
void check_istringstream_layout()
{
  std::basic_istringstream<Ch> x{};
  std::ios_base &base = x;
  std::basic_istream<Ch> &is = x;
  x.clear(std::ios_base::failbit);
  bool ok = reinterpret_cast<char *>(&base) - reinterpret_cast<char *>(&x) == iss_vbase &&
            reinterpret_cast<char *>(&is) == reinterpret_cast<char *>(&x) &&
            *reinterpret_cast<unsigned *>(reinterpret_cast<char *>(&base) + 32) == 4U;
  x.clear();
  x.unsetf(std::ios_base::skipws);
  ok = ok && *reinterpret_cast<unsigned *>(reinterpret_cast<char *>(&base) + 24) == static_cast<unsigned>(x.flags()) && (x.flags() & std::ios_base::skipws) == 0;
  verif_assert(ok, "libstdc++ istringstream layout assumed by the engine-side model");
}
#else
template <typename Ch>
void check_istringstream_layout()
{
}
#endif
}
extern "C" fcppt::optional::object<std::string> c12_stream_to_string(std::istream &) { return c12::model_stream_to_string<char>(); }
extern "C" fcppt::optional::object<std::wstring> c12_wstream_to_string(std::wistream &) { return c12::model_stream_to_string<wchar_t>(); }
extern "C" void c12_iss_ctor(void *const self, std::string &&s, std::ios_base::openmode) { c12::model_iss_ctor<char>(self, std::move(s)); }
extern "C" void c12_wiss_ctor(void *const self, std::wstring &&s, std::ios_base::openmode) { c12::model_iss_ctor<wchar_t>(self, std::move(s)); }
extern "C" void c12_iss_dtor(void *) {}
extern "C" void c12_ios_base_dtor(void *) {} // std::ios_base::~ios_base(): callbacks / locale of the fake object: nothing to do
// the VTT of basic_istringstream<char/wchar_t> (a data symbol of libstdc++ read by the inlined destructor): every entry
// is a vtable pointer whose only used slot is the virtual-base offset
extern "C" {
long *c12_iss_vtt[4] = {&c12::iss_vt[3], &c12::iss_vt[3], &c12::iss_vt[3], &c12::iss_vt[3]};
}
#endif
