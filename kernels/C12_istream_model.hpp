// Contract model of the few std::basic_istream<char> members fcppt::parse::detail::stream and
// fcppt::parse::detail::consume_remaining use, over a text buffer owned by the harness.
//
//   ENGINE build : the istream object is raw storage holding exactly what the inlined accessors read: a fake vptr (only
//                  the virtual-base offset vptr[-3] is read, to convert istream& -> basic_ios&) and the ios_base state
//                  word _M_streambuf_state (bad()/eof()/fail()/rdstate() are inline loads of it).  The out-of-line
//                  members get / tellg / seekg / clear (extern templates of libstdc++, so they stay calls) are
//                  redirected (//@stub) to the c12_* functions below, which implement the standard's / libstdc++'s
//                  documented behaviour on the model state.
//   NATIVE build : a REAL std::istream over a 30-line std::streambuf on the same text.  The driver replays sampled
//                  paths and every counterexample natively, which cross-checks this contract against libstdc++.
// Not modelled: exceptions() masks (default: none), tied streams, locales, wide streams.
#ifndef VERIF_C12_ISTREAM_MODEL_HPP
#define VERIF_C12_ISTREAM_MODEL_HPP
#include "verif_api.h"
#include <fcppt/optional/object_impl.hpp>
#include <ios>
#include <istream>
#include <streambuf>
#include <string>

namespace c12
{
constexpr unsigned max_text = 8;
struct model_state
{
  char text[max_text];
  long n;
  long off;
  unsigned gets, tells, seeks;
  unsigned *state; // -> the iostate word inside the istream object (engine build)
  unsigned native_dummy;
};
inline model_state ms;
inline unsigned &st_word() { return *ms.state; }

constexpr unsigned goodbit = 0, badbit = 1, eofbit = 2, failbit = 4; // libstdc++ _Ios_Iostate values (static_asserted below)
static_assert(std::ios_base::badbit == 1 && std::ios_base::eofbit == 2 && std::ios_base::failbit == 4);

#ifdef VERIF_NATIVE
class text_buf : public std::streambuf
{
protected:
  int_type underflow() override { return ms.off < ms.n ? traits_type::to_int_type(ms.text[ms.off]) : traits_type::eof(); }
  int_type uflow() override { return ms.off < ms.n ? traits_type::to_int_type(ms.text[ms.off++]) : traits_type::eof(); }
  pos_type seekoff(off_type const o, std::ios_base::seekdir const dir, std::ios_base::openmode) override
  {
    off_type const base = dir == std::ios_base::beg ? 0 : (dir == std::ios_base::cur ? ms.off : ms.n);
    off_type const np = base + o;
    if (np < 0 || np > ms.n)
      return pos_type(off_type(-1));
    ms.off = np;
    return pos_type(np);
  }
  pos_type seekpos(pos_type const p, std::ios_base::openmode const m) override { return seekoff(off_type(p), std::ios_base::beg, m); }
};
class holder
{
public:
  holder() : buf_{}, is_{&buf_}
  {
    is_.unsetf(std::ios_base::skipws);
    ms.state = &ms.native_dummy;
    // the layout the engine-side object relies on: virtual base at +16, state word at +32 inside ios_base
    is_.clear(std::ios_base::failbit);
    std::ios_base &base = is_;
    bool const layout_ok =
        reinterpret_cast<char *>(&base) - reinterpret_cast<char *>(&is_) == 16 &&
        *reinterpret_cast<unsigned *>(reinterpret_cast<char *>(&base) + 32) == 4U;
    is_.clear();
    bool const layout_ok2 = *reinterpret_cast<unsigned *>(reinterpret_cast<char *>(&base) + 32) == 0U;
    verif_assert(layout_ok && layout_ok2, "libstdc++ istream layout assumed by the engine-side model");
  }
  std::istream &get() { return is_; }
  void set_state(unsigned const s) { is_.clear(static_cast<std::ios_base::iostate>(s)); }
  unsigned state() { return static_cast<unsigned>(is_.rdstate()); }

private:
  text_buf buf_;
  std::istream is_;
};
#else
class holder
{
public:
  holder()
  {
    // Itanium ABI: vptr[-3] (bytes -24..-17) = offset of the virtual base basic_ios inside basic_istream (16:
    // vptr + _M_gcount precede it)
    vt_[0] = 16;
    vt_[1] = 0;
    vt_[2] = 0;
    vt_[3] = 0;
    *reinterpret_cast<long **>(raw_) = &vt_[3];
    // libstdc++ ios_base: vptr, _M_precision, _M_width (8 each), _M_flags, _M_exception (4 each), _M_streambuf_state
    // at offset 32 (the native build asserts this layout against the real class, see the other holder)
    ms.state = reinterpret_cast<unsigned *>(raw_ + 16 + 32);
    *reinterpret_cast<unsigned *>(raw_ + 16 + 28) = 0; // _M_exception
    *ms.state = 0;
  }
  std::istream &get() { return *reinterpret_cast<std::istream *>(raw_); }
  void set_state(unsigned const s) { *ms.state = s; }
  unsigned state() { return *ms.state; }

private:
  long vt_[4];
  alignas(16) unsigned char raw_[sizeof(std::istream)];
};
#endif

inline void set_text_symbolic(unsigned const n)
{
  ms.n = n;
  ms.off = 0;
  ms.gets = ms.tells = ms.seeks = 0;
  for (unsigned i = 0; i < max_text; ++i)
  {
    // input names are built at run time (a constant table of strings becomes a relative lookup table in the IR)
    char name[3] = {'t', static_cast<char>('0' + i), 0};
    ms.text[i] = i < n ? static_cast<char>(verif_u8(name)) : 0;
  }
}
}

// ---------------------------------------------------------------- the contract (engine only; natively never called)
// int_type basic_istream::get(): sentry(noskipws): if !good() -> setstate(failbit), no extraction.  Otherwise
// sbumpc(); at end of the sequence -> setstate(eofbit | failbit) and Traits::eof() is returned.
extern "C" int c12_get(std::istream *)
{
  using namespace c12;
  ++ms.gets;
  if (st_word() != goodbit)
  {
    st_word() |= failbit;
    return std::char_traits<char>::eof();
  }
  if (ms.off >= ms.n)
  {
    st_word() |= eofbit | failbit;
    return std::char_traits<char>::eof();
  }
  return std::char_traits<char>::to_int_type(ms.text[ms.off++]);
}
// pos_type tellg(): sentry; "if fail() returns pos_type(-1), otherwise rdbuf()->pubseekoff(0, cur, in)"
extern "C" std::streampos c12_tellg(std::istream *)
{
  using namespace c12;
  ++ms.tells;
  if (st_word() != goodbit)
  {
    st_word() |= failbit;
    return std::streampos(std::streamoff(-1));
  }
  return std::streampos(std::streamoff(ms.off));
}
// seekg(pos): clears eofbit first (C++11 / N3168); sentry; if !fail() rdbuf()->pubseekpos(pos, in), failure -> failbit
extern "C" std::istream &c12_seekg(std::istream *const self, std::streampos const p)
{
  using namespace c12;
  ++ms.seeks;
  st_word() &= ~eofbit;
  if (st_word() != goodbit)
  {
    st_word() |= failbit;
    return *self;
  }
  long const np = static_cast<long>(std::streamoff(p));
  if (np < 0 || np > ms.n)
    st_word() |= failbit;
  else
    ms.off = np;
  return *self;
}
// basic_ios::clear(state): rdbuf() != 0, exceptions() == goodbit
extern "C" void c12_clear(std::basic_ios<char> *, std::ios_base::iostate const s) { c12::st_word() = static_cast<unsigned>(s); }
// fcppt::io::stream_to_string(istream&): "Reads the contents of a stream into a string": output << input.rdbuf()
// drains the BUFFER (the istream's state bits are not touched); empty optional if input.fail()
extern "C" fcppt::optional::object<std::string> c12_stream_to_string(std::istream &)
{
  using namespace c12;
  std::string rest{};
  while (ms.off < ms.n)
    rest.push_back(ms.text[ms.off++]);
  return (st_word() & (failbit | badbit)) != 0 ? fcppt::optional::object<std::string>{} : fcppt::optional::object<std::string>{std::move(rest)};
}
#endif
