// C12 - fcppt::parse::detail::stream<Ch> (Ch = char and wchar_t) reports true line/column and rewinds exactly.
// Real code: parse::detail::stream<Ch>::{get_char,get_position,set_position}, detail::check_bad, io::get,
// parse::get_char / get_char_error / get_position / set_position, position, location, and the position handed to
// detail::expected by basic_literal / basic_char_set / skipper::basic_literal.
// The wrapped std::istream is the contract model of C12_istream_model.hpp (engine) / a real std::istream over a small
// streambuf (native replay), see that file.
//
// Symbolic: every text byte (the solver finds the newlines), the whole history of operations (which operation, which
// slot), the initial iostate in h_state.  Reference (from the property statement): offset = number of characters read
// so far on the current "branch", line = 1 + number of '\n' in text[0, offset), column = 1 + distance to the preceding
// '\n' (or to the start of the text).
//
// Outside the claim: libstdc++'s real basic_istringstream/stringbuf (replaced by the documented
// contract of get/tellg/seekg/clear + the state word read by bad/eof/fail; the native replays run a real
// std::basic_istream over a small streambuf); istreams with an exceptions() mask or a tied stream; the wide character
// WEOF (wchar_t(-1)), which no istream can deliver as a character (assumed absent from wide texts); the TEXT of error messages ("Line l:c: Expected ..." formatting through
// ostringstream) - what is checked instead is the position/location value passed to detail::expected; texts longer
// than the bounds of the //@harness lines (histories: text <= 4 quick / 6 thorough, k <= 6 / 7 operations; plain scans
// up to 8); random long texts (no random testing here).
//@property C12
//@stub ^_ZNSi3getEv$ c12_get
//@stub ^_ZNSi5tellgEv$ c12_tellg
//@stub ^_ZNSi5seekgESt4fposI11__mbstate_tE$ c12_seekg
//@stub ^_ZNSi5seekgElSt12_Ios_Seekdir$ c12_seekg_off
//@stub ^_ZNSt13basic_istreamIwSt11char_traitsIwEE5seekgElSt12_Ios_Seekdir$ c12_wseekg_off
//@stub ^_ZNSt9basic_iosIcSt11char_traitsIcEE5clearESt12_Ios_Iostate$ c12_clear
//@stub ^_ZNSt13basic_istreamIwSt11char_traitsIwEE3getEv$ c12_wget
//@stub ^_ZNSt13basic_istreamIwSt11char_traitsIwEE5tellgEv$ c12_wtellg
//@stub ^_ZNSt13basic_istreamIwSt11char_traitsIwEE5seekgESt4fposI11__mbstate_tE$ c12_wseekg
//@stub ^_ZNSt9basic_iosIwSt11char_traitsIwEE5clearESt12_Ios_Iostate$ c12_wclear
//@stub ^_ZN5fcppt5parse6detail8expectedIwEE c12_wexpected
//@stub ^_ZN5fcppt23output_to_string_localeI.*9container6detail6outputISt13unordered_setIc c12_set_text
//@stub ^_ZN5fcppt23output_to_string_localeI.*9container6detail6outputISt13unordered_setIw c12_wset_text
//@stub ^_ZN5fcppt5parse6detail8expectedIcEENS0_5errorIT_EENS0_8positionIS4_EEONSt7__cxx1112basic_stringIS4_St11char_traitsIS4_ESaIS4_EEES4_$ c12_expected
#include "C12_istream_model.hpp"
#include <fcppt/make_ref.hpp>
#include <fcppt/reference_impl.hpp>
#include <fcppt/reference_to_base.hpp>
#include <fcppt/either/object_impl.hpp>
#include <fcppt/optional/object_impl.hpp>
#include <fcppt/parse/basic_char.hpp>
#include <fcppt/parse/basic_literal.hpp>
#include <fcppt/parse/basic_stream_impl.hpp>
#include <fcppt/parse/column.hpp>
#include <fcppt/parse/error.hpp>
#include <fcppt/parse/get_char.hpp>
#include <fcppt/parse/get_char_error.hpp>
#include <fcppt/parse/get_position.hpp>
#include <fcppt/parse/line.hpp>
#include <fcppt/parse/location.hpp>
#include <fcppt/parse/position.hpp>
#include <fcppt/parse/set_position.hpp>
#include <fcppt/parse/detail/expected.hpp>
#include <fcppt/parse/detail/stream_impl.hpp>
#include <fcppt/parse/basic_char_set.hpp>
#include <fcppt/parse/blank.hpp>
#include <fcppt/parse/blank_set.hpp>
#include <fcppt/parse/digits.hpp>
#include <fcppt/parse/space.hpp>
#include <fcppt/parse/space_set.hpp>
#include <fcppt/container/output.hpp>
#include <fcppt/parse/skipper/basic_char_set.hpp>
#include <fcppt/parse/skipper/basic_literal.hpp>
#include <unordered_set>
#include <fcppt/parse/skipper/epsilon.hpp>
#include <fcppt/parse/skipper/run.hpp>
#include "libs/core/src/insert_extract_locale.cpp"

namespace
{
namespace p = fcppt::parse;
using c12::msv;
using u64 = std::uint64_t;

struct loc
{
  u64 line, column;
};
// the definition from the property statement
template <typename Ch>
loc ref_loc(long const off)
{
  loc r{1, 1};
  for (long i = 0; i < off; ++i)
  {
    if (msv<Ch>.text[i] == Ch('\n'))
    {
      ++r.line;
      r.column = 1;
    }
    else
      ++r.column;
  }
  return r;
}
// the same, in closed form (count / distance), as a cross-check of ref_loc itself
template <typename Ch>
loc ref_loc_closed(long const off)
{
  u64 newlines = 0;
  long last = -1;
  for (long i = 0; i < off; ++i)
    if (msv<Ch>.text[i] == Ch('\n'))
    {
      ++newlines;
      last = i;
    }
  return loc{1 + newlines, static_cast<u64>(off - last)};
}
u64 code(char const c) { return static_cast<unsigned char>(c); }
u64 code(wchar_t const c) { return static_cast<u64>(static_cast<long>(c)) & 0xffffffffU; }

// what detail::expected was given (engine: the stubs below; natively the real function formats it into the text)
struct expected_log
{
  unsigned calls;
  long pos;
  bool has_loc;
  u64 line, column;
  u64 got;
};
expected_log elog;

template <typename Ch>
void log_expected(p::position<Ch> const &pos, Ch const got)
{
  ++elog.calls;
  elog.pos = static_cast<long>(std::streamoff(pos.pos()));
  elog.has_loc = pos.location().has_value();
  if (elog.has_loc)
  {
    elog.line = pos.location().get_unsafe().line().get();
    elog.column = pos.location().get_unsafe().column().get();
  }
  elog.got = code(got);
}
}

// engine-only replacement of the char-set formatting (ostringstream) that produces the "expected" text
extern "C" std::string c12_set_text(fcppt::container::detail::output<std::unordered_set<char>> const &, std::locale const &) { return std::string{"{set}"}; }
extern "C" std::wstring c12_wset_text(fcppt::container::detail::output<std::unordered_set<wchar_t>> const &, std::locale const &) { return std::wstring{L"{set}"}; }
extern "C" p::error<char> c12_expected(p::position<char> const pos, std::string &&, char const got)
{
  log_expected(pos, got);
  return p::error<char>{std::string{"expected"}};
}
extern "C" p::error<wchar_t> c12_wexpected(p::position<wchar_t> const pos, std::wstring &&, wchar_t const got)
{
  log_expected(pos, got);
  return p::error<wchar_t>{std::wstring{L"expected"}};
}

namespace
{
template <typename Ch>
using stream_ref = fcppt::reference<p::basic_stream<Ch>>;

template <typename Ch>
void check_position(p::position<Ch> const &pos, long const off)
{
  verif_out("pos", static_cast<u64>(std::streamoff(pos.pos())));
  verif_assert(std::streamoff(pos.pos()) == off, "position = offset of the next unread character");
  verif_assert(pos.location().has_value(), "positions of a detail::stream carry a location");
  loc const e{ref_loc<Ch>(off)};
  loc const e2{ref_loc_closed<Ch>(off)};
  verif_assert(e.line == e2.line && e.column == e2.column, "reference definitions agree");
  verif_out("line", pos.location().get_unsafe().line().get());
  verif_out("column", pos.location().get_unsafe().column().get());
  verif_assert(pos.location().get_unsafe().line().get() == e.line, "line = 1 + number of newlines before the position");
  verif_assert(pos.location().get_unsafe().column().get() == e.column, "column = 1-based distance to the preceding newline");
}

// one symbolic history: steps operations chosen by the solver among
//   0 get_char   1/2 get_position -> slot 0/1   3/4 set_position(slot 0/1)
// `slots` = 1 restricts to slot 0 (ops 0,1,3).
template <typename Ch>
void history(unsigned const n, unsigned const steps, unsigned const slots)
{
  c12::set_text_symbolic_ch<Ch>(n);
  c12::basic_holder<Ch> h{};
  p::detail::stream<Ch> st{fcppt::make_ref(h.get())};
  stream_ref<Ch> const ref{fcppt::reference_to_base<p::basic_stream<Ch>>(fcppt::make_ref(st))};
  using opt_pos = fcppt::optional::object<p::position<Ch>>;

  long off = 0; // reference state: offset of the next unread character
  opt_pos saved[2] = {opt_pos{}, opt_pos{}};
  long saved_off[2] = {0, 0};

  for (unsigned i = 0; i < steps; ++i)
  {
    char const opname[4] = {'o', 'p', static_cast<char>('0' + i), 0};
    unsigned const op = verif_u8(opname);
    verif_assume(op <= 4);
    verif_assume(slots == 2 || (op != 2 && op != 4));
    if (op == 0)
    {
      fcppt::optional::object<Ch> const c{p::get_char(ref)};
      verif_out("has", c.has_value());
      if (off < static_cast<long>(n))
      {
        verif_assert(c.has_value(), "a character is available before the end of the text");
        if (c.has_value())
        {
          verif_out("char", code(c.get_unsafe()));
          verif_assert(c.get_unsafe() == msv<Ch>.text[off], "get_char returns the next unread character");
        }
        ++off;
      }
      else
        verif_assert(!c.has_value(), "end of input yields no character");
    }
    else if (op == 1 || op == 2)
    {
      unsigned const s = op - 1;
      p::position<Ch> const pos{p::get_position(ref)};
      check_position<Ch>(pos, off);
      saved[s] = opt_pos{pos};
      saved_off[s] = off;
    }
    else
    {
      unsigned const s = op - 3;
      verif_assume(saved[s].has_value());
      p::set_position(ref, saved[s].get_unsafe());
      off = saved_off[s];
    }
  }
  // final observation: position, then drain the rest: it must be exactly the unread suffix
  check_position<Ch>(p::get_position(ref), off);
  for (long i = off; i < static_cast<long>(n); ++i)
  {
    fcppt::optional::object<Ch> const c{p::get_char(ref)};
    verif_assert(c.has_value() && c.get_unsafe() == msv<Ch>.text[i], "after the history the unread suffix is read back in order");
  }
  verif_assert(!p::get_char(ref).has_value(), "then end of input");
  check_position<Ch>(p::get_position(ref), static_cast<long>(n));
  verif_reach("end");
}
}

VERIF_HARNESS(h_hist1) { history<char>(static_cast<unsigned>(verif_param("n")), static_cast<unsigned>(verif_param("k")), 1); }
VERIF_HARNESS(h_hist2) { history<char>(static_cast<unsigned>(verif_param("n")), static_cast<unsigned>(verif_param("k")), 2); }
VERIF_HARNESS(h_whist1) { history<wchar_t>(static_cast<unsigned>(verif_param("n")), static_cast<unsigned>(verif_param("k")), 1); }
VERIF_HARNESS(h_whist2) { history<wchar_t>(static_cast<unsigned>(verif_param("n")), static_cast<unsigned>(verif_param("k")), 2); }
//@harness h_hist1 param n=0..4 param k=5..5 tier=quick loop=40
//@harness h_hist1 param n=3..4 param k=6..6 tier=quick loop=40
//@harness h_hist2 param n=0..3 param k=4..4 tier=quick loop=40
//@harness h_whist1 param n=2..3 param k=5..5 tier=quick loop=40
//@harness h_whist2 param n=2..2 param k=4..4 tier=quick loop=40
//@harness h_hist1 param n=5..6 param k=7..7 tier=thorough loop=40 wall=1500 paths=200000
//@harness h_hist2 param n=4..6 param k=6..6 tier=thorough loop=40 wall=1500 paths=200000
//@harness h_whist1 param n=4..5 param k=6..6 tier=thorough loop=40 wall=1500 paths=200000
//@harness h_whist2 param n=3..4 param k=5..5 tier=thorough loop=40 wall=1500 paths=200000

// read everything once: line/column after every character, for longer texts (no rewinds, so few paths)
template <typename Ch>
void scan(unsigned const n)
{
  c12::set_text_symbolic_ch<Ch>(n);
  c12::basic_holder<Ch> h{};
  p::detail::stream<Ch> st{fcppt::make_ref(h.get())};
  stream_ref<Ch> const ref{fcppt::reference_to_base<p::basic_stream<Ch>>(fcppt::make_ref(st))};
  for (unsigned i = 0; i < n; ++i)
  {
    check_position<Ch>(p::get_position(ref), static_cast<long>(i));
    auto const c{p::get_char_error(ref)};
    verif_assert(c.has_success() && c.get_success_unsafe() == msv<Ch>.text[i], "get_char_error returns the character");
  }
  check_position<Ch>(p::get_position(ref), static_cast<long>(n));
  verif_assert(p::get_char_error(ref).has_failure(), "get_char_error at end of input is a failure");
  // the eof/fail bits left by the failed read do not disturb positions (get_position clears eof)
  check_position<Ch>(p::get_position(ref), static_cast<long>(n));
  verif_reach("end");
}
VERIF_HARNESS(h_scan) { scan<char>(static_cast<unsigned>(verif_param("n"))); }
VERIF_HARNESS(h_wscan) { scan<wchar_t>(static_cast<unsigned>(verif_param("n"))); }
//@harness h_scan param n=0..8 tier=quick loop=40
//@harness h_wscan param n=0..6 tier=quick loop=40
//@harness h_wscan param n=7..8 tier=thorough loop=40

// arbitrary initial iostate: a stream that is not good() never yields a character; badbit makes every operation throw
// (phrase_parse turns that into a failure).  state bits: 1 bad, 2 eof, 4 fail.
template <typename Ch>
void state_get()
{
  c12::set_text_symbolic_ch<Ch>(2);
  c12::basic_holder<Ch> h{};
  unsigned const s0 = verif_u8("state") & 7U;
  verif_assume(s0 != 0);
  h.set_state(s0);
  p::detail::stream<Ch> st{fcppt::make_ref(h.get())};
  stream_ref<Ch> const ref{fcppt::reference_to_base<p::basic_stream<Ch>>(fcppt::make_ref(st))};
  verif_out("s0", s0);
  verif_reach("before");
  fcppt::optional::object<Ch> const c{p::get_char(ref)}; // throws detail::exception iff bad
  verif_assert((s0 & 1U) == 0, "a bad stream throws instead of returning");
  verif_assert(!c.has_value(), "a failing stream yields no character");
  verif_reach("end");
}
VERIF_HARNESS(h_state_get) { state_get<char>(); }
VERIF_HARNESS(h_wstate_get) { state_get<wchar_t>(); }
//@harness h_state_get tier=quick loop=40 throws=_ZTIN5fcppt5parse6detail9exceptionIcEE
//@harness h_wstate_get tier=quick loop=40 throws=_ZTIN5fcppt5parse6detail9exceptionIwEE

template <typename Ch>
void state_pos()
{
  c12::set_text_symbolic_ch<Ch>(2);
  c12::basic_holder<Ch> h{};
  unsigned const s0 = verif_u8("state") & 7U;
  h.set_state(s0);
  p::detail::stream<Ch> st{fcppt::make_ref(h.get())};
  stream_ref<Ch> const ref{fcppt::reference_to_base<p::basic_stream<Ch>>(fcppt::make_ref(st))};
  verif_out("s0", s0);
  verif_reach("before");
  p::position<Ch> const pos{p::get_position(ref)}; // throws iff bad, or fail without eof (tellg() == -1)
  verif_assert((s0 & 1U) == 0 && ((s0 & 4U) == 0 || (s0 & 2U) != 0), "get_position on a failed stream throws");
  check_position<Ch>(pos, 0);
  verif_reach("end");
}
VERIF_HARNESS(h_state_pos) { state_pos<char>(); }
VERIF_HARNESS(h_wstate_pos) { state_pos<wchar_t>(); }
//@harness h_state_pos tier=quick loop=40 throws=_ZTIN5fcppt5parse6detail9exceptionIcEE
//@harness h_wstate_pos tier=quick loop=40 throws=_ZTIN5fcppt5parse6detail9exceptionIwEE

// set_position clears eof/fail (not bad) and seeks; a position outside the text makes seekg fail -> exception
template <typename Ch>
void state_set()
{
  c12::set_text_symbolic_ch<Ch>(3);
  c12::basic_holder<Ch> h{};
  p::detail::stream<Ch> st{fcppt::make_ref(h.get())};
  stream_ref<Ch> const ref{fcppt::reference_to_base<p::basic_stream<Ch>>(fcppt::make_ref(st))};
  unsigned const target = verif_u8("target");
  verif_assume(target <= 5);
  unsigned const s0 = verif_u8("state") & 6U; // eof / fail, as left behind by a read at the end
  h.set_state(s0);
  p::position<Ch> const where{
      typename p::position<Ch>::pos_type{static_cast<std::streamoff>(target)},
      typename p::position<Ch>::optional_location{p::location{p::line{7U}, p::column{9U}}}};
  verif_reach("before");
  p::set_position(ref, where); // throws iff target > 3
  verif_assert(target <= 3, "seeking outside the text throws");
  p::position<Ch> const now{p::get_position(ref)};
  verif_assert(std::streamoff(now.pos()) == static_cast<std::streamoff>(target), "set_position moves to the given offset");
  verif_assert(
      now.location().has_value() && now.location().get_unsafe().line().get() == 7U &&
          now.location().get_unsafe().column().get() == 9U,
      "set_position restores the location stored in the position");
  auto const c{p::get_char(ref)};
  verif_assert(c.has_value() == (target < 3), "reads continue from the restored offset");
  if (c.has_value())
    verif_assert(c.get_unsafe() == msv<Ch>.text[target], "with the right character");
  verif_reach("end");
}
VERIF_HARNESS(h_state_set) { state_set<char>(); }
VERIF_HARNESS(h_wstate_set) { state_set<wchar_t>(); }
//@harness h_state_set tier=quick loop=40 throws=_ZTIN5fcppt5parse6detail9exceptionIcEE
//@harness h_wstate_set tier=quick loop=40 throws=_ZTIN5fcppt5parse6detail9exceptionIwEE

// forward-only sources: the stream buffer cannot seek (the default std::basic_streambuf::seekoff / seekpos).  Per the
// standard tellg() then returns pos_type(-1) WITHOUT setting failbit, and seekg() sets failbit.  Documented behaviour of
// detail::stream (stream_impl.hpp): get_position compares tellg() with pos_type{-1} and throws "tellg() failed.",
// set_position throws "seekg() failed."; reading characters is unaffected and still tracks nothing wrong.
// `noseek` is symbolic; natively the streambuf really refuses to seek.
template <typename Ch>
void noseek_case()
{
  c12::set_text_symbolic_ch<Ch>(2);
  c12::basic_holder<Ch> h{};
  bool const noseek = (verif_u8("noseek") & 1U) != 0;
  msv<Ch>.noseek = noseek;
  p::detail::stream<Ch> st{fcppt::make_ref(h.get())};
  stream_ref<Ch> const ref{fcppt::reference_to_base<p::basic_stream<Ch>>(fcppt::make_ref(st))};
  unsigned const reads = verif_u8("reads");
  verif_assume(reads <= 3);
  for (unsigned i = 0; i < reads; ++i)
  {
    fcppt::optional::object<Ch> const c{p::get_char(ref)};
    verif_assert(c.has_value() == (i < 2), "characters are delivered in order whether or not the source can seek");
    if (c.has_value())
      verif_assert(c.get_unsafe() == msv<Ch>.text[i], "the right character");
  }
  unsigned const op = verif_u8("op") & 1U;
  verif_out("noseek", noseek);
  verif_out("op", op);
  verif_reach("before");
  if (op == 0)
  {
    p::position<Ch> const pos{p::get_position(ref)}; // throws detail::exception ("tellg() failed.") iff noseek
    verif_assert(!noseek, "get_position on a source that cannot tell its position throws");
    check_position<Ch>(pos, static_cast<long>(reads < 2 ? reads : 2));
    verif_assert((h.state() & 5U) == 0, "a successful get_position leaves no fail/bad bit");
  }
  else
  {
    p::position<Ch> const where{
        typename p::position<Ch>::pos_type{static_cast<std::streamoff>(0)},
        typename p::position<Ch>::optional_location{p::location{p::line{1U}, p::column{1U}}}};
    p::set_position(ref, where); // throws detail::exception ("seekg() failed.") iff noseek
    verif_assert(!noseek, "set_position on a source that cannot seek throws");
    auto const c{p::get_char(ref)};
    verif_assert(c.has_value() && c.get_unsafe() == msv<Ch>.text[0], "after a rewind to 0 the first character is read again");
  }
  verif_reach("end");
}
VERIF_HARNESS(h_noseek) { noseek_case<char>(); }
VERIF_HARNESS(h_wnoseek) { noseek_case<wchar_t>(); }
//@harness h_noseek tier=quick loop=40 throws=_ZTIN5fcppt5parse6detail9exceptionIcEE
//@harness h_wnoseek tier=quick loop=40 throws=_ZTIN5fcppt5parse6detail9exceptionIwEE

namespace
{
// character-level parsers: the error carries the location immediately AFTER the offending character.
// The REAL parsers (basic_literal, basic_char_set incl. space() / blank() / digits(), skipper::basic_literal,
// skipper::basic_char_set; char and wchar_t) run on the real detail::stream; the engine intercepts detail::expected
// (//@stub -> c12_expected / c12_wexpected) and records the position argument THE PARSER passed; natively the real
// detail::expected formats it into the message and the harness reads line/column/character back from that text, so a
// counterexample is confirmed by the native replay.
template <typename Ch>
struct outcome
{
  bool ok;
  std::basic_string<Ch> text; // the error message (native build: produced by the real detail::expected)
};
#ifdef VERIF_NATIVE
// native build: recover what the parser passed to detail::expected from the message "Line <l>:<c>: Expected ..., got <ch>"
template <typename Ch>
void log_from_text(std::basic_string<Ch> const &t)
{
  std::size_t i = 0;
  auto const lit = [&t, &i](char const *const w) {
    for (char const *q = w; *q != 0; ++q, ++i)
      if (i >= t.size() || t[i] != Ch(*q))
        return false;
    return true;
  };
  auto const num = [&t, &i](u64 &out) {
    out = 0;
    bool any = false;
    while (i < t.size() && t[i] >= Ch('0') && t[i] <= Ch('9'))
    {
      out = out * 10 + static_cast<u64>(t[i] - Ch('0'));
      ++i;
      any = true;
    }
    return any;
  };
  if (!lit("Line "))
    return;
  u64 l = 0, c = 0;
  if (!num(l) || !lit(":") || !num(c) || !lit(": Expected "))
    return;
  ++elog.calls;
  elog.has_loc = true;
  elog.line = l;
  elog.column = c;
  elog.got = t.empty() ? 0 : code(t[t.size() - 1]);
}
#endif
template <typename Ch, typename Run, typename Accept>
void expected_case(unsigned const n, Run const &run, Accept const &accept)
{
  c12::set_text_symbolic_ch<Ch>(n);
  c12::basic_holder<Ch> h{};
  p::detail::stream<Ch> st{fcppt::make_ref(h.get())};
  stream_ref<Ch> const ref{fcppt::reference_to_base<p::basic_stream<Ch>>(fcppt::make_ref(st))};
  unsigned const skip = verif_u8("skip");
  verif_assume(skip <= n);
  for (unsigned i = 0; i < skip; ++i)
    (void)p::get_char(ref);
  elog = expected_log{0, 0, false, 0, 0, 0};
  outcome<Ch> const r{run(ref)};
  bool const ok = r.ok;
  verif_out("ok", ok);
  bool const at_end = skip >= n;
  verif_assert(ok == (!at_end && accept(msv<Ch>.text[at_end ? 0 : skip])), "the parser succeeds exactly on a character of its set");
#ifdef VERIF_NATIVE
  if (!ok)
    log_from_text(r.text);
#endif
  if (!ok && !at_end)
  {
    verif_assert(elog.calls == 1, "one expected() error is built");
    verif_assert(elog.got == code(msv<Ch>.text[skip]), "it names the offending character");
    loc const e{ref_loc<Ch>(static_cast<long>(skip) + 1)};
#ifndef VERIF_NATIVE
    verif_assert(elog.pos == static_cast<long>(skip) + 1, "position just after the offending character");
#endif
    verif_assert(elog.has_loc && elog.line == e.line && elog.column == e.column, "location just after the offending character");
  }
  else
    verif_assert(elog.calls == 0, "no expected() error on success or at end of input");
  verif_reach("end");
}
unsigned plen() { return static_cast<unsigned>(verif_param("n")); }
template <typename Ch>
bool is_a(Ch const c) { return c == Ch('a'); }
template <typename Ch>
bool is_ab(Ch const c) { return c == Ch('a') || c == Ch('b'); }
template <typename Ch>
bool is_space(Ch const c) { return c == Ch(' ') || c == Ch('\n') || c == Ch('\t'); }
template <typename Ch>
bool is_blank(Ch const c) { return c == Ch(' ') || c == Ch('\t'); }
template <typename Ch>
bool is_digit(Ch const c) { return c >= Ch('0') && c <= Ch('9'); }
template <typename Ch, typename Parser>
auto by_parser(Parser const &parser)
{
  return [&parser](stream_ref<Ch> const ref) {
    auto const r{parser.parse(ref, p::skipper::epsilon{})};
    return outcome<Ch>{r.has_success(), r.has_success() ? std::basic_string<Ch>{} : r.get_failure_unsafe().get()};
  };
}
template <typename Ch, typename Skipper>
auto by_skipper(Skipper const &skipper)
{
  return [&skipper](stream_ref<Ch> const ref) {
    auto const r{p::skipper::run(skipper, ref)};
    return outcome<Ch>{r.has_success(), r.has_success() ? std::basic_string<Ch>{} : r.get_failure_unsafe().get()};
  };
}
}
VERIF_HARNESS(h_expected_literal) { expected_case<char>(plen(), by_parser<char>(p::basic_literal<char>{'a'}), is_a<char>); }
VERIF_HARNESS(h_expected_skipper) { expected_case<char>(plen(), by_skipper<char>(p::skipper::basic_literal<char>{'a'}), is_a<char>); }
VERIF_HARNESS(h_wexpected_literal) { expected_case<wchar_t>(plen(), by_parser<wchar_t>(p::basic_literal<wchar_t>{L'a'}), is_a<wchar_t>); }
VERIF_HARNESS(h_wexpected_skipper) { expected_case<wchar_t>(plen(), by_skipper<wchar_t>(p::skipper::basic_literal<wchar_t>{L'a'}), is_a<wchar_t>); }
VERIF_HARNESS(h_expected_set) { expected_case<char>(plen(), by_parser<char>(p::basic_char_set<char>{'a', 'b'}), is_ab<char>); }
VERIF_HARNESS(h_expected_space) { expected_case<char>(plen(), by_parser<char>(p::space()), is_space<char>); }
VERIF_HARNESS(h_expected_blank) { expected_case<char>(plen(), by_parser<char>(p::blank()), is_blank<char>); }
VERIF_HARNESS(h_expected_digits) { expected_case<char>(plen(), by_parser<char>(p::digits<char>()), is_digit<char>); }
VERIF_HARNESS(h_expected_skipset) { expected_case<char>(plen(), by_skipper<char>(p::skipper::basic_char_set<char>{' ', '\t'}), is_blank<char>); }
VERIF_HARNESS(h_wexpected_set) { expected_case<wchar_t>(plen(), by_parser<wchar_t>(p::basic_char_set<wchar_t>{L'a', L'b'}), is_ab<wchar_t>); }
VERIF_HARNESS(h_wexpected_space)
{
  expected_case<wchar_t>(plen(), by_parser<wchar_t>(p::basic_char_set<wchar_t>{p::space_set<wchar_t>()}), is_space<wchar_t>);
}
VERIF_HARNESS(h_wexpected_digits) { expected_case<wchar_t>(plen(), by_parser<wchar_t>(p::digits<wchar_t>()), is_digit<wchar_t>); }
VERIF_HARNESS(h_wexpected_skipset)
{
  expected_case<wchar_t>(plen(), by_skipper<wchar_t>(p::skipper::basic_char_set<wchar_t>{p::blank_set<wchar_t>()}), is_blank<wchar_t>);
}
//@harness h_expected_literal param n=0..4 tier=quick loop=40
//@harness h_expected_skipper param n=0..4 tier=quick loop=40
//@harness h_wexpected_literal param n=0..4 tier=quick loop=40
//@harness h_wexpected_skipper param n=0..3 tier=quick loop=40
//@harness h_expected_{S} for S in set,space,blank,skipset param n=0..3 tier=quick loop=40
//@harness h_expected_digits param n=0..2 tier=quick loop=40
//@harness h_expected_digits param n=3..3 tier=thorough loop=40
//@harness h_wexpected_{S} for S in set,space,skipset param n=0..3 tier=quick loop=40
//@harness h_wexpected_digits param n=0..2 tier=quick loop=40
//@harness h_wexpected_digits param n=3..3 tier=thorough loop=40
//@harness h_expected_{S} for S in set,space,blank,skipset param n=4..4 tier=thorough loop=40
//@harness h_wexpected_{S} for S in set,space,skipset param n=4..4 tier=thorough loop=40
