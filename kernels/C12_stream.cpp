// C12 - fcppt::parse::detail::stream<char> reports true line/column and rewinds exactly.
// Real code: parse::detail::stream<char>::{get_char,get_position,set_position}, detail::check_bad, io::get,
// parse::get_char / get_char_error / get_position / set_position, position, location, and the position handed to
// detail::expected by basic_literal / basic_char_set / skipper::basic_literal.
// The wrapped std::istream is the contract model of C12_istream_model.hpp (engine) / a real std::istream over a small
// streambuf (native replay), see that file.
//
// Symbolic: every text byte (the solver finds the newlines), the whole history of operations (which operation, which
// slot), the initial iostate in h_state.  Reference (from the property statement): offset = number of characters read
// so far on the current "branch", line = 1 + number of '\n' in text[0, offset), column = 1 + distance to the preceding
// '\n' (or to the start of the text).
//
// Outside the claim: wchar_t streams; libstdc++'s real basic_istringstream/stringbuf (replaced by the documented
// contract of get/tellg/seekg/clear/bad/eof/fail; the native replays run a real std::istream); istreams with an
// exceptions() mask or a tied stream; the TEXT of error messages ("Line l:c: Expected ..." formatting through
// ostringstream) - what is checked instead is the position/location value passed to detail::expected; texts longer
// than the bound; random long texts (no random testing here).
//@property C12
//@stub ^_ZNSi3getEv$ c12_get
//@stub ^_ZNSi5tellgEv$ c12_tellg
//@stub ^_ZNSi5seekgESt4fposI11__mbstate_tE$ c12_seekg
//@stub ^_ZNSt9basic_iosIcSt11char_traitsIcEE5clearESt12_Ios_Iostate$ c12_clear
//@stub ^_ZN5fcppt5parse6detail8expectedIcEENS0_5errorIT_EENS0_8positionIS4_EEONSt7__cxx1112basic_stringIS4_St11char_traitsIS4_ESaIS4_EEES4_$ c12_expected
#include "C12_istream_model.hpp"
#include <fcppt/make_ref.hpp>
#include <fcppt/reference_impl.hpp>
#include <fcppt/reference_to_base.hpp>
#include <fcppt/either/object_impl.hpp>
#include <fcppt/optional/object_impl.hpp>
#include <fcppt/parse/basic_stream_impl.hpp>
#include <fcppt/parse/char.hpp>
#include <fcppt/parse/column.hpp>
#include <fcppt/parse/error.hpp>
#include <fcppt/parse/get_char.hpp>
#include <fcppt/parse/get_char_error.hpp>
#include <fcppt/parse/get_position.hpp>
#include <fcppt/parse/line.hpp>
#include <fcppt/parse/literal.hpp>
#include <fcppt/parse/location.hpp>
#include <fcppt/parse/position.hpp>
#include <fcppt/parse/set_position.hpp>
#include <fcppt/parse/detail/expected.hpp>
#include <fcppt/parse/detail/stream_impl.hpp>
#include <fcppt/parse/skipper/epsilon.hpp>
#include <fcppt/parse/skipper/literal.hpp>
#include <fcppt/parse/skipper/run.hpp>
#include "libs/core/src/insert_extract_locale.cpp"

namespace
{
namespace p = fcppt::parse;
using c12::ms;
using u64 = std::uint64_t;

struct loc
{
  u64 line, column;
};
// the definition from the property statement
loc ref_loc(long const off)
{
  loc r{1, 1};
  for (long i = 0; i < off; ++i)
  {
    if (ms.text[i] == '\n')
    {
      ++r.line;
      r.column = 1;
    }
    else
      ++r.column;
  }
  return r;
}
// the same, in closed form (count / distance), as a cross-check of ref_loc itself
loc ref_loc_closed(long const off)
{
  u64 newlines = 0;
  long last = -1;
  for (long i = 0; i < off; ++i)
    if (ms.text[i] == '\n')
    {
      ++newlines;
      last = i;
    }
  return loc{1 + newlines, static_cast<u64>(off - last)};
}

// what detail::expected was given (engine: the stub below; native: recomputed by the harness from get_position, the
// real function formats it into the text)
struct expected_log
{
  unsigned calls;
  long pos;
  bool has_loc;
  u64 line, column;
  char got;
};
expected_log elog;
}

extern "C" p::error<char> c12_expected(p::position<char> const pos, std::string &&, char const got)
{
  ++elog.calls;
  elog.pos = static_cast<long>(std::streamoff(pos.pos()));
  elog.has_loc = pos.location().has_value();
  if (elog.has_loc)
  {
    elog.line = pos.location().get_unsafe().line().get();
    elog.column = pos.location().get_unsafe().column().get();
  }
  elog.got = got;
  return p::error<char>{std::string{"expected"}};
}

namespace
{
using stream_ref = fcppt::reference<p::basic_stream<char>>;

void check_position(p::position<char> const &pos, long const off, char const *const what)
{
  (void)what;
  verif_out("pos", static_cast<u64>(std::streamoff(pos.pos())));
  verif_assert(std::streamoff(pos.pos()) == off, "position = offset of the next unread character");
  verif_assert(pos.location().has_value(), "positions of a detail::stream carry a location");
  loc const e{ref_loc(off)};
  loc const e2{ref_loc_closed(off)};
  verif_assert(e.line == e2.line && e.column == e2.column, "reference definitions agree");
  verif_out("line", pos.location().get_unsafe().line().get());
  verif_out("column", pos.location().get_unsafe().column().get());
  verif_assert(pos.location().get_unsafe().line().get() == e.line, "line = 1 + number of newlines before the position");
  verif_assert(pos.location().get_unsafe().column().get() == e.column, "column = 1-based distance to the preceding newline");
}

// one symbolic history: steps operations chosen by the solver among
//   0 get_char   1/2 get_position -> slot 0/1   3/4 set_position(slot 0/1)
// `slots` = 1 restricts to slot 0 (ops 0,1,3).
void history(unsigned const n, unsigned const steps, unsigned const slots)
{
  c12::set_text_symbolic(n);
  c12::holder h{};
  p::detail::stream<char> st{fcppt::make_ref(h.get())};
  stream_ref const ref{fcppt::reference_to_base<p::basic_stream<char>>(fcppt::make_ref(st))};

  long off = 0; // reference state: offset of the next unread character
  fcppt::optional::object<p::position<char>> saved[2] = {fcppt::optional::object<p::position<char>>{}, fcppt::optional::object<p::position<char>>{}};
  long saved_off[2] = {0, 0};

  for (unsigned i = 0; i < steps; ++i)
  {
    char const opname[4] = {'o', 'p', static_cast<char>('0' + i), 0};
    unsigned const op = verif_u8(opname);
    verif_assume(op <= 4);
    verif_assume(slots == 2 || (op != 2 && op != 4));
    if (op == 0)
    {
      fcppt::optional::object<char> const c{p::get_char(ref)};
      verif_out("has", c.has_value());
      if (off < static_cast<long>(n))
      {
        verif_assert(c.has_value(), "a character is available before the end of the text");
        if (c.has_value())
        {
          verif_out("char", static_cast<unsigned char>(c.get_unsafe()));
          verif_assert(c.get_unsafe() == ms.text[off], "get_char returns the next unread character");
        }
        ++off;
      }
      else
        verif_assert(!c.has_value(), "end of input yields no character");
    }
    else if (op == 1 || op == 2)
    {
      unsigned const s = op - 1;
      p::position<char> const pos{p::get_position(ref)};
      check_position(pos, off, "get_position");
      saved[s] = fcppt::optional::object<p::position<char>>{pos};
      saved_off[s] = off;
    }
    else
    {
      unsigned const s = op - 3;
      verif_assume(saved[s].has_value());
      p::set_position(ref, saved[s].get_unsafe());
      off = saved_off[s];
    }
  }
  // final observation: position, then drain the rest: it must be exactly the unread suffix
  check_position(p::get_position(ref), off, "final");
  for (long i = off; i < static_cast<long>(n); ++i)
  {
    fcppt::optional::object<char> const c{p::get_char(ref)};
    verif_assert(c.has_value() && c.get_unsafe() == ms.text[i], "after the history the unread suffix is read back in order");
  }
  verif_assert(!p::get_char(ref).has_value(), "then end of input");
  check_position(p::get_position(ref), static_cast<long>(n), "at end");
  verif_reach("end");
}
}

VERIF_HARNESS(h_hist1) { history(static_cast<unsigned>(verif_param("n")), static_cast<unsigned>(verif_param("k")), 1); }
VERIF_HARNESS(h_hist2) { history(static_cast<unsigned>(verif_param("n")), static_cast<unsigned>(verif_param("k")), 2); }
//@harness h_hist1 param n=0..4 param k=5..5 tier=quick loop=40
//@harness h_hist1 param n=3..4 param k=6..6 tier=quick loop=40
//@harness h_hist2 param n=0..3 param k=4..4 tier=quick loop=40
//@harness h_hist1 param n=5..6 param k=7..7 tier=thorough loop=40 wall=1500 paths=200000
//@harness h_hist2 param n=4..6 param k=6..6 tier=thorough loop=40 wall=1500 paths=200000

// read everything once: line/column after every character, for longer texts (no rewinds, so few paths)
VERIF_HARNESS(h_scan)
{
  unsigned const n = static_cast<unsigned>(verif_param("n"));
  c12::set_text_symbolic(n);
  c12::holder h{};
  p::detail::stream<char> st{fcppt::make_ref(h.get())};
  stream_ref const ref{fcppt::reference_to_base<p::basic_stream<char>>(fcppt::make_ref(st))};
  for (unsigned i = 0; i < n; ++i)
  {
    check_position(p::get_position(ref), static_cast<long>(i), "scan");
    auto const c{p::get_char_error(ref)};
    verif_assert(c.has_success() && c.get_success_unsafe() == ms.text[i], "get_char_error returns the character");
  }
  check_position(p::get_position(ref), static_cast<long>(n), "scan end");
  verif_assert(p::get_char_error(ref).has_failure(), "get_char_error at end of input is a failure");
  // the eof/fail bits left by the failed read do not disturb positions (get_position clears eof)
  check_position(p::get_position(ref), static_cast<long>(n), "scan end again");
  verif_reach("end");
}
//@harness h_scan param n=0..8 tier=quick loop=40

// arbitrary initial iostate: a stream that is not good() never yields a character; badbit makes every operation throw
// (phrase_parse turns that into a failure).  state bits: 1 bad, 2 eof, 4 fail.
VERIF_HARNESS(h_state_get)
{
  c12::set_text_symbolic(2);
  c12::holder h{};
  unsigned const s0 = verif_u8("state") & 7U;
  verif_assume(s0 != 0);
  h.set_state(s0);
  p::detail::stream<char> st{fcppt::make_ref(h.get())};
  stream_ref const ref{fcppt::reference_to_base<p::basic_stream<char>>(fcppt::make_ref(st))};
  verif_out("s0", s0);
  verif_reach("before");
  fcppt::optional::object<char> const c{p::get_char(ref)}; // throws detail::exception iff bad
  verif_assert((s0 & 1U) == 0, "a bad stream throws instead of returning");
  verif_assert(!c.has_value(), "a failing stream yields no character");
  verif_reach("end");
}
//@harness h_state_get tier=quick loop=40 throws=_ZTIN5fcppt5parse6detail9exceptionIcEE

VERIF_HARNESS(h_state_pos)
{
  c12::set_text_symbolic(2);
  c12::holder h{};
  unsigned const s0 = verif_u8("state") & 7U;
  h.set_state(s0);
  p::detail::stream<char> st{fcppt::make_ref(h.get())};
  stream_ref const ref{fcppt::reference_to_base<p::basic_stream<char>>(fcppt::make_ref(st))};
  verif_out("s0", s0);
  verif_reach("before");
  p::position<char> const pos{p::get_position(ref)}; // throws iff bad, or fail without eof (tellg() == -1)
  verif_assert((s0 & 1U) == 0 && ((s0 & 4U) == 0 || (s0 & 2U) != 0), "get_position on a failed stream throws");
  check_position(pos, 0, "state");
  verif_reach("end");
}
//@harness h_state_pos tier=quick loop=40 throws=_ZTIN5fcppt5parse6detail9exceptionIcEE

// set_position clears eof/fail (not bad) and seeks; a position outside the text makes seekg fail -> exception
VERIF_HARNESS(h_state_set)
{
  c12::set_text_symbolic(3);
  c12::holder h{};
  p::detail::stream<char> st{fcppt::make_ref(h.get())};
  stream_ref const ref{fcppt::reference_to_base<p::basic_stream<char>>(fcppt::make_ref(st))};
  unsigned const target = verif_u8("target");
  verif_assume(target <= 5);
  unsigned const s0 = verif_u8("state") & 6U; // eof / fail, as left behind by a read at the end
  h.set_state(s0);
  p::position<char> const where{
      std::streampos{static_cast<std::streamoff>(target)},
      p::position<char>::optional_location{p::location{p::line{7U}, p::column{9U}}}};
  verif_reach("before");
  p::set_position(ref, where); // throws iff target > 3
  verif_assert(target <= 3, "seeking outside the text throws");
  p::position<char> const now{p::get_position(ref)};
  verif_assert(std::streamoff(now.pos()) == static_cast<std::streamoff>(target), "set_position moves to the given offset");
  verif_assert(
      now.location().has_value() && now.location().get_unsafe().line().get() == 7U &&
          now.location().get_unsafe().column().get() == 9U,
      "set_position restores the location stored in the position");
  auto const c{p::get_char(ref)};
  verif_assert(c.has_value() == (target < 3), "reads continue from the restored offset");
  if (c.has_value())
    verif_assert(c.get_unsafe() == ms.text[target], "with the right character");
  verif_reach("end");
}
//@harness h_state_set tier=quick loop=40 throws=_ZTIN5fcppt5parse6detail9exceptionIcEE

// character-level parsers: the error carries the location immediately AFTER the offending character
// (engine: detail::expected is intercepted and its position argument logged; natively the harness recomputes it)
template <typename Run>
void expected_case(unsigned const n, Run const &run)
{
  c12::set_text_symbolic(n);
  c12::holder h{};
  p::detail::stream<char> st{fcppt::make_ref(h.get())};
  stream_ref const ref{fcppt::reference_to_base<p::basic_stream<char>>(fcppt::make_ref(st))};
  unsigned const skip = verif_u8("skip");
  verif_assume(skip <= n);
  for (unsigned i = 0; i < skip; ++i)
    (void)p::get_char(ref);
  elog = expected_log{0, 0, false, 0, 0, 0};
  bool const ok = run(ref);
  verif_out("ok", ok);
  bool const at_end = skip >= n;
  verif_assert(ok == (!at_end && ms.text[at_end ? 0 : skip] == 'a'), "literal a succeeds exactly on an a");
#ifndef VERIF_NATIVE
  if (!ok && !at_end)
  {
    verif_assert(elog.calls == 1, "one expected() error is built");
    verif_assert(elog.got == ms.text[skip], "it names the offending character");
    loc const e{ref_loc(static_cast<long>(skip) + 1)};
    verif_assert(elog.pos == static_cast<long>(skip) + 1, "position just after the offending character");
    verif_assert(elog.has_loc && elog.line == e.line && elog.column == e.column, "location just after the offending character");
  }
  else
    verif_assert(elog.calls == 0, "no expected() error on success or at end of input");
#endif
  verif_reach("end");
}
VERIF_HARNESS(h_expected_literal)
{
  expected_case(static_cast<unsigned>(verif_param("n")), [](stream_ref const ref) {
    return p::literal{'a'}.parse(ref, p::skipper::epsilon{}).has_success();
  });
}
VERIF_HARNESS(h_expected_skipper)
{
  expected_case(static_cast<unsigned>(verif_param("n")), [](stream_ref const ref) {
    return p::skipper::run(p::skipper::literal{'a'}, ref).has_success();
  });
}
//@harness h_expected_literal param n=0..4 tier=quick loop=40
//@harness h_expected_skipper param n=0..4 tier=quick loop=40
