// C13 - axis-aligned boxes behave as half-open point sets.
// Real code: fcppt::math::box::{object, contains_point, contains, intersects, intersection, extend_bounding_box (box and
// point form), corner_points, center, shrink, stretch_absolute, distance, interval, null, init_max, init_dim, comparison}.
// Every corner coordinate, every probe point and every offset vector is a symbolic machine integer:
//   int      coordinates range over [-2^30, 2^30)   (so max - pos and pos + size are representable: no signed overflow)
//   unsigned coordinates range over [0, 2^31)
// Boxes are NOT assumed well-formed (pos <= max) unless the clause says "non-empty"; an inverted box is an empty set.
// Reference model: a box is two plain arrays lo[N], hi[N]; p in B := for all i lo[i] <= p[i] < hi[i].
//
// Reading of the clauses (nothing more is asserted):
//  * intersection: p in intersection(A,B) <=> p in A and p in B, for ALL boxes and all p.
//  * intersects, non-empty A,B: a common point p implies intersects (p universally quantified); intersects implies the
//    witness w = componentwise max of the minima is a common point.
//  * no common point => null box: asserted for non-empty operands through the point sets, and for ALL operands through
//    the library predicate: !intersects(a,b) => null box (for an empty operand `intersects` may hold although the point
//    sets are disjoint, the result is then an empty, non-null box - not asserted to be null).
//  * contains(A,B), non-empty B: contains and p in B => p in A (all p); contains <=> the two extreme lattice points of B
//    (lo and hi-1) lie in A (a box is a subset of a box iff its extreme points are members).
//  * extend_bounding_box(A,B), non-empty A,B: superset of both (all p) and for EVERY box C (symbolic) that is a superset
//    of both, C is a superset of the result.
//  * extend_bounding_box(box, point): documented as "the same box if the point is contained, else just big enough to
//    hold the point"; the unit test fixes this as the closed hull (new max == point), so asserted: result == box when
//    contains_point, lo' = min(lo,p), hi' = max(hi,p).  NOTE (not asserted, not part of the statement): for p >= max the
//    added point is NOT a member of the result under the half-open reading used by contains_point.
//  * distance: component i equals math::interval_distance of the two intervals; the value is asserted where the
//    documentation of interval_distance is unambiguous: disjoint/touching -> gap, proper partial overlap -> minus the
//    common length, strict containment -> minus the shorter remaining part.  NOTE (not asserted): for containment with a
//    shared end point the documentation says 0, the code returns minus the common length ([0,10] vs [0,5] -> -5).
// Outside the claim: floating point boxes, N > 3, stretch_relative (division / floating point use), structure_cast,
// output (iostream), coordinates outside the stated ranges (signed overflow is UB in the library itself there).
//@property C13
#include "verif_api.h"
#include <fcppt/array/get.hpp>
#include <fcppt/array/object_impl.hpp>
#include <fcppt/math/interval_distance.hpp>
#include <fcppt/math/size_constant.hpp>
#include <fcppt/math/size_type.hpp>
#include <fcppt/math/box/center.hpp>
#include <fcppt/math/box/comparison.hpp>
#include <fcppt/math/box/contains.hpp>
#include <fcppt/math/box/contains_point.hpp>
#include <fcppt/math/box/corner_points.hpp>
#include <fcppt/math/box/distance.hpp>
#include <fcppt/math/box/extend_bounding_box.hpp>
#include <fcppt/math/box/init_dim.hpp>
#include <fcppt/math/box/init_max.hpp>
#include <fcppt/math/box/intersection.hpp>
#include <fcppt/math/box/intersects.hpp>
#include <fcppt/math/box/interval.hpp>
#include <fcppt/math/box/null.hpp>
#include <fcppt/math/box/object_impl.hpp>
#include <fcppt/math/box/shrink.hpp>
#include <fcppt/math/box/stretch_absolute.hpp>
#include <fcppt/math/dim/comparison.hpp>
#include <fcppt/math/dim/init.hpp>
#include <fcppt/math/dim/object_impl.hpp>
#include <fcppt/math/dim/static.hpp>
#include <fcppt/math/vector/comparison.hpp>
#include <fcppt/math/vector/init.hpp>
#include <fcppt/math/vector/object_impl.hpp>
#include <fcppt/math/vector/static.hpp>
#include <fcppt/tuple/get.hpp>
#include <fcppt/tuple/make.hpp>
#include <fcppt/tuple/object_impl.hpp>
#include <cstddef>
#include <cstdint>
#include <type_traits>

namespace
{
using i64 = std::int64_t;
using sz = fcppt::math::size_type;

template <typename T>
T coord(char const *const n)
{
  std::uint32_t const r{verif_u32(n)};
  if constexpr (std::is_signed_v<T>)
  {
    T const v{static_cast<T>(r)};
    verif_assume(v >= -(1 << 30) && v < (1 << 30));
    return v;
  }
  else
  {
    verif_assume(r < (1U << 31));
    return r;
  }
}

template <typename T, sz N> using box_t = fcppt::math::box::object<T, N>;
template <typename T, sz N> using vec_t = fcppt::math::vector::static_<T, N>;
template <typename T, sz N> using dim_t = fcppt::math::dim::static_<T, N>;

// reference box / point: plain arrays
template <typename T, sz N> struct abox { T lo[N]; T hi[N]; };
template <typename T, sz N> struct apt { T c[N]; };

template <typename T, sz N>
abox<T, N> fresh_box(char const *const nlo, char const *const nhi)
{
  abox<T, N> b;
  for (sz i = 0; i < N; ++i) { b.lo[i] = coord<T>(nlo); b.hi[i] = coord<T>(nhi); }
  return b;
}
template <typename T, sz N>
apt<T, N> fresh_pt(char const *const n)
{
  apt<T, N> p;
  for (sz i = 0; i < N; ++i) p.c[i] = coord<T>(n);
  return p;
}
template <typename T, sz N>
bool in(abox<T, N> const &b, apt<T, N> const &p)
{
  bool r{true};
  for (sz i = 0; i < N; ++i) r = r & (b.lo[i] <= p.c[i]) & (p.c[i] < b.hi[i]);
  return r;
}
template <typename T, sz N>
bool nonempty(abox<T, N> const &b)
{
  bool r{true};
  for (sz i = 0; i < N; ++i) r = r & (b.lo[i] < b.hi[i]);
  return r;
}
template <typename T, sz N> apt<T, N> lo_pt(abox<T, N> const &b) { apt<T, N> p; for (sz i = 0; i < N; ++i) p.c[i] = b.lo[i]; return p; }
template <typename T, sz N> apt<T, N> last_pt(abox<T, N> const &b) { apt<T, N> p; for (sz i = 0; i < N; ++i) p.c[i] = static_cast<T>(b.hi[i] - 1); return p; }
// non-empty inner: subset <=> both extreme lattice points are members
template <typename T, sz N> bool subset_ne(abox<T, N> const &inner, abox<T, N> const &outer) { return in(outer, lo_pt(inner)) & in(outer, last_pt(inner)); }

// to / from the real types
template <typename T, sz N>
vec_t<T, N> mkvec(T const (&a)[N])
{
  return fcppt::math::vector::init<vec_t<T, N>>([&a]<sz I>(fcppt::math::size_constant<I>) { return a[I]; });
}
template <typename T, sz N>
box_t<T, N> mkbox(abox<T, N> const &b)
{
  return box_t<T, N>{mkvec<T, N>(b.lo), mkvec<T, N>(b.hi)};
}
template <typename T, sz N>
abox<T, N> rd(box_t<T, N> const &b)
{
  abox<T, N> r;
  for (sz i = 0; i < N; ++i) { r.lo[i] = b.pos().get_unsafe(i); r.hi[i] = b.max().get_unsafe(i); }
  return r;
}
template <typename T, sz N>
bool same(abox<T, N> const &a, abox<T, N> const &b)
{
  bool r{true};
  for (sz i = 0; i < N; ++i) r = r & (a.lo[i] == b.lo[i]) & (a.hi[i] == b.hi[i]);
  return r;
}
template <typename T, sz N>
bool is_null(box_t<T, N> const &b)
{
  bool r{true};
  dim_t<T, N> const s{b.size()};
  for (sz i = 0; i < N; ++i) r = r & (b.pos().get_unsafe(i) == 0) & (s.get_unsafe(i) == 0) & (b.max().get_unsafe(i) == 0);
  return r;
}

// ---- construction, accessors, membership
template <typename T, sz N>
void basic()
{
  abox<T, N> const A{fresh_box<T, N>("A_lo", "A_hi")};
  apt<T, N> const P{fresh_pt<T, N>("p")};
  box_t<T, N> const a{mkbox(A)};
  vec_t<T, N> const p{mkvec<T, N>(P.c)};
  verif_out("member", in(A, P));
  verif_assert(fcppt::math::box::contains_point(a, p) == in(A, P), "contains_point is membership pos <= p < max");
  verif_assert(same(rd(a), A), "pos()/max() return the corners the box was built from");
  dim_t<T, N> const s{a.size()};
  T sizes[N];
  for (sz i = 0; i < N; ++i)
  {
    sizes[i] = static_cast<T>(A.hi[i] - A.lo[i]);
    verif_assert(s.get_unsafe(i) == sizes[i], "size() = max - pos");
  }
  // (pos, size) constructor, init_max and init_dim denote the same box
  box_t<T, N> const b{mkvec<T, N>(A.lo), fcppt::math::dim::init<dim_t<T, N>>([&sizes]<sz I>(fcppt::math::size_constant<I>) { return sizes[I]; })};
  verif_assert(same(rd(b), A), "box(pos,size) has max = pos + size");
  verif_assert(a == b && !(a != b), "box(pos,size) == box(min,max)");
  box_t<T, N> const c{fcppt::math::box::init_max<box_t<T, N>>([&A]<sz I>(fcppt::math::size_constant<I>) { return fcppt::tuple::make(A.lo[I], A.hi[I]); })};
  verif_assert(same(rd(c), A), "init_max builds the box from (min,max) pairs");
  box_t<T, N> const d{fcppt::math::box::init_dim<box_t<T, N>>([&A, &sizes]<sz I>(fcppt::math::size_constant<I>) { return fcppt::tuple::make(A.lo[I], sizes[I]); })};
  verif_assert(same(rd(d), A), "init_dim builds the box from (pos,size) pairs");
  verif_assert(fcppt::math::box::contains_point(c, p) == in(A, P) && fcppt::math::box::contains_point(d, p) == in(A, P), "membership does not depend on how the box was built");
  // named accessors
  verif_assert(a.left() == A.lo[0] && a.right() == A.hi[0], "left/right");
  if constexpr (N >= 2) verif_assert(a.top() == A.lo[1] && a.bottom() == A.hi[1], "top/bottom");
  if constexpr (N >= 3) verif_assert(a.front() == A.lo[2] && a.back() == A.hi[2], "front/back");
  // interval<I>
  verif_assert(fcppt::tuple::get<0>(fcppt::math::box::interval<N - 1>(a)) == A.lo[N - 1] && fcppt::tuple::get<1>(fcppt::math::box::interval<N - 1>(a)) == A.hi[N - 1], "interval<I> = (pos_I, max_I)");
  // null box
  box_t<T, N> const z{fcppt::math::box::null<box_t<T, N>>()};
  verif_assert(is_null(z), "null box has pos 0, size 0");
  verif_assert(!fcppt::math::box::contains_point(z, p), "null box contains no point");
  verif_reach("basic-end");
}

// ---- intersection / intersects
template <typename T, sz N>
void inter()
{
  abox<T, N> const A{fresh_box<T, N>("A_lo", "A_hi")}, B{fresh_box<T, N>("B_lo", "B_hi")};
  apt<T, N> const P{fresh_pt<T, N>("p")};
  box_t<T, N> const a{mkbox(A)}, b{mkbox(B)};
  box_t<T, N> const r{fcppt::math::box::intersection(a, b)};
  abox<T, N> const R{rd(r)};
  bool const its{fcppt::math::box::intersects(a, b)};
  verif_out("intersects", its);
  verif_assert(in(R, P) == (in(A, P) & in(B, P)), "p in intersection(A,B) <=> p in A and p in B");
  verif_assert(fcppt::math::box::contains_point(r, mkvec<T, N>(P.c)) == (in(A, P) & in(B, P)), "contains_point(intersection(A,B),p) <=> both contain p");
  verif_assert(its == fcppt::math::box::intersects(b, a), "intersects is symmetric");
  verif_assert(same(rd(fcppt::math::box::intersection(b, a)), R), "intersection is symmetric");
  // "If there is no intersection, the null box will be returned" - for ALL boxes, also empty and inverted operands, with
  // the library's own predicate (which is tied to the point sets for non-empty boxes below)
  if (!its) verif_assert(is_null(r), "boxes that do not intersect (library predicate): intersection is the null box");
  if (nonempty(A) & nonempty(B))
  {
    verif_assert(!(in(A, P) & in(B, P)) | its, "non-empty boxes with a common point intersect");
    apt<T, N> W;
    for (sz i = 0; i < N; ++i) W.c[i] = A.lo[i] > B.lo[i] ? A.lo[i] : B.lo[i];
    bool const common{in(A, W) & in(B, W)};
    verif_assert(its == common, "non-empty boxes intersect exactly when a common point exists");
    if (!common)
    {
      verif_assert(is_null(r), "no common point: intersection is the null box");
      verif_assert(r == fcppt::math::box::null<box_t<T, N>>(), "no common point: intersection == null()");
    }
    else
      verif_assert(nonempty(R) & in(R, W), "common point: the intersection is non-empty and contains it");
  }
  verif_reach("inter-end");
}

// ---- contains
template <typename T, sz N>
void cont()
{
  abox<T, N> const A{fresh_box<T, N>("A_lo", "A_hi")}, B{fresh_box<T, N>("B_lo", "B_hi")};
  apt<T, N> const P{fresh_pt<T, N>("p")};
  verif_assume(nonempty(B));
  box_t<T, N> const a{mkbox(A)}, b{mkbox(B)};
  bool const c{fcppt::math::box::contains(a, b)};
  verif_out("contains", c);
  verif_assert(!(c & in(B, P)) | in(A, P), "contains(A,B) and p in B => p in A");
  verif_assert(c == subset_ne(B, A), "contains(A,B) <=> non-empty B is a subset of A");
  verif_assert(fcppt::math::box::contains(b, b), "contains is reflexive");
  // transitivity through a third box
  abox<T, N> const C{fresh_box<T, N>("C_lo", "C_hi")};
  box_t<T, N> const cc{mkbox(C)};
  verif_assert(!(fcppt::math::box::contains(cc, a) & c) | fcppt::math::box::contains(cc, b), "contains is transitive");
  verif_reach("cont-end");
}

// ---- bounding boxes
template <typename T, sz N>
void extend()
{
  abox<T, N> const A{fresh_box<T, N>("A_lo", "A_hi")}, B{fresh_box<T, N>("B_lo", "B_hi")}, C{fresh_box<T, N>("C_lo", "C_hi")};
  apt<T, N> const P{fresh_pt<T, N>("p")};
  verif_assume(nonempty(A) & nonempty(B));
  box_t<T, N> const a{mkbox(A)}, b{mkbox(B)};
  box_t<T, N> const e{fcppt::math::box::extend_bounding_box(a, b)};
  abox<T, N> const E{rd(e)};
  verif_assert(!(in(A, P) | in(B, P)) | in(E, P), "bounding box contains every point of both boxes");
  verif_assert(fcppt::math::box::contains(e, a) & fcppt::math::box::contains(e, b), "contains(bounding box, operand)");
  verif_assert(!(subset_ne(A, C) & subset_ne(B, C)) | subset_ne(E, C), "every box containing both contains the bounding box (minimality)");
  for (sz i = 0; i < N; ++i)
    verif_assert(E.lo[i] == (A.lo[i] < B.lo[i] ? A.lo[i] : B.lo[i]) && E.hi[i] == (A.hi[i] > B.hi[i] ? A.hi[i] : B.hi[i]), "bounding box = (min of minima, max of maxima)");
  verif_assert(same(rd(fcppt::math::box::extend_bounding_box(b, a)), E), "bounding box is symmetric");
  verif_reach("extend-end");
}

template <typename T, sz N>
void extend_pt()
{
  abox<T, N> const A{fresh_box<T, N>("A_lo", "A_hi")};
  apt<T, N> const P{fresh_pt<T, N>("p")};
  for (sz i = 0; i < N; ++i) verif_assume(A.lo[i] <= A.hi[i]);
  box_t<T, N> const a{mkbox(A)};
  box_t<T, N> const e{fcppt::math::box::extend_bounding_box(a, mkvec<T, N>(P.c))};
  abox<T, N> const E{rd(e)};
  if (in(A, P)) verif_assert(same(E, A) && e == a, "extending by a contained point gives the same box");
  for (sz i = 0; i < N; ++i)
  {
    verif_assert(E.lo[i] <= A.lo[i] && A.hi[i] <= E.hi[i], "extended box is a superset");
    verif_assert(E.lo[i] <= P.c[i] && P.c[i] <= E.hi[i], "the point lies in the closed hull of the extended box");
    verif_assert(E.lo[i] == (P.c[i] < A.lo[i] ? P.c[i] : A.lo[i]) && E.hi[i] == (P.c[i] > A.hi[i] ? P.c[i] : A.hi[i]), "extended box is just big enough");
  }
  verif_reach("extend_pt-end");
}

// ---- corner points, center
template <typename T, sz N>
void corners()
{
  abox<T, N> const A{fresh_box<T, N>("A_lo", "A_hi")};
  box_t<T, N> const a{mkbox(A)};
  constexpr std::size_t K{std::size_t{1} << N};
  auto const cs{fcppt::math::box::corner_points(a)};
  static_assert(std::is_same_v<std::remove_cv_t<decltype(cs)>, fcppt::array::object<vec_t<T, N>, K>>, "2^N corner points");
  T got[K][N];
  [&]<std::size_t... Ks>(std::index_sequence<Ks...>) { ((void)([&] { for (sz i = 0; i < N; ++i) got[Ks][i] = fcppt::array::get<Ks>(cs).get_unsafe(i); }()), ...); }(std::make_index_sequence<K>{});
  for (std::size_t k = 0; k < K; ++k)
  {
    bool corner{true}, ordered{true};
    for (sz i = 0; i < N; ++i)
    {
      corner = corner & ((got[k][i] == A.lo[i]) | (got[k][i] == A.hi[i]));
      ordered = ordered & (got[k][i] == (((k >> i) & 1U) != 0 ? A.hi[i] : A.lo[i]));
    }
    verif_assert(corner, "every returned point is a corner (each coordinate is pos_i or max_i)");
    verif_assert(ordered, "corner k selects max_i where bit i of k is set (order of vector::bit_strings)");
  }
  // every one of the 2^N combinations occurs
  for (std::size_t c = 0; c < K; ++c)
  {
    bool found{false};
    for (std::size_t k = 0; k < K; ++k)
    {
      bool eq{true};
      for (sz i = 0; i < N; ++i) eq = eq & (got[k][i] == (((c >> i) & 1U) != 0 ? A.hi[i] : A.lo[i]));
      found = found | eq;
    }
    verif_assert(found, "each of the 2^N min/max combinations is among the corner points");
  }
  // center (well-formed boxes): the distances to both ends differ by at most one
  bool wf{true};
  for (sz i = 0; i < N; ++i) wf = wf & (A.lo[i] <= A.hi[i]);
  if (wf)
  {
    vec_t<T, N> const ctr{fcppt::math::box::center(a)};
    apt<T, N> C;
    for (sz i = 0; i < N; ++i)
    {
      C.c[i] = ctr.get_unsafe(i);
      i64 const below{static_cast<i64>(C.c[i]) - static_cast<i64>(A.lo[i])}, above{static_cast<i64>(A.hi[i]) - static_cast<i64>(C.c[i])};
      verif_assert(below >= 0 && (above - below == 0 || above - below == 1), "center splits every side into halves differing by at most one (rounded down)");
    }
    if (nonempty(A)) verif_assert(in(A, C), "center of a non-empty box is a member");
  }
  verif_reach("corners-end");
}

// ---- shrink / stretch_absolute
template <typename T, sz N>
void resize()
{
  abox<T, N> const A{fresh_box<T, N>("A_lo", "A_hi")};
  apt<T, N> const P{fresh_pt<T, N>("p")};
  apt<T, N> V;
  for (sz i = 0; i < N; ++i)
  {
    if constexpr (std::is_signed_v<T>)
    {
      V.c[i] = static_cast<T>(verif_u32("v"));
      verif_assume(V.c[i] >= -(1 << 29) && V.c[i] < (1 << 29));
    }
    else
    {
      // unsigned: the moved corners must stay representable (no wrap below 0)
      V.c[i] = verif_u32("v");
      verif_assume(V.c[i] <= A.lo[i] && V.c[i] <= A.hi[i]);
    }
  }
  box_t<T, N> const a{mkbox(A)};
  vec_t<T, N> const v{mkvec<T, N>(V.c)};
  box_t<T, N> const s{fcppt::math::box::shrink(a, v)}, t{fcppt::math::box::stretch_absolute(a, v)};
  abox<T, N> const S{rd(s)}, U{rd(t)};
  bool in_s{true}, in_t{true};
  for (sz i = 0; i < N; ++i)
  {
    i64 const lo{A.lo[i]}, hi{A.hi[i]}, d{V.c[i]}, p{P.c[i]};
    verif_assert(static_cast<i64>(S.lo[i]) == lo + d && static_cast<i64>(S.hi[i]) == hi - d, "shrink moves pos by +v and max by -v");
    verif_assert(static_cast<i64>(U.lo[i]) == lo - d && static_cast<i64>(U.hi[i]) == hi + d, "stretch_absolute moves pos by -v and max by +v");
    in_s = in_s & (lo + d <= p) & (p < hi - d);
    in_t = in_t & (lo - d <= p) & (p < hi + d);
  }
  vec_t<T, N> const pv{mkvec<T, N>(P.c)};
  verif_assert(fcppt::math::box::contains_point(s, pv) == in_s, "p in shrink(B,v) <=> pos+v <= p < max-v");
  verif_assert(fcppt::math::box::contains_point(t, pv) == in_t, "p in stretch_absolute(B,v) <=> pos-v <= p < max+v");
  verif_assert(fcppt::math::box::stretch_absolute(s, v) == a, "stretch_absolute undoes shrink");
  verif_assert(fcppt::math::box::shrink(t, v) == a, "shrink undoes stretch_absolute");
  verif_reach("resize-end");
}

// ---- distance (signed coordinates, well-formed boxes); coordinate i is a shape parameter (one run per coordinate)
template <typename T, sz N>
void dist()
{
  abox<T, N> const A{fresh_box<T, N>("A_lo", "A_hi")}, B{fresh_box<T, N>("B_lo", "B_hi")};
  for (sz i = 0; i < N; ++i) verif_assume(A.lo[i] <= A.hi[i] && B.lo[i] <= B.hi[i]);
  box_t<T, N> const a{mkbox(A)}, b{mkbox(B)};
  vec_t<T, N> const d{fcppt::math::box::distance(a, b)};
  sz const i{static_cast<sz>(verif_param("i"))};
  T const got{d.get_unsafe(i)};
  T const a1{A.lo[i]}, a2{A.hi[i]}, b1{B.lo[i]}, b2{B.hi[i]};
  verif_out("distance_i", static_cast<std::uint32_t>(got));
  verif_assert(got == fcppt::math::interval_distance(fcppt::tuple::make(a1, a2), fcppt::tuple::make(b1, b2)), "distance_i = interval_distance of the i-th intervals");
  verif_assert(!(a2 <= b1) | (got == b1 - a2), "disjoint or touching: the gap");
  verif_assert(!(b2 <= a1) | (got == a1 - b2), "disjoint or touching: the gap (other side)");
  bool const overlap{(a2 > b1) & (b2 > a1)};
  verif_assert(!(overlap & (a1 < b1) & (a2 < b2)) | (got == -(a2 - b1)), "partial overlap: minus the common length");
  verif_assert(!(overlap & (b1 < a1) & (b2 < a2)) | (got == -(b2 - a1)), "partial overlap: minus the common length (other side)");
  T const in1{(b1 - a1) < (a2 - b2) ? static_cast<T>(b1 - a1) : static_cast<T>(a2 - b2)}, in2{(a1 - b1) < (b2 - a2) ? static_cast<T>(a1 - b1) : static_cast<T>(b2 - a2)};
  verif_assert(!((a1 < b1) & (b2 < a2)) | (got == -in1), "strict containment: minus the shorter remaining part");
  verif_assert(!((b1 < a1) & (a2 < b2)) | (got == -in2), "strict containment: minus the shorter remaining part (other side)");
  verif_assert(!overlap | (got <= 0), "overlapping intervals have non-positive distance");
  verif_assert(overlap | (got >= 0), "non-overlapping intervals have non-negative distance");
  verif_reach("dist-end");
}

// ---- comparison
template <typename T, sz N>
void cmp()
{
  abox<T, N> const A{fresh_box<T, N>("A_lo", "A_hi")}, B{fresh_box<T, N>("B_lo", "B_hi")};
  box_t<T, N> const a{mkbox(A)}, b{mkbox(B)};
  verif_assert((a == b) == same(A, B), "== holds exactly when all corners are equal");
  verif_assert((a != b) == !same(A, B), "!= is the negation");
  // lexicographic on (pos_0..pos_{N-1}, size_0..size_{N-1})
  T ka[2 * N], kb[2 * N];
  for (sz i = 0; i < N; ++i)
  {
    ka[i] = A.lo[i]; kb[i] = B.lo[i];
    ka[N + i] = static_cast<T>(A.hi[i] - A.lo[i]); kb[N + i] = static_cast<T>(B.hi[i] - B.lo[i]);
  }
  bool less{false}, decided{false};
  for (sz i = 0; i < 2 * N; ++i)
  {
    less = less | (!decided & (ka[i] < kb[i]));
    decided = decided | (ka[i] != kb[i]);
  }
  verif_assert((a < b) == less, "< is lexicographic on (pos, size)");
  verif_assert(!(a < a), "< is irreflexive");
  verif_reach("cmp-end");
}
}

// ---- the NON-CONST access paths: vector &pos(), vector &max() and the non-const element accessors they return
template <typename T, sz N>
void mutate()
{
  abox<T, N> const A{fresh_box<T, N>("A_lo", "A_hi")};
  apt<T, N> const P{fresh_pt<T, N>("p")}, V{fresh_pt<T, N>("v")};
  unsigned const op{verif_u8("op")};
  verif_assume(op < 4);
  box_t<T, N> b{mkbox(A)};              // non-const
  box_t<T, N> const &cb{b};             // const view of the same object
  for (sz i = 0; i < N; ++i)
  {
    verif_assert(b.pos().get_unsafe(i) == A.lo[i] && b.max().get_unsafe(i) == A.hi[i], "non-const pos()/max() read the corners");
    verif_assert(b.pos().get_unsafe(i) == cb.pos().get_unsafe(i) && b.max().get_unsafe(i) == cb.max().get_unsafe(i), "non-const and const accessors read the same values");
  }
  verif_assert(&b.pos() == &cb.pos() && &b.max() == &cb.max() && &b.pos() != &b.max(), "non-const and const accessors designate the same two member vectors");
  abox<T, N> E{A};
  switch (op)
  {
  case 0: b.max() = mkvec<T, N>(V.c); for (sz i = 0; i < N; ++i) E.hi[i] = V.c[i]; break;
  case 1: b.pos() = mkvec<T, N>(V.c); for (sz i = 0; i < N; ++i) E.lo[i] = V.c[i]; break;
  case 2: b.max().get_unsafe(N - 1) = V.c[0]; E.hi[N - 1] = V.c[0]; break;   // one coordinate through the element accessor
  default: b.pos().x() = V.c[0]; E.lo[0] = V.c[0]; break;
  }
  verif_out("member", in(E, P));
  verif_assert(same(rd(cb), E), "writing through max()/pos() changes exactly that corner");
  verif_assert(fcppt::math::box::contains_point(cb, mkvec<T, N>(P.c)) == in(E, P), "contains_point sees the modified corner");
  dim_t<T, N> const s{cb.size()};
  for (sz i = 0; i < N; ++i) verif_assert(s.get_unsafe(i) == static_cast<T>(E.hi[i] - E.lo[i]), "size() = max - pos after the modification");
  verif_assert(cb == mkbox(E), "the modified box equals the box built from the new corners");
  verif_assert(cb.left() == E.lo[0] && cb.right() == E.hi[0], "left()/right() see the modification");
  verif_reach("mutate-end");
}

#define H(name, ...) VERIF_HARNESS(name) { __VA_ARGS__; }
#define ROW(T, TN, N) \
  H(h_basic_##TN##_##N, basic<T, N>()) H(h_inter_##TN##_##N, inter<T, N>()) H(h_cont_##TN##_##N, cont<T, N>()) \
  H(h_extend_##TN##_##N, extend<T, N>()) H(h_extend_pt_##TN##_##N, extend_pt<T, N>()) H(h_corners_##TN##_##N, corners<T, N>()) \
  H(h_resize_##TN##_##N, resize<T, N>()) H(h_cmp_##TN##_##N, cmp<T, N>())
H(h_mutate_int_1, mutate<int, 1>()) H(h_mutate_int_2, mutate<int, 2>()) H(h_mutate_int_3, mutate<int, 3>()) H(h_mutate_uint_1, mutate<unsigned, 1>()) H(h_mutate_uint_2, mutate<unsigned, 2>()) H(h_mutate_uint_3, mutate<unsigned, 3>())
//@harness h_mutate_{T}_{N} for T in int,uint for N in 1,2,3 tier=quick loop=40
ROW(int, int, 1) ROW(int, int, 2) ROW(int, int, 3) ROW(unsigned, uint, 1) ROW(unsigned, uint, 2) ROW(unsigned, uint, 3)
H(h_dist_int_1, dist<int, 1>()) H(h_dist_int_2, dist<int, 2>()) H(h_dist_int_3, dist<int, 3>())
//@harness h_basic_{T}_{N} for T in int,uint for N in 1,2,3 tier=quick loop=40
//@harness h_inter_{T}_{N} for T in int,uint for N in 1,2,3 tier=quick loop=40
//@harness h_cont_{T}_{N} for T in int,uint for N in 1,2,3 tier=quick loop=40
//@harness h_extend_{T}_{N} for T in int,uint for N in 1,2,3 tier=quick loop=40
//@harness h_extend_pt_{T}_{N} for T in int,uint for N in 1,2,3 tier=quick loop=40
//@harness h_corners_{T}_{N} for T in int,uint for N in 1,2,3 tier=quick loop=300
//@harness h_resize_{T}_{N} for T in int,uint for N in 1,2,3 tier=quick loop=40
//@harness h_cmp_{T}_{N} for T in int,uint for N in 1,2,3 tier=quick loop=40
//@harness h_dist_int_{N} for N in 1,2 param i=0..1 if i<int(N) tier=quick loop=40
//@harness h_dist_int_3 param i=2 tier=quick loop=40
//@harness h_dist_int_3 param i=0..1 tier=thorough loop=40
