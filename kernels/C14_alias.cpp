// C14 (part 3) - aliasing arguments: an operator that takes its scalar or its other operand by const reference must
// behave as if it had been given a COPY of the original value when that reference designates (a component of) the
// object being modified.
// Real code: vector / dim / matrix  operator*=(value_type const &), operator+=, -=, *= (object const &), the free
// operators object * scalar / scalar * object (scalar captured by reference), m = m * m, m = transpose(m), and the
// converting assignment between a static object and a view of ITS OWN storage (two different storage types that
// designate the same memory).  Static storage and a user view storage.  The component passed by reference is never
// the last one of the loop order (component 0, a middle one, at_r_c<0,1>, at_r_c<1,0>, at_r_c<1,1> for >= 3x3...).
// Scalars: int, full 32-bit symbolic; -fwrapv (ring Z/2^32), som=1 as in the other C14 kernels.
// Outside the claim: PARTIALLY overlapping views (a view shifted by one element over the same array): copy semantics
// are not documented for them.
//@property C14
//@flags -fwrapv
#include "verif_api.h"
#include <fcppt/math/size_constant.hpp>
#include <fcppt/math/size_type.hpp>
#include <fcppt/math/static_size.hpp>
#include <fcppt/math/dim/arithmetic.hpp>
#include <fcppt/math/dim/comparison.hpp>
#include <fcppt/math/dim/init.hpp>
#include <fcppt/math/dim/object_impl.hpp>
#include <fcppt/math/dim/static.hpp>
#include <fcppt/math/matrix/arithmetic.hpp>
#include <fcppt/math/matrix/at_r.hpp>
#include <fcppt/math/matrix/at_r_c.hpp>
#include <fcppt/math/matrix/comparison.hpp>
#include <fcppt/math/matrix/index.hpp>
#include <fcppt/math/matrix/init.hpp>
#include <fcppt/math/matrix/object_impl.hpp>
#include <fcppt/math/matrix/static.hpp>
#include <fcppt/math/matrix/transpose.hpp>
#include <fcppt/math/matrix/vector.hpp>
#include <fcppt/math/vector/arithmetic.hpp>
#include <fcppt/math/vector/comparison.hpp>
#include <fcppt/math/vector/init.hpp>
#include <fcppt/math/vector/object_impl.hpp>
#include <fcppt/math/vector/static.hpp>
#include <cstdint>
#include <type_traits>

namespace
{
using sz = fcppt::math::size_type;
namespace mx = fcppt::math::matrix;
namespace vx = fcppt::math::vector;
namespace dx = fcppt::math::dim;

template <typename T, sz N>
class view_storage
{
public:
  using value_type = T;
  using size_type = fcppt::math::size_type;
  using storage_size = fcppt::math::static_size<N>;
  using pointer = value_type *;
  using reference = value_type &;
  using const_reference = value_type const &;
  explicit view_storage(pointer const _data) : data_(_data) {}
  reference operator[](size_type const _index) { return data_[_index]; }
  const_reference operator[](size_type const _index) const { return data_[_index]; }
private:
  pointer data_;
};
struct st_tag {};
struct vw_tag {};

template <sz N> struct arr { int c[N]; };
template <sz N> arr<N> fresh(char const *const n) { arr<N> a; for (sz i = 0; i < N; ++i) a.c[i] = static_cast<int>(verif_u32(n)); return a; }
template <sz N, typename V>
void expect(V const &v, arr<N> const &e, char const *const what)
{
  for (sz i = 0; i < N; ++i) verif_assert(v.get_unsafe(i) == e.c[i], what);
}

// vector and dim share the harness: K selects the class template
struct vec_kind
{
  template <sz N> using stat = vx::static_<int, N>;
  template <sz N> using view = vx::object<int, N, view_storage<int, N>>;
  template <sz N> static stat<N> mk(arr<N> const &a) { return vx::init<stat<N>>([&a]<sz I>(fcppt::math::size_constant<I>) { return a.c[I]; }); }
  template <typename V> static decltype(auto) first(V &v) { return v.x(); }
};
struct dim_kind
{
  template <sz N> using stat = dx::static_<int, N>;
  template <sz N> using view = dx::object<int, N, view_storage<int, N>>;
  template <sz N> static stat<N> mk(arr<N> const &a) { return dx::init<stat<N>>([&a]<sz I>(fcppt::math::size_constant<I>) { return a.c[I]; }); }
  template <typename V> static decltype(auto) first(V &v) { return v.w(); }
};

// ops on one object `a` (static, or a view of the array A) whose second argument aliases `a`
template <typename Kind, sz N, typename S>
void vec_alias()
{
  arr<N> A{fresh<N>("a")};
  arr<N> const A0{A};
  unsigned const op{verif_u8("op")};
  verif_assume(op < 14);
  auto a{[&] { if constexpr (std::is_same_v<S, st_tag>) return Kind::template mk<N>(A); else return typename Kind::template view<N>{view_storage<int, N>{A.c}}; }()};
  arr<N> const B{fresh<N>("b")};
  auto const b{Kind::template mk<N>(B)};
  constexpr sz mid{N >= 3 ? 1 : 0};
  arr<N> e;
  switch (op)
  {
  case 0: a *= Kind::first(a); for (sz i = 0; i < N; ++i) e.c[i] = A0.c[i] * A0.c[0]; break;
  case 1: a *= a.get_unsafe(mid); for (sz i = 0; i < N; ++i) e.c[i] = A0.c[i] * A0.c[mid]; break;
  case 2: a += a; for (sz i = 0; i < N; ++i) e.c[i] = A0.c[i] + A0.c[i]; break;
  case 3: a -= a; for (sz i = 0; i < N; ++i) e.c[i] = 0; break;
  case 4: a *= a; for (sz i = 0; i < N; ++i) e.c[i] = A0.c[i] * A0.c[i]; break;
  case 5: a = a * Kind::first(a); for (sz i = 0; i < N; ++i) e.c[i] = A0.c[i] * A0.c[0]; break;
  case 6: a = a.get_unsafe(mid) * a; for (sz i = 0; i < N; ++i) e.c[i] = A0.c[mid] * A0.c[i]; break;
  case 7: a = a + a * a; for (sz i = 0; i < N; ++i) e.c[i] = A0.c[i] + A0.c[i] * A0.c[i]; break;
  case 8: (a *= Kind::first(a)) *= Kind::first(a); for (sz i = 0; i < N; ++i) e.c[i] = A0.c[i] * A0.c[0] * (A0.c[0] * A0.c[0]); break;
  // the assigning operators return a reference to the object itself: a chained second operation lands on `a`, as for int
  case 9: (a += b) += b; for (sz i = 0; i < N; ++i) e.c[i] = A0.c[i] + B.c[i] + B.c[i]; break;
  case 10: (a -= b) -= b; for (sz i = 0; i < N; ++i) e.c[i] = A0.c[i] - B.c[i] - B.c[i]; break;
  case 11: (a *= b) *= b; for (sz i = 0; i < N; ++i) e.c[i] = A0.c[i] * B.c[i] * B.c[i]; break;
  case 12: (a += b) *= B.c[0]; for (sz i = 0; i < N; ++i) e.c[i] = (A0.c[i] + B.c[i]) * B.c[0]; break;
  default: (a -= b) += a; for (sz i = 0; i < N; ++i) e.c[i] = (A0.c[i] - B.c[i]) + (A0.c[i] - B.c[i]); break;
  }
  verif_out("r0", static_cast<std::uint32_t>(a.get_unsafe(0)));
  expect<N>(a, e, "aliasing argument / chained assigning operators: result equals the operation applied with a copy of the original value, on the object itself");
  if constexpr (std::is_same_v<S, vw_tag>) for (sz i = 0; i < N; ++i) verif_assert(A.c[i] == e.c[i], "aliasing argument through a view: the viewed array holds the copy-semantics result");
  verif_reach("vec_alias-end");
}

// a static object and a view of its own storage: two storage types, one memory
template <typename Kind, sz N>
void vec_alias_mixed()
{
  arr<N> const A0{fresh<N>("a")};
  unsigned const op{verif_u8("op")};
  verif_assume(op < 8);
  auto s{Kind::template mk<N>(A0)};
  typename Kind::template view<N> v{view_storage<int, N>{s.storage().data()}};
  arr<N> e;
  switch (op)
  {
  case 0: s += v; for (sz i = 0; i < N; ++i) e.c[i] = A0.c[i] + A0.c[i]; break;
  case 1: s -= v; for (sz i = 0; i < N; ++i) e.c[i] = 0; break;
  case 2: s *= v; for (sz i = 0; i < N; ++i) e.c[i] = A0.c[i] * A0.c[i]; break;
  case 3: v += s; for (sz i = 0; i < N; ++i) e.c[i] = A0.c[i] + A0.c[i]; break;
  case 4: v *= s; for (sz i = 0; i < N; ++i) e.c[i] = A0.c[i] * A0.c[i]; break;
  case 5: s = v; e = A0; break;
  case 6: v = s; e = A0; break;
  default: s *= Kind::first(v); for (sz i = 0; i < N; ++i) e.c[i] = A0.c[i] * A0.c[0]; break;
  }
  expect<N>(s, e, "static object combined with a view of its own storage: copy semantics");
  expect<N>(v, e, "the view sees the same result");
  verif_reach("vec_alias_mixed-end");
}

// ---- matrix
template <sz R, sz C> struct amat { int m[R][C]; };
template <sz R, sz C> amat<R, C> freshm(char const *const n) { amat<R, C> a; for (sz i = 0; i < R; ++i) for (sz j = 0; j < C; ++j) a.m[i][j] = static_cast<int>(verif_u32(n)); return a; }
template <sz R, sz C> using smat = mx::static_<int, R, C>;
template <sz R, sz C> using vmat = mx::object<int, R, C, view_storage<int, R * C>>;
template <sz R, sz C> smat<R, C> mks(amat<R, C> const &a) { return mx::init<smat<R, C>>([&a]<sz Row, sz Col>(mx::index<Row, Col>) { return a.m[Row][Col]; }); }
template <sz R, sz C, typename M>
void expectm(M const &m, amat<R, C> const &e, char const *const what)
{
  for (sz i = 0; i < R; ++i) for (sz j = 0; j < C; ++j) verif_assert(m.get_unsafe(i).get_unsafe(j) == e.m[i][j], what);
}

template <sz R, sz C, typename S>
void mat_alias()
{
  amat<R, C> A{freshm<R, C>("a")};
  amat<R, C> const A0{A};
  unsigned const op{verif_u8("op")};
  verif_assume(op < (R == C ? 10U : 7U));
  auto a{[&] { if constexpr (std::is_same_v<S, st_tag>) return mks(A); else return vmat<R, C>{view_storage<int, R * C>{&A.m[0][0]}}; }()};
  amat<R, C> e;
  auto const scaled{[&A0](int const s) { amat<R, C> r; for (sz i = 0; i < R; ++i) for (sz j = 0; j < C; ++j) r.m[i][j] = A0.m[i][j] * s; return r; }};
  switch (op)
  {
  case 0: a *= a.m00(); e = scaled(A0.m[0][0]); break;
  case 1: a *= mx::at_r_c<0, 1>(a); e = scaled(A0.m[0][1]); break;
  case 2: a *= mx::at_r_c<1, 0>(a); e = scaled(A0.m[1][0]); break;
  case 3: a *= mx::at_r_c<1, 1>(a); e = scaled(A0.m[1][1]); break;
  case 4: a += a; for (sz i = 0; i < R; ++i) for (sz j = 0; j < C; ++j) e.m[i][j] = A0.m[i][j] + A0.m[i][j]; break;
  case 5: a -= a; for (sz i = 0; i < R; ++i) for (sz j = 0; j < C; ++j) e.m[i][j] = 0; break;
  case 6: a = a * mx::at_r_c<1, 0>(a); e = scaled(A0.m[1][0]); break;
  default:
    if constexpr (R == C)
    {
      if (op == 7)
      {
        a = a * a;
        for (sz i = 0; i < R; ++i) for (sz j = 0; j < C; ++j) { int s{0}; for (sz k = 0; k < C; ++k) s += A0.m[i][k] * A0.m[k][j]; e.m[i][j] = s; }
      }
      else if (op == 8)
      {
        a = mx::transpose(a);
        for (sz i = 0; i < R; ++i) for (sz j = 0; j < C; ++j) e.m[i][j] = A0.m[j][i];
      }
      else
      {
        a = mx::at_r_c<0, 1>(a) * a + a;
        for (sz i = 0; i < R; ++i) for (sz j = 0; j < C; ++j) e.m[i][j] = A0.m[0][1] * A0.m[i][j] + A0.m[i][j];
      }
    }
    break;
  }
  verif_out("r00", static_cast<std::uint32_t>(a.get_unsafe(0).get_unsafe(0)));
  expectm<R, C>(a, e, "aliasing argument: result equals the operation applied with a copy of the original value");
  if constexpr (std::is_same_v<S, vw_tag>) for (sz i = 0; i < R; ++i) for (sz j = 0; j < C; ++j) verif_assert(A.m[i][j] == e.m[i][j], "aliasing argument through a view: the viewed array holds the copy-semantics result");
  verif_reach("mat_alias-end");
}

// a static matrix and a view of its own storage; a row view of the matrix as the vector operand
template <sz R, sz C>
void mat_alias_mixed()
{
  amat<R, C> const A0{freshm<R, C>("a")};
  unsigned const op{verif_u8("op")};
  verif_assume(op < 6);
  auto s{mks(A0)};
  vmat<R, C> v{view_storage<int, R * C>{s.storage().data()}};
  amat<R, C> e{A0};
  switch (op)
  {
  case 0: s += v; for (sz i = 0; i < R; ++i) for (sz j = 0; j < C; ++j) e.m[i][j] = A0.m[i][j] + A0.m[i][j]; break;
  case 1: v -= s; for (sz i = 0; i < R; ++i) for (sz j = 0; j < C; ++j) e.m[i][j] = 0; break;
  case 2: s = v; break;
  case 3: v = s; break;
  case 4: s *= v.m01(); for (sz i = 0; i < R; ++i) for (sz j = 0; j < C; ++j) e.m[i][j] = A0.m[i][j] * A0.m[0][1]; break;
  default:
  {
    // M * (row 0 of M, passed as a row VIEW into M)
    auto const r{s * mx::at_r<0>(s)};
    for (sz i = 0; i < R; ++i) { int t{0}; for (sz k = 0; k < C; ++k) t += A0.m[i][k] * A0.m[0][k]; verif_assert(r.get_unsafe(i) == t, "matrix * (its own row view) = product with a copy of the row"); }
    break;
  }
  }
  expectm<R, C>(s, e, "static matrix combined with a view of its own storage: copy semantics");
  expectm<R, C>(v, e, "the view sees the same result");
  verif_reach("mat_alias_mixed-end");
}
}

#define H(name, ...) VERIF_HARNESS(name) { __VA_ARGS__; }
#define VROW(N) \
  H(h_alias_vec_##N##_s, vec_alias<vec_kind, N, st_tag>()) H(h_alias_vec_##N##_v, vec_alias<vec_kind, N, vw_tag>()) H(h_alias_vec_##N##_m, vec_alias_mixed<vec_kind, N>()) \
  H(h_alias_dim_##N##_s, vec_alias<dim_kind, N, st_tag>()) H(h_alias_dim_##N##_v, vec_alias<dim_kind, N, vw_tag>()) H(h_alias_dim_##N##_m, vec_alias_mixed<dim_kind, N>())
VROW(2) VROW(3) VROW(4)
//@harness h_alias_{K}_{N}_{S} for K in vec,dim for N in 2,3,4 for S in s,v,m tier=quick loop=64 som=1
#define MROW(R, C) H(h_alias_mat_##R##x##C##_s, mat_alias<R, C, st_tag>()) H(h_alias_mat_##R##x##C##_v, mat_alias<R, C, vw_tag>()) H(h_alias_mat_##R##x##C##_m, mat_alias_mixed<R, C>())
MROW(2, 2) MROW(3, 3) MROW(2, 3) MROW(4, 4)
//@harness h_alias_mat_{D}_{S} for D in 2x2,3x3,2x3,4x4 for S in s,v,m tier=quick loop=200 som=1
