// C14 (part 2) - matrix operators are the linear-algebraic operations over the exact scalar ring, and obey its laws.
// Real code: fcppt::math::matrix::{object (static storage and a user view storage over a row-major array), init, row,
// at_r (row views), at_r_c, mRC accessors, operator + - * (matrix, scalar both sides), += -= *=, operator*(matrix,
// vector), transpose, determinant (Laplace), adjugate, delete_row_and_column, identity, translation, scaling,
// structure_cast, comparison} for 2x2, 3x3, 4x4 and the non-square 2x3 / 3x2.
// Scalars: int, EVERY entry a full 32-bit symbolic value; the TU is compiled with -fwrapv, i.e. the arithmetic is the
// commutative ring Z/2^32 (Z -> Z/2^32 is a ring homomorphism; signed overflow - UB in ISO C++ - is not examined).
//  (a) agreement: every operation equals the textbook definition evaluated on plain arrays in the harness
//      (determinant: Leibniz permutation sum - not the Laplace recursion of the implementation);
//  (b) laws, through the real operators only: associativity, both distributivities, scalar compatibility,
//      (AB)^T = B^T A^T, transpose involution, det(AB) = det A det B, det(A^T) = det A, det(sA) = s^N det A,
//      A adj(A) = adj(A) A = det(A) I, Laplace expansion along every row and column, (AB)v = A(Bv), <Av,w> = <v,A^T w>.
// These are polynomial identities with up to 4!*4! monomials of degree 8 over 32 variables: z3's bit-blaster does not
// decide them (design phase: unknown after 60 s); they are decided by z3's polynomial rewriter (sum-of-monomials normal
// form modulo 2^32, harness option som=1, see engine/irsym.py _check) followed by smt - all values, full width.
// Outside the claim: inverse (division), rotation_*, exponential_pade, logarithm, sqrt, infinity_norm (floating point),
// transform_point/direction (division by w / narrow of float use), output (iostream), signed-overflow UB.
//@property C14
//@flags -fwrapv
#include "verif_api.h"
#include <fcppt/cast/size_fun.hpp>
#include <fcppt/cast/to_unsigned_fun.hpp>
#include <fcppt/math/size_constant.hpp>
#include <fcppt/math/size_type.hpp>
#include <fcppt/math/static_size.hpp>
#include <fcppt/math/matrix/adjugate.hpp>
#include <fcppt/math/matrix/arithmetic.hpp>
#include <fcppt/math/matrix/at_r.hpp>
#include <fcppt/math/matrix/at_r_c.hpp>
#include <fcppt/math/matrix/comparison.hpp>
#include <fcppt/math/matrix/delete_row_and_column.hpp>
#include <fcppt/math/matrix/determinant.hpp>
#include <fcppt/math/matrix/identity.hpp>
#include <fcppt/math/matrix/index.hpp>
#include <fcppt/math/matrix/init.hpp>
#include <fcppt/math/matrix/object_impl.hpp>
#include <fcppt/math/matrix/row.hpp>
#include <fcppt/math/matrix/scaling.hpp>
#include <fcppt/math/matrix/static.hpp>
#include <fcppt/math/matrix/structure_cast.hpp>
#include <fcppt/math/matrix/translation.hpp>
#include <fcppt/math/matrix/transpose.hpp>
#include <fcppt/math/matrix/vector.hpp>
#include <fcppt/math/vector/arithmetic.hpp>
#include <fcppt/math/vector/comparison.hpp>
#include <fcppt/math/vector/dot.hpp>
#include <fcppt/math/vector/init.hpp>
#include <fcppt/math/vector/object_impl.hpp>
#include <fcppt/math/vector/static.hpp>
#include <cstddef>
#include <cstdint>
#include <type_traits>
#include <utility>

namespace
{
using sz = fcppt::math::size_type;
namespace mx = fcppt::math::matrix;
namespace vx = fcppt::math::vector;

template <sz R, sz C> struct amat { int m[R][C]; };
template <sz N> struct avec { int c[N]; };
template <sz R, sz C> amat<R, C> fresh(char const *const n) { amat<R, C> a; for (sz i = 0; i < R; ++i) for (sz j = 0; j < C; ++j) a.m[i][j] = static_cast<int>(verif_u32(n)); return a; }
template <sz N> avec<N> freshv(char const *const n) { avec<N> a; for (sz i = 0; i < N; ++i) a.c[i] = static_cast<int>(verif_u32(n)); return a; }

template <typename T, sz N>
class view_storage
{
public:
  using value_type = T;
  using size_type = fcppt::math::size_type;
  using storage_size = fcppt::math::static_size<N>;
  using pointer = value_type *;
  using reference = value_type &;
  using const_reference = value_type const &;
  explicit view_storage(pointer const _data) : data_(_data) {}
  reference operator[](size_type const _index) { return data_[_index]; }
  const_reference operator[](size_type const _index) const { return data_[_index]; }
private:
  pointer data_;
};

template <sz R, sz C> using smat = mx::static_<int, R, C>;
template <sz R, sz C> using vmat = mx::object<int, R, C, view_storage<int, R * C>>;
template <sz N> using svec = vx::static_<int, N>;
struct st_tag {};
struct vw_tag {};
template <sz R, sz C> smat<R, C> mk(st_tag, amat<R, C> &a) { return mx::init<smat<R, C>>([&a]<sz Row, sz Col>(mx::index<Row, Col>) { return a.m[Row][Col]; }); }
template <sz R, sz C> vmat<R, C> mk(vw_tag, amat<R, C> &a) { return vmat<R, C>{view_storage<int, R * C>{&a.m[0][0]}}; } // row-major view
template <sz R, sz C> smat<R, C> mks(amat<R, C> a) { return mk(st_tag{}, a); }
template <sz N> svec<N> mkv(avec<N> const &a) { return vx::init<svec<N>>([&a]<sz I>(fcppt::math::size_constant<I>) { return a.c[I]; }); }

template <sz R, sz C, typename M>
amat<R, C> rd(M const &m)
{
  static_assert(M::rows() == R && M::columns() == C, "result shape");
  amat<R, C> r;
  for (sz i = 0; i < R; ++i) for (sz j = 0; j < C; ++j) r.m[i][j] = m.get_unsafe(i).get_unsafe(j);
  return r;
}
template <sz R, sz C, typename M>
void expect(M const &m, amat<R, C> const &e, char const *const what)
{
  amat<R, C> const g{rd<R, C>(m)};
  for (sz i = 0; i < R; ++i) for (sz j = 0; j < C; ++j) verif_assert(g.m[i][j] == e.m[i][j], what);
}
template <sz N, typename V>
void expectv(V const &v, avec<N> const &e, char const *const what)
{
  static_assert(V::static_size::value == N, "result dimension");
  for (sz i = 0; i < N; ++i) verif_assert(v.get_unsafe(i) == e.c[i], what);
}

// ---- textbook definitions on arrays
template <sz R, sz C, typename F> amat<R, C> zip(amat<R, C> const &a, amat<R, C> const &b, F const f) { amat<R, C> r; for (sz i = 0; i < R; ++i) for (sz j = 0; j < C; ++j) r.m[i][j] = f(a.m[i][j], b.m[i][j]); return r; }
template <sz R, sz C, typename F> amat<R, C> each(amat<R, C> const &a, F const f) { amat<R, C> r; for (sz i = 0; i < R; ++i) for (sz j = 0; j < C; ++j) r.m[i][j] = f(a.m[i][j]); return r; }
template <sz R, sz K, sz C>
amat<R, C> ref_mul(amat<R, K> const &a, amat<K, C> const &b)
{
  amat<R, C> r;
  for (sz i = 0; i < R; ++i)
    for (sz j = 0; j < C; ++j)
    {
      int s{0};
      for (sz k = 0; k < K; ++k) s += a.m[i][k] * b.m[k][j];
      r.m[i][j] = s;
    }
  return r;
}
template <sz R, sz C> amat<C, R> ref_tr(amat<R, C> const &a) { amat<C, R> r; for (sz i = 0; i < R; ++i) for (sz j = 0; j < C; ++j) r.m[j][i] = a.m[i][j]; return r; }
template <sz N> amat<N, N> ref_id() { amat<N, N> r; for (sz i = 0; i < N; ++i) for (sz j = 0; j < N; ++j) r.m[i][j] = i == j ? 1 : 0; return r; }
template <sz R, sz C> avec<R> ref_mv(amat<R, C> const &a, avec<C> const &v) { avec<R> r; for (sz i = 0; i < R; ++i) { int s{0}; for (sz j = 0; j < C; ++j) s += a.m[i][j] * v.c[j]; r.c[i] = s; } return r; }
// Leibniz: sum over all permutations p of sign(p) * prod_i a[i][p(i)]
template <sz N>
int ref_det(amat<N, N> const &a)
{
  unsigned count{1};
  for (sz i = 0; i < N; ++i) count *= N;
  int total{0};
  for (unsigned code = 0; code < count; ++code)
  {
    sz p[N];
    unsigned c{code};
    for (sz i = 0; i < N; ++i) { p[i] = c % N; c /= N; }
    bool perm{true};
    unsigned inversions{0};
    for (sz i = 0; i < N; ++i)
      for (sz j = i + 1; j < N; ++j)
      {
        if (p[i] == p[j]) perm = false;
        if (p[i] > p[j]) ++inversions;
      }
    if (!perm) continue;
    int prod{1};
    for (sz i = 0; i < N; ++i) prod *= a.m[i][p[i]];
    total += (inversions % 2U == 0U) ? prod : -prod;
  }
  return total;
}
template <sz R, sz C>
amat<R - 1, C - 1> ref_delete(amat<R, C> const &a, sz const dr, sz const dc)
{
  amat<R - 1, C - 1> r;
  sz ri{0};
  for (sz i = 0; i < R; ++i)
  {
    if (i == dr) continue;
    sz ci{0};
    for (sz j = 0; j < C; ++j)
    {
      if (j == dc) continue;
      r.m[ri][ci] = a.m[i][j];
      ++ci;
    }
    ++ri;
  }
  return r;
}
// adj(A)[i][j] = (-1)^(i+j) * minor(j,i)
template <sz N>
amat<N, N> ref_adj(amat<N, N> const &a)
{
  amat<N, N> r;
  for (sz i = 0; i < N; ++i)
    for (sz j = 0; j < N; ++j)
    {
      int const d{ref_det<N - 1>(ref_delete<N, N>(a, j, i))};
      r.m[i][j] = ((i + j) % 2U == 0U) ? d : -d;
    }
  return r;
}

template <sz R, sz C, std::size_t I, std::size_t... Js>
auto row_of(amat<R, C> const &a, std::index_sequence<Js...>) { return mx::row(a.m[I][Js]...); }
template <sz R, sz C, std::size_t... Is>
smat<R, C> from_rows(amat<R, C> const &a, std::index_sequence<Is...>) { return smat<R, C>{row_of<R, C, Is>(a, std::make_index_sequence<C>{})...}; }

// ---- (a) element access, construction, entry-wise operators
template <sz R, sz C, typename S1, typename S2>
void mat_basic()
{
  amat<R, C> A{fresh<R, C>("a")}, B{fresh<R, C>("b")};
  amat<R, C> const A0{A}, B0{B};
  int const s{static_cast<int>(verif_u32("s"))};
  auto const a{mk(S1{}, A)};
  auto const b{mk(S2{}, B)};
  static_assert(decltype(a)::rows() == R && decltype(a)::columns() == C, "rows()/columns()");
  expect<R, C>(a, A0, "init / view: entry (r,c) is element r*C+c (row major)");
  expect<R, C>(from_rows<R, C>(A0, std::make_index_sequence<R>{}), A0, "constructor from R rows of C entries");
  // compile-time accessors
  [&]<std::size_t... Is>(std::index_sequence<Is...>) {
    ((void)verif_assert(mx::at_r_c<Is / C, Is % C>(a) == A0.m[Is / C][Is % C], "at_r_c<R,C>"), ...);
    ((void)verif_assert(mx::at_r<Is / C>(a).get_unsafe(Is % C) == A0.m[Is / C][Is % C], "at_r<R> is a view of row R"), ...);
  }(std::make_index_sequence<R * C>{});
  verif_assert(a.m00() == A0.m[0][0] && a.m01() == A0.m[0][1] && a.m10() == A0.m[1][0] && a.m11() == A0.m[1][1], "m00..m11");
  if constexpr (C >= 3) verif_assert(a.m02() == A0.m[0][2] && a.m12() == A0.m[1][2], "m02, m12");
  if constexpr (R >= 3) verif_assert(a.m20() == A0.m[2][0] && a.m21() == A0.m[2][1], "m20, m21");
  if constexpr (R >= 3 && C >= 3) verif_assert(a.m22() == A0.m[2][2], "m22");
  if constexpr (R >= 4 && C >= 4) verif_assert(a.m03() == A0.m[0][3] && a.m13() == A0.m[1][3] && a.m23() == A0.m[2][3] && a.m30() == A0.m[3][0] && a.m31() == A0.m[3][1] && a.m32() == A0.m[3][2] && a.m33() == A0.m[3][3], "m03..m33");
  // row views as vectors
  svec<C> const r0{mx::at_r<R - 1>(a)};
  for (sz j = 0; j < C; ++j) verif_assert(r0.get_unsafe(j) == A0.m[R - 1][j], "a row view converts to a vector of that row");
  // entry-wise operators
  expect<R, C>(a + b, zip(A0, B0, [](int x, int y) { return x + y; }), "matrix + matrix is entry-wise");
  expect<R, C>(a - b, zip(A0, B0, [](int x, int y) { return x - y; }), "matrix - matrix is entry-wise");
  expect<R, C>(a * s, each(A0, [s](int x) { return x * s; }), "matrix * scalar");
  expect<R, C>(s * a, each(A0, [s](int x) { return s * x; }), "scalar * matrix");
  expect<C, R>(mx::transpose(a), ref_tr(A0), "transpose swaps the indices");
  auto const wide{mx::structure_cast<mx::static_<long, R, C>, fcppt::cast::size_fun>(a)};
  auto const uns{mx::structure_cast<mx::static_<unsigned, R, C>, fcppt::cast::to_unsigned_fun>(a)};
  for (sz i = 0; i < R; ++i)
    for (sz j = 0; j < C; ++j)
      verif_assert(wide.get_unsafe(i).get_unsafe(j) == static_cast<long>(A0.m[i][j]) && uns.get_unsafe(i).get_unsafe(j) == static_cast<unsigned>(A0.m[i][j]), "structure_cast converts every entry in place");
  bool same{true};
  for (sz i = 0; i < R; ++i) for (sz j = 0; j < C; ++j) same = same & (A0.m[i][j] == B0.m[i][j]);
  verif_out("same", same);
  verif_assert((a == b) == same, "== <=> all entries equal");
  verif_assert((a != b) == !same, "!= is the negation of ==");
  // compound assignment on a copy / through the view
  unsigned const op{verif_u8("op")};
  verif_assume(op < 4);
  auto t{mk(S1{}, A)};
  amat<R, C> e;
  switch (op)
  {
  case 0: t += b; e = zip(A0, B0, [](int x, int y) { return x + y; }); break;
  case 1: t -= b; e = zip(A0, B0, [](int x, int y) { return x - y; }); break;
  case 2: t *= s; e = each(A0, [s](int x) { return x * s; }); break;
  default: t.get_unsafe(R - 1).get_unsafe(C - 1) = s; e = A0; e.m[R - 1][C - 1] = s; break;
  }
  expect<R, C>(t, e, "compound assignment / element store updates exactly the addressed entries");
  if constexpr (std::is_same_v<S1, vw_tag>) for (sz i = 0; i < R; ++i) for (sz j = 0; j < C; ++j) verif_assert(A.m[i][j] == e.m[i][j], "assignment through a view updates the viewed array");
  for (sz i = 0; i < R; ++i) for (sz j = 0; j < C; ++j) verif_assert(B.m[i][j] == B0.m[i][j], "right operand unchanged");
  verif_reach("mat_basic-end");
}

// ---- (a) products
template <sz R, sz K, sz C, typename S1, typename S2>
void mat_mul()
{
  amat<R, K> A{fresh<R, K>("a")};
  amat<K, C> B{fresh<K, C>("b")};
  avec<K> const V{freshv<K>("v")};
  auto const a{mk(S1{}, A)};
  auto const b{mk(S2{}, B)};
  amat<R, C> const e{ref_mul(A, B)};
  verif_out("p00", static_cast<std::uint32_t>(e.m[0][0]));
  expect<R, C>(a * b, e, "matrix product entry (i,j) = sum_k a(i,k) b(k,j)");
  expectv<R>(a * mkv(V), ref_mv(A, V), "matrix * vector entry i = sum_j a(i,j) v(j)");
  // a row view works as a vector operand
  verif_assert(vx::dot(svec<K>{mx::at_r<0>(a)}, mkv(V)) == ref_mv(A, V).c[0] && vx::dot(mx::at_r<R - 1>(a), mkv(V)) == ref_mv(A, V).c[R - 1], "(Av)_i = <row i of A, v> through a row view");
  if constexpr (R == K) expect<R, C>(mx::identity<smat<R, R>>() * b, B, "identity is a left unit");
  if constexpr (K == C) expect<R, K>(a * mx::identity<smat<K, K>>(), A, "identity is a right unit");
  verif_reach("mat_mul-end");
}

// ---- (a) determinant, minors, adjugate, identity
template <sz N, typename S1>
void mat_det()
{
  amat<N, N> A{fresh<N, N>("a")};
  amat<N, N> const A0{A};
  auto const a{mk(S1{}, A)};
  int const d{mx::determinant(a)};
  verif_out("det", static_cast<std::uint32_t>(d));
  verif_assert(d == ref_det<N>(A0), "determinant = Leibniz sum over permutations");
  expect<N, N>(mx::identity<smat<N, N>>(), ref_id<N>(), "identity has ones exactly on the diagonal");
  verif_assert(mx::determinant(mx::identity<smat<N, N>>()) == 1, "det(I) = 1");
  if constexpr (N >= 2)
  {
    [&]<std::size_t... Is>(std::index_sequence<Is...>) {
      ((void)expect<N - 1, N - 1>(mx::delete_row_and_column<Is / N, Is % N>(a), ref_delete<N, N>(A0, Is / N, Is % N), "delete_row_and_column<R,C> removes exactly row R and column C"), ...);
    }(std::make_index_sequence<N * N>{});
    expect<N, N>(mx::adjugate(a), ref_adj<N>(A0), "adjugate = transposed cofactor matrix");
  }
  verif_reach("mat_det-end");
}

void builders()
{
  avec<3> const T{freshv<3>("t")}, P{freshv<3>("p")};
  int const w{static_cast<int>(verif_u32("w"))};
  amat<4, 4> et{ref_id<4>()}, es{ref_id<4>()};
  for (sz i = 0; i < 3; ++i) { et.m[i][3] = T.c[i]; es.m[i][i] = T.c[i]; }
  expect<4, 4>(mx::translation(T.c[0], T.c[1], T.c[2]), et, "translation(x,y,z) = identity with last column (x,y,z,1)");
  expect<4, 4>(mx::translation(mkv(T)), et, "translation(vector)");
  expect<4, 4>(mx::scaling(T.c[0], T.c[1], T.c[2]), es, "scaling(x,y,z) = diag(x,y,z,1)");
  expect<4, 4>(mx::scaling(mkv(T)), es, "scaling(vector)");
  avec<4> const ph{{P.c[0], P.c[1], P.c[2], w}};
  avec<4> const moved{{P.c[0] + T.c[0] * w, P.c[1] + T.c[1] * w, P.c[2] + T.c[2] * w, w}}, scaled{{P.c[0] * T.c[0], P.c[1] * T.c[1], P.c[2] * T.c[2], w}};
  expectv<4>(mx::translation(mkv(T)) * mkv(ph), moved, "translation * (p,w) = (p + w t, w)");
  expectv<4>(mx::scaling(mkv(T)) * mkv(ph), scaled, "scaling * (p,w) = (t.p componentwise, w)");
  avec<3> const U{freshv<3>("u")};
  avec<3> const sum{{T.c[0] + U.c[0], T.c[1] + U.c[1], T.c[2] + U.c[2]}}, prod{{T.c[0] * U.c[0], T.c[1] * U.c[1], T.c[2] * U.c[2]}};
  verif_assert(mx::translation(mkv(T)) * mx::translation(mkv(U)) == mx::translation(mkv(sum)), "translations compose by adding");
  verif_assert(mx::scaling(mkv(T)) * mx::scaling(mkv(U)) == mx::scaling(mkv(prod)), "scalings compose by multiplying");
  verif_assert(mx::determinant(mx::translation(mkv(T))) == 1 && mx::determinant(mx::scaling(mkv(T))) == T.c[0] * T.c[1] * T.c[2], "det translation = 1, det scaling = xyz");
  verif_reach("builders-end");
}

// ---- (b) laws, through the real operators only
template <typename M1, typename M2>
void same_matrix(M1 const &l, M2 const &r, char const *const what)
{
  constexpr sz R{M1::rows()}, C{M1::columns()};
  amat<R, C> const x{rd<R, C>(l)}, y{rd<R, C>(r)};
  for (sz i = 0; i < R; ++i) for (sz j = 0; j < C; ++j) verif_assert(x.m[i][j] == y.m[i][j], what);
  verif_assert(l == r && !(l != r), what);
}

template <sz R, sz K, sz L, sz C>
void law_ring()
{
  auto const a{mks(fresh<R, K>("a"))};
  auto const b{mks(fresh<K, L>("b"))}, b2{mks(fresh<K, L>("b2"))};
  auto const c{mks(fresh<L, C>("c"))};
  auto const a2{mks(fresh<R, K>("a2"))};
  int const s{static_cast<int>(verif_u32("s"))};
  same_matrix((a * b) * c, a * (b * c), "(AB)C = A(BC)");
  same_matrix(a * (b + b2), a * b + a * b2, "A(B+B') = AB + AB'");
  same_matrix((a + a2) * b, a * b + a2 * b, "(A+A')B = AB + A'B");
  same_matrix(a * (b - b2), a * b - a * b2, "A(B-B') = AB - AB'");
  same_matrix((s * a) * b, s * (a * b), "(sA)B = s(AB)");
  same_matrix(a * (b * s), (a * b) * s, "A(Bs) = (AB)s");
  same_matrix((a + a2) + a, a + (a2 + a), "+ is associative");
  same_matrix(a + a2, a2 + a, "+ is commutative");
  same_matrix(mx::transpose(a * b), mx::transpose(b) * mx::transpose(a), "(AB)^T = B^T A^T");
  same_matrix(mx::transpose(mx::transpose(a)), a, "transpose is an involution");
  same_matrix(mx::transpose(a + a2), mx::transpose(a) + mx::transpose(a2), "(A+A')^T = A^T + A'^T");
  auto const v{mkv(freshv<L>("v"))}, v2{mkv(freshv<L>("v2"))};
  auto const w{mkv(freshv<K>("w"))};
  verif_assert((a * b) * v == a * (b * v), "(AB)v = A(Bv)");
  verif_assert(b * (v + v2) == b * v + b * v2, "B(v+v') = Bv + Bv'");
  verif_assert(b * (v * s) == (b * v) * s, "B(vs) = (Bv)s");
  verif_assert(vx::dot(b * v, w) == vx::dot(v, mx::transpose(b) * w), "<Bv,w> = <v,B^T w>");
  verif_reach("law_ring-end");
}

template <sz N>
void law_det()
{
  auto const a{mks(fresh<N, N>("a"))}, b{mks(fresh<N, N>("b"))};
  int const s{static_cast<int>(verif_u32("s"))};
  int const da{mx::determinant(a)}, db{mx::determinant(b)};
  verif_out("det_a", static_cast<std::uint32_t>(da));
  verif_assert(mx::determinant(a * b) == da * db, "det(AB) = det A det B");
  verif_assert(mx::determinant(mx::transpose(a)) == da, "det(A^T) = det A");
  int sn{1};
  for (sz i = 0; i < N; ++i) sn *= s;
  verif_assert(mx::determinant(s * a) == sn * da, "det(sA) = s^N det A");
  auto const adj{mx::adjugate(a)};
  auto const di{da * mx::identity<smat<N, N>>()};
  same_matrix(a * adj, di, "A adj(A) = det(A) I");
  same_matrix(adj * a, di, "adj(A) A = det(A) I");
  same_matrix(mx::adjugate(mx::transpose(a)), mx::transpose(adj), "adj(A^T) = adj(A)^T");
  // Laplace expansion along every row and every column, with the real minors
  [&]<std::size_t... Is>(std::index_sequence<Is...>) {
    auto const along_row{[&]<std::size_t I>(std::integral_constant<std::size_t, I>) {
      return [&]<std::size_t... Js>(std::index_sequence<Js...>) {
        return ((((I + Js) % 2U == 0U ? 1 : -1) * mx::at_r_c<I, Js>(a) * mx::determinant(mx::delete_row_and_column<I, Js>(a))) + ... + 0);
      }(std::make_index_sequence<N>{});
    }};
    auto const along_col{[&]<std::size_t J>(std::integral_constant<std::size_t, J>) {
      return [&]<std::size_t... Ks>(std::index_sequence<Ks...>) {
        return ((((Ks + J) % 2U == 0U ? 1 : -1) * mx::at_r_c<Ks, J>(a) * mx::determinant(mx::delete_row_and_column<Ks, J>(a))) + ... + 0);
      }(std::make_index_sequence<N>{});
    }};
    ((void)verif_assert(along_row(std::integral_constant<std::size_t, Is>{}) == da, "Laplace expansion along a row gives the determinant"), ...);
    ((void)verif_assert(along_col(std::integral_constant<std::size_t, Is>{}) == da, "Laplace expansion along a column gives the determinant"), ...);
  }(std::make_index_sequence<N>{});
  verif_reach("law_det-end");
}

// adj(AB) = adj(B) adj(A): degree 2(N-1) in 2N^2 variables
template <sz N>
void law_adj_product()
{
  auto const a{mks(fresh<N, N>("a"))}, b{mks(fresh<N, N>("b"))};
  same_matrix(mx::adjugate(a * b), mx::adjugate(b) * mx::adjugate(a), "adj(AB) = adj(B) adj(A)");
  verif_reach("law_adj_product-end");
}
}

#define H(name, ...) VERIF_HARNESS(name) { __VA_ARGS__; }
#define BASIC(R, C) \
  H(h_mat_basic_##R##x##C##_ss, mat_basic<R, C, st_tag, st_tag>()) H(h_mat_basic_##R##x##C##_vv, mat_basic<R, C, vw_tag, vw_tag>()) \
  H(h_mat_basic_##R##x##C##_sv, mat_basic<R, C, st_tag, vw_tag>()) H(h_mat_basic_##R##x##C##_vs, mat_basic<R, C, vw_tag, st_tag>())
BASIC(2, 2) BASIC(3, 3) BASIC(4, 4) BASIC(2, 3) BASIC(3, 2)
//@harness h_mat_basic_{D}_{S} for D in 2x2,3x3,4x4,2x3,3x2 for S in ss,vv,sv,vs tier=quick loop=200 som=1
#define MUL(R, K, C) \
  H(h_mat_mul_##R##x##K##x##C##_ss, mat_mul<R, K, C, st_tag, st_tag>()) H(h_mat_mul_##R##x##K##x##C##_vv, mat_mul<R, K, C, vw_tag, vw_tag>()) \
  H(h_mat_mul_##R##x##K##x##C##_sv, mat_mul<R, K, C, st_tag, vw_tag>())
MUL(2, 2, 2) MUL(3, 3, 3) MUL(4, 4, 4) MUL(2, 3, 2) MUL(3, 2, 3)
//@harness h_mat_mul_{D}_{S} for D in 2x2x2,3x3x3,4x4x4,2x3x2,3x2x3 for S in ss,vv,sv tier=quick loop=400 som=1
H(h_mat_det_1_s, mat_det<1, st_tag>()) H(h_mat_det_2_s, mat_det<2, st_tag>()) H(h_mat_det_3_s, mat_det<3, st_tag>()) H(h_mat_det_4_s, mat_det<4, st_tag>())
H(h_mat_det_2_v, mat_det<2, vw_tag>()) H(h_mat_det_3_v, mat_det<3, vw_tag>()) H(h_mat_det_4_v, mat_det<4, vw_tag>())
//@harness h_mat_det_{N}_s for N in 1,2,3,4 tier=quick loop=100000 som=1
//@harness h_mat_det_{N}_v for N in 2,3,4 tier=quick loop=100000 som=1
H(h_builders, builders())
//@harness h_builders tier=quick loop=400 som=1
H(h_law_ring_2, law_ring<2, 2, 2, 2>()) H(h_law_ring_3, law_ring<3, 3, 3, 3>()) H(h_law_ring_4, law_ring<4, 4, 4, 4>()) H(h_law_ring_2x3x2x2, law_ring<2, 3, 2, 2>()) H(h_law_ring_3x2x4x3, law_ring<3, 2, 4, 3>())
//@harness h_law_ring_{D} for D in 2,3,2x3x2x2,3x2x4x3 tier=quick loop=400 som=1
//@harness h_law_ring_4 tier=quick loop=400 som=1
H(h_law_det_2, law_det<2>()) H(h_law_det_3, law_det<3>()) H(h_law_det_4, law_det<4>())
//@harness h_law_det_{N} for N in 2,3 tier=quick loop=400 som=1
//@harness h_law_det_4 tier=thorough loop=400 som=1
H(h_law_adj_product_2, law_adj_product<2>()) H(h_law_adj_product_3, law_adj_product<3>()) H(h_law_adj_product_4, law_adj_product<4>())
//@harness h_law_adj_product_{N} for N in 2,3 tier=quick loop=400 som=1
//@harness h_law_adj_product_4 tier=thorough loop=400 som=1 wall=1500
